import LaunchpadModel.Lemmas.OpenEditionFull
import LaunchpadModel.Lemmas.OpenEditionFullLimits
import LaunchpadModel.Props.C01
import LaunchpadModel.Props.C03
/-!
# Refinement theorems: the composite open-edition model `LP.OE` (Model/OpenEditionFull.lean) refines the aspect models

Same structure as `Props/CompositeVending.lean`: per aspect a projection, an op translation whose witnesses are computed from
the composite state, the one-step simulation for ALL states and ops, its lift to runs, and the headline theorems restated for
composite runs (`Cxx_fulloe_*`).
-/
namespace LP
open LP.OE

namespace OE

/-! ## C01 — supply (`Supply.Seq`) -/

def supplyOf (s : State) : Option Supply.Seq := s.minter.map (·.seq)

def supplyOp (s : State) (op : Op) : Supply.QOp :=
  let g := accepted s op
  match op with
  | .mint sender _ _ _ => .mint g sender
  | .mintTo _ _ rcpt => .mint g rcpt
  | .purge _ _ => .purge g
  | .burnRemaining _ _ => .burnRemaining g
  | .collBurn _ id => .collBurn g id
  | .collTransfer _ id to => .collTransfer g id to
  | _ => .noise g

theorem seq_step'_of_some {f f' : Supply.Seq} {op : Supply.QOp} (h : f.step op = some f') : f.step' op = f' := by
  simp [Supply.Seq.step', h]

theorem seq_step'_gate_false (f : Supply.Seq) (op : Supply.QOp)
    (h : match op with
      | .mint g _ => g = false | .burnRemaining g => g = false | .purge g => g = false
      | .collBurn g _ => g = false | .collTransfer g _ _ => g = false | .noise g => g = false) : f.step' op = f := by
  cases op <;> simp only at h <;> subst h <;> simp [Supply.Seq.step', Supply.Seq.step]

theorem supply_step_ok {s s' : State} {m : Minter} {op : Op} (hm : s.minter = some m) (h : step s op = .ok s') :
    ∃ m', s'.minter = some m' ∧ m.seq.step (supplyOp s op) = some m'.seq := by
  have hacc := accepted_of_ok h
  cases op with
  | setTime t =>
    simp only [step] at h; split at h <;> cases h
    exact ⟨m, hm, by simp [supplyOp, hacc, Supply.Seq.step]⟩
  | fund a c =>
    simp only [step] at h; cases h
    exact ⟨m, hm, by simp [supplyOp, hacc, Supply.Seq.step]⟩
  | wlEnv k i =>
    simp only [step] at h; cases h
    exact ⟨m, hm, by simp [supplyOp, hacc, Supply.Seq.step]⟩
  | sudoParams u =>
    simp only [step] at h
    split at h <;> cases h
    exact ⟨m, hm, by simp [supplyOp, hacc, Supply.Seq.step]⟩
  | create sender funds msg w =>
    simp only [step] at h
    obtain ⟨_, _, _, _, _, hnone, _⟩ := createMinter_ok h
    rw [hm] at hnone; cases hnone
  | instantiateDirect sender => simp [step] at h
  | mint sender funds f sv =>
    simp only [step] at h
    obtain ⟨m0, hm0, h⟩ := withMinterS_ok h
    rw [hm] at hm0; cases hm0
    obtain ⟨b1, g, _, _, _, _, _, h⟩ := mintSender_ok h
    obtain ⟨price, ms, sq, b2, _, _, _, _, _, hmint, _, rfl⟩ := executeMint_ok h
    exact ⟨_, rfl, by simpa [supplyOp, hacc, Supply.Seq.step] using hmint⟩
  | mintTo sender funds rcpt =>
    simp only [step] at h
    obtain ⟨m0, hm0, h⟩ := withMinterS_ok h
    rw [hm] at hm0; cases hm0
    obtain ⟨b1, _, _, _, h⟩ := mintAdmin_ok h
    obtain ⟨price, ms, sq, b2, _, _, _, _, _, hmint, _, rfl⟩ := executeMint_ok h
    exact ⟨_, rfl, by simpa [supplyOp, hacc, Supply.Seq.step] using hmint⟩
  | purge sender funds =>
    simp only [step] at h
    obtain ⟨m0, m', hm0, hf, rfl⟩ := withMinter_ok h
    rw [hm] at hm0; cases hm0
    obtain ⟨_, _, hp, rfl⟩ := purge_ok hf
    refine ⟨_, rfl, ?_⟩
    simp only [supplyOp, hacc, Supply.Seq.step, if_true]
    cases hx : m.seq.purge with
    | none => rw [hx] at hp; cases hp
    | some x => rw [Supply.Seq.purge_spec hx]
  | burnRemaining sender funds =>
    simp only [step] at h
    obtain ⟨m0, m', hm0, hf, rfl⟩ := withMinter_ok h
    rw [hm] at hm0; cases hm0
    obtain ⟨sq, _, _, _, hb, rfl⟩ := burnRemaining_ok hf
    exact ⟨_, rfl, by simpa [supplyOp, hacc, Supply.Seq.step] using hb⟩
  | collTransfer sender id to =>
    simp only [step] at h
    obtain ⟨m0, m', hm0, hf, rfl⟩ := withMinter_ok h
    rw [hm] at hm0; cases hm0
    obtain ⟨c, _, _, hc, rfl⟩ := collTransfer_ok hf
    exact ⟨_, rfl, by simp [supplyOp, hacc, Supply.Seq.step, hc]⟩
  | collBurn sender id =>
    simp only [step] at h
    obtain ⟨m0, m', hm0, hf, rfl⟩ := withMinter_ok h
    rw [hm] at hm0; cases hm0
    obtain ⟨c, _, hc, rfl⟩ := collBurn_ok hf
    exact ⟨_, rfl, by simp [supplyOp, hacc, Supply.Seq.step, hc]⟩
  | setWhitelist sender funds wl valid =>
    simp only [step] at h
    obtain ⟨m0, m', hm0, hf, rfl⟩ := withMinter_ok h
    rw [hm] at hm0; cases hm0
    obtain ⟨_, _, _, _, _, _, _, _, _, _, _, rfl⟩ := setWhitelist_ok hf
    exact ⟨_, rfl, by simp [supplyOp, hacc, Supply.Seq.step]⟩
  | updateMintPrice sender funds p =>
    simp only [step] at h
    obtain ⟨m0, m', hm0, hf, rfl⟩ := withMinter_ok h
    rw [hm] at hm0; cases hm0
    obtain ⟨_, _, _, _, _, _, rfl⟩ := updateMintPrice_ok hf
    exact ⟨_, rfl, by simp [supplyOp, hacc, Supply.Seq.step]⟩
  | updateStartTime sender funds t =>
    simp only [step] at h
    obtain ⟨m0, m', hm0, hf, rfl⟩ := withMinter_ok h
    rw [hm] at hm0; cases hm0
    obtain ⟨_, _, _, _, _, rfl⟩ := updateStartTime_ok hf
    exact ⟨_, rfl, by simp [supplyOp, hacc, Supply.Seq.step]⟩
  | updateEndTime sender funds t =>
    simp only [step] at h
    obtain ⟨m0, m', hm0, hf, rfl⟩ := withMinter_ok h
    rw [hm] at hm0; cases hm0
    obtain ⟨_, _, _, _, _, _, _, rfl⟩ := updateEndTime_ok hf
    exact ⟨_, rfl, by simp [supplyOp, hacc, Supply.Seq.step]⟩
  | updateStartTradingTime sender funds t =>
    simp only [step] at h
    obtain ⟨m0, m', hm0, hf, rfl⟩ := withMinter_ok h
    rw [hm] at hm0; cases hm0
    obtain ⟨_, _, _, _, _, rfl⟩ := updateStartTradingTime_ok hf
    exact ⟨_, rfl, by simp [supplyOp, hacc, Supply.Seq.step]⟩
  | updatePerAddressLimit sender funds n =>
    simp only [step] at h
    obtain ⟨m0, m', hm0, hf, rfl⟩ := withMinter_ok h
    rw [hm] at hm0; cases hm0
    obtain ⟨_, _, _, _, rfl⟩ := updatePerAddressLimit_ok hf
    exact ⟨_, rfl, by simp [supplyOp, hacc, Supply.Seq.step]⟩
  | sudoStatus v b e =>
    simp only [step] at h
    obtain ⟨m0, m', hm0, hf, rfl⟩ := withMinter_ok h
    rw [hm] at hm0; cases hm0
    cases hf
    exact ⟨_, rfl, by simp [supplyOp, hacc, Supply.Seq.step]⟩
  | collTrading sender t =>
    simp only [step] at h
    obtain ⟨m0, c, hm0, _, rfl⟩ := onColl_ok h
    rw [hm] at hm0; cases hm0
    exact ⟨_, rfl, by simp [supplyOp, hacc, Supply.Seq.step]⟩
  | collCreator sender new =>
    simp only [step] at h
    obtain ⟨m0, c, hm0, _, rfl⟩ := onColl_ok h
    rw [hm] at hm0; cases hm0
    exact ⟨_, rfl, by simp [supplyOp, hacc, Supply.Seq.step]⟩
  | collFreeze sender =>
    simp only [step] at h
    obtain ⟨m0, c, hm0, _, rfl⟩ := onColl_ok h
    rw [hm] at hm0; cases hm0
    exact ⟨_, rfl, by simp [supplyOp, hacc, Supply.Seq.step]⟩
  | collOwn sender a =>
    simp only [step] at h
    obtain ⟨m0, c, hm0, _, rfl⟩ := onColl_ok h
    rw [hm] at hm0; cases hm0
    exact ⟨_, rfl, by simp [supplyOp, hacc, Supply.Seq.step]⟩

/-- **simulation** (all states with a minter, all ops) -/
theorem supply_sim (s : State) (m : Minter) (hm : s.minter = some m) (op : Op) :
    supplyOf (step' s op) = some (m.seq.step' (supplyOp s op)) := by
  rcases step'_cases s op with ⟨s', hok, hs'⟩ | ⟨⟨e, herr⟩, hs'⟩
  · obtain ⟨m', hm', hstep⟩ := supply_step_ok hm hok
    rw [hs', seq_step'_of_some hstep]; simp [supplyOf, hm']
  · have hacc : accepted s op = false := accepted_of_err herr
    rw [hs']
    have : m.seq.step' (supplyOp s op) = m.seq := by
      apply seq_step'_gate_false
      cases op <;> simp [supplyOp, hacc]
    rw [this]; simp [supplyOf, hm]

/-- before the minter exists a step either leaves it absent or is the `CreateMinter`, which initialises the supply component
with `Supply.Seq.create kind num_tokens max_token_limit end_time.is_some()` -/
theorem supply_create (s : State) (hm : s.minter = none) (op : Op) :
    (step' s op).minter = none ∨
    ∃ m k num fmax e, (step' s op).minter = some m ∧ m.seq = Supply.Seq.create k num fmax e := by
  rcases step'_cases s op with ⟨s', hok, hs'⟩ | ⟨_, hs'⟩
  · rw [hs']
    cases op with
    | setTime t => simp only [step] at hok; split at hok <;> cases hok; exact Or.inl hm
    | fund a c => simp only [step] at hok; cases hok; exact Or.inl hm
    | wlEnv k i => simp only [step] at hok; cases hok; exact Or.inl hm
    | sudoParams u => simp only [step] at hok; split at hok <;> cases hok; exact Or.inl hm
    | instantiateDirect sender => simp [step] at hok
    | create sender funds msg w =>
      simp only [step] at hok
      obtain ⟨b1, ms, b2, v, m, _, _, _, _, _, hinst, rfl⟩ := createMinter_ok hok
      obtain ⟨wl, trading, ck, _, _, _, _, _, rfl⟩ := instantiateMinter_ok hinst
      exact Or.inr ⟨_, _, _, _, _, rfl, rfl⟩
    | mint _ _ _ _ => simp only [step] at hok; obtain ⟨m, h, _⟩ := withMinterS_ok hok; rw [hm] at h; cases h
    | mintTo _ _ _ => simp only [step] at hok; obtain ⟨m, h, _⟩ := withMinterS_ok hok; rw [hm] at h; cases h
    | setWhitelist _ _ _ _ => simp only [step] at hok; obtain ⟨m, _, h, _⟩ := withMinter_ok hok; rw [hm] at h; cases h
    | purge _ _ => simp only [step] at hok; obtain ⟨m, _, h, _⟩ := withMinter_ok hok; rw [hm] at h; cases h
    | updateMintPrice _ _ _ => simp only [step] at hok; obtain ⟨m, _, h, _⟩ := withMinter_ok hok; rw [hm] at h; cases h
    | updateStartTime _ _ _ => simp only [step] at hok; obtain ⟨m, _, h, _⟩ := withMinter_ok hok; rw [hm] at h; cases h
    | updateEndTime _ _ _ => simp only [step] at hok; obtain ⟨m, _, h, _⟩ := withMinter_ok hok; rw [hm] at h; cases h
    | updateStartTradingTime _ _ _ => simp only [step] at hok; obtain ⟨m, _, h, _⟩ := withMinter_ok hok; rw [hm] at h; cases h
    | updatePerAddressLimit _ _ _ => simp only [step] at hok; obtain ⟨m, _, h, _⟩ := withMinter_ok hok; rw [hm] at h; cases h
    | burnRemaining _ _ => simp only [step] at hok; obtain ⟨m, _, h, _⟩ := withMinter_ok hok; rw [hm] at h; cases h
    | sudoStatus _ _ _ => simp only [step] at hok; obtain ⟨m, _, h, _⟩ := withMinter_ok hok; rw [hm] at h; cases h
    | collTransfer _ _ _ => simp only [step] at hok; obtain ⟨m, _, h, _⟩ := withMinter_ok hok; rw [hm] at h; cases h
    | collBurn _ _ => simp only [step] at hok; obtain ⟨m, _, h, _⟩ := withMinter_ok hok; rw [hm] at h; cases h
    | collTrading _ _ => simp only [step] at hok; obtain ⟨m, _, h, _⟩ := onColl_ok hok; rw [hm] at h; cases h
    | collCreator _ _ => simp only [step] at hok; obtain ⟨m, _, h, _⟩ := onColl_ok hok; rw [hm] at h; cases h
    | collFreeze _ => simp only [step] at hok; obtain ⟨m, _, h, _⟩ := onColl_ok hok; rw [hm] at h; cases h
    | collOwn _ _ => simp only [step] at hok; obtain ⟨m, _, h, _⟩ := onColl_ok hok; rw [hm] at h; cases h
  · rw [hs']; exact Or.inl hm

def SupplyReach (s : State) : Prop :=
  s.minter = none ∨
  ∃ m k num fmax e qops, s.minter = some m ∧ m.seq = (Supply.Seq.create k num fmax e).run qops

theorem seq_run_snoc (f : Supply.Seq) (ops : List Supply.QOp) (op : Supply.QOp) :
    f.run (ops ++ [op]) = (f.run ops).step' op := by
  simp [Supply.Seq.run, List.foldl_append]

theorem supplyReach_step (s : State) (op : Op) (h : SupplyReach s) : SupplyReach (step' s op) := by
  rcases h with hnone | ⟨m, k, num, fmax, e, qops, hm, hrun⟩
  · rcases supply_create s hnone op with h | ⟨m, k, num, fmax, e, hm, hinit⟩
    · exact Or.inl h
    · exact Or.inr ⟨m, k, num, fmax, e, [], hm, hinit⟩
  · have hsim := supply_sim s m hm op
    unfold supplyOf at hsim
    cases hm' : (step' s op).minter with
    | none => rw [hm'] at hsim; cases hsim
    | some m' =>
      rw [hm'] at hsim
      simp only [Option.map_some, Option.some.injEq] at hsim
      exact Or.inr ⟨m', k, num, fmax, e, qops ++ [supplyOp s op], hm', by rw [seq_run_snoc, ← hrun, hsim]⟩

/-- **lift to runs** -/
theorem supply_run (s0 : State) (h0 : s0.minter = none) (ops : List Op) : SupplyReach (run s0 ops) :=
  run_inv SupplyReach supplyReach_step s0 (Or.inl h0) ops

end OE

/-- the C01 simulation for the open-edition composite -/
theorem C01_fulloe_refines (s : OE.State) (m : OE.Minter) (hm : s.minter = some m) (op : OE.Op) :
    OE.supplyOf (OE.step' s op) = some (m.seq.step' (OE.supplyOp s op)) :=
  OE.supply_sim s m hm op

/-- the sequential-supply invariant (`QInv`: index = total = number of ids issued, ids are 1..index, counter = cap − total
unless burnt, collection tokens are issued ids, unique, counted exactly) in every reachable composite state -/
theorem C01_fulloe_inv (s0 : OE.State) (h0 : s0.minter = none) (ops : List OE.Op) (m : OE.Minter)
    (hm : (OE.run s0 ops).minter = some m) : Supply.QInv m.seq := by
  rcases OE.supply_run s0 h0 ops with hnone | ⟨m', k, num, fmax, e, qops, hm', hrun⟩
  · rw [hm] at hnone; cases hnone
  · rw [hm] at hm'; cases hm'
    rw [hrun]; exact C01_seq_inv k num fmax e qops

/-- "token ids are issued as 1,2,3,… with no gap or repeat" and "the total-mint count equals the number of mints that succeeded" -/
theorem C01_fulloe_ids_sequential (s0 : OE.State) (h0 : s0.minter = none) (ops : List OE.Op) (m : OE.Minter)
    (hm : (OE.run s0 ops).minter = some m) :
    m.seq.issued.reverse = List.range' 1 (OE.queryTotalMint m) ∧ m.seq.tokenIndex = OE.queryTotalMint m ∧
      m.seq.issued.length = OE.queryTotalMint m := by
  rcases OE.supply_run s0 h0 ops with hnone | ⟨m', k, num, fmax, e, qops, hm', hrun⟩
  · rw [hm] at hnone; cases hnone
  · rw [hm] at hm'; cases hm'
    obtain ⟨h1, _⟩ := C01_seq_ids_sequential k num fmax e qops
    obtain ⟨t1, t2, t3⟩ := C01_seq_total_mint k num fmax e qops
    unfold OE.queryTotalMint
    rw [hrun]
    exact ⟨by rw [t1]; exact h1, by rw [t1, t2], by rw [t1, t3]⟩

/-- the `MintableNumTokens` answer is the cap in force minus the mints so far (or `Some(0)` after a burn) -/
theorem C01_fulloe_mintable_query (s0 : OE.State) (h0 : s0.minter = none) (ops : List OE.Op) (m : OE.Minter)
    (hm : (OE.run s0 ops).minter = some m) :
    (m.seq.burned = false → OE.queryMintable m = m.seq.cap.map (· - OE.queryTotalMint m)) ∧
    (m.seq.burned = true → OE.queryMintable m = some 0) := by
  have hi := C01_fulloe_inv s0 h0 ops m hm
  exact ⟨hi.left, hi.burnt⟩

/-- collection side: existing tokens are issued ids, unique, counted exactly -/
theorem C01_fulloe_collection (s0 : OE.State) (h0 : s0.minter = none) (ops : List OE.Op) (m : OE.Minter)
    (hm : (OE.run s0 ops).minter = some m) :
    (∀ id ∈ m.seq.coll.ids, 1 ≤ id ∧ id ≤ m.seq.totalMint) ∧ m.seq.coll.ids.Nodup ∧
      m.seq.coll.count = m.seq.coll.toks.length := by
  have hi := C01_fulloe_inv s0 h0 ops m hm
  exact ⟨fun id hid => by rw [hi.total]; exact hi.csub id hid, hi.cinv.nodup, hi.cinv.count⟩

/-- no composite mint succeeds at `Some(0)` -/
theorem C01_fulloe_no_mint_at_zero (s : OE.State) (m : OE.Minter) (hm : s.minter = some m)
    (hz : m.seq.mintable = some 0) (op : OE.Op) (hmint : (OE.supplyOp s op).isMint = true) : OE.step' s op = s := by
  rcases OE.step'_cases s op with ⟨s', hok, _⟩ | ⟨_, hs'⟩
  · obtain ⟨m', _, hstep⟩ := OE.supply_step_ok hm hok
    cases hq : OE.supplyOp s op with
    | mint g o => rw [hq, C01_seq_no_mint_at_zero m.seq g o hz] at hstep; cases hstep
    | _ => rw [hq] at hmint; simp [Supply.QOp.isMint] at hmint
  · exact hs'

/-! ## C03 — per-address, per-whitelist and per-stage limits

Projection `OE.limitsOf` (kind, admin, per-address limit, num_tokens, factory maximum, attached whitelist with its kind, the
five counter maps, tokens received); translation `OE.limitsOp` (the `View`, `started`, `pre`, `oldActive`, `newActive`
witnesses of the aspect ops are computed from the composite state); one-step simulation `OE.limits_sim_ok/_err`
(Lemmas/OpenEditionFullLimits.lean).  The aspect model holds the factory's `max_per_address_limit` and the kind of the attached
whitelist contract constant during a case, so the run-level statements are about `StableRun`s: histories in which governance
does not change that one parameter and the interface does not rebind the attached whitelist's address to another kind. -/

namespace OE

/-- messages other than the two environment changes never move the parameters the aspect model holds constant -/
theorem envStable_of_not_env (s : State) (op : Op)
    (hop : match op with | .sudoParams _ => False | .wlEnv _ _ => False | _ => True) : EnvStable s op := by
  intro m _
  rcases step'_cases s op with ⟨s', hok, hs'⟩ | ⟨_, hs'⟩
  · rw [hs']
    obtain ⟨_, _, hp, hw, _⟩ := step_frame hok
    have hp' : s'.params = s.params := by
      rcases hp with ⟨u, rfl⟩ | hp
      · exact absurd hop (by simp)
      · exact hp
    have hw' : s'.wls = s.wls := by
      rcases hw with ⟨k, i, rfl⟩ | hw
      · exact absurd hop (by simp)
      · exact hw
    exact ⟨by rw [hp'], wlBinding_congr hw' rfl⟩
  · rw [hs']; exact ⟨rfl, rfl⟩

/-- the composite history as an aspect-model history -/
def limitsOps (s : State) : List Op → List MintLimits.Op
  | [] => []
  | op :: rest =>
    (match s.minter with
     | some m => limitsOp s m op
     | none => .env) :: limitsOps (step' s op) rest

def StableRun (s : State) : List Op → Prop
  | [] => True
  | op :: rest => EnvStable s op ∧ StableRun (step' s op) rest

theorem limits_fst_foldl (ops : List MintLimits.Op) (a : MintLimits.State) (evs : List MintLimits.Event) :
    (ops.foldl MintLimits.stepAcc (a, evs)).1 = (ops.foldl MintLimits.stepAcc (a, [])).1 := by
  induction ops generalizing a evs with
  | nil => rfl
  | cons op ops ih =>
    simp only [List.foldl_cons]
    cases h : MintLimits.step a op with
    | error e => simp only [MintLimits.stepAcc, h]; exact ih a evs
    | ok r =>
      obtain ⟨a', e⟩ := r
      simp only [MintLimits.stepAcc, h]
      rw [ih a' (evs ++ [e]), ih a' ([] ++ [e])]

theorem limits_run_cons (a : MintLimits.State) (op : MintLimits.Op) (ops : List MintLimits.Op) :
    (MintLimits.run a (op :: ops)).1 = (MintLimits.run (limStep' a op) ops).1 := by
  simp only [MintLimits.run, List.foldl_cons]
  have : MintLimits.stepAcc (a, []) op = (limStep' a op, (MintLimits.stepAcc (a, []) op).2) := rfl
  rw [this, limits_fst_foldl]

/-- one-step simulation, both outcomes -/
theorem limits_sim (s : State) (m : Minter) (hm : s.minter = some m) (op : Op) (hst : EnvStable s op) :
    ∃ m', (step' s op).minter = some m' ∧ limitsOf (step' s op) m' = limStep' (limitsOf s m) (limitsOp s m op) := by
  rcases step'_cases s op with ⟨s', hok, hs'⟩ | ⟨⟨e, herr⟩, hs'⟩
  · obtain ⟨m', hm', _, _, heq⟩ := limits_sim_ok hm hok hst
    rw [hs']; exact ⟨m', hm', heq⟩
  · rw [hs']; exact ⟨m, hm, (limits_sim_err hm herr).symm⟩

/-- **lift to runs**: the projection of the composite's final state is the final state of the aspect model's run on the
translated history -/
theorem limits_run (s : State) (m : Minter) (hm : s.minter = some m) (ops : List Op) (hst : StableRun s ops) :
    ∃ m', (run s ops).minter = some m' ∧
      limitsOf (run s ops) m' = (MintLimits.run (limitsOf s m) (limitsOps s ops)).1 := by
  induction ops generalizing s m with
  | nil => exact ⟨m, hm, rfl⟩
  | cons op ops ih =>
    obtain ⟨h1, h2⟩ := hst
    obtain ⟨m1, hm1, heq⟩ := limits_sim s m hm op h1
    obtain ⟨m', hm', hrun⟩ := ih (step' s op) m1 hm1 h2
    refine ⟨m', by rw [run_cons]; exact hm', ?_⟩
    rw [run_cons, hrun, heq]
    simp only [limitsOps, hm]
    rw [limits_run_cons]

/-- what `CreateMinter` leaves behind is a `Fresh` aspect state -/
theorem create_fresh {s s' : State} {sender : Addr} {funds : List Coin} {msg : CreateMsg} {w : CreateWit}
    (h : step s (.create sender funds msg w) = .ok s') : ∃ m, s'.minter = some m ∧ Fresh (limitsOf s' m) := by
  simp only [step] at h
  obtain ⟨b1, ms, b2, v, m, _, _, _, _, _, hinst, rfl⟩ := createMinter_ok h
  obtain ⟨wl, trading, ck, _, _, _, _, _, rfl⟩ := instantiateMinter_ok hinst
  exact ⟨_, rfl, by simp [Fresh, limitsOf, MintLimits.zero]⟩

end OE

/-- the C03 simulation: an accepted composite message IS an accepted aspect op on the projection, with the projected
post-state; a rejected one changes nothing on either side -/
theorem C03_fulloe_refines (s : OE.State) (m : OE.Minter) (hm : s.minter = some m) (op : OE.Op) (hst : OE.EnvStable s op) :
    ∃ m', (OE.step' s op).minter = some m' ∧
      OE.limitsOf (OE.step' s op) m' = OE.limStep' (OE.limitsOf s m) (OE.limitsOp s m op) :=
  OE.limits_sim s m hm op hst

/-- the two independently written whitelist gates agree (composite `is_public_mint` vs `MintLimits.gate`) -/
theorem C03_fulloe_gate_agrees (s : OE.State) (m : OE.Minter) (sender : Addr) (f : MintLimits.Fields) (sv : VF.SenderView)
    (g : VF.MintKind) (h : OE.isPublicMint s m sender f sv = .ok g) :
    ∃ g', MintLimits.gate (OE.limitsOf s m) sender f (OE.mintView s m sv) = .ok g' ∧ OE.GateRel s m g g' :=
  OE.gate_bridge h

/-- Clause 1, one composite step: a `Mint` accepted while no whitelist is active happens only while the sender's stored
public count is strictly below the per-address limit in force, and bumps exactly that counter by one. -/
theorem C03_fulloe_public_step (s s' : OE.State) (m : OE.Minter) (hm : s.minter = some m)
    (sender : Addr) (funds : List Coin) (f : MintLimits.Fields) (sv : VF.SenderView) 
    (h : OE.step s (.mint sender funds f sv) = .ok s')
    (hpub : OE.wlBinding s m = none ∨ (OE.mintView s m sv).active = false) :
    ∃ m', s'.minter = some m' ∧ m.pub sender < m.perAddressLimit ∧ m'.pub sender = m.pub sender + 1 ∧
      ∀ b, b ≠ sender → m'.pub b = m.pub b := by
  obtain ⟨m', hm', e, hstep, heq⟩ := OE.limits_sim_ok hm h (OE.envStable_of_not_env s _ trivial)
  obtain ⟨_, h2, h3, h4⟩ := C03_public_step (OE.limitsOf s m) _ sender f _ _ _ e hstep hpub
  rw [← heq] at h3 h4
  exact ⟨m', hm', h2, h3, h4⟩

/-- Clause 2, one composite step: a `Mint` accepted while the attached whitelist is active is booked on a whitelist
counter that was strictly below the entitlement the whitelist granted (per-address limit / flex `mint_count` /
proof-authenticated allocation), and within the stage's `mint_count_limit`. -/
theorem C03_fulloe_wl_step (s s' : OE.State) (m : OE.Minter) (hm : s.minter = some m)
    (sender : Addr) (funds : List Coin) (f : MintLimits.Fields) (sv : VF.SenderView) 
    (h : OE.step s (.mint sender funds f sv) = .ok s')
    (hwl : ∃ b, OE.wlBinding s m = some b) (hact : (OE.mintView s m sv).active = true) :
    ∃ sid cnt ent tot slim, ∃ e, e = MintLimits.Event.wlMint sender sid cnt ent tot slim ∧
      MintLimits.step (OE.limitsOf s m) (OE.limitsOp s m (.mint sender funds f sv)) =
        .ok (OE.limStep' (OE.limitsOf s m) (OE.limitsOp s m (.mint sender funds f sv)), e) ∧
      cnt < ent ∧ (∀ L, slim = some L → tot < L) := by
  obtain ⟨m', hm', e, hstep, heq⟩ := OE.limits_sim_ok hm h (OE.envStable_of_not_env s _ trivial)
  rcases step_mint hstep with ⟨hg, _⟩ | ⟨sid, cnt, ent, tot, slim, hg, _, he, _⟩
  · obtain ⟨b, hb⟩ := hwl
    have hbind : (OE.limitsOf s m).wl = some b := hb
    rcases gate_pub hg with h1 | h1
    · rw [hbind] at h1; cases h1
    · rw [hact] at h1; cases h1
  · obtain ⟨id, wk, leaf, _, _, _, _, _, hlt, hz, hnz⟩ := gate_wl hg
    refine ⟨sid, cnt, ent, tot, slim, e, he, hstep, hlt, ?_⟩
    intro L hL
    by_cases hs0 : sid = 0
    · rw [(hz hs0).2] at hL; cases hL
    · exact (hnz hs0).2.2 L hL

/-- counter exactness over composite histories (clause "the counts the minter stores equal the mints that address
initiated"): from the `CreateMinter` on, along every stable history, the stored public counter of `a` equals the number
of public mints and airdrops `a` initiated since the last purge — counted on the aspect-model trace the composite run is. -/
theorem C03_fulloe_counter_exact_public (s : OE.State) (m : OE.Minter) (hm : s.minter = some m)
    (hfresh : Fresh (OE.limitsOf s m)) (ops : List OE.Op) (hst : OE.StableRun s ops) (a : Addr) :
    ∃ m', (OE.run s ops).minter = some m' ∧
      m'.pub a = tally (publicInitiatedBy a) isPurge (MintLimits.run (OE.limitsOf s m) (OE.limitsOps s ops)).2 := by
  obtain ⟨m', hm', heq⟩ := OE.limits_run s m hm ops hst
  refine ⟨m', hm', ?_⟩
  have := C03_counter_exact_public (OE.limitsOf s m) hfresh a (OE.limitsOps s ops)
  rw [← heq] at this
  exact this

/-- History form of clause 1 for composite runs: if `L` bounds the per-address limits in force at the public mints of `a`,
then `a` completed at most `L` public mints since the last purge. -/
theorem C03_fulloe_public_history (s : OE.State) (m : OE.Minter) (hfresh : Fresh (OE.limitsOf s m))
    (ops : List OE.Op) (a : Addr) (L : Nat)
    (hL : ∀ e ∈ (MintLimits.run (OE.limitsOf s m) (OE.limitsOps s ops)).2, publicMintBy a e = true →
      ∃ B, publicLimitOf e = some B ∧ B ≤ L) :
    tally (publicMintBy a) isPurge (MintLimits.run (OE.limitsOf s m) (OE.limitsOps s ops)).2 ≤ L :=
  C03_public_history (OE.limitsOf s m) hfresh a (OE.limitsOps s ops) L hL

/-- History form of clause 3 for composite runs: the stored stage total `WHITELIST_{FS,SS,TS}_MINT_COUNT` never exceeds a
bound on the `mint_count_limit`s that were in force at the stage's mints. -/
theorem C03_fulloe_stage_total_bound (s : OE.State) (m : OE.Minter) (hm : s.minter = some m)
    (hfresh : Fresh (OE.limitsOf s m)) (ops : List OE.Op) (hst : OE.StableRun s ops) (k : Nat) (hk : k ≠ 0) (L : Nat)
    (hL : ∀ e ∈ (MintLimits.run (OE.limitsOf s m) (OE.limitsOps s ops)).2, stageMint k e = true →
      ∃ B, stageLimitOf e = some B ∧ B ≤ L) :
    ∃ m', (OE.run s ops).minter = some m' ∧ m'.tot k ≤ L := by
  obtain ⟨m', hm', heq⟩ := OE.limits_run s m hm ops hst
  refine ⟨m', hm', ?_⟩
  have := C03_stage_total_bound (OE.limitsOf s m) hfresh k hk (OE.limitsOps s ops) L hL
  rw [← heq] at this
  exact this

/-- per-address whitelist counters over composite histories: the plain whitelist counter of `a` is the number of
whitelist mints `a` completed (since the last purge on the flex crates) -/
theorem C03_fulloe_counter_exact_wl (s : OE.State) (m : OE.Minter) (hm : s.minter = some m)
    (hfresh : Fresh (OE.limitsOf s m)) (ops : List OE.Op) (hst : OE.StableRun s ops) (a : Addr) :
    ∃ m', (OE.run s ops).minter = some m' ∧
      m'.wlc a = tally (wlMintBy a 0) (fun e => isPurge e && decide (m.v.flavor = .flex))
        (MintLimits.run (OE.limitsOf s m) (OE.limitsOps s ops)).2 := by
  obtain ⟨m', hm', heq⟩ := OE.limits_run s m hm ops hst
  refine ⟨m', hm', ?_⟩
  have := C03_counter_exact_wl (OE.limitsOf s m) hfresh a (OE.limitsOps s ops)
  rw [← heq] at this
  simpa [OE.limitsOf, OE.kind_flavor] using this

end LP
