import LaunchpadModel.Lemmas.CollectionFullMigrate
import LaunchpadModel.Lemmas.Sg721
import LaunchpadModel.Props.C20
/-!
# Refinement: the collection migrations of the composite `LP.CF` refine the migration aspect model `LP.Mig` (C20)

(Separate module because `Props/C09.lean`, `Props/C10.lean` and `Props/C20.lean` each declare `LP.run_cons`.)

* projection `projMig` (`Lemmas/CollectionFullMigrate.lean`): the typed storage items a `migrate` may touch — cw2 record as
  (name id, PRINTED version), the two sg721-updatable flags (present only while the contract is an sg721-updatable),
  `royalty_updated_at`, the cw721-0.16 `minter` item, `ownership` (owner, "a transfer is pending");
* translation `tr20 s op`: `migrateUpdatable` ↦ `MigOp ⟨updSpec, now, none⟩`; `migrateSelf` ↦ the spec of the code the
  collection runs (`specOf`; sg721-base has no `migrate`: nothing). The specs are built from the same regenerated constants
  as the composite (`codeVersion`, `UPD_EARLIEST`, `TO_VERSION`, …);
* simulation `projMig (after step') = Mig.run (projMig before) (tr20 s op)` for ALL states with a collection whose stored
  version fits `u64` components (`Fits`: the printed string parses back) and whose legacy `minter` item, if any, holds a
  well-formed address (`LegacyValid`: the aspect model never re-validates it). Messages are not ops of `LP.Mig`
  (environment between migrations); `C20_full_history` shows they leave the cw2 record alone.
-/
namespace LP
open LP.CF LP.Semver

namespace CF

def tr20 (s : State) (op : Op) : List Mig.MigOp :=
  match op with
  | .migrateUpdatable => [⟨updSpec, s.block.time, none⟩]
  | .migrateSelf =>
    match s.coll with
    | some c => match specOf c.core.kind with | some sp => [⟨sp, s.block.time, none⟩] | none => []
    | none => []
  | _ => []

theorem mig_sim (c : Coll) (f : Coll → Except Err Coll) (sp : Mig.Spec) (now : Nat)
    (h : okOf ((f c).map projMig) = okOf (Mig.migrate sp now none (projMig c))) :
    (match f c with | .ok c' => projMig c' | .error _ => projMig c) = Mig.migrate' sp now none (projMig c) := by
  unfold Mig.migrate'
  cases hf : f c with
  | ok c' =>
    rw [hf] at h
    cases hs : Mig.migrate sp now none (projMig c) with
    | ok s' => rw [hs] at h; simp [okOf, Except.map] at h; simp [h]
    | error e => rw [hs] at h; simp [okOf, Except.map] at h
  | error e =>
    rw [hf] at h
    cases hs : Mig.migrate sp now none (projMig c) with
    | ok s' => rw [hs] at h; simp [okOf, Except.map] at h
    | error e => rfl

theorem mig_run_one (s : Mig.St) (o : Mig.MigOp) : Mig.run s [o] = Mig.migrate' o.sp o.now o.msg s := rfl

end CF

/-- **C20 simulation, one migration step** -/
theorem C20_full_refines (s : State) (c : Coll) (op : Op) (hc : s.coll = some c) (hm : isMigrate op = true)
    (hfit : Fits c.core.ver) (hlv : LegacyValid c) :
    (step' s op).coll.map projMig = some (Mig.run (projMig c) (tr20 s op)) := by
  cases op with
  | migrateUpdatable =>
    have key := mig_sim c (migrateUpdatable · s.block.time) updSpec s.block.time (migrateUpdatable_mig' c s.block.time hfit hlv)
    simp only [tr20, mig_run_one, ← key]
    unfold step'
    simp only [step, onColl_some _ hc]
    cases migrateUpdatable c s.block.time <;> simp [hc]
  | migrateSelf =>
    have h0 := migrateSelf_mig c s.block.time hfit hlv
    simp only [tr20, hc]
    cases hsp : specOf c.core.kind with
    | none =>
      rw [hsp] at h0
      simp only [Mig.run, List.foldl_nil]
      unfold step'
      simp only [step, onColl_some _ hc]
      cases hf : migrateSelf c s.block.time with
      | ok c' => rw [hf] at h0; simp [okOf, Except.map] at h0
      | error e => simp [hc]
    | some sp =>
      rw [hsp] at h0
      have key := mig_sim c (migrateSelf · s.block.time) sp s.block.time h0
      simp only [mig_run_one, ← key]
      unfold step'
      simp only [step, onColl_some _ hc]
      cases migrateSelf c s.block.time <;> simp [hc]
  | block b => cases hm
  | fund a x => cases hm
  | instantiate k sender funds name symbol m self => cases hm
  | exec sender funds m => cases hm
  | setVersion v => cases hm
  | setLegacy a => cases hm

/-! ### C20 headline theorems for the composite -/

/-- "accepted iff": the composite accepts a migration to the sg721-updatable code **iff** the stored name is an sg721-base or
sg721-updatable name ∧ `EARLIEST ≤ stored ≤ code` ∧ not (same name ∧ same version) ∧ the one-time upgrades can run (a
cw721-0.16 `minter` item when `stored < 3.0.0`; block time ≥ 24 h when `stored < 3.1.0`) — inherits `C20_updatable_accept_iff` -/
theorem C20_full_updatable_accept_iff (s : State) (c : Coll) (hc : s.coll = some c) (hfit : Fits c.core.ver)
    (hlv : LegacyValid c) :
    accepted s .migrateUpdatable = true ↔
      (c.core.kind = .base ∨ c.core.kind = .updatable) ∧ Sg721.UPD_EARLIEST ≤ c.core.ver ∧
      c.core.ver ≤ Sg721.codeVersion .updatable ∧ ¬ (c.core.ver = Sg721.codeVersion .updatable ∧ c.core.kind = .updatable) ∧
      (c.core.ver < Mig.V_3_0_0 → c.legacy ≠ none) ∧ (c.core.ver < Mig.V_3_1_0 → Mig.ROYALTY_BACKDATE_NS ≤ s.block.time) := by
  have hsim := migrateUpdatable_mig c s.block.time hfit hlv
  have hp : parse (print c.core.ver) = some c.core.ver := parse_print _ hfit
  have hacc : accepted s .migrateUpdatable = true ↔ ∃ s', Mig.migrateUpdatable updSpec s.block.time (projMig c) = .ok s' := by
    unfold accepted
    simp only [step, onColl_some _ hc]
    cases hf : migrateUpdatable c s.block.time with
    | ok c' =>
      rw [hf] at hsim
      cases hm : Mig.migrateUpdatable updSpec s.block.time (projMig c) with
      | ok s' => simp
      | error e => rw [hm] at hsim; simp [okOf, Except.map] at hsim
    | error e =>
      rw [hf] at hsim
      cases hm : Mig.migrateUpdatable updSpec s.block.time (projMig c) with
      | ok s' => rw [hm] at hsim; simp [okOf, Except.map] at hsim
      | error e => simp
  rw [hacc, C20_updatable_accept_iff]
  constructor
  · rintro ⟨c0, v, hcw, hpv, hn, h1, h2, h3, h4, h5⟩
    simp only [projMig, Option.some.injEq] at hcw
    subst hcw
    simp only at hpv hn h3
    rw [hp] at hpv; cases hpv
    refine ⟨?_, h1, h2, ?_, h4, h5⟩
    · cases hk : c.core.kind <;> simp [updSpec, nameId, hk] at hn ⊢
    · intro ⟨hv, hk⟩; exact h3 ⟨hv, by simp [updSpec, nameId, hk]⟩
  · rintro ⟨hk, h1, h2, h3, h4, h5⟩
    refine ⟨⟨nameId c.core.kind, print c.core.ver⟩, c.core.ver, rfl, hp, ?_, h1, h2, ?_, h4, h5⟩
    · rcases hk with hk | hk <;> simp [updSpec, nameId, hk]
    · intro ⟨hv, hn⟩
      apply h3
      refine ⟨hv, ?_⟩
      cases hk' : c.core.kind <;> simp [updSpec, nameId, hk'] at hn ⊢

/-- "version after" and the frame: an accepted migration to the sg721-updatable code records (sg721-updatable, code version),
re-initialises the two flags exactly when coming from sg721-base, rewinds `royalty_updated_at` exactly when the stored
version was below 3.1.0, moves the legacy minter into ownership exactly when it was below 3.0.0 — inherits `C20_updatable_frame` -/
theorem C20_full_updatable_frame (s s' : State) (c c' : Coll) (hc : s.coll = some c) (hfit : Fits c.core.ver)
    (hlv : LegacyValid c) (h : step s .migrateUpdatable = .ok s') (hc' : s'.coll = some c') :
    c'.core.kind = .updatable ∧ c'.core.ver = Sg721.codeVersion .updatable ∧
    c'.core.frozenMeta = (if c.core.kind = .base then false else c.core.frozenMeta) ∧
    c'.core.updEnabled = (if c.core.kind = .base then false else c.core.updEnabled) ∧
    c'.core.royaltyUpdatedAt =
      (if c.core.ver < Mig.V_3_1_0 then s.block.time - Mig.ROYALTY_BACKDATE_NS else c.core.royaltyUpdatedAt) ∧
    c'.legacy = (if c.core.ver < Mig.V_3_0_0 then none else c.legacy) := by
  obtain ⟨c0, c1, hc0, hf, rfl⟩ := onColl_ok h
  rw [hc] at hc0; cases hc0
  cases hc'
  have hsim := migrateUpdatable_mig c s.block.time hfit hlv
  rw [hf] at hsim
  have hp : parse (print c.core.ver) = some c.core.ver := parse_print _ hfit
  cases hm : Mig.migrateUpdatable updSpec s.block.time (projMig c) with
  | error e => rw [hm] at hsim; simp [okOf, Except.map] at hsim
  | ok m' =>
    rw [hm] at hsim
    simp only [okOf, Except.map, Option.some.injEq] at hsim
    obtain ⟨c0, v, hcw, hpv, hcw2, hfm, hue, hra, hlm, _⟩ := C20_updatable_frame updSpec s.block.time (projMig c) m' hm
    simp only [projMig, Option.some.injEq] at hcw
    subst hcw
    simp only at hpv hfm hue
    rw [hp] at hpv; cases hpv
    rw [← hsim] at hcw2 hfm hue hra hlm
    -- the kind after: read off the cw2 record
    have hkind : c'.core.kind = .updatable := by
      simp only [projMig, Mig.codeRecord, updSpec, Option.some.injEq, Mig.Cw2.mk.injEq] at hcw2
      cases hk : c'.core.kind <;> simp [nameId, hk] at hcw2 ⊢
    have hver : c'.core.ver = Sg721.codeVersion .updatable := (migrateUpdatable_ver hf).2
    refine ⟨hkind, hver, ?_, ?_, ?_, ?_⟩
    · simp only [projMig, hkind, if_true] at hfm
      cases hk : c.core.kind <;> simp [updSpec, nameId, hk] at hfm ⊢ <;> exact hfm
    · simp only [projMig, hkind, if_true] at hue
      cases hk : c.core.kind <;> simp [updSpec, nameId, hk] at hue ⊢ <;> exact hue
    · simp only [projMig] at hra
      split at hra <;> rename_i hlt <;> simp [hlt] at hra ⊢ <;> exact hra
    · simpa [projMig] using hlm

namespace CF

/-- no message touches the cw2 record -/
theorem exec_record (c core' : Sg721.State) (call : Sg721.Call) (h : Sg721.exec c call = .ok core') :
    core'.kind = c.kind ∧ core'.ver = c.ver := by
  obtain ⟨b, sender, funds, msg⟩ := call
  obtain ⟨_, e⟩ := Sg721.exec_eff' h
  cases e <;> exact ⟨rfl, rfl⟩

/-- histories of messages, blocks, funding and migrations to the sg721-updatable code -/
def HistOp : Op → Prop
  | .exec .. => True
  | .block _ => True
  | .fund .. => True
  | .migrateUpdatable => True
  | _ => False

theorem fits_code : Fits (Sg721.codeVersion .updatable) := by decide

end CF

/-- "never downgrade", one step: a migration to the sg721-updatable code — accepted or refused — never lowers the recorded
version (inherits the acceptance condition `stored ≤ code` of `C20_full_updatable_accept_iff`) -/
theorem C20_full_step_monotone (s : State) (c : Coll) (hc : s.coll = some c) (hfit : Fits c.core.ver) (hlv : LegacyValid c) :
    ∃ c', (step' s .migrateUpdatable).coll = some c' ∧ c.core.ver ≤ c'.core.ver ∧ Fits c'.core.ver ∧ LegacyValid c' := by
  cases h : step s .migrateUpdatable with
  | error e => rw [step'_err h]; exact ⟨c, hc, Semver.le_refl _, hfit, hlv⟩
  | ok s' =>
    rw [step'_ok h]
    obtain ⟨c0, c1, hc0, hf, rfl⟩ := onColl_ok h
    rw [hc] at hc0; cases hc0
    have hacc := (C20_full_updatable_accept_iff s c hc hfit hlv).1 (accepted_ok h)
    obtain ⟨_, hv⟩ := migrateUpdatable_ver hf
    refine ⟨c1, rfl, ?_, ?_, ?_⟩
    · rw [hv]; exact hacc.2.2.1
    · rw [hv]; exact fits_code
    · intro a ha
      have hframe := C20_full_updatable_frame s _ c c1 hc hfit hlv h rfl
      rw [hframe.2.2.2.2.2] at ha
      split at ha
      · cases ha
      · exact hlv a ha

/-- **"never downgrade", histories**: over any composite history of messages (anybody, any funds), blocks, funding and
migrations to the sg721-updatable code, the recorded version never decreases -/
theorem C20_full_history (s : State) (c : Coll) (ops : List Op) (hc : s.coll = some c) (hfit : Fits c.core.ver)
    (hlv : LegacyValid c) (hops : ∀ op ∈ ops, HistOp op) :
    ∃ c', (run s ops).coll = some c' ∧ c.core.ver ≤ c'.core.ver := by
  induction ops generalizing s c with
  | nil => exact ⟨c, hc, Semver.le_refl _⟩
  | cons op ops ih =>
    have hop := hops op (List.mem_cons_self ..)
    have hrest : ∀ o ∈ ops, HistOp o := fun o ho => hops o (List.mem_cons_of_mem _ ho)
    rw [CF.run_cons]
    -- one step: a collection with a recorded version at least the old one, still well-formed
    have hstep : ∃ c1, (step' s op).coll = some c1 ∧ c.core.ver ≤ c1.core.ver ∧ Fits c1.core.ver ∧ LegacyValid c1 := by
      cases op with
      | migrateUpdatable => exact C20_full_step_monotone s c hc hfit hlv
      | block b => exact ⟨c, by simp [step', step, hc], Semver.le_refl _, hfit, hlv⟩
      | fund a x => exact ⟨c, by simp [step', step, hc], Semver.le_refl _, hfit, hlv⟩
      | exec sender funds m =>
        cases h : step s (.exec sender funds m) with
        | error e => rw [step'_err h]; exact ⟨c, hc, Semver.le_refl _, hfit, hlv⟩
        | ok s' =>
          rw [step'_ok h]
          obtain ⟨c0, _, core', _, hc0, _, hcore, _, rfl⟩ := exec_ok h
          rw [hc] at hc0; cases hc0
          obtain ⟨_, hv⟩ := exec_record _ _ _ hcore
          exact ⟨_, rfl, by simp only [hv]; exact Semver.le_refl _, by simp only [hv]; exact hfit, hlv⟩
      | instantiate k sender funds name symbol m self => exact absurd hop (by simp [HistOp])
      | migrateSelf => exact absurd hop (by simp [HistOp])
      | setVersion v => exact absurd hop (by simp [HistOp])
      | setLegacy a => exact absurd hop (by simp [HistOp])
    obtain ⟨c1, hc1, hle, hfit1, hlv1⟩ := hstep
    obtain ⟨c', hc', hle'⟩ := ih (step' s op) c1 hc1 hfit1 hlv1 hrest
    exact ⟨c', hc', Semver.le_trans hle hle'⟩

end LP
