import LaunchpadModel.Lemmas.VendingFull
import LaunchpadModel.Lemmas.VendingFullLimits
import LaunchpadModel.Lemmas.VendingFullPay
import LaunchpadModel.Lemmas.VendingFullPrice
import LaunchpadModel.Lemmas.VendingFullWindow5
import LaunchpadModel.Lemmas.VendingFullTrading
import LaunchpadModel.Props.C01
import LaunchpadModel.Props.C03
import LaunchpadModel.Props.C02
import LaunchpadModel.Props.C07
import LaunchpadModel.Props.C04
import LaunchpadModel.Props.C19
/-!
# Refinement theorems: the composite model `LP.VF` (Model/VendingFull.lean) refines the aspect models

For each aspect: a projection of the composite state, a translation of composite ops into aspect ops *whose witnesses
are computed from the composite state*, the one-step simulation for ALL states and ops, its lift to runs, and the
headline theorems of the property restated for composite runs (`Cxx_full_*`).  A composite run starts in any state
without a minter (e.g. `VF.init …`, but also after arbitrary funding / governance / whitelist-interface events).
-/
namespace LP
open LP.VF

namespace VF

/-! ## C01 — supply -/

/-- projection: the supply component (position map, counter, mint log, burned count, collection token table) -/
def supplyOf (s : State) : Option Supply.Fixed := s.minter.map (·.supply)

/-- op translation: the gate of every aspect op is the composite's own verdict on the message -/
def supplyOp (s : State) (op : Op) : Supply.FOp :=
  let g := accepted s op
  match op with
  | .mint sender _ _ _ picked => .mint g picked sender
  | .mintTo _ _ rcpt picked => .mint g picked rcpt
  | .mintFor _ _ id rcpt => .mintFor g id rcpt
  | .shuffle _ _ perm => .shuffle g perm
  | .purge _ _ => .purge g
  | .burnRemaining _ _ => .burnRemaining g
  | .collBurn _ id => .collBurn g id
  | .collTransfer _ id to => .collTransfer g id to
  | _ => .noise g

theorem fixed_step'_of_some {f f' : Supply.Fixed} {op : Supply.FOp} (h : f.step op = some f') : f.step' op = f' := by
  simp [Supply.Fixed.step', h]

theorem fixed_step'_gate_false (f : Supply.Fixed) (op : Supply.FOp)
    (h : match op with
      | .mint g _ _ => g = false | .mintFor g _ _ => g = false | .shuffle g _ => g = false | .purge g => g = false
      | .burnRemaining g => g = false | .collBurn g _ => g = false | .collTransfer g _ _ => g = false
      | .noise g => g = false) : f.step' op = f := by
  cases op <;> simp only at h <;> subst h <;> simp [Supply.Fixed.step', Supply.Fixed.step]

/-- a successful composite step acts on the supply component exactly as the translated aspect op -/
theorem supply_step_ok {s s' : State} {m : Minter} {op : Op} (hm : s.minter = some m) (h : step s op = .ok s') :
    ∃ m', s'.minter = some m' ∧ m.supply.step (supplyOp s op) = some m'.supply := by
  have hacc := accepted_of_ok h
  cases op with
  | setTime t =>
    simp only [step] at h; split at h <;> cases h
    exact ⟨m, hm, by simp [supplyOp, hacc, Supply.Fixed.step]⟩
  | fund a c =>
    simp only [step] at h; cases h
    exact ⟨m, hm, by simp [supplyOp, hacc, Supply.Fixed.step]⟩
  | wlEnv k i =>
    simp only [step] at h; cases h
    exact ⟨m, hm, by simp [supplyOp, hacc, Supply.Fixed.step]⟩
  | create sender funds msg w =>
    simp only [step] at h
    obtain ⟨_, _, _, _, _, hnone, _⟩ := createMinter_ok h
    rw [hm] at hnone; cases hnone
  | instantiateDirect sender => simp [step] at h
  | mint sender funds f sv picked =>
    simp only [step] at h
    obtain ⟨m0, hm0, h⟩ := withMinterS_ok h
    rw [hm] at hm0; cases hm0
    obtain ⟨b1, g, _, _, _, _, h⟩ := mintSender_ok h
    obtain ⟨price, ms, sup, b2, _, _, _, _, _, htake, _, rfl⟩ := executeMint_ok h
    exact ⟨_, rfl, by simpa [supplyOp, hacc, Supply.Fixed.step, takeToken] using htake⟩
  | mintTo sender funds rcpt picked =>
    simp only [step] at h
    obtain ⟨m0, hm0, h⟩ := withMinterS_ok h
    rw [hm] at hm0; cases hm0
    obtain ⟨b1, _, _, h⟩ := mintAdmin_ok h
    obtain ⟨price, ms, sup, b2, _, _, _, _, _, htake, _, rfl⟩ := executeMint_ok h
    exact ⟨_, rfl, by simpa [supplyOp, hacc, Supply.Fixed.step, takeToken] using htake⟩
  | mintFor sender funds id rcpt =>
    simp only [step] at h
    obtain ⟨m0, hm0, h⟩ := withMinterS_ok h
    rw [hm] at hm0; cases hm0
    obtain ⟨b1, _, _, h⟩ := mintAdmin_ok h
    obtain ⟨price, ms, sup, b2, _, _, _, _, _, htake, _, rfl⟩ := executeMint_ok h
    exact ⟨_, rfl, by simpa [supplyOp, hacc, Supply.Fixed.step, takeToken] using htake⟩
  | setWhitelist sender funds wl valid =>
    simp only [step] at h
    obtain ⟨m0, m', hm0, hf, rfl⟩ := withMinter_ok h
    rw [hm] at hm0; cases hm0
    obtain ⟨_, _, _, _, _, _, _, _, _, _, _, rfl⟩ := setWhitelist_ok hf
    exact ⟨_, rfl, by simp [supplyOp, hacc, Supply.Fixed.step]⟩
  | purge sender funds =>
    simp only [step] at h
    obtain ⟨m0, m', hm0, hf, rfl⟩ := withMinter_ok h
    rw [hm] at hm0; cases hm0
    obtain ⟨_, hz, rfl⟩ := purge_ok hf
    exact ⟨_, rfl, by simp [supplyOp, hacc, Supply.Fixed.step, Supply.Fixed.purge, hz]⟩
  | updateMintPrice sender funds p =>
    simp only [step] at h
    obtain ⟨m0, m', hm0, hf, rfl⟩ := withMinter_ok h
    rw [hm] at hm0; cases hm0
    obtain ⟨_, _, _, _, rfl⟩ := updateMintPrice_ok hf
    exact ⟨_, rfl, by simp [supplyOp, hacc, Supply.Fixed.step]⟩
  | updateStartTime sender funds t =>
    simp only [step] at h
    obtain ⟨m0, m', hm0, hf, rfl⟩ := withMinter_ok h
    rw [hm] at hm0; cases hm0
    obtain ⟨_, _, _, _, _, rfl⟩ := updateStartTime_ok hf
    exact ⟨_, rfl, by simp [supplyOp, hacc, Supply.Fixed.step]⟩
  | updateStartTradingTime sender funds t =>
    simp only [step] at h
    obtain ⟨m0, m', hm0, hf, rfl⟩ := withMinter_ok h
    rw [hm] at hm0; cases hm0
    obtain ⟨_, _, _, _, _, rfl⟩ := updateStartTradingTime_ok hf
    exact ⟨_, rfl, by simp [supplyOp, hacc, Supply.Fixed.step]⟩
  | updatePerAddressLimit sender funds n =>
    simp only [step] at h
    obtain ⟨m0, m', hm0, hf, rfl⟩ := withMinter_ok h
    rw [hm] at hm0; cases hm0
    obtain ⟨_, _, _, _, _, rfl⟩ := updatePerAddressLimit_ok hf
    exact ⟨_, rfl, by simp [supplyOp, hacc, Supply.Fixed.step]⟩
  | shuffle sender funds perm =>
    simp only [step] at h
    obtain ⟨m0, hm0, h⟩ := withMinterS_ok h
    rw [hm] at hm0; cases hm0
    obtain ⟨b1, ms, sup, b2, _, _, hsh, _, rfl⟩ := shuffle_ok h
    exact ⟨_, rfl, by simpa [supplyOp, hacc, Supply.Fixed.step] using hsh⟩
  | burnRemaining sender funds =>
    simp only [step] at h
    obtain ⟨m0, m', hm0, hf, rfl⟩ := withMinter_ok h
    rw [hm] at hm0; cases hm0
    obtain ⟨sup, _, _, hb, rfl⟩ := burnRemaining_ok hf
    exact ⟨_, rfl, by simpa [supplyOp, hacc, Supply.Fixed.step] using hb⟩
  | updateDiscountPrice sender funds p =>
    simp only [step] at h
    obtain ⟨m0, m', hm0, hf, rfl⟩ := withMinter_ok h
    rw [hm] at hm0; cases hm0
    obtain ⟨_, _, _, _, _, _, rfl⟩ := updateDiscountPrice_ok hf
    exact ⟨_, rfl, by simp [supplyOp, hacc, Supply.Fixed.step]⟩
  | removeDiscountPrice sender funds =>
    simp only [step] at h
    obtain ⟨m0, m', hm0, hf, rfl⟩ := withMinter_ok h
    rw [hm] at hm0; cases hm0
    obtain ⟨_, _, _, rfl⟩ := removeDiscountPrice_ok hf
    exact ⟨_, rfl, by simp [supplyOp, hacc, Supply.Fixed.step]⟩
  | sudoStatus v b e =>
    simp only [step] at h
    obtain ⟨m0, m', hm0, hf, rfl⟩ := withMinter_ok h
    rw [hm] at hm0; cases hm0
    cases hf
    exact ⟨_, rfl, by simp [supplyOp, hacc, Supply.Fixed.step]⟩
  | sudoParams u =>
    simp only [step] at h
    split at h <;> cases h
    exact ⟨m, hm, by simp [supplyOp, hacc, Supply.Fixed.step]⟩
  | collTransfer sender id to =>
    simp only [step] at h
    obtain ⟨m0, m', hm0, hf, rfl⟩ := withMinter_ok h
    rw [hm] at hm0; cases hm0
    obtain ⟨c, _, _, hc, rfl⟩ := collTransfer_ok hf
    exact ⟨_, rfl, by simp [supplyOp, hacc, Supply.Fixed.step, hc]⟩
  | collBurn sender id =>
    simp only [step] at h
    obtain ⟨m0, m', hm0, hf, rfl⟩ := withMinter_ok h
    rw [hm] at hm0; cases hm0
    obtain ⟨c, _, hc, rfl⟩ := collBurn_ok hf
    exact ⟨_, rfl, by simp [supplyOp, hacc, Supply.Fixed.step, hc]⟩
  | collTrading sender t =>
    simp only [step] at h
    obtain ⟨m0, c, hm0, _, rfl⟩ := onColl_ok h
    rw [hm] at hm0; cases hm0
    exact ⟨_, rfl, by simp [supplyOp, hacc, Supply.Fixed.step]⟩
  | collCreator sender new =>
    simp only [step] at h
    obtain ⟨m0, c, hm0, _, rfl⟩ := onColl_ok h
    rw [hm] at hm0; cases hm0
    exact ⟨_, rfl, by simp [supplyOp, hacc, Supply.Fixed.step]⟩
  | collFreeze sender =>
    simp only [step] at h
    obtain ⟨m0, c, hm0, _, rfl⟩ := onColl_ok h
    rw [hm] at hm0; cases hm0
    exact ⟨_, rfl, by simp [supplyOp, hacc, Supply.Fixed.step]⟩
  | collOwn sender a =>
    simp only [step] at h
    obtain ⟨m0, c, hm0, _, rfl⟩ := onColl_ok h
    rw [hm] at hm0; cases hm0
    exact ⟨_, rfl, by simp [supplyOp, hacc, Supply.Fixed.step]⟩

/-- **simulation** (all states with a minter, all ops):
`proj (Composite.step' s op) = Aspect.step' (proj s) (tr s op)` -/
theorem supply_sim (s : State) (m : Minter) (hm : s.minter = some m) (op : Op) :
    supplyOf (step' s op) = some (m.supply.step' (supplyOp s op)) := by
  rcases step'_cases s op with ⟨s', hok, hs'⟩ | ⟨⟨e, herr⟩, hs'⟩
  · obtain ⟨m', hm', hstep⟩ := supply_step_ok hm hok
    rw [hs', fixed_step'_of_some hstep]; simp [supplyOf, hm']
  · have hacc : accepted s op = false := by simp [accepted, herr]
    rw [hs']
    have : m.supply.step' (supplyOp s op) = m.supply := by
      apply fixed_step'_gate_false
      cases op <;> simp [supplyOp, hacc]
    rw [this]; simp [supplyOf, hm]

/-- before the minter exists a step either leaves it absent or is the `CreateMinter` that initialises the supply
component with `Supply.Fixed.init num_tokens perm` for the permutation witness of the message -/
theorem supply_create (s : State) (hm : s.minter = none) (op : Op) :
    (step' s op).minter = none ∨
    ∃ m n perm, (step' s op).minter = some m ∧ Supply.Fixed.init n perm = some m.supply := by
  rcases step'_cases s op with ⟨s', hok, hs'⟩ | ⟨_, hs'⟩
  · rw [hs']
    cases op with
    | setTime t => simp only [step] at hok; split at hok <;> cases hok; exact Or.inl hm
    | fund a c => simp only [step] at hok; cases hok; exact Or.inl hm
    | wlEnv k i => simp only [step] at hok; cases hok; exact Or.inl hm
    | sudoParams u => simp only [step] at hok; split at hok <;> cases hok; exact Or.inl hm
    | instantiateDirect sender => simp [step] at hok
    | create sender funds msg w =>
      simp only [step] at hok
      obtain ⟨b1, ms, b2, v, m, _, _, _, _, _, hinst, rfl⟩ := createMinter_ok hok
      obtain ⟨wl, trading, sup, ck, _, _, _, _, _, _, _, hsup, _, _, rfl⟩ := instantiateMinter_ok hinst
      exact Or.inr ⟨_, msg.numTokens, w.perm, rfl, hsup⟩
    | mint _ _ _ _ _ => simp only [step] at hok; obtain ⟨m, h, _⟩ := withMinterS_ok hok; rw [hm] at h; cases h
    | mintTo _ _ _ _ => simp only [step] at hok; obtain ⟨m, h, _⟩ := withMinterS_ok hok; rw [hm] at h; cases h
    | mintFor _ _ _ _ => simp only [step] at hok; obtain ⟨m, h, _⟩ := withMinterS_ok hok; rw [hm] at h; cases h
    | shuffle _ _ _ => simp only [step] at hok; obtain ⟨m, h, _⟩ := withMinterS_ok hok; rw [hm] at h; cases h
    | setWhitelist _ _ _ _ => simp only [step] at hok; obtain ⟨m, _, h, _⟩ := withMinter_ok hok; rw [hm] at h; cases h
    | purge _ _ => simp only [step] at hok; obtain ⟨m, _, h, _⟩ := withMinter_ok hok; rw [hm] at h; cases h
    | updateMintPrice _ _ _ => simp only [step] at hok; obtain ⟨m, _, h, _⟩ := withMinter_ok hok; rw [hm] at h; cases h
    | updateStartTime _ _ _ => simp only [step] at hok; obtain ⟨m, _, h, _⟩ := withMinter_ok hok; rw [hm] at h; cases h
    | updateStartTradingTime _ _ _ => simp only [step] at hok; obtain ⟨m, _, h, _⟩ := withMinter_ok hok; rw [hm] at h; cases h
    | updatePerAddressLimit _ _ _ => simp only [step] at hok; obtain ⟨m, _, h, _⟩ := withMinter_ok hok; rw [hm] at h; cases h
    | burnRemaining _ _ => simp only [step] at hok; obtain ⟨m, _, h, _⟩ := withMinter_ok hok; rw [hm] at h; cases h
    | updateDiscountPrice _ _ _ => simp only [step] at hok; obtain ⟨m, _, h, _⟩ := withMinter_ok hok; rw [hm] at h; cases h
    | removeDiscountPrice _ _ => simp only [step] at hok; obtain ⟨m, _, h, _⟩ := withMinter_ok hok; rw [hm] at h; cases h
    | sudoStatus _ _ _ => simp only [step] at hok; obtain ⟨m, _, h, _⟩ := withMinter_ok hok; rw [hm] at h; cases h
    | collTransfer _ _ _ => simp only [step] at hok; obtain ⟨m, _, h, _⟩ := withMinter_ok hok; rw [hm] at h; cases h
    | collBurn _ _ => simp only [step] at hok; obtain ⟨m, _, h, _⟩ := withMinter_ok hok; rw [hm] at h; cases h
    | collTrading _ _ => simp only [step] at hok; obtain ⟨m, _, h, _⟩ := onColl_ok hok; rw [hm] at h; cases h
    | collCreator _ _ => simp only [step] at hok; obtain ⟨m, _, h, _⟩ := onColl_ok hok; rw [hm] at h; cases h
    | collFreeze _ => simp only [step] at hok; obtain ⟨m, _, h, _⟩ := onColl_ok hok; rw [hm] at h; cases h
    | collOwn _ _ => simp only [step] at hok; obtain ⟨m, _, h, _⟩ := onColl_ok hok; rw [hm] at h; cases h
  · rw [hs']; exact Or.inl hm

/-- "the supply component of this state is an aspect-model run from `Fixed.init`" -/
def SupplyReach (s : State) : Prop :=
  s.minter = none ∨
  ∃ m n perm sup0 fops, s.minter = some m ∧ Supply.Fixed.init n perm = some sup0 ∧ m.supply = sup0.run fops

theorem fixed_run_snoc (f : Supply.Fixed) (ops : List Supply.FOp) (op : Supply.FOp) :
    f.run (ops ++ [op]) = (f.run ops).step' op := by
  simp [Supply.Fixed.run, List.foldl_append]

theorem supplyReach_step (s : State) (op : Op) (h : SupplyReach s) : SupplyReach (step' s op) := by
  rcases h with hnone | ⟨m, n, perm, sup0, fops, hm, hinit, hrun⟩
  · rcases supply_create s hnone op with h | ⟨m, n, perm, hm, hinit⟩
    · exact Or.inl h
    · exact Or.inr ⟨m, n, perm, m.supply, [], hm, hinit, rfl⟩
  · have hsim := supply_sim s m hm op
    unfold supplyOf at hsim
    cases hm' : (step' s op).minter with
    | none => rw [hm'] at hsim; cases hsim
    | some m' =>
      rw [hm'] at hsim
      simp only [Option.map_some, Option.some.injEq] at hsim
      exact Or.inr ⟨m', n, perm, sup0, fops ++ [supplyOp s op], hm', hinit, by rw [fixed_run_snoc, ← hrun, hsim]⟩

/-- **lift to runs**: along ANY composite run that starts without a minter, the supply component is a `Supply.Fixed`
run from `Fixed.init num_tokens perm` -/
theorem supply_run (s0 : State) (h0 : s0.minter = none) (ops : List Op) : SupplyReach (run s0 ops) :=
  run_inv SupplyReach supplyReach_step s0 (Or.inl h0) ops

end VF

/-! ### C01 headline theorems, inherited by composite runs -/

/-- the C01 simulation itself: one composite step = one aspect step on the projection -/
theorem C01_full_refines (s : VF.State) (m : VF.Minter) (hm : s.minter = some m) (op : VF.Op) :
    VF.supplyOf (VF.step' s op) = some (m.supply.step' (VF.supplyOp s op)) :=
  VF.supply_sim s m hm op

/-- "no minter over-mints, re-mints a token id, or miscounts remaining supply", for every composite history (all
gates computed by the model itself): the supply invariant `FInv` holds of the minter whenever it exists -/
theorem C01_full_inv (s0 : VF.State) (h0 : s0.minter = none) (ops : List VF.Op) (m : VF.Minter)
    (hm : (VF.run s0 ops).minter = some m) : Supply.FInv m.supply := by
  rcases VF.supply_run s0 h0 ops with hnone | ⟨m', n, perm, sup0, fops, hm', hinit, hrun⟩
  · rw [hm] at hnone; cases hnone
  · rw [hm] at hm'; cases hm'
    rw [hrun]; exact (C01_inv n perm sup0 hinit fops).1

/-- every minted token id lies in `1..=num_tokens` and is minted at most once -/
theorem C01_full_minted_in_range_at_most_once (s0 : VF.State) (h0 : s0.minter = none) (ops : List VF.Op) (m : VF.Minter)
    (hm : (VF.run s0 ops).minter = some m) :
    m.supply.minted.Nodup ∧ ∀ id ∈ m.supply.minted, 1 ≤ id ∧ id ≤ m.supply.n := by
  have hi := C01_full_inv s0 h0 ops m hm
  exact ⟨hi.mnodup, fun id hid => hi.mrange id hid⟩

/-- the `MintableNumTokens` answer always equals `num_tokens − minted − burned` and the true number of remaining positions -/
theorem C01_full_mintable_query (s0 : VF.State) (h0 : s0.minter = none) (ops : List VF.Op) (m : VF.Minter)
    (hm : (VF.run s0 ops).minter = some m) :
    VF.queryMintable m = m.supply.n - m.supply.minted.length - m.supply.burned ∧
    VF.queryMintable m = m.supply.pos.length ∧ m.supply.minted.length + m.supply.burned ≤ m.supply.n := by
  have hi := C01_full_inv s0 h0 ops m hm
  have := hi.count; have := hi.total
  unfold VF.queryMintable Supply.Fixed.queryMintable
  omega

/-- collection side: every existing token was minted by this minter, ids are unique, `NumTokens` is exact, and a minted
id is never mintable again -/
theorem C01_full_collection (s0 : VF.State) (h0 : s0.minter = none) (ops : List VF.Op) (m : VF.Minter)
    (hm : (VF.run s0 ops).minter = some m) :
    (∀ id ∈ m.supply.coll.ids, id ∈ m.supply.minted ∧ 1 ≤ id ∧ id ≤ m.supply.n) ∧ m.supply.coll.ids.Nodup ∧
      m.supply.coll.count = m.supply.coll.toks.length ∧ (∀ id ∈ m.supply.minted, id ∉ m.supply.ids) := by
  have hi := C01_full_inv s0 h0 ops m hm
  exact ⟨fun id hid => ⟨hi.csub id hid, hi.mrange id (hi.csub id hid)⟩, hi.cinv.nodup, hi.cinv.count,
    fun id hid hmem => hi.fresh id hmem hid⟩

/-- a composite mint at a zero counter fails, whatever else holds -/
theorem C01_full_no_mint_at_zero (s : VF.State) (m : VF.Minter) (hm : s.minter = some m) (hz : m.supply.mintable = 0)
    (op : VF.Op) (hmint : (VF.supplyOp s op).isMint = true) : VF.step' s op = s := by
  rcases VF.step'_cases s op with ⟨s', hok, _⟩ | ⟨_, hs'⟩
  · obtain ⟨m', _, hstep⟩ := VF.supply_step_ok hm hok
    rw [C01_no_mint_at_zero m.supply _ hz hmint] at hstep; cases hstep
  · exact hs'

/-- once the counter is zero it stays zero and nothing is minted again, in any continuation of the composite -/
theorem C01_full_zero_is_final (s : VF.State) (m : VF.Minter) (hm : s.minter = some m) (hz : m.supply.mintable = 0)
    (ops : List VF.Op) :
    ∃ m', (VF.run s ops).minter = some m' ∧ m'.supply.mintable = 0 ∧ m'.supply.minted = m.supply.minted := by
  induction ops generalizing s m with
  | nil => exact ⟨m, hm, hz, rfl⟩
  | cons op ops ih =>
    rw [VF.run_cons]
    have hsim := VF.supply_sim s m hm op
    unfold VF.supplyOf at hsim
    cases hm' : (VF.step' s op).minter with
    | none => rw [hm'] at hsim; cases hsim
    | some m1 =>
      rw [hm'] at hsim
      simp only [Option.map_some, Option.some.injEq] at hsim
      have hfin := C01_zero_is_final m.supply hz [VF.supplyOp s op]
      simp only [Supply.Fixed.run, List.foldl_cons, List.foldl_nil] at hfin
      rw [← hsim] at hfin
      obtain ⟨m', h1, h2, h3⟩ := ih (VF.step' s op) m1 hm' hfin.1
      exact ⟨m', h1, h2, h3.trans hfin.2⟩

/-! ## C03 — per-address, per-whitelist and per-stage limits

Projection `VF.limitsOf` (kind, admin, per-address limit, num_tokens, factory maximum, attached whitelist with its kind, the
five counter maps, tokens received); translation `VF.limitsOp` (the `View`, `started`, `pre`, `oldActive`, `newActive`
witnesses of the aspect ops are computed from the composite state); one-step simulation `VF.limits_sim_ok/_err`
(Lemmas/VendingFullLimits.lean).  Governance moving `max_per_address_limit` is the aspect op `govern`.  The aspect model holds the
kind of the attached whitelist contract constant during a case, so the run-level statements are about `StableRun`s: histories in
which the interface does not rebind the attached whitelist's address to another kind (only `wlEnv` can; every message of the
family, `sudo UpdateParams` included, is `EnvStable`: `envStable_of_not_env`). -/

namespace VF

/-- messages other than a whitelist-interface change never move the binding the aspect model holds constant (governance moving
`max_per_address_limit` is the aspect op `govern`) -/
theorem envStable_of_not_env (s : State) (op : Op)
    (hop : match op with | .wlEnv _ _ => False | _ => True) : EnvStable s op := by
  intro m _
  rcases step'_cases s op with ⟨s', hok, hs'⟩ | ⟨_, hs'⟩
  · rw [hs']
    obtain ⟨_, _, _, hw, _⟩ := step_frame hok
    have hw' : s'.wls = s.wls := by
      rcases hw with ⟨k, i, rfl⟩ | hw
      · exact absurd hop (by simp)
      · exact hw
    exact wlBinding_congr hw' rfl
  · rw [hs']

/-- the composite history as an aspect-model history -/
def limitsOps (s : State) : List Op → List MintLimits.Op
  | [] => []
  | op :: rest =>
    (match s.minter with
     | some m => limitsOp s m op
     | none => .env) :: limitsOps (step' s op) rest

def StableRun (s : State) : List Op → Prop
  | [] => True
  | op :: rest => EnvStable s op ∧ StableRun (step' s op) rest

theorem limits_fst_foldl (ops : List MintLimits.Op) (a : MintLimits.State) (evs : List MintLimits.Event) :
    (ops.foldl MintLimits.stepAcc (a, evs)).1 = (ops.foldl MintLimits.stepAcc (a, [])).1 := by
  induction ops generalizing a evs with
  | nil => rfl
  | cons op ops ih =>
    simp only [List.foldl_cons]
    cases h : MintLimits.step a op with
    | error e => simp only [MintLimits.stepAcc, h]; exact ih a evs
    | ok r =>
      obtain ⟨a', e⟩ := r
      simp only [MintLimits.stepAcc, h]
      rw [ih a' (evs ++ [e]), ih a' ([] ++ [e])]

theorem limits_run_cons (a : MintLimits.State) (op : MintLimits.Op) (ops : List MintLimits.Op) :
    (MintLimits.run a (op :: ops)).1 = (MintLimits.run (limStep' a op) ops).1 := by
  simp only [MintLimits.run, List.foldl_cons]
  have : MintLimits.stepAcc (a, []) op = (limStep' a op, (MintLimits.stepAcc (a, []) op).2) := rfl
  rw [this, limits_fst_foldl]

/-- one-step simulation, both outcomes -/
theorem limits_sim (s : State) (m : Minter) (hm : s.minter = some m) (op : Op) (hst : EnvStable s op) :
    ∃ m', (step' s op).minter = some m' ∧ limitsOf (step' s op) m' = limStep' (limitsOf s m) (limitsOp s m op) := by
  rcases step'_cases s op with ⟨s', hok, hs'⟩ | ⟨⟨e, herr⟩, hs'⟩
  · obtain ⟨m', hm', _, _, heq⟩ := limits_sim_ok hm hok hst
    rw [hs']; exact ⟨m', hm', heq⟩
  · rw [hs']; exact ⟨m, hm, (limits_sim_err hm herr).symm⟩

/-- **lift to runs**: the projection of the composite's final state is the final state of the aspect model's run on the
translated history -/
theorem limits_run (s : State) (m : Minter) (hm : s.minter = some m) (ops : List Op) (hst : StableRun s ops) :
    ∃ m', (run s ops).minter = some m' ∧
      limitsOf (run s ops) m' = (MintLimits.run (limitsOf s m) (limitsOps s ops)).1 := by
  induction ops generalizing s m with
  | nil => exact ⟨m, hm, rfl⟩
  | cons op ops ih =>
    obtain ⟨h1, h2⟩ := hst
    obtain ⟨m1, hm1, heq⟩ := limits_sim s m hm op h1
    obtain ⟨m', hm', hrun⟩ := ih (step' s op) m1 hm1 h2
    refine ⟨m', by rw [run_cons]; exact hm', ?_⟩
    rw [run_cons, hrun, heq]
    simp only [limitsOps, hm]
    rw [limits_run_cons]

/-- what `CreateMinter` leaves behind is a `Fresh` aspect state -/
theorem create_fresh {s s' : State} {sender : Addr} {funds : List Coin} {msg : CreateMsg} {w : CreateWit}
    (h : step s (.create sender funds msg w) = .ok s') : ∃ m, s'.minter = some m ∧ Fresh (limitsOf s' m) := by
  simp only [step] at h
  obtain ⟨b1, ms, b2, v, m, _, _, _, _, _, hinst, rfl⟩ := createMinter_ok h
  obtain ⟨wl, trading, sup, ck, _, _, _, _, _, _, _, _, _, _, rfl⟩ := instantiateMinter_ok hinst
  exact ⟨_, rfl, by simp [Fresh, limitsOf, MintLimits.zero]⟩

end VF

/-- the C03 simulation: an accepted composite message IS an accepted aspect op on the projection, with the projected
post-state; a rejected one changes nothing on either side -/
theorem C03_full_refines (s : VF.State) (m : VF.Minter) (hm : s.minter = some m) (op : VF.Op) (hst : VF.EnvStable s op) :
    ∃ m', (VF.step' s op).minter = some m' ∧
      VF.limitsOf (VF.step' s op) m' = VF.limStep' (VF.limitsOf s m) (VF.limitsOp s m op) :=
  VF.limits_sim s m hm op hst

/-- the two independently written whitelist gates agree (composite `is_public_mint` vs `MintLimits.gate`) -/
theorem C03_full_gate_agrees (s : VF.State) (m : VF.Minter) (sender : Addr) (f : MintLimits.Fields) (sv : VF.SenderView)
    (g : VF.MintKind) (h : VF.isPublicMint s m sender f sv = .ok g) :
    ∃ g', MintLimits.gate (VF.limitsOf s m) sender f (VF.mintView s m sv) = .ok g' ∧ VF.GateRel s m g g' :=
  VF.gate_bridge h

/-- Clause 1, one composite step: a `Mint` accepted while no whitelist is active happens only while the sender's stored
public count is strictly below the per-address limit in force, and bumps exactly that counter by one. -/
theorem C03_full_public_step (s s' : VF.State) (m : VF.Minter) (hm : s.minter = some m)
    (sender : Addr) (funds : List Coin) (f : MintLimits.Fields) (sv : VF.SenderView) (picked : Nat)
    (h : VF.step s (.mint sender funds f sv picked) = .ok s')
    (hpub : VF.wlBinding s m = none ∨ (VF.mintView s m sv).active = false) :
    ∃ m', s'.minter = some m' ∧ m.pub sender < m.perAddressLimit ∧ m'.pub sender = m.pub sender + 1 ∧
      ∀ b, b ≠ sender → m'.pub b = m.pub b := by
  obtain ⟨m', hm', e, hstep, heq⟩ := VF.limits_sim_ok hm h (VF.envStable_of_not_env s _ trivial)
  obtain ⟨_, h2, h3, h4⟩ := C03_public_step (VF.limitsOf s m) _ sender f _ _ _ e hstep hpub
  rw [← heq] at h3 h4
  exact ⟨m', hm', h2, h3, h4⟩

/-- Clause 2, one composite step: a `Mint` accepted while the attached whitelist is active is booked on a whitelist
counter that was strictly below the entitlement the whitelist granted (per-address limit / flex `mint_count` /
proof-authenticated allocation), and within the stage's `mint_count_limit`. -/
theorem C03_full_wl_step (s s' : VF.State) (m : VF.Minter) (hm : s.minter = some m)
    (sender : Addr) (funds : List Coin) (f : MintLimits.Fields) (sv : VF.SenderView) (picked : Nat)
    (h : VF.step s (.mint sender funds f sv picked) = .ok s')
    (hwl : ∃ b, VF.wlBinding s m = some b) (hact : (VF.mintView s m sv).active = true) :
    ∃ sid cnt ent tot slim, ∃ e, e = MintLimits.Event.wlMint sender sid cnt ent tot slim ∧
      MintLimits.step (VF.limitsOf s m) (VF.limitsOp s m (.mint sender funds f sv picked)) =
        .ok (VF.limStep' (VF.limitsOf s m) (VF.limitsOp s m (.mint sender funds f sv picked)), e) ∧
      cnt < ent ∧ (∀ L, slim = some L → tot < L) := by
  obtain ⟨m', hm', e, hstep, heq⟩ := VF.limits_sim_ok hm h (VF.envStable_of_not_env s _ trivial)
  rcases step_mint hstep with ⟨hg, _⟩ | ⟨sid, cnt, ent, tot, slim, hg, _, he, _⟩
  · obtain ⟨b, hb⟩ := hwl
    have hbind : (VF.limitsOf s m).wl = some b := hb
    rcases gate_pub hg with h1 | h1
    · rw [hbind] at h1; cases h1
    · rw [hact] at h1; cases h1
  · obtain ⟨id, wk, leaf, _, _, _, _, _, hlt, hz, hnz⟩ := gate_wl hg
    refine ⟨sid, cnt, ent, tot, slim, e, he, hstep, hlt, ?_⟩
    intro L hL
    by_cases hs0 : sid = 0
    · rw [(hz hs0).2] at hL; cases hL
    · exact (hnz hs0).2.2 L hL

/-- counter exactness over composite histories (clause "the counts the minter stores equal the mints that address
initiated"): from the `CreateMinter` on, along every stable history, the stored public counter of `a` equals the number
of public mints and airdrops `a` initiated since the last purge — counted on the aspect-model trace the composite run is. -/
theorem C03_full_counter_exact_public (s : VF.State) (m : VF.Minter) (hm : s.minter = some m)
    (hfresh : Fresh (VF.limitsOf s m)) (ops : List VF.Op) (hst : VF.StableRun s ops) (a : Addr) :
    ∃ m', (VF.run s ops).minter = some m' ∧
      m'.pub a = tally (publicInitiatedBy a) isPurge (MintLimits.run (VF.limitsOf s m) (VF.limitsOps s ops)).2 := by
  obtain ⟨m', hm', heq⟩ := VF.limits_run s m hm ops hst
  refine ⟨m', hm', ?_⟩
  have := C03_counter_exact_public (VF.limitsOf s m) hfresh a (VF.limitsOps s ops)
  rw [← heq] at this
  exact this

/-- History form of clause 1 for composite runs: if `L` bounds the per-address limits in force at the public mints of `a`,
then `a` completed at most `L` public mints since the last purge. -/
theorem C03_full_public_history (s : VF.State) (m : VF.Minter) (hfresh : Fresh (VF.limitsOf s m))
    (ops : List VF.Op) (a : Addr) (L : Nat)
    (hL : ∀ e ∈ (MintLimits.run (VF.limitsOf s m) (VF.limitsOps s ops)).2, publicMintBy a e = true →
      ∃ B, publicLimitOf e = some B ∧ B ≤ L) :
    tally (publicMintBy a) isPurge (MintLimits.run (VF.limitsOf s m) (VF.limitsOps s ops)).2 ≤ L :=
  C03_public_history (VF.limitsOf s m) hfresh a (VF.limitsOps s ops) L hL

/-- History form of clause 3 for composite runs: the stored stage total `WHITELIST_{FS,SS,TS}_MINT_COUNT` never exceeds a
bound on the `mint_count_limit`s that were in force at the stage's mints. -/
theorem C03_full_stage_total_bound (s : VF.State) (m : VF.Minter) (hm : s.minter = some m)
    (hfresh : Fresh (VF.limitsOf s m)) (ops : List VF.Op) (hst : VF.StableRun s ops) (k : Nat) (hk : k ≠ 0) (L : Nat)
    (hL : ∀ e ∈ (MintLimits.run (VF.limitsOf s m) (VF.limitsOps s ops)).2, stageMint k e = true →
      ∃ B, stageLimitOf e = some B ∧ B ≤ L) :
    ∃ m', (VF.run s ops).minter = some m' ∧ m'.tot k ≤ L := by
  obtain ⟨m', hm', heq⟩ := VF.limits_run s m hm ops hst
  refine ⟨m', hm', ?_⟩
  have := C03_stage_total_bound (VF.limitsOf s m) hfresh k hk (VF.limitsOps s ops) L hL
  rw [← heq] at this
  exact this

/-- per-address whitelist counters over composite histories: the plain whitelist counter of `a` is the number of
whitelist mints `a` completed (since the last purge on the flex crates) -/
theorem C03_full_counter_exact_wl (s : VF.State) (m : VF.Minter) (hm : s.minter = some m)
    (hfresh : Fresh (VF.limitsOf s m)) (ops : List VF.Op) (hst : VF.StableRun s ops) (a : Addr) :
    ∃ m', (VF.run s ops).minter = some m' ∧
      m'.wlc a = tally (wlMintBy a 0) (fun e => isPurge e && decide (m.v.flavor = .flex))
        (MintLimits.run (VF.limitsOf s m) (VF.limitsOps s ops)).2 := by
  obtain ⟨m', hm', heq⟩ := VF.limits_run s m hm ops hst
  refine ⟨m', hm', ?_⟩
  have := C03_counter_exact_wl (VF.limitsOf s m) hfresh a (VF.limitsOps s ops)
  rw [← heq] at this
  simpa [VF.limitsOf, VF.kind_flavor] using this

/-! ## C02 — a mint charges exactly the price and disburses all of it

Projection `VF.payOf` (variant, fee parameters, admin / payment address / prices / whitelist record, the bank, the clock);
translation `VF.payOps` (list-valued: the core aspect op followed by a re-synthesis of the whitelist record from the
interface); one-step simulation `VF.pay_sim_ok/_err` (Lemmas/VendingFullPay.lean) for every message except `Shuffle` — the
aspect model has no operation for the shuffle fee (it is about mints), so run-level statements are about histories without
`Shuffle`; the per-mint statements hold in every state. -/

namespace VF

def NoShuffle (ops : List Op) : Prop := ∀ op ∈ ops, ∀ sender funds perm, op ≠ .shuffle sender funds perm

/-- the composite history as an aspect-model history -/
def payRunOps (s : State) : List Op → List MintPay.Op
  | [] => []
  | op :: rest => payOps s op ++ payRunOps (step' s op) rest

theorem pay_sim (s : State) (m : Minter) (hm : s.minter = some m) (op : Op)
    (hop : ∀ sender funds perm, op ≠ .shuffle sender funds perm) :
    ∃ m', (step' s op).minter = some m' ∧ payOf (step' s op) m' = MintPay.run (payOf s m) (payOps s op) := by
  rcases step'_cases s op with ⟨s', hok, hs'⟩ | ⟨⟨e, herr⟩, hs'⟩
  · obtain ⟨m', hm', heq⟩ := pay_sim_ok hm hok hop
    rw [hs']; exact ⟨m', hm', heq⟩
  · rw [hs']; exact ⟨m, hm, (pay_sim_err hm herr).symm⟩

theorem pay_run (s : State) (m : Minter) (hm : s.minter = some m) (ops : List Op) (hns : NoShuffle ops) :
    ∃ m', (run s ops).minter = some m' ∧ payOf (run s ops) m' = MintPay.run (payOf s m) (payRunOps s ops) := by
  induction ops generalizing s m with
  | nil => exact ⟨m, hm, rfl⟩
  | cons op ops ih =>
    obtain ⟨m1, hm1, heq⟩ := pay_sim s m hm op (hns op (List.mem_cons_self ..))
    obtain ⟨m', hm', hrun⟩ := ih (step' s op) m1 hm1 (fun o ho => hns o (List.mem_cons_of_mem _ ho))
    refine ⟨m', by rw [run_cons]; exact hm', ?_⟩
    rw [run_cons, hrun, heq]
    simp only [payRunOps]
    rw [pay_run_append]

/-- an accepted `Mint` / `MintTo` / `MintFor`, as the aspect model's `mint` on the projected world -/
theorem mint_is_pay_mint {s s' : State} {m : Minter} {op : Op} (hm : s.minter = some m) (h : step s op = .ok s')
    (sender : Addr) (funds : List Coin) (isAdmin : Bool)
    (hop : (∃ f sv p, op = .mint sender funds f sv p ∧ isAdmin = false) ∨
           (∃ r p, op = .mintTo sender funds r p ∧ isAdmin = true) ∨
           (∃ id r, op = .mintFor sender funds id r ∧ isAdmin = true)) :
    MintPay.mint (payOf s m) sender isAdmin funds true = .ok { payOf s m with bank := s'.bank } ∧
    ∃ price, mintPrice s m isAdmin = .ok price := by
  rcases hop with ⟨f, sv, p, rfl, rfl⟩ | ⟨r, p, rfl, rfl⟩ | ⟨id, r, rfl, rfl⟩
  · simp only [step] at h
    obtain ⟨m0, hm0, h⟩ := withMinterS_ok h
    rw [hm] at hm0; cases hm0
    obtain ⟨b1, g, _, hb1, _, _, h⟩ := mintSender_ok h
    obtain ⟨price, _, _, _, _, hp, _⟩ := executeMint_ok h
    exact ⟨executeMint_pay hb1 h, price, hp⟩
  · simp only [step] at h
    obtain ⟨m0, hm0, h⟩ := withMinterS_ok h
    rw [hm] at hm0; cases hm0
    obtain ⟨b1, hb1, _, h⟩ := mintAdmin_ok h
    obtain ⟨price, _, _, _, _, hp, _⟩ := executeMint_ok h
    exact ⟨executeMint_pay hb1 h, price, hp⟩
  · simp only [step] at h
    obtain ⟨m0, hm0, h⟩ := withMinterS_ok h
    rw [hm] at hm0; cases hm0
    obtain ⟨b1, hb1, _, h⟩ := mintAdmin_ok h
    obtain ⟨price, _, _, _, _, hp, _⟩ := executeMint_ok h
    exact ⟨executeMint_pay hb1 h, price, hp⟩

/-- who a composite op moves money for, as far as the minter's own balance is concerned -/
def PayAway (mi : Addr) : Op → Prop
  | .fund a _ => a ≠ mi
  | .mint sender _ _ _ _ => sender ≠ mi
  | .mintTo sender _ _ _ => sender ≠ mi
  | .mintFor sender _ _ _ => sender ≠ mi
  | _ => True

theorem payOps_away (s : State) (op : Op) (mi : Addr) (v : MintPay.Variant) (hv : v.family = .vending)
    (h : PayAway mi op) (hdao : LAUNCHPAD_DAO ≠ mi) : ∀ o ∈ payOps s op, LP.OpAway mi v o := by
  intro o ho
  simp only [payOps, List.mem_append] at ho
  rcases ho with ho | ho
  · cases op <;> simp only [payCore] at ho
    case setTime t => split at ho <;> simp at ho; subst ho; trivial
    case fund a c => simp at ho; subst ho; exact h
    case mint sender funds f sv p => simp at ho; subst ho; exact ⟨h, Or.inl (by simp [hv])⟩
    case mintTo sender funds r p => simp at ho; subst ho; exact ⟨h, Or.inl (by simp [hv])⟩
    case mintFor sender funds id r => simp at ho; subst ho; exact ⟨h, Or.inl (by simp [hv])⟩
    case updateMintPrice sender funds p => simp at ho; subst ho; trivial
    case updateDiscountPrice sender funds p => simp at ho; subst ho; trivial
    case removeDiscountPrice sender funds => simp at ho; subst ho; trivial
    case sudoParams u => split at ho <;> simp at ho; subst ho; exact hdao
    all_goals simp at ho
  · split at ho
    · rename_i m' _
      unfold resync at ho
      split at ho
      · simp at ho
      · simp at ho; subst ho; trivial
    · simp at ho

theorem payRunOps_away (s : State) (ops : List Op) (mi : Addr) (v : MintPay.Variant) (hv : v.family = .vending)
    (h : ∀ op ∈ ops, PayAway mi op) (hdao : LAUNCHPAD_DAO ≠ mi) : ∀ o ∈ payRunOps s ops, LP.OpAway mi v o := by
  induction ops generalizing s with
  | nil => intro o ho; simp [payRunOps] at ho
  | cons op ops ih =>
    intro o ho
    simp only [payRunOps, List.mem_append] at ho
    rcases ho with ho | ho
    · exact payOps_away s op mi v hv (h op (List.mem_cons_self ..)) hdao o ho
    · exact ih (step' s op) (fun x hx => h x (List.mem_cons_of_mem _ hx)) o ho

end VF

/-- the C02 simulation: one composite step (any message but `Shuffle`) = the translated aspect ops on the projection -/
theorem C02_full_refines (s : VF.State) (m : VF.Minter) (hm : s.minter = some m) (op : VF.Op)
    (hop : ∀ sender funds perm, op ≠ .shuffle sender funds perm) :
    ∃ m', (VF.step' s op).minter = some m' ∧
      VF.payOf (VF.step' s op) m' = MintPay.run (VF.payOf s m) (VF.payOps s op) :=
  VF.pay_sim s m hm op hop

/-- "A mint (public, whitelist or airdrop) succeeds only if the caller attaches exactly the price currently in force for
that kind of mint, in the right denom (nothing when the price is zero)" — every accepted composite `Mint`, `MintTo`, `MintFor` -/
theorem C02_full_exact_payment (s s' : VF.State) (m : VF.Minter) (op : VF.Op) (hm : s.minter = some m)
    (h : VF.step s op = .ok s') (sender : Addr) (funds : List Coin) (isAdmin : Bool)
    (hop : (∃ f sv p, op = .mint sender funds f sv p ∧ isAdmin = false) ∨
           (∃ r p, op = .mintTo sender funds r p ∧ isAdmin = true) ∨
           (∃ id r, op = .mintFor sender funds id r ∧ isAdmin = true)) :
    ∃ price, VF.mintPrice s m isAdmin = .ok price ∧ funds = LP.exactFunds price := by
  obtain ⟨hmint, price, hp⟩ := VF.mint_is_pay_mint hm h sender funds isAdmin hop
  obtain ⟨price', hsel, hf⟩ := C02_exact_payment (VF.payOf s m) _ sender isAdmin funds true (Or.inl rfl) hmint
  have := VF.mintPrice_eq hp
  rw [show (VF.payOf s m).v = VF.payVariant m.v from rfl, show (VF.payOf s m).f = VF.payFactory s.params from rfl,
    show (VF.payOf s m).m = VF.payMinter s m from rfl, show (VF.payOf s m).now = s.now from rfl, this] at hsel
  cases hsel
  exact ⟨price, hp, hf⟩

/-- "the network fee is paid to the protocol fee recipients according to the fee schedule, the rest goes to the configured
payment address (or the creator)": the composite's bank after an accepted mint is the bank after (1) the funds reach
the minter, (2) `distribute_mint_fees(fee, featured, None)`, (3) one send of `price − fee` to the seller — nothing else. -/
theorem C02_full_fee_routing (s s' : VF.State) (m : VF.Minter) (op : VF.Op) (hm : s.minter = some m)
    (h : VF.step s op = .ok s') (sender : Addr) (funds : List Coin) (isAdmin : Bool)
    (hop : (∃ f sv p, op = .mint sender funds f sv p ∧ isAdmin = false) ∨
           (∃ r p, op = .mintTo sender funds r p ∧ isAdmin = true) ∨
           (∃ id r, op = .mintFor sender funds id r ∧ isAdmin = true)) :
    ∃ price b1, VF.mintPrice s m isAdmin = .ok price ∧
      s.bank.sendFunds sender m.addr (LP.exactFunds price) = some b1 ∧
      VF.networkFee s.params isAdmin price ≤ price.amount ∧
      MintPay.applyMsgs m.addr b1
        ((if VF.networkFee s.params isAdmin price = 0 then []
          else Sg1.distributeMintFees ⟨price.denom, VF.networkFee s.params isAdmin price⟩ m.v.featured none) ++
         (if price.amount - VF.networkFee s.params isAdmin price = 0 then []
          else [Msg.send (VF.seller m) ⟨price.denom, price.amount - VF.networkFee s.params isAdmin price⟩])) = some s'.bank := by
  obtain ⟨hmint, price, hp⟩ := VF.mint_is_pay_mint hm h sender funds isAdmin hop
  obtain ⟨price', b1, hsel, hb1, hle, happ⟩ :=
    C02_fee_routing (VF.payOf s m) _ sender isAdmin funds true (Or.inl rfl) hmint
  have := VF.mintPrice_eq hp
  rw [show (VF.payOf s m).v = VF.payVariant m.v from rfl, show (VF.payOf s m).f = VF.payFactory s.params from rfl,
    show (VF.payOf s m).m = VF.payMinter s m from rfl, show (VF.payOf s m).now = s.now from rfl, this] at hsel
  cases hsel
  exact ⟨price, b1, hp, hb1, hle, happ⟩

/-- "the minter contract's own balance is unchanged, so no coins are stranded" — every accepted composite mint whose payer
is not the minter itself, every denom -/
theorem C02_full_minter_balance_unchanged (s s' : VF.State) (m : VF.Minter) (op : VF.Op) (hm : s.minter = some m)
    (h : VF.step s op = .ok s') (sender : Addr) (funds : List Coin) (isAdmin : Bool)
    (hop : (∃ f sv p, op = .mint sender funds f sv p ∧ isAdmin = false) ∨
           (∃ r p, op = .mintTo sender funds r p ∧ isAdmin = true) ∨
           (∃ id r, op = .mintFor sender funds id r ∧ isAdmin = true))
    (hsm : sender ≠ m.addr)
    (hrec : m.addr ∉ MintPay.recipients (VF.payVariant m.v) (VF.payFactory s.params) (VF.payMinter s m)) (d : Denom) :
    s'.bank.bal m.addr d = s.bank.bal m.addr d := by
  obtain ⟨hmint, _⟩ := VF.mint_is_pay_mint hm h sender funds isAdmin hop
  exact C02_minter_balance_unchanged (VF.payOf s m) _ sender isAdmin funds true hmint
    (Or.inl (by simp [VF.payOf, VF.payVariant])) hsm hrec d

/-- "no coins are created, lost or stranded" by an accepted composite mint: over any duplicate-free account list containing
the parties, balances + burned is unchanged in every denom, and a sale burns nothing -/
theorem C02_full_conservation (s s' : VF.State) (m : VF.Minter) (op : VF.Op) (hm : s.minter = some m)
    (h : VF.step s op = .ok s') (sender : Addr) (funds : List Coin) (isAdmin : Bool)
    (hop : (∃ f sv p, op = .mint sender funds f sv p ∧ isAdmin = false) ∨
           (∃ r p, op = .mintTo sender funds r p ∧ isAdmin = true) ∨
           (∃ id r, op = .mintFor sender funds id r ∧ isAdmin = true))
    (accts : List Addr) (hn : accts.Nodup) (hsnd : sender ∈ accts) (hmin : m.addr ∈ accts)
    (hrec : ∀ a ∈ MintPay.recipients (VF.payVariant m.v) (VF.payFactory s.params) (VF.payMinter s m), a ∈ accts)
    (d : Denom) :
    s'.bank.total accts d + s'.bank.burned d = s.bank.total accts d + s.bank.burned d ∧
    s'.bank.minted d = s.bank.minted d ∧ s'.bank.burned d = s.bank.burned d := by
  obtain ⟨hmint, _⟩ := VF.mint_is_pay_mint hm h sender funds isAdmin hop
  obtain ⟨h1, h2, h3⟩ := C02_conservation (VF.payOf s m) _ sender isAdmin funds true accts hn hsnd hmin hrec hmint d
  exact ⟨h1, h2, h3 (by simp [VF.payOf, VF.payVariant])⟩

/-- "the minter contract's own balance is unchanged" after ANY composite history without `Shuffle` (mints with any funds,
accepted or not, price / discount / whitelist / governance changes, clock steps, whitelist-interface changes, collection
messages), as long as nobody funds the minter directly and the minter is not its own payer or payee -/
theorem C02_full_history_minter_never_holds (s : VF.State) (m : VF.Minter) (hm : s.minter = some m) (ops : List VF.Op)
    (hns : VF.NoShuffle ops) (haway : ∀ op ∈ ops, VF.PayAway m.addr op)
    (hrec : m.addr ∉ MintPay.recipients (VF.payVariant m.v) (VF.payFactory s.params) (VF.payMinter s m)) (d : Denom) :
    (VF.run s ops).bank.bal m.addr d = s.bank.bal m.addr d := by
  obtain ⟨m', _, heq⟩ := VF.pay_run s m hm ops hns
  have hdao : LAUNCHPAD_DAO ≠ m.addr := by
    intro hx; apply hrec; rw [← hx]; simp [MintPay.recipients]
  have := C02_history_minter_never_holds (VF.payOf s m) (VF.payRunOps s ops) hrec
    (VF.payRunOps_away s ops m.addr (VF.payVariant m.v) rfl haway hdao) d
  rw [← heq] at this
  exact this

/-! ## C07 — price rules

Projection `VF.priceOf` onto the whitelist-free part of `PriceRules.World` (variant flags, clock, factory minimum and
airdrop price, public price, discount, `LAST_DISCOUNT_TIME`, start time); translation `VF.priceOps` (forward simulation
with stuttering: an accepted composite message is the accepted aspect op, a rejected one is no aspect op; `SetWhitelist`,
mints and whitelist-interface changes are not translated because the aspect model's whitelists are immutable fixed-window
records — see Lemmas/VendingFullPrice.lean). -/

namespace VF

/-- an ACCEPTED composite message acts on the projection as the translated aspect ops (all of which are accepted) -/
theorem price_sim_ok {s s' : State} {m : Minter} {op : Op} (hm : s.minter = some m) (h : step s op = .ok s') :
    ∃ m', s'.minter = some m' ∧ PriceRules.run (priceOf s m) (priceOps s op) = priceOf s' m' := by
  have hacc := accepted_of_ok h
  cases op with
  | setTime t =>
    simp only [step] at h; split at h <;> cases h
    exact ⟨m, hm, by simp [priceOps, hacc, PriceRules.run, PriceRules.step', PriceRules.step, priceOf]⟩
  | fund a c =>
    simp only [step] at h; cases h
    exact ⟨m, hm, by simp [priceOps, hacc, PriceRules.run]; rfl⟩
  | wlEnv k i =>
    simp only [step] at h; cases h
    exact ⟨m, hm, by simp [priceOps, hacc, PriceRules.run]; rfl⟩
  | sudoParams u =>
    simp only [step] at h
    split at h
    · cases h
    · rename_i p hp
      cases h
      exact ⟨m, hm, by simp only [priceOps, hacc, if_true]; exact price_sudo hp⟩
  | create sender funds msg w =>
    simp only [step] at h
    obtain ⟨_, _, _, _, _, hnone, _⟩ := createMinter_ok h
    rw [hm] at hnone; cases hnone
  | instantiateDirect sender => simp [step] at h
  | mint sender funds f sv picked =>
    simp only [step] at h
    obtain ⟨m0, hm0, h⟩ := withMinterS_ok h
    rw [hm] at hm0; cases hm0
    obtain ⟨b1, g, _, _, _, _, h⟩ := mintSender_ok h
    obtain ⟨price, ms, sup, b2, _, _, _, _, _, _, _, rfl⟩ := executeMint_ok h
    refine ⟨_, rfl, ?_⟩
    simp only [priceOps, hacc, if_true, PriceRules.run, List.foldl_nil]
    cases g with
    | pub => rfl
    | wl sid cnt => simp only [priceOf, priceMinter, bookCount]; split <;> rfl
  | mintTo sender funds rcpt picked =>
    simp only [step] at h
    obtain ⟨m0, hm0, h⟩ := withMinterS_ok h
    rw [hm] at hm0; cases hm0
    obtain ⟨b1, _, _, h⟩ := mintAdmin_ok h
    obtain ⟨price, ms, sup, b2, _, _, _, _, _, _, _, rfl⟩ := executeMint_ok h
    exact ⟨_, rfl, by simp [priceOps, hacc, PriceRules.run]; rfl⟩
  | mintFor sender funds id rcpt =>
    simp only [step] at h
    obtain ⟨m0, hm0, h⟩ := withMinterS_ok h
    rw [hm] at hm0; cases hm0
    obtain ⟨b1, _, _, h⟩ := mintAdmin_ok h
    obtain ⟨price, ms, sup, b2, _, _, _, _, _, _, _, rfl⟩ := executeMint_ok h
    exact ⟨_, rfl, by simp [priceOps, hacc, PriceRules.run]; rfl⟩
  | shuffle sender funds perm =>
    simp only [step] at h
    obtain ⟨m0, hm0, h⟩ := withMinterS_ok h
    rw [hm] at hm0; cases hm0
    obtain ⟨b1, ms, sup, b2, _, _, _, _, rfl⟩ := shuffle_ok h
    exact ⟨_, rfl, by simp [priceOps, hacc, PriceRules.run]; rfl⟩
  | updateMintPrice sender funds p =>
    simp only [step] at h
    obtain ⟨m0, m', hm0, hf, rfl⟩ := withMinter_ok h
    rw [hm] at hm0; cases hm0
    refine ⟨_, rfl, ?_⟩
    simp only [priceOps, hacc, if_true, price_run_one]
    exact price_step'_ok (price_updateMintPrice hf)
  | updateDiscountPrice sender funds p =>
    simp only [step] at h
    obtain ⟨m0, m', hm0, hf, rfl⟩ := withMinter_ok h
    rw [hm] at hm0; cases hm0
    refine ⟨_, rfl, ?_⟩
    simp only [priceOps, hacc, if_true, price_run_one]
    exact price_step'_ok (price_updateDiscount hf)
  | removeDiscountPrice sender funds =>
    simp only [step] at h
    obtain ⟨m0, m', hm0, hf, rfl⟩ := withMinter_ok h
    rw [hm] at hm0; cases hm0
    refine ⟨_, rfl, ?_⟩
    simp only [priceOps, hacc, if_true, price_run_one]
    exact price_step'_ok (price_removeDiscount hf)
  | updateStartTime sender funds t =>
    simp only [step] at h
    obtain ⟨m0, m', hm0, hf, rfl⟩ := withMinter_ok h
    rw [hm] at hm0; cases hm0
    refine ⟨_, rfl, ?_⟩
    simp only [priceOps, hacc, if_true, price_run_one]
    exact price_step'_ok (price_updateStart hf)
  | setWhitelist sender funds wl valid =>
    simp only [step] at h
    obtain ⟨m0, m', hm0, hf, rfl⟩ := withMinter_ok h
    rw [hm] at hm0; cases hm0
    obtain ⟨_, _, _, _, _, _, _, _, _, _, _, rfl⟩ := setWhitelist_ok hf
    exact ⟨_, rfl, by simp [priceOps, hacc, PriceRules.run]; rfl⟩
  | purge sender funds =>
    simp only [step] at h
    obtain ⟨m0, m', hm0, hf, rfl⟩ := withMinter_ok h
    rw [hm] at hm0; cases hm0
    obtain ⟨_, _, rfl⟩ := purge_ok hf
    exact ⟨_, rfl, by simp [priceOps, hacc, PriceRules.run]; rfl⟩
  | updateStartTradingTime sender funds t =>
    simp only [step] at h
    obtain ⟨m0, m', hm0, hf, rfl⟩ := withMinter_ok h
    rw [hm] at hm0; cases hm0
    obtain ⟨_, _, _, _, _, rfl⟩ := updateStartTradingTime_ok hf
    exact ⟨_, rfl, by simp [priceOps, hacc, PriceRules.run]; rfl⟩
  | updatePerAddressLimit sender funds n =>
    simp only [step] at h
    obtain ⟨m0, m', hm0, hf, rfl⟩ := withMinter_ok h
    rw [hm] at hm0; cases hm0
    obtain ⟨_, _, _, _, _, rfl⟩ := updatePerAddressLimit_ok hf
    exact ⟨_, rfl, by simp [priceOps, hacc, PriceRules.run]; rfl⟩
  | burnRemaining sender funds =>
    simp only [step] at h
    obtain ⟨m0, m', hm0, hf, rfl⟩ := withMinter_ok h
    rw [hm] at hm0; cases hm0
    obtain ⟨_, _, _, _, rfl⟩ := burnRemaining_ok hf
    exact ⟨_, rfl, by simp [priceOps, hacc, PriceRules.run]; rfl⟩
  | sudoStatus v b e =>
    simp only [step] at h
    obtain ⟨m0, m', hm0, hf, rfl⟩ := withMinter_ok h
    rw [hm] at hm0; cases hm0
    cases hf
    exact ⟨_, rfl, by simp [priceOps, hacc, PriceRules.run]; rfl⟩
  | collTransfer sender id to =>
    simp only [step] at h
    obtain ⟨m0, m', hm0, hf, rfl⟩ := withMinter_ok h
    rw [hm] at hm0; cases hm0
    obtain ⟨_, _, _, _, rfl⟩ := collTransfer_ok hf
    exact ⟨_, rfl, by simp [priceOps, hacc, PriceRules.run]; rfl⟩
  | collBurn sender id =>
    simp only [step] at h
    obtain ⟨m0, m', hm0, hf, rfl⟩ := withMinter_ok h
    rw [hm] at hm0; cases hm0
    obtain ⟨_, _, _, rfl⟩ := collBurn_ok hf
    exact ⟨_, rfl, by simp [priceOps, hacc, PriceRules.run]; rfl⟩
  | collTrading sender t =>
    simp only [step] at h
    obtain ⟨m0, c, hm0, _, rfl⟩ := onColl_ok h
    rw [hm] at hm0; cases hm0
    exact ⟨_, rfl, by simp [priceOps, hacc, PriceRules.run]; rfl⟩
  | collCreator sender new =>
    simp only [step] at h
    obtain ⟨m0, c, hm0, _, rfl⟩ := onColl_ok h
    rw [hm] at hm0; cases hm0
    exact ⟨_, rfl, by simp [priceOps, hacc, PriceRules.run]; rfl⟩
  | collFreeze sender =>
    simp only [step] at h
    obtain ⟨m0, c, hm0, _, rfl⟩ := onColl_ok h
    rw [hm] at hm0; cases hm0
    exact ⟨_, rfl, by simp [priceOps, hacc, PriceRules.run]; rfl⟩
  | collOwn sender a =>
    simp only [step] at h
    obtain ⟨m0, c, hm0, _, rfl⟩ := onColl_ok h
    rw [hm] at hm0; cases hm0
    exact ⟨_, rfl, by simp [priceOps, hacc, PriceRules.run]; rfl⟩

/-- one-step simulation, both outcomes -/
theorem price_sim (s : State) (m : Minter) (hm : s.minter = some m) (op : Op) :
    ∃ m', (step' s op).minter = some m' ∧ PriceRules.run (priceOf s m) (priceOps s op) = priceOf (step' s op) m' := by
  rcases step'_cases s op with ⟨s', hok, hs'⟩ | ⟨⟨e, herr⟩, hs'⟩
  · obtain ⟨m', hm', heq⟩ := price_sim_ok hm hok
    rw [hs']; exact ⟨m', hm', heq⟩
  · rw [hs']
    exact ⟨m, hm, by simp [priceOps, accepted_of_err herr, PriceRules.run]⟩

def priceRunOps (s : State) : List Op → List PriceRules.Op
  | [] => []
  | op :: rest => priceOps s op ++ priceRunOps (step' s op) rest

theorem price_run_append (w : PriceRules.World) (a b : List PriceRules.Op) :
    PriceRules.run w (a ++ b) = PriceRules.run (PriceRules.run w a) b := by
  simp [PriceRules.run, List.foldl_append]

/-- **lift to runs** -/
theorem price_run (s : State) (m : Minter) (hm : s.minter = some m) (ops : List Op) :
    ∃ m', (run s ops).minter = some m' ∧ PriceRules.run (priceOf s m) (priceRunOps s ops) = priceOf (run s ops) m' := by
  induction ops generalizing s m with
  | nil => exact ⟨m, hm, rfl⟩
  | cons op ops ih =>
    obtain ⟨m1, hm1, heq⟩ := price_sim s m hm op
    obtain ⟨m', hm', hrun⟩ := ih (step' s op) m1 hm1
    refine ⟨m', by rw [run_cons]; exact hm', ?_⟩
    simp only [priceRunOps]
    rw [price_run_append, heq, hrun, run_cons]

end VF

/-- the C07 simulation: one composite step = the translated aspect ops on the projection -/
theorem C07_full_refines (s : VF.State) (m : VF.Minter) (hm : s.minter = some m) (op : VF.Op) :
    ∃ m', (VF.step' s op).minter = some m' ∧
      PriceRules.run (VF.priceOf s m) (VF.priceOps s op) = VF.priceOf (VF.step' s op) m' :=
  VF.price_sim s m hm op

/-- Clause 1 (floor) at creation: an accepted `CreateMinter` has its price in the denom of the factory minimum and at least
that minimum; the discount starts empty and `LAST_DISCOUNT_TIME` is anchored 12 h back, never after the start -/
theorem C07_full_create_floor (s s' : VF.State) (sender : Addr) (funds : List Coin) (msg : VF.CreateMsg) (w : VF.CreateWit)
    (h : VF.step s (.create sender funds msg w) = .ok s') :
    s.params.minMintPrice.amount ≤ msg.mintPrice.amount ∧
    ∃ m', s'.minter = some m' ∧ m'.mintPrice = msg.mintPrice ∧ m'.discountPrice = none ∧
      m'.lastDiscount + PriceRules.H12 = s.now ∧ s.now ≤ m'.startTime := by
  obtain ⟨v, m', _, hm', hstep⟩ := VF.price_create h
  have hfloor := C07_floor (VF.priceInit s v) _ _ msg.mintPrice hstep rfl
  obtain ⟨m1, hm1, ha, hd, hst⟩ := C07_instantiate_anchor (VF.priceInit s v) _ _ _ _ _ _ _ rfl hstep
  obtain ⟨hc, _⟩ := C07_floor_effect (VF.priceInit s v) _ _ hstep
  obtain ⟨m2, hm2, hp, _⟩ := hc _ _ _ _ _ _ rfl
  simp only [VF.priceOf, Option.some.injEq] at hm1 hm2
  subst hm1 hm2
  exact ⟨hfloor, m', hm', hp, hd, ha, hst⟩

/-- Clause 1 (floor) for `UpdateMintPrice` / `UpdateDiscountPrice`: an accepted one sets a price at least the factory
minimum in force at that moment -/
theorem C07_full_floor (s s' : VF.State) (m : VF.Minter) (hm : s.minter = some m) (sender : Addr) (funds : List Coin) (p : Nat)
    (h : VF.step s (.updateMintPrice sender funds p) = .ok s' ∨ VF.step s (.updateDiscountPrice sender funds p) = .ok s') :
    s.params.minMintPrice.amount ≤ p := by
  rcases h with h | h
  · simp only [VF.step] at h
    obtain ⟨m0, m', hm0, hf, rfl⟩ := VF.withMinter_ok h
    rw [hm] at hm0; cases hm0
    exact C07_floor (VF.priceOf s m) _ _ ⟨m.mintPrice.denom, p⟩ (VF.price_updateMintPrice hf) rfl
  · simp only [VF.step] at h
    obtain ⟨m0, m', hm0, hf, rfl⟩ := VF.withMinter_ok h
    rw [hm] at hm0; cases hm0
    exact C07_floor (VF.priceOf s m) _ _ ⟨m.mintPrice.denom, p⟩ (VF.price_updateDiscount hf) rfl

/-- Clause 1 (floor) for `SetWhitelist` — proved on the composite directly (the aspect model's immutable whitelists cannot
represent the interface): an accepted `SetWhitelist` attaches a whitelist whose price is at least the factory minimum, in
the factory's denom (and, except on the two flex crates, in the minter's own denom) -/
theorem C07_full_set_whitelist_floor (s s' : VF.State) (m : VF.Minter) (hm : s.minter = some m) (sender : Addr)
    (funds : List Coin) (wl : Addr) (valid : Bool) (h : VF.step s (.setWhitelist sender funds wl valid) = .ok s') :
    ∃ i, VF.wlConfig s m.v wl = .ok i ∧ s.params.minMintPrice.amount ≤ i.price.amount ∧
      s.params.minMintPrice.denom = i.price.denom ∧ (m.v.isFlex = false → i.price.denom = m.mintPrice.denom) := by
  simp only [VF.step] at h
  obtain ⟨m0, m', hm0, hf, rfl⟩ := VF.withMinter_ok h
  rw [hm] at hm0; cases hm0
  obtain ⟨i, _, _, _, _, _, hi, _, hden, hamt, hfd, _⟩ := VF.setWhitelist_ok hf
  exact ⟨i, hi, hamt, hfd, hden⟩

/-- Clause 2: "once the mint has started the public price can only be lowered" -/
theorem C07_full_only_lower_after_start (s s' : VF.State) (m : VF.Minter) (hm : s.minter = some m) (sender : Addr)
    (funds : List Coin) (p : Nat) (hstarted : m.startTime ≤ s.now)
    (h : VF.step s (.updateMintPrice sender funds p) = .ok s') :
    p < m.mintPrice.amount ∧ ∃ m', s'.minter = some m' ∧ m'.mintPrice = ⟨m.mintPrice.denom, p⟩ := by
  simp only [VF.step] at h
  obtain ⟨m0, m', hm0, hf, rfl⟩ := VF.withMinter_ok h
  rw [hm] at hm0; cases hm0
  obtain ⟨hlt, m1, hm1, hp⟩ := C07_only_lower_after_start (VF.priceOf s m) _ sender _ p (VF.priceMinter m) rfl hstarted
    (VF.price_updateMintPrice hf)
  simp only [VF.priceOf, Option.some.injEq] at hm1
  subst hm1
  exact ⟨hlt, m', rfl, hp⟩

/-- Clause 3: "a discount can be set only after the start, never above the public price, no sooner than 12 hours after the
previous discount change", at least the factory minimum, by the admin; the anchor moves to `now` -/
theorem C07_full_discount_rules_update (s s' : VF.State) (m : VF.Minter) (hm : s.minter = some m) (sender : Addr)
    (funds : List Coin) (p : Nat) (h : VF.step s (.updateDiscountPrice sender funds p) = .ok s') :
    ∃ m', s'.minter = some m' ∧ m.startTime ≤ s.now ∧ p ≤ m.mintPrice.amount ∧
      m.lastDiscount + 12 * 60 * 60 * 1000000000 ≤ s.now ∧ s.params.minMintPrice.amount ≤ p ∧ sender = m.admin ∧
      m'.discountPrice = some ⟨m.mintPrice.denom, p⟩ ∧ m'.lastDiscount = s.now ∧ m'.mintPrice = m.mintPrice := by
  simp only [VF.step] at h
  obtain ⟨m0, m', hm0, hf, rfl⟩ := VF.withMinter_ok h
  rw [hm] at hm0; cases hm0
  obtain ⟨m1, m2, hm1, hm2, h1, h2, h3, h4, h5, h6, h7, h8⟩ :=
    C07_discount_rules_update (VF.priceOf s m) _ sender _ p (VF.price_updateDiscount hf)
  simp only [VF.priceOf, Option.some.injEq] at hm1 hm2
  subst hm1 hm2
  exact ⟨m', rfl, h1, h2, h3, h4, h5, h6, h7, h8⟩

/-- "… and removed no sooner than one hour after it" -/
theorem C07_full_discount_rules_remove (s s' : VF.State) (m : VF.Minter) (hm : s.minter = some m) (sender : Addr)
    (funds : List Coin) (h : VF.step s (.removeDiscountPrice sender funds) = .ok s') :
    ∃ m', s'.minter = some m' ∧ m.lastDiscount + 60 * 60 * 1000000000 ≤ s.now ∧ sender = m.admin ∧
      m'.discountPrice = none ∧ m'.lastDiscount = s.now ∧ m'.mintPrice = m.mintPrice := by
  simp only [VF.step] at h
  obtain ⟨m0, m', hm0, hf, rfl⟩ := VF.withMinter_ok h
  rw [hm] at hm0; cases hm0
  obtain ⟨m1, m2, hm1, hm2, h1, h2, h3, h4, h5⟩ :=
    C07_discount_rules_remove (VF.priceOf s m) _ sender _ (VF.price_removeDiscount hf)
  simp only [VF.priceOf, Option.some.injEq] at hm1 hm2
  subst hm1 hm2
  exact ⟨m', rfl, h1, h2, h3, h4, h5⟩

/-- history form of the cooldown for composite runs: in EVERY composite history each accepted `UpdateDiscountPrice` comes
at least 12 h, each accepted `RemoveDiscountPrice` at least 1 h, after the previous accepted discount change -/
theorem C07_full_discount_cooldown_history (s : VF.State) (m : VF.Minter) (ops : List VF.Op) :
    CooldownOk (discEvents (VF.priceOf s m) (VF.priceRunOps s ops)) :=
  C07_discount_cooldown_history _ _

/-- Clause 4 invariant over composite histories: from a state in which the standing discount (if any) is at most the
public price — in particular right after `CreateMinter`, which leaves no discount — every later state has
`discount ≤ public price`, in the same denom -/
theorem C07_full_discount_le_public (s : VF.State) (m : VF.Minter) (hm : s.minter = some m)
    (h0 : ∀ d, m.discountPrice = some d → d.amount ≤ m.mintPrice.amount ∧ d.denom = m.mintPrice.denom)
    (ops : List VF.Op) (m' : VF.Minter) (hm' : (VF.run s ops).minter = some m') (d : Coin)
    (hd : m'.discountPrice = some d) : d.amount ≤ m'.mintPrice.amount ∧ d.denom = m'.mintPrice.denom := by
  obtain ⟨m1, hm1, heq⟩ := VF.price_run s m hm ops
  rw [hm'] at hm1; cases hm1
  have hinv : DiscInv (VF.priceOf s m) := by
    intro mm dd hmm hdd
    simp only [VF.priceOf, Option.some.injEq] at hmm
    subst hmm
    exact h0 dd hdd
  have := discInv_run _ (VF.priceRunOps s ops) hinv
  rw [heq] at this
  exact this (VF.priceMinter m') d rfl hd

/-! ## C04 — sale window and entitlement

Projection `VF.swOf` (variant shape, clock, factory denom / minimum / airdrop price, and the minter's schedule, effective public
price, limits, mintable count and the four counter maps); the aspect model's structural whitelist pool is NOT a function of the
composite state: it is refreshed from the interface (`Op.wlEnv` with `VF.synthWl`, a whitelist whose computed answers are exactly
the interface's) right before every op that reads it.  Translation `VF.swOps` = forward simulation with stuttering; the messages
C04 does not name become the aspect model's own `minterEnv`.  Environment assumptions (`VF.SwEnv`): one denom for the factory
minimum and the airdrop price (the aspect model has a single `Params.denom`), coherent whitelist answers; along runs also:
governance does not change the projected parameters (the aspect model has no op for that). -/

namespace VF

theorem sw_sim (s : State) (m : Minter) (hm : s.minter = some m) (op : Op) (hdd : DiscDenom m) (henv : SwEnv s)
    (hps : swParams (step' s op).params = swParams s.params) (W : Nat → Option SaleWindow.Wl) :
    ∃ m' W', (step' s op).minter = some m' ∧ DiscDenom m' ∧
      SaleWindow.run (swOf s m W) (swOps s m op) = swOf (step' s op) m' W' := by
  rcases step'_cases s op with ⟨s', hok, hs'⟩ | ⟨⟨e, herr⟩, hs'⟩
  · rw [hs'] at hps ⊢
    exact sw_sim_ok hm hok hdd henv hps W
  · rw [hs']
    exact ⟨m, W, hm, hdd, by simp [swOps, accepted_of_err herr, sw_run_nil]⟩

def swRunOps (s : State) : List Op → List SaleWindow.Op
  | [] => []
  | op :: rest =>
    (match s.minter with
     | some m => swOps s m op
     | none => []) ++ swRunOps (step' s op) rest

/-- the environment assumptions hold along the whole history -/
def SwEnvRun (s : State) : List Op → Prop
  | [] => True
  | op :: rest => SwEnv s ∧ swParams (step' s op).params = swParams s.params ∧ SwEnvRun (step' s op) rest

/-- **lift to runs** -/
theorem sw_run (s : State) (m : Minter) (hm : s.minter = some m) (hdd : DiscDenom m) (ops : List Op)
    (henv : SwEnvRun s ops) (W : Nat → Option SaleWindow.Wl) :
    ∃ m' W', (run s ops).minter = some m' ∧ DiscDenom m' ∧
      SaleWindow.run (swOf s m W) (swRunOps s ops) = swOf (run s ops) m' W' := by
  induction ops generalizing s m W with
  | nil => exact ⟨m, W, hm, hdd, rfl⟩
  | cons op ops ih =>
    obtain ⟨h1, h2, h3⟩ := henv
    obtain ⟨m1, W1, hm1, hdd1, heq⟩ := sw_sim s m hm op hdd h1 h2 W
    obtain ⟨m', W', hm', hdd', hrun⟩ := ih (step' s op) m1 hm1 hdd1 h3 W1
    refine ⟨m', W', by rw [run_cons]; exact hm', hdd', ?_⟩
    simp only [swRunOps, hm]
    rw [sw_run_append, heq, hrun, run_cons]

/-- the synthesised whitelist is active exactly when the interface says so -/
theorem synth_isActive (i : Option WlInfo) (now : Nat) (ms : List (Addr × Nat)) (ls : List SaleWindow.Leaf) :
    (synthWl i now ms ls).isActive now = (match i with | some i => i.active | none => false) := by
  cases i with
  | none => simp [synthWl, SaleWindow.Wl.isActive, SaleWindow.Wl.activeStage, SaleWindow.WlKind.isTiered]
  | some i =>
    simp only [SaleWindow.Wl.isActive, synth_activeStage]
    cases i.active <;> simp

end VF

/-- the C04 simulation: one composite step = the translated aspect ops on the projection -/
theorem C04_full_refines (s : VF.State) (m : VF.Minter) (hm : s.minter = some m) (op : VF.Op) (hdd : VF.DiscDenom m)
    (henv : VF.SwEnv s) (hps : VF.swParams (VF.step' s op).params = VF.swParams s.params)
    (W : Nat → Option SaleWindow.Wl) :
    ∃ m' W', (VF.step' s op).minter = some m' ∧ VF.DiscDenom m' ∧
      SaleWindow.run (VF.swOf s m W) (VF.swOps s m op) = VF.swOf (VF.step' s op) m' W' :=
  VF.sw_sim s m hm op hdd henv hps W

/-- the two independently written whitelist gates agree (composite `is_public_mint` vs `SaleWindow.isPublicMint` on the
synthesised whitelist) -/
theorem C04_full_gate_agrees (s : VF.State) (m : VF.Minter) (sender : Addr) (funds : List Coin) (f : MintLimits.Fields)
    (sv : VF.SenderView) (g : VF.MintKind) (W : Nat → Option SaleWindow.Wl)
    (hco : ∀ a i, m.whitelist = some a → s.wls a = some i → VF.InfoCoherent i)
    (hW : ∀ a i, m.whitelist = some a → s.wls a = some i → W a = some (VF.mintWl i s.now sender f sv))
    (hg : VF.isPublicMint s m sender f sv = .ok g) :
    SaleWindow.isPublicMint (VF.swOf s m W) (VF.swMinter m) (VF.mintArgsOf s m sender funds f sv) = .ok (VF.swKindOf g) :=
  VF.sw_isPublicMint W hco hW hg

/-- "A public mint never succeeds before the mint start time": an accepted composite `Mint` while the attached whitelist (if
any) answers "not active" happened at or after `start_time` -/
theorem C04_full_public_after_start (s s' : VF.State) (m : VF.Minter) (hm : s.minter = some m) (sender : Addr)
    (funds : List Coin) (f : MintLimits.Fields) (sv : VF.SenderView) (picked : Nat)
    (h : VF.step s (.mint sender funds f sv picked) = .ok s') (henv : VF.SwEnv s)
    (hna : ∀ a i, m.whitelist = some a → s.wls a = some i → i.active = false) : m.startTime ≤ s.now := by
  simp only [VF.step] at h
  obtain ⟨m0, hm0, h⟩ := VF.withMinterS_ok h
  rw [hm] at hm0; cases hm0
  obtain ⟨W1, _, hW1⟩ := VF.sw_refreshAttached s m (fun _ => none) (VF.membersOf sender sv) (VF.leavesOf sender f sv)
  obtain ⟨m', _, _, _, hstep⟩ := VF.sw_mint_step h henv.infos W1 hW1
  refine SaleWindow.C04_public_after_start (VF.swOf s m W1) _ (VF.swMinter m) _ rfl hstep ?_
  rintro ⟨k, w, hk, hw, hact⟩
  have hk' : m.whitelist = some k := hk
  have hw' : W1 k = some w := hw
  rw [hW1 k hk'] at hw'
  cases hw'
  have := VF.synth_isActive (s.wls k) s.now (VF.membersOf sender sv) (VF.leavesOf sender f sv)
  rw [show (VF.swOf s m W1).now = s.now from rfl] at hact
  rw [hact] at this
  cases hi : s.wls k with
  | none => rw [hi] at this; cases this
  | some i =>
    rw [hi] at this
    have hx : i.active = true := this.symm
    rw [hna k i hk' hi] at hx; cases hx

/-- "While an attached whitelist is active, a buyer's mint succeeds only if the buyer is a member (or holds a valid Merkle
proof bound to the sender) and is charged the whitelist price" -/
theorem C04_full_wl_gate (s s' : VF.State) (m : VF.Minter) (hm : s.minter = some m) (sender : Addr)
    (funds : List Coin) (f : MintLimits.Fields) (sv : VF.SenderView) (picked : Nat)
    (h : VF.step s (.mint sender funds f sv picked) = .ok s') (henv : VF.SwEnv s)
    (a : Addr) (i : VF.WlInfo) (ha : m.whitelist = some a) (hi : s.wls a = some i) (hact : i.active = true) :
    (sv.memberPlain = true ∨ sv.leafOk = true) ∧ mayPay funds i.price.denom = .ok i.price.amount := by
  simp only [VF.step] at h
  obtain ⟨m0, hm0, h⟩ := VF.withMinterS_ok h
  rw [hm] at hm0; cases hm0
  obtain ⟨W1, _, hW1⟩ := VF.sw_refreshAttached s m (fun _ => none) (VF.membersOf sender sv) (VF.leavesOf sender f sv)
  obtain ⟨m', _, _, _, hstep⟩ := VF.sw_mint_step h henv.infos W1 hW1
  have hWa : (VF.swOf s m W1).wls a = some (VF.mintWl i s.now sender f sv) := by
    show W1 a = _
    rw [hW1 a ha, hi]; rfl
  have hactive : (VF.mintWl i s.now sender f sv).isActive (VF.swOf s m W1).now = true := by
    show (VF.synthWl (some i) s.now _ _).isActive s.now = true
    rw [VF.synth_isActive]; exact hact
  obtain ⟨⟨st, hst, hent⟩, st', hst', hpay⟩ :=
    SaleWindow.C04_wl_gate (VF.swOf s m W1) _ (VF.swMinter m) _ a _ rfl ha hWa hactive hstep
  have hlive := VF.synth_activeStage i s.now (VF.membersOf sender sv) (VF.leavesOf sender f sv)
  simp only [hact, if_true] at hlive
  have hst1 : st = VF.liveStage i s.now (VF.membersOf sender sv) (VF.leavesOf sender f sv) := by
    have : (VF.mintWl i s.now sender f sv).activeStage s.now = some st := hst
    rw [show VF.mintWl i s.now sender f sv = VF.synthWl (some i) s.now _ _ from rfl, hlive] at this
    cases this; rfl
  have hst2 : st' = VF.liveStage i s.now (VF.membersOf sender sv) (VF.leavesOf sender f sv) := by
    have : (VF.mintWl i s.now sender f sv).activeStage s.now = some st' := hst'
    rw [show VF.mintWl i s.now sender f sv = VF.synthWl (some i) s.now _ _ from rfl, hlive] at this
    cases this; rfl
  subst hst1 hst2
  refine ⟨?_, hpay⟩
  rcases hent with hmem | ⟨idx, _, _, hleaf⟩
  · left
    cases hmp : sv.memberPlain with
    | true => rfl
    | false =>
      exfalso
      have hmem' : (VF.liveStage i s.now (VF.membersOf sender sv) (VF.leavesOf sender f sv)).hasMember sender = true := hmem
      simp [SaleWindow.Stage.hasMember, VF.liveStage, VF.membersOf, hmp] at hmem'
  · right
    cases hlo : sv.leafOk with
    | true => rfl
    | false =>
      exfalso
      simp [VF.liveStage, VF.leavesOf, hlo] at hleaf

/-- "the start time only before the mint has started … a whitelist only before the start": once `now ≥ start_time` has held,
the start time and the attached whitelist are the same after EVERY composite continuation (any messages, by anyone, any clock
steps, any whitelist-interface changes) -/
theorem C04_full_started_is_final (s : VF.State) (m : VF.Minter) (hm : s.minter = some m) (hdd : VF.DiscDenom m)
    (hstarted : m.startTime ≤ s.now) (ops : List VF.Op) (henv : VF.SwEnvRun s ops) :
    ∃ m', (VF.run s ops).minter = some m' ∧ m'.startTime = m.startTime ∧ m'.whitelist = m.whitelist := by
  obtain ⟨m', W', hm', _, heq⟩ := VF.sw_run s m hm hdd ops henv (fun _ => none)
  obtain ⟨m1, hm1, h1, h2⟩ :=
    SaleWindow.C04_started_is_final (VF.swOf s m (fun _ => none)) (VF.swMinter m) (VF.swRunOps s ops) rfl hstarted
  rw [heq] at hm1
  simp only [VF.swOf, Option.some.injEq] at hm1
  subst hm1
  exact ⟨m', hm', h1, h2⟩

/-! ## C19 — trading start time

Projection `VF.ttOf` (family, clock, the factory's `max_trading_offset_secs`, the minter's address, admin and mint start, and the
collection's ownership / creator / frozen / trading-time record); translation `VF.ttOps` (forward simulation with stuttering);
Lemmas/VendingFullTrading.lean. -/

namespace VF

theorem tt_sim_ok {s s' : State} {m : Minter} {op : Op} (hm : s.minter = some m) (h : step s op = .ok s') :
    ∃ m', s'.minter = some m' ∧ TT.run (ttOf s m) (ttOps s op) = ttOf s' m' := by
  have hacc := accepted_of_ok h
  cases op with
  | setTime t =>
    simp only [step] at h; split at h <;> cases h
    exact ⟨m, hm, by simp [ttOps, hacc, TT.run, TT.step', TT.step, ttOf]⟩
  | fund a c =>
    simp only [step] at h; cases h
    exact ⟨m, hm, by simp [ttOps, hacc, TT.run]; rfl⟩
  | wlEnv k i =>
    simp only [step] at h; cases h
    exact ⟨m, hm, by simp [ttOps, hacc, TT.run]; rfl⟩
  | sudoParams u =>
    simp only [step] at h
    split at h
    · cases h
    · rename_i p hp
      cases h
      refine ⟨m, hm, ?_⟩
      have hoff : p.maxTradingOffsetSecs = u.maxTradingOffsetSecs.getD s.params.maxTradingOffsetSecs := by
        unfold updateParams at hp
        peel hp; peel hp; peel hp
        cases hp; rfl
      simp [ttOps, hacc, TT.run, TT.step', TT.step, ttOf, hoff]
  | create sender funds msg w =>
    simp only [step] at h
    obtain ⟨_, _, _, _, _, hnone, _⟩ := createMinter_ok h
    rw [hm] at hnone; cases hnone
  | instantiateDirect sender => simp [step] at h
  | mint sender funds f sv picked =>
    simp only [step] at h
    obtain ⟨m0, hm0, h⟩ := withMinterS_ok h
    rw [hm] at hm0; cases hm0
    obtain ⟨b1, g, _, _, _, _, h⟩ := mintSender_ok h
    obtain ⟨price, ms, sup, b2, _, _, _, _, _, _, _, rfl⟩ := executeMint_ok h
    refine ⟨_, rfl, ?_⟩
    simp only [ttOps, hacc, if_true, TT.run, List.foldl_nil]
    cases g with
    | pub => rfl
    | wl sid cnt => simp only [ttOf, ttMinter, bookCount]; split <;> rfl
  | mintTo sender funds rcpt picked =>
    simp only [step] at h
    obtain ⟨m0, hm0, h⟩ := withMinterS_ok h
    rw [hm] at hm0; cases hm0
    obtain ⟨b1, _, _, h⟩ := mintAdmin_ok h
    obtain ⟨price, ms, sup, b2, _, _, _, _, _, _, _, rfl⟩ := executeMint_ok h
    exact ⟨_, rfl, by simp [ttOps, hacc, TT.run]; rfl⟩
  | mintFor sender funds id rcpt =>
    simp only [step] at h
    obtain ⟨m0, hm0, h⟩ := withMinterS_ok h
    rw [hm] at hm0; cases hm0
    obtain ⟨b1, _, _, h⟩ := mintAdmin_ok h
    obtain ⟨price, ms, sup, b2, _, _, _, _, _, _, _, rfl⟩ := executeMint_ok h
    exact ⟨_, rfl, by simp [ttOps, hacc, TT.run]; rfl⟩
  | shuffle sender funds perm =>
    simp only [step] at h
    obtain ⟨m0, hm0, h⟩ := withMinterS_ok h
    rw [hm] at hm0; cases hm0
    obtain ⟨b1, ms, sup, b2, _, _, _, _, rfl⟩ := shuffle_ok h
    exact ⟨_, rfl, by simp [ttOps, hacc, TT.run]; rfl⟩
  | updateStartTradingTime sender funds t =>
    simp only [step] at h
    obtain ⟨m0, m', hm0, hf, rfl⟩ := withMinter_ok h
    rw [hm] at hm0; cases hm0
    refine ⟨_, rfl, ?_⟩
    simp only [ttOps, hacc, if_true, tt_run_one]
    exact tt_step'_ok (tt_updTrading hf)
  | updateStartTime sender funds t =>
    simp only [step] at h
    obtain ⟨m0, m', hm0, hf, rfl⟩ := withMinter_ok h
    rw [hm] at hm0; cases hm0
    refine ⟨_, rfl, ?_⟩
    simp only [ttOps, hacc, if_true, tt_run_one]
    exact tt_step'_ok (tt_updStart hf)
  | setWhitelist sender funds wl valid =>
    simp only [step] at h
    obtain ⟨m0, m', hm0, hf, rfl⟩ := withMinter_ok h
    rw [hm] at hm0; cases hm0
    obtain ⟨_, _, _, _, _, _, _, _, _, _, _, rfl⟩ := setWhitelist_ok hf
    exact ⟨_, rfl, by simp [ttOps, hacc, TT.run]; rfl⟩
  | purge sender funds =>
    simp only [step] at h
    obtain ⟨m0, m', hm0, hf, rfl⟩ := withMinter_ok h
    rw [hm] at hm0; cases hm0
    obtain ⟨_, _, rfl⟩ := purge_ok hf
    exact ⟨_, rfl, by simp [ttOps, hacc, TT.run]; rfl⟩
  | updateMintPrice sender funds p =>
    simp only [step] at h
    obtain ⟨m0, m', hm0, hf, rfl⟩ := withMinter_ok h
    rw [hm] at hm0; cases hm0
    obtain ⟨_, _, _, _, rfl⟩ := updateMintPrice_ok hf
    exact ⟨_, rfl, by simp [ttOps, hacc, TT.run]; rfl⟩
  | updatePerAddressLimit sender funds n =>
    simp only [step] at h
    obtain ⟨m0, m', hm0, hf, rfl⟩ := withMinter_ok h
    rw [hm] at hm0; cases hm0
    obtain ⟨_, _, _, _, _, rfl⟩ := updatePerAddressLimit_ok hf
    exact ⟨_, rfl, by simp [ttOps, hacc, TT.run]; rfl⟩
  | burnRemaining sender funds =>
    simp only [step] at h
    obtain ⟨m0, m', hm0, hf, rfl⟩ := withMinter_ok h
    rw [hm] at hm0; cases hm0
    obtain ⟨_, _, _, _, rfl⟩ := burnRemaining_ok hf
    exact ⟨_, rfl, by simp [ttOps, hacc, TT.run]; rfl⟩
  | updateDiscountPrice sender funds p =>
    simp only [step] at h
    obtain ⟨m0, m', hm0, hf, rfl⟩ := withMinter_ok h
    rw [hm] at hm0; cases hm0
    obtain ⟨_, _, _, _, _, _, rfl⟩ := updateDiscountPrice_ok hf
    exact ⟨_, rfl, by simp [ttOps, hacc, TT.run]; rfl⟩
  | removeDiscountPrice sender funds =>
    simp only [step] at h
    obtain ⟨m0, m', hm0, hf, rfl⟩ := withMinter_ok h
    rw [hm] at hm0; cases hm0
    obtain ⟨_, _, _, rfl⟩ := removeDiscountPrice_ok hf
    exact ⟨_, rfl, by simp [ttOps, hacc, TT.run]; rfl⟩
  | sudoStatus v b e =>
    simp only [step] at h
    obtain ⟨m0, m', hm0, hf, rfl⟩ := withMinter_ok h
    rw [hm] at hm0; cases hm0
    cases hf
    exact ⟨_, rfl, by simp [ttOps, hacc, TT.run]; rfl⟩
  | collTransfer sender id to =>
    simp only [step] at h
    obtain ⟨m0, m', hm0, hf, rfl⟩ := withMinter_ok h
    rw [hm] at hm0; cases hm0
    obtain ⟨_, _, _, _, rfl⟩ := collTransfer_ok hf
    exact ⟨_, rfl, by simp [ttOps, hacc, TT.run]; rfl⟩
  | collBurn sender id =>
    simp only [step] at h
    obtain ⟨m0, m', hm0, hf, rfl⟩ := withMinter_ok h
    rw [hm] at hm0; cases hm0
    obtain ⟨_, _, _, rfl⟩ := collBurn_ok hf
    exact ⟨_, rfl, by simp [ttOps, hacc, TT.run]; rfl⟩
  | collTrading sender t =>
    simp only [step] at h
    obtain ⟨m0, c, hm0, hc, rfl⟩ := onColl_ok h
    rw [hm] at hm0; cases hm0
    refine ⟨_, rfl, ?_⟩
    simp only [ttOps, hacc, if_true, tt_run_one]
    exact tt_step'_ok (by simp only [TT.step]; exact tt_onColl hc)
  | collCreator sender new =>
    simp only [step] at h
    obtain ⟨m0, c, hm0, hc, rfl⟩ := onColl_ok h
    rw [hm] at hm0; cases hm0
    refine ⟨_, rfl, ?_⟩
    simp only [ttOps, hacc, if_true, tt_run_one]
    exact tt_step'_ok (by simp only [TT.step]; exact tt_onColl hc)
  | collFreeze sender =>
    simp only [step] at h
    obtain ⟨m0, c, hm0, hc, rfl⟩ := onColl_ok h
    rw [hm] at hm0; cases hm0
    refine ⟨_, rfl, ?_⟩
    simp only [ttOps, hacc, if_true, tt_run_one]
    exact tt_step'_ok (by simp only [TT.step]; exact tt_onColl hc)
  | collOwn sender a =>
    simp only [step] at h
    obtain ⟨m0, c, hm0, hc, rfl⟩ := onColl_ok h
    rw [hm] at hm0; cases hm0
    refine ⟨_, rfl, ?_⟩
    simp only [ttOps, hacc, if_true, tt_run_one]
    exact tt_step'_ok (by simp only [TT.step]; exact tt_onColl hc)

theorem tt_sim (s : State) (m : Minter) (hm : s.minter = some m) (op : Op) :
    ∃ m', (step' s op).minter = some m' ∧ TT.run (ttOf s m) (ttOps s op) = ttOf (step' s op) m' := by
  rcases step'_cases s op with ⟨s', hok, hs'⟩ | ⟨⟨e, herr⟩, hs'⟩
  · obtain ⟨m', hm', heq⟩ := tt_sim_ok hm hok
    rw [hs']; exact ⟨m', hm', heq⟩
  · rw [hs']
    exact ⟨m, hm, by simp [ttOps, accepted_of_err herr, TT.run]⟩

def ttRunOps (s : State) : List Op → List TT.Op
  | [] => []
  | op :: rest => ttOps s op ++ ttRunOps (step' s op) rest

theorem tt_run_append (w : TT.World) (a b : List TT.Op) : TT.run w (a ++ b) = TT.run (TT.run w a) b := by
  simp [TT.run, List.foldl_append]

/-- **lift to runs** -/
theorem tt_run (s : State) (m : Minter) (hm : s.minter = some m) (ops : List Op) :
    ∃ m', (run s ops).minter = some m' ∧ TT.run (ttOf s m) (ttRunOps s ops) = ttOf (run s ops) m' := by
  induction ops generalizing s m with
  | nil => exact ⟨m, hm, rfl⟩
  | cons op ops ih =>
    obtain ⟨m1, hm1, heq⟩ := tt_sim s m hm op
    obtain ⟨m', hm', hrun⟩ := ih (step' s op) m1 hm1
    refine ⟨m', by rw [run_cons]; exact hm', ?_⟩
    simp only [ttRunOps]
    rw [tt_run_append, heq, hrun, run_cons]

/-- messages sent to the collection come from anybody but the minter contract's own address -/
def CollExternal (mi : Addr) : Op → Prop
  | .collTrading sender _ => sender ≠ mi
  | .collCreator sender _ => sender ≠ mi
  | .collFreeze sender => sender ≠ mi
  | .collOwn sender _ => sender ≠ mi
  | _ => True

theorem ttOps_external (s : State) (op : Op) (mi : Addr) (h : CollExternal mi op) :
    ∀ o ∈ ttOps s op, TT.Op.External mi o := by
  intro o ho
  unfold ttOps at ho
  split at ho
  · cases op <;> simp at ho <;> subst ho <;> first | trivial | exact h
  · simp at ho

theorem ttRunOps_external (s : State) (ops : List Op) (mi : Addr) (h : ∀ op ∈ ops, CollExternal mi op) :
    ∀ o ∈ ttRunOps s ops, TT.Op.External mi o := by
  induction ops generalizing s with
  | nil => intro o ho; simp [ttRunOps] at ho
  | cons op ops ih =>
    intro o ho
    simp only [ttRunOps, List.mem_append] at ho
    rcases ho with ho | ho
    · exact ttOps_external s op mi (h op (List.mem_cons_self ..)) o ho
    · exact ih (step' s op) (fun x hx => h x (List.mem_cons_of_mem _ hx)) o ho

end VF

/-- the C19 simulation: one composite step = the translated aspect ops on the projection -/
theorem C19_full_refines (s : VF.State) (m : VF.Minter) (hm : s.minter = some m) (op : VF.Op) :
    ∃ m', (VF.step' s op).minter = some m' ∧ TT.run (VF.ttOf s m) (VF.ttOps s op) = VF.ttOf (VF.step' s op) m' :=
  VF.tt_sim s m hm op

/-- Clause 1 — creation: the trading start time a `CreateMinter` stores in the collection is no later than mint start plus the
offset in force, defaults to exactly that, is the requested value otherwise; the new collection is owned by the minter -/
theorem C19_full_create_bound (s s' : VF.State) (sender : Addr) (funds : List Coin) (msg : VF.CreateMsg) (w : VF.CreateWit)
    (h : VF.step s (.create sender funds msg w) = .ok s') :
    ∃ m' t, s'.minter = some m' ∧ m'.tt.trading = some t ∧ m'.startTime = msg.startTime ∧
      t ≤ msg.startTime + s.params.maxTradingOffsetSecs * 1000000000 ∧
      (msg.trading = none → t = msg.startTime + s.params.maxTradingOffsetSecs * 1000000000) ∧
      (∀ x, msg.trading = some x → t = x) ∧
      m'.tt.owner = some w.minterAddr ∧ m'.tt.pending = none ∧ m'.admin = msg.creator ∧ m'.tt.creator = msg.creator := by
  obtain ⟨ck, m', _, hm', hstep⟩ := VF.tt_create h
  obtain ⟨mm, c, t, hmc, h1, h2, h3, h4, h5, h6, h7, h8, h9⟩ :=
    C19_create_bound (VF.ttInit s w.minterAddr) _ ck msg.creator msg.startTime none msg.trading (by simp [VF.ttInit]) hstep
  simp only [VF.ttOf, Option.some.injEq, Prod.mk.injEq] at hmc
  obtain ⟨rfl, rfl⟩ := hmc
  exact ⟨m', t, hm', h1, h2, h3, h4, h5, h6, h7, h8, h9⟩

/-- Clause 2 — update: an accepted `UpdateStartTradingTime(Some t)` has `now ≤ t ≤ mint start + offset` with the mint start
and offset in force at that moment, and `t` is what the collection then shows -/
theorem C19_full_update_bound (s s' : VF.State) (m : VF.Minter) (hm : s.minter = some m) (sender : Addr)
    (funds : List Coin) (t : Nat) (h : VF.step s (.updateStartTradingTime sender funds (some t)) = .ok s') :
    s.now ≤ t ∧ t ≤ m.startTime + s.params.maxTradingOffsetSecs * 1000000000 ∧
      ∃ m', s'.minter = some m' ∧ m'.tt.trading = some t := by
  simp only [VF.step] at h
  obtain ⟨m0, m', hm0, hf, rfl⟩ := VF.withMinter_ok h
  rw [hm] at hm0; cases hm0
  obtain ⟨mm, c, hmc, h1, h2, h3⟩ := C19_update_bound (VF.ttOf s m) _ sender t 0 (VF.tt_updTrading hf)
  simp only [VF.ttOf, Option.some.injEq, Prod.mk.injEq] at hmc
  obtain ⟨rfl, rfl⟩ := hmc
  refine ⟨h1, h2 (by simp [VF.ttOf]), m', rfl, ?_⟩
  simpa [TT.visible, VF.ttOf] using h3

/-- Clause 4 over composite histories: as long as nobody but the minter contract sends from the minter's address, the collection
stays owned by the minter, and the trading time visible in the collection is always the one stored by the most recent VALIDATED
write (the creation or an accepted minter `UpdateStartTradingTime`) of the history -/
theorem C19_full_validated_history (s : VF.State) (m : VF.Minter) (hm : s.minter = some m)
    (hown : m.tt.owner = some m.addr ∧ m.tt.pending = none) (ops : List VF.Op)
    (hext : ∀ op ∈ ops, VF.CollExternal m.addr op) :
    ∃ m', (VF.run s ops).minter = some m' ∧ m'.tt.owner = some m.addr ∧ m'.tt.pending = none ∧
      some m'.tt.trading =
        ((TT.validatedHistory (VF.ttOf s m) (VF.ttRunOps s ops)).getLast?).getD (some m.tt.trading) := by
  obtain ⟨m', hm', heq⟩ := VF.tt_run s m hm ops
  have hinv : TT.OwnerInv (VF.ttOf s m) := by
    intro mm c hmc
    simp only [VF.ttOf, Option.some.injEq, Prod.mk.injEq] at hmc
    obtain ⟨_, rfl⟩ := hmc
    exact hown
  have hx := VF.ttRunOps_external s ops m.addr hext
  obtain ⟨hinv', hma, _⟩ := C19_owner_stable (VF.ttOf s m) (VF.ttRunOps s ops) hinv hx
  have hval := C19_validated_history (VF.ttOf s m) (VF.ttRunOps s ops) hinv hx
  rw [heq] at hinv' hval hma
  obtain ⟨ho, hp⟩ := hinv' (VF.ttMinter m') m'.tt rfl
  refine ⟨m', hm', ?_, hp, ?_⟩
  · rw [ho]; exact congrArg some hma
  · simpa [TT.visible, VF.ttOf] using hval

/-! ## Non-vacuity: concrete composite histories (kernel-evaluated) in which the hypotheses above hold and mints succeed -/

def cvParams : VF.Params :=
  { codeId := 1, allowed := [16], frozen := false, creationFee := ⟨0, 1000⟩, minMintPrice := ⟨0, 50⟩, mintFeeBps := 1000,
    maxTradingOffsetSecs := 3600, maxTokenLimit := 100, maxPerAddressLimit := 5, airdropMintPrice := ⟨0, 0⟩,
    airdropMintFeeBps := 10000, shuffleFee := ⟨0, 10⟩ }

def cvT0 : Nat := 1647032400000000000

/-- a fresh vending factory at genesis; code id 1 = `vending-minter`, 16 = `sg721-base` -/
def cvInit : VF.State := VF.init cvT0 ⟨[1, 2, 3, 4, 5, 6], [16, 17, 18, 19]⟩ 1000 cvParams

def cvCreate (wl : Option Addr) : VF.Op :=
  .create 10 [⟨0, 1000⟩]
    { collCode := 16, creator := 10, trading := none, uriOk := true, paymentAddress := some 12, startTime := cvT0 + 100,
      numTokens := 3, mintPrice := ⟨0, 1000⟩, perAddressLimit := 2, whitelist := wl, whitelistValid := true, collOk := true }
    { minterAddr := 1001, collAddr := 1002, perm := [2, 3, 1] }

/-- fund, create (3 tokens, price 1000, 10 % fee), reach the start, public mint by 20 picking position 2 -/
def cvOps : List VF.Op :=
  [.fund 10 ⟨0, 5000⟩, .fund 20 ⟨0, 5000⟩, cvCreate none, .setTime (cvT0 + 100), .mint 20 [⟨0, 1000⟩] {} {} 2]

example : cvInit.minter.isNone = true := by decide

/-- the public mint delivers id 3 to 20, the counters move, 100 goes to the fee recipients, 900 to the payment address, the
minter keeps nothing -/
example : (VF.run cvInit cvOps).minter.map (fun m => (m.supply.minted, m.supply.mintable, m.pub 20, m.supply.coll.toks)) =
    some ([3], 2, 1, [(3, 20)]) := by decide

example : ((VF.run cvInit cvOps).bank.bal 20 0, (VF.run cvInit cvOps).bank.bal 12 0,
    (VF.run cvInit cvOps).bank.bal LIQUIDITY_DAO 0, (VF.run cvInit cvOps).bank.bal LAUNCHPAD_DAO 0,
    (VF.run cvInit cvOps).bank.bal 1001 0) = (4000, 900, 20, 80, 0) := by decide

def cvWl (active : Bool) : VF.WlInfo :=
  { kind := .plain, active := active, price := ⟨0, 500⟩, limit := 1, merkleCfg := false, stageId := 0, stageLimit := none }

/-- a plain whitelist at 1005 (inactive at creation), active afterwards: member 21 mints once at the whitelist price BEFORE the
public start, a second whitelist mint and a non-member are refused -/
def cvWlOps : List VF.Op :=
  [.fund 10 ⟨0, 5000⟩, .fund 21 ⟨0, 5000⟩, .fund 22 ⟨0, 5000⟩, .wlEnv 1005 (some (cvWl false)), cvCreate (some 1005),
   .wlEnv 1005 (some (cvWl true)), .setTime (cvT0 + 50),
   .mint 21 [⟨0, 500⟩] {} { memberPlain := true } 1,
   .mint 21 [⟨0, 500⟩] {} { memberPlain := true } 2,
   .mint 22 [⟨0, 500⟩] {} { memberPlain := false } 2]

example : (VF.run cvInit cvWlOps).minter.map (fun m => (m.supply.minted, m.wlc 21, m.wlc 22, m.pub 21, m.whitelist)) =
    some ([2], 1, 0, 0, some 1005) := by decide

example : VF.SwEnv cvInit :=
  ⟨rfl, fun a i h => by simp [cvInit, VF.init] at h⟩

example : VF.InfoCoherent (cvWl true) := ⟨rfl, fun h => by simp [cvWl, MintLimits.WlKind.tieredName] at h⟩

end LP
