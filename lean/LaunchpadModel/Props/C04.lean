import LaunchpadModel.Lemmas.SaleWindow
/-!
# C04 — mints happen only inside the sale window and only for entitled buyers

All theorems are about `LP.SaleWindow.step` — the function the driver `drv_c04` runs against the real minters
and whitelists — and hold for **every** state (hence every reachable one), every minter variant, every whitelist
state the environment may have produced, every argument and every clock value. The history theorems are
inductions over arbitrary operation lists (`run`), in which a failed operation leaves the world unchanged.

`WlActive s m` = the whitelist attached to `m` is active now *in the whitelist's own terms*
(`C04_wl_window`: single-stage kinds `start ≤ now < end`; tiered kinds: some stage with `start ≤ now ≤ end`).
`Entitled k w now a` = the sender is on the member list of the stage in force, or presents the sibling path of the
leaf `stage ‖ sender ‖ allocation` — a leaf that contains the **sender's own address** — committed in the tree in force.
-/
namespace LP
namespace SaleWindow

/-- "A public mint never succeeds before the mint start time." -/
theorem C04_public_after_start (s s' : State) (m : Minter) (a : MintArgs)
    (hm : s.minter = some m) (h : step s (.mint a) = .ok s') (hpub : ¬ WlActive s m) :
    m.start ≤ s.now := by
  obtain ⟨m0, m', hm0, hf, -⟩ := withMinter_ok h
  rw [hm] at hm0; cases hm0
  obtain ⟨kind, hkind, hgate, -, -⟩ := mintSender_ok hf
  rcases isPublicMint_kind hkind with ⟨rfl, -⟩ | ⟨slot, -, hact⟩
  · exact (hgate rfl).1
  · exact absurd hact hpub

/-- token-merge: a deposit (the only way a buyer mints) succeeds only strictly after the start -/
theorem C04_deposit_after_start (s s' : State) (m : Minter) (owner : Addr) (rcpt : Option Addr)
    (hm : s.minter = some m) (h : step s (.deposit owner rcpt) = .ok s') :
    m.start < s.now := by
  obtain ⟨m0, m', hm0, hf, -⟩ := withMinter_ok h
  rw [hm] at hm0; cases hm0
  unfold deposit at hf
  exc_norm at hf
  repeat' (split at hf)
  all_goals first | contradiction | (simp_all)

/-- "on open-edition minters no mint of any kind (public, whitelist or airdrop) succeeds at or after the end
time": a buyer's mint (public or whitelist) … -/
theorem C04_oe_mint_before_end (s s' : State) (m : Minter) (a : MintArgs) (e : Nat)
    (hoe : s.v.family = .openEdition) (hm : s.minter = some m) (he : m.stop = some e)
    (h : step s (.mint a) = .ok s') : s.now < e := by
  obtain ⟨m0, m', hm0, hf, -⟩ := withMinter_ok h
  rw [hm] at hm0; cases hm0
  obtain ⟨kind, -, -, hend, -⟩ := mintSender_ok hf
  exact hend hoe e he

/-- … and an airdrop (`MintTo`, the only admin mint an open-edition minter has) -/
theorem C04_oe_airdrop_before_end (s s' : State) (m : Minter) (sender rcpt : Addr) (funds : List Coin) (e : Nat)
    (hoe : s.v.family = .openEdition) (hm : s.minter = some m) (he : m.stop = some e)
    (h : step s (.mintTo sender rcpt funds) = .ok s') : s.now < e := by
  obtain ⟨m0, m', hm0, hf, -⟩ := withMinter_ok h
  rw [hm] at hm0; cases hm0
  exact (mintTo_ok hf).2.1 hoe e he

/-- the two together, in the property's words: at or after the end time every kind of mint fails -/
theorem C04_oe_before_end (s : State) (m : Minter) (e : Nat)
    (hoe : s.v.family = .openEdition) (hm : s.minter = some m) (he : m.stop = some e) (hlate : e ≤ s.now) :
    (∀ a, ∃ err, step s (.mint a) = .error err) ∧
    (∀ sender rcpt funds, ∃ err, step s (.mintTo sender rcpt funds) = .error err) := by
  constructor
  · intro a
    cases h : step s (.mint a) with
    | error err => exact ⟨err, rfl⟩
    | ok s' => have := C04_oe_mint_before_end s s' m a e hoe hm he h; omega
  · intro sender rcpt funds
    cases h : step s (.mintTo sender rcpt funds) with
    | error err => exact ⟨err, rfl⟩
    | ok s' => have := C04_oe_airdrop_before_end s s' m sender rcpt funds e hoe hm he h; omega

/-- "While an attached whitelist is active, a buyer's mint succeeds only if the buyer is a member (of the active
stage, or holds a valid Merkle proof bound to the sender) and is charged the whitelist price" — the payment that
was accepted is exactly the active stage's price in the whitelist's denom. -/
theorem C04_wl_gate (s s' : State) (m : Minter) (a : MintArgs) (k : Nat) (w : Wl)
    (hm : s.minter = some m) (hk : m.wl = some k) (hw : s.wls k = some w) (hact : w.isActive s.now = true)
    (h : step s (.mint a) = .ok s') :
    Entitled k w s.now a ∧
    ∃ st, w.activeStage s.now = some st ∧ mayPay a.funds w.denom = .ok st.price := by
  obtain ⟨m0, m', hm0, hf, -⟩ := withMinter_ok h
  rw [hm] at hm0; cases hm0
  obtain ⟨kind, hkind, -, -, hex⟩ := mintSender_ok hf
  obtain ⟨price, hprice, hpay, -⟩ := executeMint_ok hex
  obtain ⟨st, hst⟩ := isActive_stage hact
  have hp := mintPrice_active hk hw hst hprice
  subst hp
  refine ⟨?_, st, hst, hpay⟩
  rcases isPublicMint_kind hkind with ⟨rfl, hna⟩ | ⟨slot, rfl, -⟩
  · exact absurd ⟨k, w, hk, hw, hact⟩ hna
  · obtain ⟨k', w', hk', hw', hact', hmem⟩ := isPublicMint_wl hkind
    rw [hk] at hk'; cases hk'
    rw [hw] at hw'; cases hw'
    exact memberCheck_entitled hact hmem

theorem activeStage_mem {w : Wl} {now : Nat} {st : Stage} (h : w.activeStage now = some st) : st ∈ w.stages := by
  unfold Wl.activeStage at h
  by_cases ht : w.kind.isTiered
  · simp [ht] at h
    exact List.mem_of_find?_eq_some h
  · simp [ht] at h
    cases hs : w.stages with
    | nil => simp [hs] at h
    | cons s0 rest =>
      simp [hs] at h
      simp [h.2]

/-- "… or holds a valid Merkle proof **bound to the sender**": against a whitelist that keeps no member list (the two
Merkle whitelists) the only way through is the sibling path of the leaf built from the sender's OWN address (and the
stage / allocation the sender states) in the tree in force — a path generated for anybody else's leaf, for another
tree or for another whitelist never lets this sender mint.

SCOPE: leaves are modelled as structured `Leaf` triples and `verifies` accepts `forLeaf k i l` iff `l` is the claimed triple,
so "bound to the sender" holds here by construction of the verification interface. That the minters' string
`format!(stage, sender, allocation)` is injective on these triples is not a C04 fact: it is `C03_leaf_binds` (same-length
address strings that do not start with a digit); Merkle soundness of the fold is C14. -/
theorem C04_merkle_proof_bound_to_sender (s s' : State) (m : Minter) (a : MintArgs) (k : Nat) (w : Wl)
    (hm : s.minter = some m) (hk : m.wl = some k) (hw : s.wls k = some w) (hact : w.isActive s.now = true)
    (hnolist : ∀ st ∈ w.stages, st.members = [])
    (h : step s (.mint a) = .ok s') :
    ∃ i st, w.activeIdx s.now = some i ∧ w.activeStage s.now = some st ∧
      a.proof = .forLeaf k i ⟨a.stage, a.sender, a.alloc⟩ ∧ (⟨a.stage, a.sender, a.alloc⟩ : Leaf) ∈ st.leaves := by
  obtain ⟨⟨st, hst, hor⟩, -⟩ := C04_wl_gate s s' m a k w hm hk hw hact h
  rcases hor with hmem | ⟨i, hi, hp, hl⟩
  · have := hnolist st (activeStage_mem hst)
    simp [Stage.hasMember, this] at hmem
  · exact ⟨i, st, hi, hst, hp, hl⟩

/-- "when it is not active the public rules apply": a successful mint happened at or after the start, within the
public per-address limit, and paid exactly the public price. -/
theorem C04_inactive_public_rules (s s' : State) (m : Minter) (a : MintArgs)
    (hm : s.minter = some m) (hna : ¬ WlActive s m) (h : step s (.mint a) = .ok s') :
    m.start ≤ s.now ∧ m.pubCount a.sender < m.perAddr ∧ mayPay a.funds m.price.denom = .ok m.price.amount := by
  obtain ⟨m0, m', hm0, hf, -⟩ := withMinter_ok h
  rw [hm] at hm0; cases hm0
  obtain ⟨kind, hkind, hgate, -, hex⟩ := mintSender_ok hf
  obtain ⟨price, hprice, hpay, -⟩ := executeMint_ok hex
  have := mintPrice_inactive hna hprice
  subst this
  rcases isPublicMint_kind hkind with ⟨rfl, -⟩ | ⟨slot, -, hact⟩
  · exact ⟨(hgate rfl).1, (hgate rfl).2, hpay⟩
  · exact absurd hact hna

/-- … and membership plays no role then: with an inactive (readable) whitelist the outcome of a mint is the outcome
the same minter would produce with no whitelist attached at all. -/
theorem C04_inactive_is_public (s : State) (m : Minter) (a : MintArgs) (k : Nat) (w : Wl)
    (hk : m.wl = some k) (hw : s.wls k = some w) (hparse : configParses s.v.shape w.kind = true)
    (hna : w.isActive s.now = false) :
    mintSender s m a = (mintSender s { m with wl := none } a).map (fun m' => { m' with wl := some k }) := by
  have hpub : isPublicMint s m a = .ok .pub := by
    simp [isPublicMint, hk, hw, hparse, config_isActive, hna]
  have hpub' : isPublicMint s { m with wl := none } a = .ok .pub := by simp [isPublicMint]
  have hprice : mintPrice s m false = .ok m.price := by
    simp [mintPrice, hk, hw, hparse, config_isActive, hna]
  have hprice' : mintPrice s { m with wl := none } false = .ok m.price := by simp [mintPrice]
  unfold mintSender executeMint
  simp only [hpub, hpub', hprice, hprice']
  simp only [bind, Except.bind, pure, Except.pure, throw, throwThe, MonadExceptOf.throw, Except.map]
  repeat' split
  all_goals (try simp_all)
  all_goals (subst_vars; simp)

/-- "the start time only before the mint has started and never into the past": a successful `UpdateStartTime t`
was sent by the admin strictly before the old start, with `t ≥ now` (vending, token-merge: also `t ≥ genesis`;
open edition: also `t ≤ end`), and stores exactly `t`, touching nothing else. -/
theorem C04_update_start (s s' : State) (m : Minter) (sender : Addr) (t : Nat)
    (hm : s.minter = some m) (h : step s (.updateStart sender t) = .ok s') :
    sender = m.admin ∧ s.now < m.start ∧ s.now ≤ t ∧
    (s.v.family ≠ .openEdition → GENESIS ≤ t) ∧
    (s.v.family = .openEdition → ∀ e, m.stop = some e → t ≤ e) ∧
    s' = { s with minter := some { m with start := t } } := by
  obtain ⟨m0, m', hm0, hf, rfl⟩ := withMinter_ok h
  rw [hm] at hm0; cases hm0
  obtain ⟨h1, h2, h3, h4, h5, rfl⟩ := updateStart_ok hf
  exact ⟨h1, h2, h3, h4, h5, rfl⟩

/-- "the end time only before it has passed and never before the start": a successful `UpdateEndTime t` (open
edition) was sent by the admin strictly before the old end (which must exist), with `t ≥ now` and `t ≥ start`. -/
theorem C04_update_end (s s' : State) (m : Minter) (sender : Addr) (t : Nat)
    (hm : s.minter = some m) (h : step s (.updateEnd sender t) = .ok s') :
    s.v.family = .openEdition ∧ sender = m.admin ∧ (∃ e, m.stop = some e ∧ s.now < e) ∧ s.now ≤ t ∧ m.start ≤ t ∧
    s' = { s with minter := some { m with stop := some t } } := by
  obtain ⟨m0, m', hm0, hf, rfl⟩ := withMinter_ok h
  rw [hm] at hm0; cases hm0
  obtain ⟨h1, h2, h3, h4, h5, rfl⟩ := updateEnd_ok hf
  exact ⟨h1, h2, h3, h4, h5, rfl⟩

/-- "a whitelist can only be attached or replaced before the mint start and never while the current or the new
whitelist is active": a successful `SetWhitelist k` was sent by the admin strictly before the start, the
whitelist attached so far (if any) was not active, the new one exists, is readable and is not active. -/
theorem C04_set_whitelist (s s' : State) (m : Minter) (sender : Addr) (k : Nat)
    (hm : s.minter = some m) (h : step s (.setWhitelist sender k) = .ok s') :
    sender = m.admin ∧ s.now < m.start ∧ ¬ WlActive s m ∧
    (∃ w, s.wls k = some w ∧ w.isActive s.now = false) ∧
    s' = { s with minter := some { m with wl := some k } } := by
  obtain ⟨m0, m', hm0, hf, rfl⟩ := withMinter_ok h
  rw [hm] at hm0; cases hm0
  obtain ⟨h1, h2, h3, ⟨w, hw, hna, -⟩, rfl⟩ := setWhitelist_ok hf
  exact ⟨h1, h2, h3, ⟨w, hw, hna⟩, rfl⟩

/-- creation attaches too: a minter is never created with an active whitelist, nor with a start in the past -/
theorem C04_create (s s' : State) (sender : Addr) (start : Nat) (stop wl : Option Nat) (price limit : Nat) (ntok : Option Nat)
    (h : step s (.create sender start stop wl price limit ntok) = .ok s') :
    ∃ m, s'.minter = some m ∧ s.minter = none ∧ m.start = start ∧ s.now ≤ start ∧
      (s.v.family ≠ .openEdition → GENESIS ≤ start) ∧
      (s.v.family = .openEdition → s.now < start ∧ ∀ e, m.stop = some e → start < e) ∧
      (∀ k, m.wl = some k → ∃ w, s.wls k = some w ∧ w.isActive s.now = false) := by
  obtain ⟨m, hm, rfl⟩ := map_ok h
  exact ⟨m, rfl, create_ok hm⟩

/-! ## The whitelist's own notion of "active" (what `WlActive` unfolds to) -/

/-- single-stage whitelists (plain, flex, Merkle): `is_active = start ≤ now < end` -/
theorem C04_wl_window_single (w : Wl) (now : Nat) (st : Stage) (rest : List Stage)
    (ht : w.kind.isTiered = false) (hs : w.stages = st :: rest) :
    w.isActive now = true ↔ st.start ≤ now ∧ now < st.stop := by
  simp [Wl.isActive, Wl.activeStage, ht, hs, Stage.activeAt]

/-- tiered whitelists: the stage in force is the FIRST stage whose closed window `start ≤ now ≤ end` contains now
(`fetch_active_stage`), and the whitelist is active iff there is one -/
theorem C04_wl_window_tiered (w : Wl) (now : Nat) (ht : w.kind.isTiered = true) :
    (w.isActive now = true ↔ ∃ st ∈ w.stages, st.start ≤ now ∧ now ≤ st.stop) ∧
    (∀ st, w.activeStage now = some st → st ∈ w.stages ∧ st.start ≤ now ∧ now ≤ st.stop) := by
  constructor
  · simp [Wl.isActive, Wl.activeStage, ht, Stage.activeAt, Option.isSome_iff_exists]
    constructor
    · rintro ⟨st, hst⟩
      have h1 := List.mem_of_find?_eq_some hst
      have h2 := List.find?_some hst
      simp at h2
      exact ⟨st, h1, h2⟩
    · rintro ⟨st, hmem, h1, h2⟩
      cases hf : w.stages.find? (fun st => decide (st.start ≤ now) && decide (now ≤ st.stop)) with
      | some x => exact ⟨x, rfl⟩
      | none =>
        rw [List.find?_eq_none] at hf
        have := hf st hmem
        simp [h1, h2] at this
  · intro st hst
    simp [Wl.activeStage, ht, Stage.activeAt] at hst
    have h1 := List.mem_of_find?_eq_some hst
    have h2 := List.find?_some hst
    simp at h2
    exact ⟨h1, h2⟩

/-! ## Non-vacuity: the hypotheses of the theorems above are satisfiable -/

section Examples

/-- a plain whitelist, window `[G+50, G+150)`, price 60, members 20 and 21 -/
def exWl : Wl := ⟨.plain, 0, [⟨GENESIS + 50, GENESIS + 150, 60, 2, none, [(20, 0), (21, 0)], []⟩]⟩
/-- a Merkle whitelist with the same window committing the leaf `"" ‖ 20 ‖ 3` -/
def exMerkle : Wl := ⟨.merkle, 0, [⟨GENESIS + 50, GENESIS + 150, 60, 2, none, [], [⟨none, 20, some 3⟩]⟩]⟩

def exMinter (stop : Option Nat) : Minter :=
  { admin := 10, start := GENESIS + 200, stop := stop, wl := some 1, price := ⟨0, 100⟩, perAddr := 2, capped := true,
    mintable := some 5, pubCount := fun _ => 0, wlCount := fun _ => 0, stCount := fun _ _ => 0, stTotal := fun _ => 0 }

def exState (v : Variant) (w : Wl) (now : Nat) (stop : Option Nat) : State :=
  { v := v, now := now, params := ⟨0, 50, 0, 100⟩, wls := fun k => if k = 1 then some w else none,
    minter := some (exMinter stop) }

-- whitelist active, before the public start: the member mints at the whitelist price …
example : (step (exState ⟨.vending, .plain⟩ exWl (GENESIS + 100) none) (.mint { sender := 20, funds := [⟨0, 60⟩] })).toBool = true := by decide
-- … the outsider does not, nor does the member at the public price
example : (step (exState ⟨.vending, .plain⟩ exWl (GENESIS + 100) none) (.mint { sender := 30, funds := [⟨0, 60⟩] })).toBool = false := by decide
example : (step (exState ⟨.vending, .plain⟩ exWl (GENESIS + 100) none) (.mint { sender := 20, funds := [⟨0, 100⟩] })).toBool = false := by decide
-- Merkle: the proof of the sender's own leaf is accepted, the same proof presented by another sender is not
example : (step (exState ⟨.vending, .merkle⟩ exMerkle (GENESIS + 100) none)
    (.mint { sender := 20, funds := [⟨0, 60⟩], alloc := some 3, proof := .forLeaf 1 0 ⟨none, 20, some 3⟩ })).toBool = true := by decide
example : (step (exState ⟨.vending, .merkle⟩ exMerkle (GENESIS + 100) none)
    (.mint { sender := 21, funds := [⟨0, 60⟩], alloc := some 3, proof := .forLeaf 1 0 ⟨none, 20, some 3⟩ })).toBool = false := by decide
-- the whitelist window is half-open: at its end the public rules apply, and the public sale has not started
example : (step (exState ⟨.vending, .plain⟩ exWl (GENESIS + 150) none) (.mint { sender := 20, funds := [⟨0, 60⟩] })).toBool = false := by decide
-- public mint exactly at the start succeeds, one nanosecond earlier it fails
example : (step (exState ⟨.vending, .plain⟩ exWl (GENESIS + 200) none) (.mint { sender := 30, funds := [⟨0, 100⟩] })).toBool = true := by decide
example : (step (exState ⟨.vending, .plain⟩ exWl (GENESIS + 199) none) (.mint { sender := 30, funds := [⟨0, 100⟩] })).toBool = false := by decide
-- open edition: one nanosecond before the end both kinds of mint succeed; at the end both fail
example : (step (exState ⟨.openEdition, .plain⟩ exWl (GENESIS + 299) (some (GENESIS + 300))) (.mint { sender := 30, funds := [⟨0, 100⟩] })).toBool = true := by decide
example : (step (exState ⟨.openEdition, .plain⟩ exWl (GENESIS + 299) (some (GENESIS + 300))) (.mintTo 10 30 [])).toBool = true := by decide
example : (step (exState ⟨.openEdition, .plain⟩ exWl (GENESIS + 300) (some (GENESIS + 300))) (.mint { sender := 30, funds := [⟨0, 100⟩] })).toBool = false := by decide
example : (step (exState ⟨.openEdition, .plain⟩ exWl (GENESIS + 300) (some (GENESIS + 300))) (.mintTo 10 30 [])).toBool = false := by decide
-- schedule updates: allowed one nanosecond before the start (whitelist already over), refused at the start
example : (step (exState ⟨.vending, .plain⟩ exWl (GENESIS + 199) none) (.updateStart 10 (GENESIS + 199))).toBool = true := by decide
example : (step (exState ⟨.vending, .plain⟩ exWl (GENESIS + 200) none) (.updateStart 10 (GENESIS + 500))).toBool = false := by decide
example : (step (exState ⟨.openEdition, .plain⟩ exWl (GENESIS + 299) (some (GENESIS + 300))) (.updateEnd 10 (GENESIS + 299))).toBool = true := by decide
example : (step (exState ⟨.openEdition, .plain⟩ exWl (GENESIS + 300) (some (GENESIS + 300))) (.updateEnd 10 (GENESIS + 900))).toBool = false := by decide
-- re-attaching: fine before the whitelist window opens, refused while it is active and after the start
example : (step (exState ⟨.vending, .plain⟩ exWl (GENESIS + 49) none) (.setWhitelist 10 1)).toBool = true := by decide
example : (step (exState ⟨.vending, .plain⟩ exWl (GENESIS + 50) none) (.setWhitelist 10 1)).toBool = false := by decide
example : (step (exState ⟨.vending, .plain⟩ exWl (GENESIS + 200) none) (.setWhitelist 10 1)).toBool = false := by decide
-- token-merge: a deposit AT the start is still refused (`now > start`), one nanosecond later accepted
example : (step (exState ⟨.tokenMerge, .plain⟩ exWl (GENESIS + 200) none) (.deposit 20 none)).toBool = false := by decide
example : (step (exState ⟨.tokenMerge, .plain⟩ exWl (GENESIS + 201) none) (.deposit 20 none)).toBool = true := by decide
-- creation
example : (step (init ⟨.vending, .plain⟩ (GENESIS + 5) ⟨0, 50, 0, 100⟩) (.create 10 (GENESIS + 5) none none 100 2 (some 10))).toBool = true := by decide
example : (step (init ⟨.vending, .plain⟩ (GENESIS + 5) ⟨0, 50, 0, 100⟩) (.create 10 (GENESIS + 4) none none 100 2 (some 10))).toBool = false := by decide

end Examples

/-! ## Histories: induction over operation lists with a monotone clock -/

/-- the clock is monotone along every history -/
theorem C04_clock_monotone (s : State) (ops : List Op) : s.now ≤ (run s ops).now := by
  induction ops generalizing s with
  | nil => exact Nat.le_refl _
  | cons op ops ih =>
    simp only [run, List.foldl_cons]
    exact Nat.le_trans (step'_frame s op).1 (ih (step' s op))

/-- "the start time only before the mint has started" as a statement about histories: once `now ≥ start` has held,
the start time (and the attached whitelist) is the same after EVERY continuation — any operations, by anyone, with
any arguments, interleaved with any clock steps and any whitelist edits. -/
theorem C04_started_is_final (s : State) (m : Minter) (ops : List Op)
    (hm : s.minter = some m) (hstarted : m.start ≤ s.now) :
    ∃ m', (run s ops).minter = some m' ∧ m'.start = m.start ∧ m'.wl = m.wl := by
  induction ops generalizing s m with
  | nil => exact ⟨m, hm, rfl, rfl⟩
  | cons op ops ih =>
    obtain ⟨hmono, hfr⟩ := step'_frame s op
    obtain ⟨m1, hm1, hkeep, -⟩ := hfr m hm
    obtain ⟨hs, hw⟩ := hkeep hstarted
    obtain ⟨m', hm', h1, h2⟩ := ih (step' s op) m1 hm1 (by omega)
    exact ⟨m', by simpa [run] using hm', by omega, by rw [h2, hw]⟩

/-- the same for the end time of an open edition: once `now ≥ end` has held the end never changes again -/
theorem C04_ended_is_final (s : State) (m : Minter) (e : Nat) (ops : List Op)
    (hm : s.minter = some m) (he : m.stop = some e) (hended : e ≤ s.now) :
    ∃ m', (run s ops).minter = some m' ∧ m'.stop = some e := by
  induction ops generalizing s m with
  | nil => exact ⟨m, hm, he⟩
  | cons op ops ih =>
    obtain ⟨hmono, hfr⟩ := step'_frame s op
    obtain ⟨m1, hm1, -, hkeep⟩ := hfr m hm
    obtain ⟨m', hm', h1⟩ := ih (step' s op) m1 hm1 (hkeep e he hended) (by omega)
    exact ⟨m', by simpa [run] using hm', h1⟩

/-- in the form "for every history and every continuation of it": whatever happened in `before`, if afterwards the
start has been reached then no `after` changes it -/
theorem C04_started_is_final_trace (s₀ : State) (before after : List Op) (m : Minter)
    (hm : (run s₀ before).minter = some m) (hstarted : m.start ≤ (run s₀ before).now) :
    ∃ m', (run s₀ (before ++ after)).minter = some m' ∧ m'.start = m.start ∧ m'.wl = m.wl := by
  have : run s₀ (before ++ after) = run (run s₀ before) after := by simp [run, List.foldl_append]
  rw [this]
  exact C04_started_is_final _ m after hm hstarted

end SaleWindow
end LP
