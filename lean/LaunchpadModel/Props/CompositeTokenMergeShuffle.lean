import LaunchpadModel.Props.CompositeTokenMerge
import LaunchpadModel.Props.CompositeVendingShuffle
/-!
# C02 on the token-merge composite — histories WITH `Shuffle` (the side hypothesis `NoShuffle` removed)

The aspect model `LP.MintPay` has no operation that can express the bank effect of `execute_shuffle` (its only
environment op, `fund`, creates coins; a shuffle debits the caller, burns and pays the fair-burn pool), so the effect of a
composite `Shuffle` is proved here directly on the composite model, and the history theorem of Props/CompositeTokenMerge.lean
(`C02_fulltm_history_minter_never_holds`, hypothesis `NoShuffle`) is restated over ALL composite operations: what holds is
"the minter's balance grows exactly by the over-paid shuffle fees" (`sg1::checked_fair_burn` only rejects
`payment < fee`, so `payment − fee` stays in the minter — the documented observation corpus/C02/shuffle-overpay.json).
-/
namespace LP
open LP.TMF

namespace TMF

/-- what an ACCEPTED `Shuffle` leaves in the minter: the native coins attached minus the shuffle fee then in force -/
def stepSurplus (s : State) : Op → Nat
  | .shuffle sender funds perm =>
    if accepted s (.shuffle sender funds perm) then MintPay.coinsIn NATIVE funds - s.params.shuffleFee.amount else 0
  | _ => 0

/-- the over-paid shuffle fees accumulated along a composite history -/
def shuffleSurplus (s : State) : List Op → Nat
  | [] => 0
  | op :: rest => stepSurplus s op + shuffleSurplus (step' s op) rest

/-- `PayAway` extended to `Shuffle`: the minter is not its own shuffle payer either -/
def PayAwayAll (mi : Addr) : Op → Prop
  | .shuffle sender _ _ => sender ≠ mi
  | op => PayAway mi op

theorem payAwayAll_noshuffle {mi : Addr} {op : Op} (h : PayAwayAll mi op)
    (hns : ∀ sender funds perm, op ≠ .shuffle sender funds perm) : PayAway mi op := by
  cases op <;> first | exact h | exact absurd rfl (hns _ _ _)

theorem stepSurplus_noshuffle (s : State) {op : Op} (hns : ∀ sender funds perm, op ≠ .shuffle sender funds perm) :
    stepSurplus s op = 0 := by
  cases op <;> first | rfl | exact absurd rfl (hns _ _ _)

/-- the exact bank effect of an accepted `shuffle` body -/
theorem shuffle_bank {s s' : State} {m : Minter} {sender : Addr} {funds : List Coin} {perm : List Nat}
    (h : shuffle s m sender funds perm = .ok s') :
    ∃ paid sup, mayPay funds NATIVE = .ok paid ∧ s.params.shuffleFee.amount ≤ paid ∧
      (∀ d, MintPay.coinsIn d funds = if d = NATIVE then paid else 0) ∧
      s' = { s with bank := s'.bank, minter := some { m with supply := sup } } ∧
      (∀ a d, s'.bank.bal a d + (if a = sender then MintPay.coinsIn d funds else 0) +
          (if a = m.addr ∧ d = NATIVE then s.params.shuffleFee.amount else 0) =
        s.bank.bal a d + (if a = m.addr then MintPay.coinsIn d funds else 0) +
          (if a = FAIRBURN_POOL ∧ d = NATIVE then
            s.params.shuffleFee.amount - VF.burnPart s.params.shuffleFee.amount else 0)) ∧
      (∀ d, s'.bank.burned d = s.bank.burned d + (if d = NATIVE then VF.burnPart s.params.shuffleFee.amount else 0)) ∧
      s'.bank.minted = s.bank.minted := by
  obtain ⟨b1, ms, sup, b2, hb1, hms, _, hb2, rfl⟩ := shuffle_ok h
  -- the fair-burn messages
  unfold Sg1.checkedFairBurn at hms
  simp only [bind, Except.bind, pure, Except.pure] at hms
  cases hpay : mayPay funds NATIVE with
  | error e => rw [hpay] at hms; cases hms
  | ok paid =>
    rw [hpay] at hms
    simp only at hms
    by_cases hlt : paid < s.params.shuffleFee.amount
    · simp [hlt, throw, throwThe, MonadExceptOf.throw] at hms
    · have hle : s.params.shuffleFee.amount ≤ paid := Nat.le_of_not_lt hlt
      have hcoins : ∀ d, MintPay.coinsIn d funds = if d = NATIVE then paid else 0 := by
        intro d
        rcases MintPay.mayPay_ok hpay with ⟨rfl, rfl⟩ | rfl
        · simp [MintPay.coinsIn]
        · by_cases hd : d = NATIVE
          · simp [MintPay.coinsIn, hd]
          · have : ¬ NATIVE = d := fun e => hd e.symm
            simp [MintPay.coinsIn, hd, this]
      refine ⟨paid, sup, rfl, hle, hcoins, rfl, ?_⟩
      simp only [hlt, if_false] at hms
      by_cases hz : paid = 0
      · -- nothing attached: the fee is zero and no message is emitted
        have hfee : s.params.shuffleFee.amount = 0 := by omega
        simp only [hz, ne_eq, not_true_eq_false, if_false] at hms
        cases hms
        simp only [MintPay.applyMsgs] at hb2
        cases hb2
        have hbp : VF.burnPart s.params.shuffleFee.amount = 0 := by
          have := VF.burnPart_le s.params.shuffleFee.amount; omega
        refine ⟨?_, ?_, ?_⟩
        · intro a d
          have := (MintPay.sendFunds_ledger hb1 a d).1
          rw [hfee]
          simp only [Nat.zero_sub, ite_self, Nat.add_zero]
          exact this
        · intro d
          rw [(MintPay.sendFunds_ledger hb1 sender d).2.1, hbp]; simp
        · exact (MintPay.sendFunds_ledger hb1 sender NATIVE).2.2
      · simp only [ne_eq, hz, not_false_eq_true, if_true] at hms
        cases hms
        refine ⟨?_, ?_, ?_⟩
        · intro a d
          have h1 := (MintPay.sendFunds_ledger hb1 a d).1
          have h2 := (MintPay.applyMsgs_ledger _ hb2 a d).1
          have hout := (MintPay.fairBurn_outflow m.addr s.params.shuffleFee.amount none d).1
          have hin : MintPay.inflow a d (Sg1.fairBurn m.addr s.params.shuffleFee.amount none) =
              if a = FAIRBURN_POOL ∧ d = NATIVE then
                s.params.shuffleFee.amount - VF.burnPart s.params.shuffleFee.amount else 0 := by
            rw [MintPay.fairBurn_none]
            exact VF.inflow_burn_pool a m.addr d _ _
          rw [hout, hin, VF.ite_nest (p := a = m.addr) (q := NATIVE = d) (q' := d = NATIVE) ⟨Eq.symm, Eq.symm⟩] at h2
          show b2.bal a d + _ + _ = _
          omega
        · intro d
          have h1 := (MintPay.sendFunds_ledger hb1 sender d).2.1
          have h2 := (MintPay.applyMsgs_ledger _ hb2 sender d).2.1
          have hb := (MintPay.fairBurn_outflow m.addr s.params.shuffleFee.amount none d).2
          rw [hb] at h2
          simp only at h2 ⊢
          rw [h2, h1]
          by_cases hd : d = NATIVE
          · simp [hd, VF.burnPart]
          · have hd' : ¬ NATIVE = d := fun e => hd e.symm
            simp [hd, hd']
        · have h1 := (MintPay.sendFunds_ledger hb1 sender NATIVE).2.2
          have h2 := (MintPay.applyMsgs_ledger _ hb2 sender NATIVE).2.2
          simp only at h2 ⊢
          rw [h2, h1]

/-- one composite step of ANY kind: the minter record survives with its address, the "minter is not a payee" side
condition is preserved, and the minter's balance changes by exactly the shuffle surplus of that step -/
theorem away_full_step (s : State) (m : Minter) (hm : s.minter = some m) (op : Op) (hop : PayAwayAll m.addr op)
    (hrec : m.addr ∉ MintPay.recipients payVariant (payFactory s.params) (payMinter m)) :
    ∃ m', (step' s op).minter = some m' ∧ m'.addr = m.addr ∧
      m'.addr ∉ MintPay.recipients payVariant (payFactory (step' s op).params) (payMinter m') ∧
      ∀ d, (step' s op).bank.bal m.addr d = s.bank.bal m.addr d + (if d = NATIVE then stepSurplus s op else 0) := by
  by_cases hsh : ∃ sender funds perm, op = .shuffle sender funds perm
  · obtain ⟨sender, funds, perm, rfl⟩ := hsh
    have hsm : sender ≠ m.addr := hop
    rcases step'_cases s (.shuffle sender funds perm) with ⟨s', hok, hs'⟩ | ⟨⟨e, herr⟩, hs'⟩
    · have hacc := accepted_of_ok hok
      simp only [step] at hok
      obtain ⟨m0, hm0, hok⟩ := withMinterS_ok hok
      rw [hm] at hm0; cases hm0
      obtain ⟨paid, sup, _, hle, hcoins, hs'eq, hled, _, _⟩ := shuffle_bank hok
      have hpool : FAIRBURN_POOL ≠ m.addr := by
        intro hx; apply hrec; rw [← hx]; simp [MintPay.recipients]
      rw [hs']
      refine ⟨{ m with supply := sup }, by rw [hs'eq], rfl, ?_, ?_⟩
      · rw [hs'eq]
        simpa [MintPay.recipients, MintPay.sellerOf, payVariant, payFactory, payMinter] using hrec
      · intro d
        have := hled m.addr d
        have hpool' : ¬ m.addr = FAIRBURN_POOL := fun e => hpool e.symm
        have hsm' : ¬ m.addr = sender := fun e => hsm e.symm
        simp only [hsm', hpool', if_false, if_true, false_and, true_and, Nat.add_zero] at this
        simp only [stepSurplus, hacc, if_true]
        rw [hcoins d] at this
        rw [hcoins NATIVE]
        simp only [if_true]
        by_cases hd : d = NATIVE
        · simp only [hd, if_true] at this ⊢; omega
        · simp only [hd, if_false] at this ⊢; omega
    · have hacc := accepted_of_err herr
      rw [hs']
      refine ⟨m, hm, rfl, hrec, ?_⟩
      intro d
      simp [stepSurplus, hacc]
  · have hns : ∀ sender funds perm, op ≠ .shuffle sender funds perm := fun a b c e => hsh ⟨a, b, c, e⟩
    obtain ⟨m', hm', heq⟩ := pay_sim s m hm op hns
    have hdao : LAUNCHPAD_DAO ≠ m.addr := by
      intro hx; apply hrec; rw [← hx]; simp [MintPay.recipients]
    have haw := payOps_away s op m.addr (payAwayAll_noshuffle hop hns) hdao
    obtain ⟨h1, h2, h3, h4⟩ := VF.away_run (payOf s m) (payOps s op) hrec haw
    rw [← heq] at h1 h2 h3 h4
    refine ⟨m', hm', h1, h3, ?_⟩
    intro d
    rw [stepSurplus_noshuffle s hns]
    have := h4 d
    simp only [Nat.add_zero, ite_self]
    exact this

end TMF

/-- **The bank effect of an accepted composite `Shuffle`**, with no distinctness assumption (every account `a`, every
denom `d`): the caller attached either nothing or exactly one native coin `paid ≥ shuffle_fee`; the caller's balance drops
by what was attached, the minter receives it and disposes of exactly `shuffle_fee`, of which `VF.burnPart fee = fee / 2`
is burned and `fee − fee/2` reaches the fair-burn pool; nothing is minted.  So the minter's own balance changes by
`paid − shuffle_fee` (`C02_fulltm_shuffle_minter_surplus`). -/
theorem C02_fulltm_shuffle_bank_effect (s s' : TMF.State) (m : TMF.Minter) (hm : s.minter = some m)
    (sender : Addr) (funds : List Coin) (perm : List Nat) (h : TMF.step s (.shuffle sender funds perm) = .ok s') :
    ∃ paid, mayPay funds NATIVE = .ok paid ∧ s.params.shuffleFee.amount ≤ paid ∧
      (∀ d, MintPay.coinsIn d funds = if d = NATIVE then paid else 0) ∧
      (∀ a d, s'.bank.bal a d + (if a = sender then MintPay.coinsIn d funds else 0) +
          (if a = m.addr ∧ d = NATIVE then s.params.shuffleFee.amount else 0) =
        s.bank.bal a d + (if a = m.addr then MintPay.coinsIn d funds else 0) +
          (if a = FAIRBURN_POOL ∧ d = NATIVE then
            s.params.shuffleFee.amount - VF.burnPart s.params.shuffleFee.amount else 0)) ∧
      (∀ d, s'.bank.burned d =
        s.bank.burned d + (if d = NATIVE then VF.burnPart s.params.shuffleFee.amount else 0)) ∧
      s'.bank.minted = s.bank.minted ∧
      VF.burnPart s.params.shuffleFee.amount = s.params.shuffleFee.amount / 2 := by
  simp only [TMF.step] at h
  obtain ⟨m0, hm0, h⟩ := TMF.withMinterS_ok h
  rw [hm] at hm0; cases hm0
  obtain ⟨paid, sup, hp, hle, hcoins, _, hled, hburn, hmint⟩ := TMF.shuffle_bank h
  exact ⟨paid, hp, hle, hcoins, hled, hburn, hmint, VF.burnPart_half _⟩

/-- an accepted `Shuffle` paid by somebody else, the fair-burn pool not being the minter: the minter keeps exactly the
over-payment `paid − shuffle_fee` (native denom; nothing in any other denom) -/
theorem C02_fulltm_shuffle_minter_surplus (s s' : TMF.State) (m : TMF.Minter) (hm : s.minter = some m)
    (sender : Addr) (funds : List Coin) (perm : List Nat) (h : TMF.step s (.shuffle sender funds perm) = .ok s')
    (hsm : sender ≠ m.addr) (hpool : FAIRBURN_POOL ≠ m.addr) (d : Denom) :
    s'.bank.bal m.addr d =
      s.bank.bal m.addr d + (if d = NATIVE then MintPay.coinsIn NATIVE funds - s.params.shuffleFee.amount else 0) := by
  obtain ⟨paid, _, hle, hcoins, hled, _⟩ := C02_fulltm_shuffle_bank_effect s s' m hm sender funds perm h
  have := hled m.addr d
  have hpool' : ¬ m.addr = FAIRBURN_POOL := fun e => hpool e.symm
  have hsm' : ¬ m.addr = sender := fun e => hsm e.symm
  simp only [hsm', hpool', if_false, if_true, false_and, true_and, Nat.add_zero] at this
  rw [hcoins d] at this
  rw [hcoins NATIVE]
  simp only [if_true]
  by_cases hd : d = NATIVE
  · simp only [hd, if_true] at this ⊢; omega
  · simp only [hd, if_false] at this ⊢; omega

/-- **`C02_fulltm_history_minter_never_holds` without `NoShuffle`**: after ANY composite history — airdrops with any funds,
accepted or not, deposits, governance changes, clock steps, collection
messages AND `Shuffle`s with any funds — in which nobody funds the minter directly and the minter is not its own payer or
payee, the minter holds in every denom exactly what it held at the start plus the over-paid shuffle fees
(`TMF.shuffleSurplus`: for each ACCEPTED `Shuffle`, native coins attached − the shuffle fee then in force). -/
theorem C02_fulltm_history_minter_holds_only_shuffle_surplus (s : TMF.State) (m : TMF.Minter) (hm : s.minter = some m)
    (ops : List TMF.Op) (haway : ∀ op ∈ ops, TMF.PayAwayAll m.addr op)
    (hrec : m.addr ∉ MintPay.recipients TMF.payVariant (TMF.payFactory s.params) (TMF.payMinter m)) (d : Denom) :
    (TMF.run s ops).bank.bal m.addr d =
      s.bank.bal m.addr d + (if d = NATIVE then TMF.shuffleSurplus s ops else 0) := by
  induction ops generalizing s m with
  | nil => show s.bank.bal m.addr d = _; simp [TMF.shuffleSurplus]
  | cons op ops ih =>
    obtain ⟨m', hm', hadd, hrec', hbal⟩ := TMF.away_full_step s m hm op (haway op (List.mem_cons_self ..)) hrec
    have := ih (TMF.step' s op) m' hm' (by
      intro o ho; rw [hadd]; exact haway o (List.mem_cons_of_mem _ ho)) hrec'
    rw [hadd] at this
    rw [TMF.run_cons, this, hbal d]
    simp only [TMF.shuffleSurplus]
    split <;> omega

/-- corollary: the minter's balance never DEcreases along such a history, and it is unchanged when every accepted
`Shuffle` was paid exactly (`shuffleSurplus = 0`), in particular along histories without `Shuffle` -/
theorem C02_fulltm_history_minter_balance_monotone (s : TMF.State) (m : TMF.Minter) (hm : s.minter = some m)
    (ops : List TMF.Op) (haway : ∀ op ∈ ops, TMF.PayAwayAll m.addr op)
    (hrec : m.addr ∉ MintPay.recipients TMF.payVariant (TMF.payFactory s.params) (TMF.payMinter m)) (d : Denom) :
    s.bank.bal m.addr d ≤ (TMF.run s ops).bank.bal m.addr d ∧
    (TMF.shuffleSurplus s ops = 0 → (TMF.run s ops).bank.bal m.addr d = s.bank.bal m.addr d) := by
  have := C02_fulltm_history_minter_holds_only_shuffle_surplus s m hm ops haway hrec d
  refine ⟨by omega, ?_⟩
  intro h0
  rw [this, h0]; simp

end LP
