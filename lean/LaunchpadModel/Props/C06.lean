import LaunchpadModel.Model.Sg1
import LaunchpadModel.Lemmas.Protobuf
/-!
# C06 — Fee splits are exact: parts always sum to the fee, in the documented ratios

All statements are over `F : Nat` (hence the whole `u128` range) and every developer option; the function-level statements
(`C06_distribute_*`, `C06_creation_fee_nonnative_path`, `C06_ibc_sum`) are for every denom, the caller statements (`C06_caller_*`) for
native-priced mints only.
`FEE_BURN_PERCENT` is read from `Generated/Constants.lean` (regenerated from `packages/sg1/src/lib.rs`
on every run); the theorems below only check while it is 50.
-/
namespace LP
open LP.Sg1

/-! ## Decimal bridge: the atomics-level computations equal the closed forms -/

theorem C06_bridge_half_floor (F : Nat) : mulFloor F (percent Gen.sg1_FEE_BURN_PERCENT) = F / 2 := by
  unfold mulFloor percent Gen.sg1_FEE_BURN_PERCENT; omega

theorem C06_bridge_half_ceil (F : Nat) : mulCeil F (percent Gen.sg1_FEE_BURN_PERCENT) = (F + 1) / 2 := by
  unfold mulCeil percent Gen.sg1_FEE_BURN_PERCENT; simp only []; split <;> omega

theorem C06_bridge_fifth : fromRatio 1 5 = 2 * 10^17 := by decide
theorem C06_bridge_eighth : fromRatio 1 8 = 125 * 10^15 := by decide

theorem C06_bridge_fifth_ceil (r : Nat) : mulCeil r (fromRatio 1 5) = (r + 4) / 5 := by
  rw [C06_bridge_fifth]; unfold mulCeil; simp only []; split <;> omega

theorem C06_bridge_eighth_ceil (r : Nat) : mulCeil r (fromRatio 1 8) = (r + 7) / 8 := by
  rw [C06_bridge_eighth]; unfold mulCeil; simp only []; split <;> omega

/-! ## Fair burn -/

/-- "a fair burn of F burns floor(F/2) and sends the remaining F − floor(F/2) to the developer when one is
given, otherwise to the fair-burn pool on behalf of the calling contract" -/
theorem C06_fairburn (sender : Addr) (F : Nat) (dev : Option Addr) :
    fairBurn sender F dev =
      [ Msg.burn ⟨NATIVE, F / 2⟩,
        match dev with
        | some d => Msg.send d ⟨NATIVE, F - F / 2⟩
        | none => Msg.fundPool sender ⟨NATIVE, F - F / 2⟩ ] := by
  unfold fairBurn; simp only [C06_bridge_half_floor]; cases dev <;> rfl

/-- parts sum to the fee, no part exceeds it -/
theorem C06_fairburn_sum (sender : Addr) (F : Nat) (dev : Option Addr) :
    sumAmounts (fairBurn sender F dev) = F ∧ ∀ m ∈ fairBurn sender F dev, m.amount ≤ F ∧ m.denom = NATIVE := by
  rw [C06_fairburn]
  cases dev <;> simp [sumAmounts, Msg.amount, Msg.denom] <;> omega

/-! ## Mint-fee distribution -/

def liqDen (featured : Bool) : Nat := if featured then 8 else 5

/-- "a mint-fee distribution of F gives ceil(F/2) to the developer when one is given, then ceil of one fifth
(one eighth for featured minters) of what is left to the liquidity DAO and the remainder to the launchpad DAO" -/
theorem C06_distribute_dev (denom : Denom) (F : Nat) (featured : Bool) (d : Addr) :
    distributeMintFees ⟨denom, F⟩ featured (some d) =
      let devFee := (F + 1) / 2
      let rest := F - devFee
      let liq := (rest + (liqDen featured - 1)) / liqDen featured
      [ Msg.send d ⟨denom, devFee⟩, Msg.send LIQUIDITY_DAO ⟨denom, liq⟩, Msg.send LAUNCHPAD_DAO ⟨denom, rest - liq⟩ ] := by
  unfold distributeMintFees liqDen
  cases featured <;> simp [C06_bridge_half_ceil, C06_bridge_fifth_ceil, C06_bridge_eighth_ceil]

theorem C06_distribute_nodev (denom : Denom) (F : Nat) (featured : Bool) :
    distributeMintFees ⟨denom, F⟩ featured none =
      let liq := (F + (liqDen featured - 1)) / liqDen featured
      [ Msg.send LIQUIDITY_DAO ⟨denom, liq⟩, Msg.send LAUNCHPAD_DAO ⟨denom, F - liq⟩ ] := by
  unfold distributeMintFees liqDen
  cases featured <;> simp [C06_bridge_fifth_ceil, C06_bridge_eighth_ceil]

/-- conservation to the last unit; no part negative (Nat) or larger than the fee; all in the fee's denom -/
theorem C06_distribute_sum (denom : Denom) (F : Nat) (featured : Bool) (dev : Option Addr) :
    sumAmounts (distributeMintFees ⟨denom, F⟩ featured dev) = F ∧
    ∀ m ∈ distributeMintFees ⟨denom, F⟩ featured dev, m.amount ≤ F ∧ m.denom = denom := by
  cases dev with
  | none =>
    rw [C06_distribute_nodev]
    cases featured <;> simp [sumAmounts, Msg.amount, Msg.denom, liqDen] <;> omega
  | some d =>
    rw [C06_distribute_dev]
    cases featured <;> simp [sumAmounts, Msg.amount, Msg.denom, liqDen] <;> omega

/-! ## Checked fair burn -/

/-- "a payment below the required fee is rejected" -/
theorem C06_checked_insufficient (funds : List Coin) (self : Addr) (fee : Nat) (dev : Option Addr)
    (p : Nat) (hp : mayPay funds NATIVE = .ok p) (hlt : p < fee) :
    checkedFairBurn funds self fee dev = .error .insufficientFee := by
  simp [checkedFairBurn, hp, hlt, bind, Except.bind, throw, throwThe, MonadExceptOf.throw]

/-- wrong denom / several coins is rejected as well -/
theorem C06_checked_badfunds (funds : List Coin) (self : Addr) (fee : Nat) (dev : Option Addr)
    (e : Err) (hp : mayPay funds NATIVE = .error e) :
    checkedFairBurn funds self fee dev = .error e := by
  simp [checkedFairBurn, hp, bind, Except.bind]

/-- a sufficient non-zero payment fair-burns exactly `fee` (on behalf of the calling contract) -/
theorem C06_checked_ok (funds : List Coin) (self : Addr) (fee : Nat) (dev : Option Addr)
    (p : Nat) (hp : mayPay funds NATIVE = .ok p) (hge : fee ≤ p) (hnz : p ≠ 0) :
    checkedFairBurn funds self fee dev = .ok (fairBurn self fee dev) := by
  have : ¬ p < fee := by omega
  simp [checkedFairBurn, hp, this, hnz, bind, Except.bind, pure, Except.pure]

/-- no payment and no fee: accepted, nothing emitted -/
theorem C06_checked_zero (funds : List Coin) (self : Addr) (dev : Option Addr)
    (hp : mayPay funds NATIVE = .ok 0) :
    checkedFairBurn funds self 0 dev = .ok [] := by
  simp [checkedFairBurn, hp, bind, Except.bind, pure, Except.pure]

/-! ## Non-native fees

Scope: the clause "fees in a non-native denom go in full to the launchpad DAO" is anchored in `transfer_funds_to_launchpad_dao`,
whose only callers are the factories' CREATION-fee branch (`creationFeeMsgs` below). A MINT fee never takes this path: the minters
call `distribute_mint_fees(coin(fee, mint_price.denom), …)`, which keeps the published split in whatever denom the price has
(`C06_distribute_*`, stated for every denom; `C06_mint_fee_nonnative_keeps_split` below is the concrete instance). -/

/-- "fees in a non-native denom go in full to the launchpad DAO" (and a payment below the fee is rejected) — for fees taken through
`transfer_funds_to_launchpad_dao`, i.e. the creation-fee path; says nothing about mint fees (see the section header) -/
theorem C06_creation_fee_nonnative_path (funds : List Coin) (fee : Nat) (denom : Denom) :
    transferFundsToLaunchpadDao funds fee denom =
      match mustPay funds denom with
      | .error e => .error e
      | .ok p => if p < fee then .error .insufficientFee else .ok [Msg.send LAUNCHPAD_DAO ⟨denom, p⟩] := by
  unfold transferFundsToLaunchpadDao
  cases h : mustPay funds denom with
  | error e => simp [bind, Except.bind]
  | ok p => by_cases hlt : p < fee <;> simp [hlt, bind, Except.bind, pure, Except.pure, throw, throwThe, MonadExceptOf.throw]

/-- alias of `C06_creation_fee_nonnative_path` (kept because other modules refer to it) -/
theorem C06_nonnative (funds : List Coin) (fee : Nat) (denom : Denom) :
    transferFundsToLaunchpadDao funds fee denom =
      match mustPay funds denom with
      | .error e => .error e
      | .ok p => if p < fee then .error .insufficientFee else .ok [Msg.send LAUNCHPAD_DAO ⟨denom, p⟩] :=
  C06_creation_fee_nonnative_path funds fee denom

/-- a MINT fee in a non-native denom is NOT forwarded in full: it keeps the published split, liquidity-DAO share included
(plain minter, denom 1, fee 10: 2 to the liquidity DAO, 8 to the launchpad DAO). Instance of `C06_distribute_nodev`. -/
theorem C06_mint_fee_nonnative_keeps_split :
    distributeMintFees ⟨1, 10⟩ false none = [Msg.send LIQUIDITY_DAO ⟨1, 2⟩, Msg.send LAUNCHPAD_DAO ⟨1, 8⟩] ∧ (1 : Denom) ≠ NATIVE := by
  decide

/-- the whole payment, not just the fee, is forwarded (creation-fee path) -/
theorem C06_nonnative_full (c : Coin) (fee : Nat) (hnz : c.amount ≠ 0) (hge : fee ≤ c.amount) :
    transferFundsToLaunchpadDao [c] fee c.denom = .ok [Msg.send LAUNCHPAD_DAO ⟨c.denom, c.amount⟩] := by
  have : ¬ c.amount < fee := by omega
  simp [C06_creation_fee_nonnative_path, mustPay, hnz, this]

/-! ## IBC fair burn (not in the property text; same exactness) -/
theorem C06_ibc_sum (denom : Denom) (F : Nat) (dev : Option Addr) :
    sumAmounts (ibcDenomFairBurn ⟨denom, F⟩ dev) = F := by
  cases dev with
  | none => simp [ibcDenomFairBurn, sumAmounts, Msg.amount]
  | some d => simp [ibcDenomFairBurn, sumAmounts, Msg.amount, C06_bridge_half_ceil]; omega

/-! ## Creation fee routing in the factories -/

/-- a native creation fee is fair-burned on behalf of the factory: half burned (floor), the rest to the fair-burn pool — whatever
the denom of the factory's minimum price or of anything else -/
theorem C06_creation_fee_native (self fee pay : Nat) (hp : fee ≤ pay) (hz : pay ≠ 0) :
    creationFeeMsgs self NATIVE fee [⟨NATIVE, pay⟩] =
      .ok [Msg.burn ⟨NATIVE, fee / 2⟩, Msg.fundPool self ⟨NATIVE, fee - fee / 2⟩] := by
  unfold creationFeeMsgs
  rw [if_pos rfl, C06_checked_ok [⟨NATIVE, pay⟩] self fee none pay (by simp [mayPay]) hp hz, C06_fairburn]

/-- "fees in a non-native denom go in full to the launchpad DAO": a CREATION fee in a non-native denom (exact or over-payment in that
denom) is forwarded in full -/
theorem C06_creation_fee_nonnative (self d fee pay : Nat) (hd : d ≠ NATIVE) (hp : fee ≤ pay) (hz : pay ≠ 0) :
    creationFeeMsgs self d fee [⟨d, pay⟩] = .ok [Msg.send LAUNCHPAD_DAO ⟨d, pay⟩] := by
  unfold creationFeeMsgs
  rw [if_neg hd]
  exact C06_nonnative_full ⟨d, pay⟩ fee hz hp

/-! ## Whitelist fees -/

/-- a whitelist fee `F ≠ 0` is fair-burned in full on behalf of the whitelist: floor(F/2) burned, the rest to the pool; nothing
stays behind -/
theorem C06_wl_fee_fair_burned (self F : Nat) (hF : F ≠ 0) :
    wlFeeMsgs self F = [Msg.burn ⟨NATIVE, F / 2⟩, Msg.fundPool self ⟨NATIVE, F - F / 2⟩] ∧
    sumAmounts (wlFeeMsgs self F) = F := by
  unfold wlFeeMsgs
  rw [if_neg hF]
  exact ⟨C06_fairburn self F none, (C06_fairburn_sum self F none).1⟩

/-- an upgrade crossing `k` thousand-boundaries costs exactly `k` buckets: the fees ever paid telescope to the creation fee of
the current limit -/
theorem C06_wl_fee_telescopes (per old new : Nat) (h : old ≤ new) :
    wlCreationFee per old + wlUpgradeFee per old new = wlCreationFee per new := by
  unfold wlCreationFee wlUpgradeFee wlTiers
  have : (old + 999) / 1000 ≤ (new + 999) / 1000 := Nat.div_le_div_right (by omega)
  rw [← Nat.add_mul]; congr 1; omega

/-! ## The callers (which minter passes which flag and developer)

`mintFeeMsgs k price b dev` is what one public mint on minter kind `k` emits for the network fee (`Model/Sg1.lean`; validated
against real minters of the nine kinds 0..8 created through their factories: `mintfee` lines of the harness).

Scope: NATIVE-priced minters only. `mintFeeMsgs` hard-codes `⟨NATIVE, fee⟩` and the `mintfee` lines only mint at native prices,
whereas every real caller passes `mint_price.denom`; a non-native-priced mint is not modelled by the `C06_caller_*` theorems (the
split itself is proved for every denom by `C06_distribute_*`; C07's `feeSendable` uses the price denom). -/

/-- "one eighth for featured minters": the three featured minters, no developer -/
theorem C06_caller_featured (k price b : Nat) (dev : Addr) (hk : callerFeatured k = true) (hf : mulFloor price (bps b) ≠ 0) :
    mintFeeMsgs k price b dev =
      let F := mulFloor price (bps b)
      [ Msg.send LIQUIDITY_DAO ⟨NATIVE, (F + 7) / 8⟩, Msg.send LAUNCHPAD_DAO ⟨NATIVE, F - (F + 7) / 8⟩ ] := by
  have hd : callerHasDev k = false := by
    unfold callerFeatured at hk; unfold callerHasDev
    simp only [Bool.or_eq_true, beq_iff_eq] at hk
    rcases hk with (h | h) | h <;> subst h <;> rfl
  unfold mintFeeMsgs
  simp only [hf, if_false, hk, hd, Bool.false_eq_true]
  rw [C06_distribute_nodev]; simp [liqDen]

/-- any index with both flags false: one fifth, no developer. This is a statement about the model's `mintFeeMsgs`; the indices that
are real `distribute_mint_fees` callers with both flags false are k = 0, 2, 4 (plain vending minters) and k = 9 (token-merge) —
see `C06_caller_plain_kinds`. It also formally covers k = 10 (base-minter), which does NOT call `distribute_mint_fees` (it
fair-burns its fee with `checked_fair_burn`), and k > 10, which are no minter: for those it says nothing about the code. -/
theorem C06_caller_plain (k price b : Nat) (dev : Addr) (hk : callerFeatured k = false) (hd : callerHasDev k = false)
    (hf : mulFloor price (bps b) ≠ 0) :
    mintFeeMsgs k price b dev =
      let F := mulFloor price (bps b)
      [ Msg.send LIQUIDITY_DAO ⟨NATIVE, (F + 4) / 5⟩, Msg.send LAUNCHPAD_DAO ⟨NATIVE, F - (F + 4) / 5⟩ ] := by
  unfold mintFeeMsgs
  simp only [hf, if_false, hk, hd, Bool.false_eq_true]
  rw [C06_distribute_nodev]; simp [liqDen]

/-- the three plain vending minters and token-merge, by index: one fifth, no developer. (k = 9, token-merge, charges a fee only on an
admin `MintTo`, on the airdrop price with the airdrop bps; it is not among the `mintfee` harness kinds 0..8, so for k = 9 the two
flags are read off the source, not validated by C06's harness.) -/
theorem C06_caller_plain_kinds (k price b : Nat) (dev : Addr) (hk : k = 0 ∨ k = 2 ∨ k = 4 ∨ k = 9)
    (hf : mulFloor price (bps b) ≠ 0) :
    mintFeeMsgs k price b dev =
      let F := mulFloor price (bps b)
      [ Msg.send LIQUIDITY_DAO ⟨NATIVE, (F + 4) / 5⟩, Msg.send LAUNCHPAD_DAO ⟨NATIVE, F - (F + 4) / 5⟩ ] := by
  rcases hk with h | h | h | h <;> subst h <;> exact C06_caller_plain _ price b dev rfl rfl hf

/-- the three open-edition minters: developer half first, then one fifth -/
theorem C06_caller_open_edition (k price b : Nat) (dev : Addr) (hd : callerHasDev k = true) (hf : mulFloor price (bps b) ≠ 0) :
    mintFeeMsgs k price b dev =
      let F := mulFloor price (bps b)
      let devFee := (F + 1) / 2
      let rest := F - devFee
      [ Msg.send dev ⟨NATIVE, devFee⟩, Msg.send LIQUIDITY_DAO ⟨NATIVE, (rest + 4) / 5⟩, Msg.send LAUNCHPAD_DAO ⟨NATIVE, rest - (rest + 4) / 5⟩ ] := by
  have hk : callerFeatured k = false := by
    unfold callerHasDev at hd; unfold callerFeatured
    simp only [Bool.or_eq_true, beq_iff_eq] at hd
    rcases hd with (h | h) | h <;> subst h <;> rfl
  unfold mintFeeMsgs
  simp only [hf, if_false, hk, hd, if_true]
  rw [C06_distribute_dev]; simp [liqDen]

/-- whatever the caller: the parts of a mint's network fee sum to it, none exceeds it, nothing is burned, and the fee never
exceeds the price (bps ≤ 10000) -/
theorem C06_caller_sum (k price b : Nat) (dev : Addr) :
    sumAmounts (mintFeeMsgs k price b dev) = mulFloor price (bps b) ∧
    (∀ m ∈ mintFeeMsgs k price b dev, m.amount ≤ mulFloor price (bps b) ∧ m.denom = NATIVE) ∧
    (b ≤ 10000 → mulFloor price (bps b) ≤ price) := by
  refine ⟨?_, ?_, ?_⟩
  · show sumAmounts (if mulFloor price (bps b) = 0 then [] else _) = _
    by_cases h : mulFloor price (bps b) = 0
    · rw [if_pos h, h]; rfl
    · rw [if_neg h]; exact (C06_distribute_sum NATIVE _ _ _).1
  · show ∀ m ∈ (if mulFloor price (bps b) = 0 then [] else _), _
    by_cases h : mulFloor price (bps b) = 0
    · rw [if_pos h]; intro m hm; cases hm
    · rw [if_neg h]; exact (C06_distribute_sum NATIVE _ _ _).2
  · intro hb; unfold mulFloor bps
    have : price * (b * 10 ^ 14) ≤ price * 10 ^ 18 := Nat.mul_le_mul_left _ (by omega)
    exact Nat.div_le_of_le_mul (by rw [Nat.mul_comm (10 ^ 18)]; exact this)

example : mintFeeMsgs 1 100000030 1000 55 = [Msg.send LIQUIDITY_DAO ⟨0, 1250001⟩, Msg.send LAUNCHPAD_DAO ⟨0, 8750002⟩] := by decide
example : mintFeeMsgs 6 100000030 1000 55 =
    [Msg.send 55 ⟨0, 5000002⟩, Msg.send LIQUIDITY_DAO ⟨0, 1000001⟩, Msg.send LAUNCHPAD_DAO ⟨0, 4000000⟩] := by decide


/-! ## Non-vacuity -/
example : fairBurn 9 9 none = [Msg.burn ⟨0, 4⟩, Msg.fundPool 9 ⟨0, 5⟩] := by decide
example : mayPay [⟨NATIVE, 7⟩] NATIVE = .ok 7 ∧ (5 ≤ 7) ∧ (7 ≠ 0) := by simp [mayPay]
example : distributeMintFees ⟨0, 101⟩ true (some 7) =
    [Msg.send 7 ⟨0, 51⟩, Msg.send LIQUIDITY_DAO ⟨0, 7⟩, Msg.send LAUNCHPAD_DAO ⟨0, 43⟩] := by decide

/-! ## Round 5: the protobuf bytes of `MsgFundFairburnPool` are inside the model (`LP.Pb`, `Model/Protobuf.lean`)

`fair_burn` with no developer sends the remainder with a STARGATE message whose bytes `packages/sg1` builds itself with the `anybuf`
crate (`encode_msg_fund_fairburn_pool`). `Pb.encodeFundFairburnPool` is that encoder (compared byte for byte with the real message on
every `pb` line of the harness), `Pb.decodeFundFairburnPool` a strict total decoder. -/

/-- base-128 varints: reading back what was written gives the number and leaves the rest of the input untouched -/
theorem C06_proto_varint_roundtrip (n : Nat) (rest : Pb.Bytes) :
    Pb.decVarint (Pb.encVarint n ++ rest) = some (n, rest) := Pb.decVarint_encVarint n rest

/-- every varint byte is a byte, and every byte but the last carries the continuation bit -/
theorem C06_proto_varint_bytes (n : Nat) : ∀ b ∈ Pb.encVarint n, b < 256 := by
  induction n using Nat.strongRecOn with
  | _ n ih =>
    rw [Pb.encVarint]
    by_cases h : n < 128
    · simp [h]; omega
    · simp only [h, if_false, List.mem_cons]
      rintro b (rfl | hb)
      · omega
      · exact ih (n / 128) (by omega) b hb

/-- "the remainder is sent to the fair-burn pool": the message round-trips — for ALL sender / denom / amount byte strings (the sender
may be empty: an omitted field decodes to the empty string), under the one well-formedness condition the encoder needs: no coin is the
all-default message (denom and amount both empty), because `anybuf::append_message` omits an empty nested message altogether. -/
theorem C06_proto_roundtrip (sender : Pb.Bytes) (coins : List (Pb.Bytes × Pb.Bytes)) (h : Pb.coinsWF coins = true) :
    Pb.decodeFundFairburnPool (Pb.encodeFundFairburnPool sender coins) = some (sender, coins) :=
  Pb.decode_encode sender coins h

/-- the shape `sg1` emits: exactly one coin -/
theorem C06_proto_roundtrip_one (sender denom amount : Pb.Bytes) (h : denom ≠ [] ∨ amount ≠ []) :
    Pb.decodeFundFairburnPool (Pb.encodeFundFairburnPool sender [(denom, amount)]) = some (sender, [(denom, amount)]) := by
  apply Pb.decode_encode
  cases denom <;> cases amount <;> simp_all [Pb.coinsWF]

/-- the excluded case: a coin whose denom and amount are both empty leaves no trace in the bytes (prost would write `12 00`) … -/
theorem C06_proto_empty_coin_dropped (sender : Pb.Bytes) (coins : List (Pb.Bytes × Pb.Bytes)) :
    Pb.encodeFundFairburnPool sender (([], []) :: coins) = Pb.encodeFundFairburnPool sender coins := by
  simp [Pb.encodeFundFairburnPool, Pb.encodeCoins, Pb.encodeCoin, Pb.appendBytes]

/-- … so it does not round-trip: it is lost -/
theorem C06_proto_empty_coin_lost (sender : Pb.Bytes) (coins : List (Pb.Bytes × Pb.Bytes)) (h : Pb.coinsWF coins = true) :
    Pb.decodeFundFairburnPool (Pb.encodeFundFairburnPool sender (([], []) :: coins)) = some (sender, coins) := by
  rw [C06_proto_empty_coin_dropped]; exact Pb.decode_encode sender coins h

/-- distinct (sender, coins) give distinct bytes -/
theorem C06_proto_injective (s s' : Pb.Bytes) (cs cs' : List (Pb.Bytes × Pb.Bytes))
    (h : Pb.coinsWF cs = true) (h' : Pb.coinsWF cs' = true)
    (he : Pb.encodeFundFairburnPool s cs = Pb.encodeFundFairburnPool s' cs') : s = s' ∧ cs = cs' := by
  have h1 := Pb.decode_encode s cs h
  rw [he, Pb.decode_encode s' cs' h'] at h1
  simp only [Option.some.injEq, Prod.mk.injEq] at h1
  exact ⟨h1.1.symm, h1.2.symm⟩

/-- `Uint128::to_string` read back as a number -/
theorem C06_proto_decimal_roundtrip (n : Nat) : Pb.parseDec (Pb.decDigits n) = n := Pb.parseDec_decDigits n

theorem C06_proto_decimal_injective (m n : Nat) (h : Pb.decDigits m = Pb.decDigits n) : m = n := by
  rw [← Pb.parseDec_decDigits m, h, Pb.parseDec_decDigits]

/-- "… to the fair-burn pool ON BEHALF OF THE CALLING CONTRACT": the Stargate message `fair_burn` emits without a developer, encoded
and decoded again, names the caller as sender and carries exactly one coin: the remainder `F − floor(F/2)` (as decimal digits that
read back as that number) in the native denom — whatever byte strings the ids stand for. -/
theorem C06_proto_sender_is_caller (addrB : Addr → Pb.Bytes) (denomB : Denom → Pb.Bytes) (self : Addr) (F : Nat) :
    (Pb.firstStargate addrB denomB (fairBurn self F none)).bind Pb.decodeFundFairburnPool
        = some (addrB self, [(denomB NATIVE, Pb.decDigits (F - F / 2))])
      ∧ Pb.parseDec (Pb.decDigits (F - F / 2)) = F - F / 2 := by
  refine ⟨?_, Pb.parseDec_decDigits _⟩
  rw [C06_fairburn]
  simp only [Pb.firstStargate, Pb.encodeMsg, Option.bind]
  exact C06_proto_roundtrip_one _ _ _ (Or.inr (Pb.decDigits_ne_nil _))

/-- the same through `checked_fair_burn` (the entry the factories, whitelists and Shuffle use): sender = `env.contract.address` -/
theorem C06_proto_sender_is_caller_checked (addrB : Addr → Pb.Bytes) (denomB : Denom → Pb.Bytes) (self : Addr) (F pay : Nat)
    (hp : F ≤ pay) (h0 : pay ≠ 0) :
    ∃ ms, checkedFairBurn [⟨NATIVE, pay⟩] self F none = .ok ms ∧
      (Pb.firstStargate addrB denomB ms).bind Pb.decodeFundFairburnPool
        = some (addrB self, [(denomB NATIVE, Pb.decDigits (F - F / 2))]) := by
  refine ⟨fairBurn self F none, ?_, (C06_proto_sender_is_caller addrB denomB self F).1⟩
  have : ¬ pay < F := by omega
  simp [checkedFairBurn, mayPay, bind, Except.bind, pure, Except.pure, this, h0]

/-- with a developer there is no Stargate message at all -/
theorem C06_proto_no_stargate_with_dev (addrB : Addr → Pb.Bytes) (denomB : Denom → Pb.Bytes) (self d : Addr) (F : Nat) :
    Pb.firstStargate addrB denomB (fairBurn self F (some d)) = none := by
  rw [C06_fairburn]; rfl

/-- the unit test vector of `packages/sg1` (`fair_burn("sender", 9, None)`: 5 ustars), byte for byte:
`0a 06 "sender" 12 0b ( 0a 06 "ustars" 12 01 "5" )` -/
example : (Pb.firstStargate (fun _ => [115, 101, 110, 100, 101, 114]) (fun _ => Pb.ustars) (fairBurn 9 9 none))
    = some [0x0a, 6, 115, 101, 110, 100, 101, 114, 0x12, 11, 0x0a, 6, 117, 115, 116, 97, 114, 115, 0x12, 1, 53] := by
  rw [C06_fairburn]
  simp [Pb.firstStargate, Pb.encodeMsg, Pb.encodeFundFairburnPool, Pb.encodeCoins, Pb.encodeCoin, Pb.appendBytes, Pb.encLen,
    Pb.encVarint, Pb.decDigits, Pb.ustars]
/-- a two-byte varint: 300 = `ac 02` -/
example : Pb.encVarint 300 = [0xac, 0x02] := by simp [Pb.encVarint]
example : Pb.decDigits 340282366920938463463374607431768211455 =
    [51,52,48,50,56,50,51,54,54,57,50,48,57,51,56,52,54,51,52,54,51,51,55,52,54,48,55,52,51,49,55,54,56,50,49,49,52,53,53] := by
  simp [Pb.decDigits]
/-- the well-formedness hypothesis is satisfiable and the excluded case is real -/
example : Pb.coinsWF [(Pb.ustars, [53])] = true := by decide
example : Pb.coinsWF [([], [])] = false := by decide
/-- a non-canonical encoding decodes too (the decoder is not injective; the ENCODER is): `0a 00 12 00` = empty sender, one empty coin -/
example : Pb.decodeFundFairburnPool [0x0a, 0, 0x12, 0] = some ([], [([], [])]) := by decide

/-- the encoder's output is a byte string (every element < 256) whenever sender, denoms and amounts are; decimal digits are -/
theorem C06_proto_bytes (sender : Pb.Bytes) (coins : List (Pb.Bytes × Pb.Bytes)) (hs : Pb.isBytes sender)
    (hc : ∀ c ∈ coins, Pb.isBytes c.1 ∧ Pb.isBytes c.2) : Pb.isBytes (Pb.encodeFundFairburnPool sender coins) :=
  Pb.isBytes_append (Pb.appendBytes_isBytes 1 hs) (Pb.encodeCoins_isBytes coins hc)

theorem C06_proto_decimal_bytes (n : Nat) : Pb.isBytes (Pb.decDigits n) := Pb.decDigits_isBytes n

end LP
