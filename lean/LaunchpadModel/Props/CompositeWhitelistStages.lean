import LaunchpadModel.Lemmas.WhitelistFullStages
import LaunchpadModel.Props.C13
/-!
# Refinement theorems, part 2: the composite model `LP.WF` refines the C13 aspect model (tiered stages)

(Separate module only because `Props/C11.lean` and `Props/C13.lean` both define `LP.exInst` and cannot be imported together;
part 1 — C11, C12 — is `Props/CompositeWhitelist.lean`.)
-/
namespace LP
open LP.WF

/-! ## C13 — stages of the tiered kinds (tiered-whitelist, -flex, -merkletree): the stage skeleton

The refinement is onto the stage skeleton (see `Lemmas/WhitelistFullStages.lean`): stage list, member limit, whale cap, roots,
admin list. Member accounting of the tiered list kinds is inherited through C11 (`C11_full_*`, in particular
`C11_full_has_member_iff_tiered`: `HasMember` reads the ACTIVE stage's map only, and `C11_full_remove_stage_exact`). -/

namespace WF

/-- "the observed tiered contract's skeleton is a state of a C13 aspect run from the empty world" -/
def Reach13 (s : State) : Prop :=
  ∀ w, s.wl = some w → Tier w.v → ∃ aops, Tiered.run w.v.kind13 none aops = some (proj13 w)

theorem tiered_run_snoc (v : Tiered.Variant) (W : Tiered.World) (ops : List Tiered.Op) (op : Tiered.Op) :
    Tiered.run v W (ops ++ [op]) = Tiered.step' v (Tiered.run v W ops) op := by
  simp [Tiered.run, List.foldl_append]

theorem reach13_step {s : State} (hr : Reach13 s) (op : Op) : Reach13 (step' s op) := by
  by_cases hinst : ∃ v sender funds self m, op = .instantiate v sender funds self m
  · obtain ⟨v, sender, funds, self, m, rfl⟩ := hinst
    rcases step'_cases s (.instantiate v sender funds self m) with ⟨s', hok, hs'⟩ | ⟨_, hs'⟩
    · rw [hs']
      intro w hw ht
      have hvw : w.v = v := by
        have hok' := hok
        simp only [step] at hok'
        obtain ⟨b1, w0, msgs, b2, _, hi, _, rfl⟩ := instantiateTx_ok hok'
        simp only [Option.some.injEq] at hw; subst hw
        exact (instantiateWl_v hi).1
      obtain ⟨w1, hw1, _, hex⟩ := inst_sim13 (by rw [← hvw]; exact ht) hok none
      rw [hw] at hw1; cases hw1
      refine ⟨[tr13 s (.instantiate v sender funds self m)], ?_⟩
      rw [hvw]
      simp only [Tiered.run, List.foldl_cons, List.foldl_nil, Tiered.step', hex]
    · rw [hs']; exact hr
  · have hni : ∀ v sender funds self m, op ≠ .instantiate v sender funds self m :=
      fun v sender funds self m e => hinst ⟨v, sender, funds, self, m, e⟩
    obtain ⟨hnone, hsome⟩ := step'_wl s op hni
    intro w hw ht
    cases hw0 : s.wl with
    | none => rw [hnone hw0] at hw; cases hw
    | some w0 =>
      obtain ⟨w', hw', hv', _⟩ := hsome w0 hw0
      rw [hw] at hw'; cases hw'
      have ht0 : Tier w0.v := by rw [← hv']; exact ht
      obtain ⟨aops, hrun⟩ := hr w0 hw0 ht0
      obtain ⟨w1, hw1, _, hsim⟩ := step_sim13 hw0 ht0 op hni
      rw [hw] at hw1; cases hw1
      refine ⟨aops ++ [tr13 s op], ?_⟩
      rw [hv', tiered_run_snoc, hrun, ← hsim]

end WF

/-- **C13 refinement (stage skeleton)**: along EVERY composite run — any instantiates, any messages by anybody with any funds,
any clock — the observed tiered contract's skeleton is a state of a C13 aspect run from the empty world -/
theorem C13_full_refines (s : State) (hr : Reach13 s) (ops : List Op) : Reach13 (WF.run s ops) := by
  induction ops generalizing s with
  | nil => exact hr
  | cons op ops ih => rw [WF.run_cons]; exact ih _ (reach13_step hr op)

theorem C13_full_reachable (now : Nat) (ops : List Op) : Reach13 (WF.run (WF.init now) ops) :=
  C13_full_refines _ (fun w hw => (by cases hw)) ops

/-- "never has more than three stages, each with start before end and ordered so that a stage never starts before the previous
one ends" — in every reachable state of every tiered kind -/
theorem C13_full_chain {s : State} (hr : Reach13 s) {w : Wl} (hw : s.wl = some w) (ht : Tier w.v) :
    w.stages.length ≤ 3 ∧ (∀ st ∈ w.stages, st.start < st.stop) ∧ w.stages.Pairwise (fun a b => a.stop ≤ b.start) := by
  obtain ⟨aops, hrun⟩ := hr w hw ht
  have h := C13_chain w.v.kind13 aops
  rw [hrun] at h
  exact h

/-- "is created with one to three stages", "the first stage starts in the future whenever stages are created" -/
theorem C13_full_created {s s' : State} {v : Variant} (ht : Tier v) {sender self : Addr} {funds : List Coin} {m : InstMsg}
    (h : WF.step s (.instantiate v sender funds self m) = .ok s') :
    ∃ w, s'.wl = some w ∧ 1 ≤ w.stages.length ∧ w.stages.length ≤ 3 ∧
      ∃ s0 rest, w.stages = s0 :: rest ∧ s.now < s0.start := by
  obtain ⟨w, hw, _, hex⟩ := inst_sim13 ht h none
  simp only [tr13, accepted_of_ok h, if_true] at hex
  have h1 := C13_created_one_to_three _ _ _ _ _ _ _ _ _ _ _ _ _ _ hex
  have h2 := C13_first_future_create _ _ _ _ _ _ _ _ _ _ _ _ _ _ hex
  exact ⟨w, hw, h1.1, h1.2, h2⟩

/-- "… or added": an accepted `AddStage` appends exactly the new stage, and the first stage of the resulting list starts after
the current block time (nothing can be added once the first stage has started) -/
theorem C13_full_first_future_add {s s' : State} (hr : Reach13 s) {w : Wl} (hw : s.wl = some w) (ht : Tier w.v)
    {sender : Addr} {funds : List Coin} {st : Stage} {ms : List Member}
    (h : WF.step s (.exec sender funds (.addStage st ms)) = .ok s') :
    ∃ w', s'.wl = some w' ∧ (∃ s0 rest, w'.stages = s0 :: rest ∧ s.now < s0.start) ∧
      w'.stages = w.stages ++ [Tiered.normStage w.v.kind13 st] := by
  obtain ⟨aops, hrun⟩ := hr w hw ht
  obtain ⟨w', hw', _, hsim⟩ := step_sim13 hw ht (.exec sender funds (.addStage st ms)) (fun _ _ _ _ _ e => by cases e)
  rw [step'_exec_ok h] at hw'
  simp only [tr13, accepted_of_ok h, if_true] at hsim
  cases hx : Tiered.step w.v.kind13 (some (proj13 w)) (.addStage s.now (sh sender) st []) with
  | error e =>
    -- then the aspect state is unchanged, but the composite appended a stage: impossible
    exfalso
    simp only [Tiered.step', hx, Option.some.injEq] at hsim
    have hlen : w'.stages.length = w.stages.length := by rw [← show (proj13 w').stages = w'.stages from rfl, hsim]; rfl
    have hok := h
    simp only [WF.step] at hok
    obtain ⟨w0, b1, w1, msgs, b2, hw0, _, hh, _, rfl⟩ := execute_ok hok
    rw [hw] at hw0; cases hw0
    simp only [Option.some.injEq] at hw'; subst hw'
    unfold handle at hh
    split at hh; · cases hh
    simp only [] at hh
    split at hh
    · rename_i w2 hf
      simp only [Except.ok.injEq, Prod.mk.injEq] at hh
      obtain ⟨rfl, _⟩ := hh
      unfold addStage at hf
      split at hf; · cases hf
      split at hf; · cases hf
      simp only [] at hf
      split at hf; · cases hf
      split at hf; · cases hf
      simp only [Except.ok.injEq] at hf; subst hf
      simp [Wl.tipped] at hlen
    · cases hh
  | ok W' =>
    simp only [Tiered.step', hx] at hsim
    subst hsim
    have := C13_first_future_add w.v.kind13 aops (proj13 w) (proj13 w') s.now (sh sender) st [] hrun hx
    exact ⟨w', hw', this.1, this.2⟩

/-- "at most one stage is reported active, namely the earliest stage whose window (both ends inclusive) contains the current
time" — the composite's `ActiveStageId` / `activeIdx` -/
theorem C13_full_active_least (w : Wl) (t i : Nat) :
    activeIdx w t = some i ↔
      ∃ h : i < w.stages.length, (w.stages[i].start ≤ t ∧ t ≤ w.stages[i].stop) ∧
        ∀ j (hj : j < i), ¬ (w.stages[j].start ≤ t ∧ t ≤ w.stages[j].stop) :=
  C13_active_least w.stages t i

/-- "at most two windows contain any instant" in every reachable state (only when they touch: `C13_two_only_touching`) -/
theorem C13_full_at_most_two {s : State} (hr : Reach13 s) {w : Wl} (hw : s.wl = some w) (ht : Tier w.v) (t : Nat) :
    (w.stages.filter (fun st => st.contains t)).length ≤ 2 :=
  C13_at_most_two w.stages (C13_full_chain hr hw ht) t

/-- `Config`: "price and per-address limit answers come from the active stage only"; without an active stage `is_active` is
false — the composite's `Config` query of the tiered kinds -/
theorem C13_full_config_scoped {w : Wl} (ht : Tier w.v) (now : Nat) :
    ∃ c, qConfig w now = some c ∧
      (∀ i, activeIdx w now = some i → ∃ st, w.stages[i]? = some st ∧ c.active = true ∧ c.start = st.start ∧
        c.stop = st.stop ∧ c.price = ⟨st.denom, st.price⟩ ∧ (w.v.flex = false → c.pal = some st.pal)) ∧
      (activeIdx w now = none → c.active = false) := by
  have him : w.v.isImmutable = false := by
    simp only [Variant.isImmutable]; cases hs : w.v.store <;> simp_all [Tier]
  have he := C13_active_stage_eq w.stages now
  simp only [qConfig, him, ht.1, Bool.false_eq_true, if_false, if_true]
  cases hact : activeIdx w now with
  | none =>
    have hact' : Tiered.activeIdx w.stages now = none := hact
    rw [hact'] at he
    simp only [Option.bind_none] at he
    have he' : activeStage w now = none := he
    rw [he']
    simp only []
    cases hst : w.stages with
    | nil => exact ⟨_, rfl, fun i h => (by cases h), fun _ => rfl⟩
    | cons s0 rest =>
      simp only []
      split
      · exact ⟨_, rfl, fun i h => (by cases h), fun _ => rfl⟩
      · exact ⟨_, rfl, fun i h => (by cases h), fun _ => rfl⟩
  | some i =>
    have hact' : Tiered.activeIdx w.stages now = some i := hact
    rw [hact'] at he
    simp only [Option.bind_some] at he
    have hlt : i < w.stages.length := by rw [C13_active_least] at hact'; exact hact'.1
    rw [List.getElem?_eq_getElem hlt] at he
    have he' : activeStage w now = some w.stages[i] := he
    rw [he']
    refine ⟨_, rfl, ?_, fun h => (by cases h)⟩
    intro j hj
    simp only [Option.some.injEq] at hj; subst hj
    refine ⟨w.stages[i], List.getElem?_eq_getElem hlt, rfl, rfl, rfl, rfl, ?_⟩
    intro hf; simp [hf]

/-- "A stage can be removed only before it starts": an accepted `RemoveStage id` implies `now < stages[id].start`, the stage list
becomes `take id`; every stage it removes implicitly has not started either -/
theorem C13_full_remove {s s' : State} (hr : Reach13 s) {w : Wl} (hw : s.wl = some w) (ht : Tier w.v)
    {sender : Addr} {funds : List Coin} {id : Nat}
    (h : WF.step s (.exec sender funds (.removeStage id)) = .ok s') :
    ∃ w' st, s'.wl = some w' ∧ w.stages[id]? = some st ∧ s.now < st.start ∧ w'.stages = w.stages.take id ∧
      ∀ j (hj : j < w.stages.length), id ≤ j → s.now < w.stages[j].start := by
  have hok := h
  simp only [WF.step] at hok
  obtain ⟨w0, b1, w1, msgs, b2, hw0, _, hh, _, rfl⟩ := execute_ok hok
  rw [hw] at hw0; cases hw0
  unfold handle at hh
  split at hh; · cases hh
  simp only [] at hh
  split at hh
  · rename_i w2 hf
    simp only [Except.ok.injEq, Prod.mk.injEq] at hh
    obtain ⟨rfl, _⟩ := hh
    unfold removeStage at hf
    split at hf; · cases hf
    split at hf; · cases hf
    rename_i st hst
    split at hf; · cases hf
    rename_i hnow
    simp only [] at hf
    split at hf; · cases hf
    simp only [Except.ok.injEq] at hf; subst hf
    refine ⟨_, st, rfl, hst, by omega, rfl, ?_⟩
    obtain ⟨hc1, hc2, hc3⟩ := C13_full_chain hr hw ht
    obtain ⟨hid, hget⟩ := List.getElem?_eq_some_iff.1 hst
    intro j hj hij
    rcases Nat.eq_or_lt_of_le hij with heq | hlt
    · subst heq; rw [hget]; omega
    · have h1 := (List.pairwise_iff_getElem.1 hc3) id j hid hj hlt
      have h3 := hc2 w.stages[id] (List.getElem_mem hid)
      rw [hget] at h1 h3
      omega
  · cases hh

/-! ## Non-vacuity: a concrete tiered history (kernel-evaluated) -/

def exG13 : Nat := Gen.sg_utils_GENESIS_MINT_START_TIME

def exStage13 (n a b : Nat) : Stage := { name := n, start := exG13 + a, stop := exG13 + b, denom := 0, price := 5, pal := 2, mcl := none }

def exMsgTiered : InstMsg :=
  { admins := [10], adminsMutable := true, start := 0, end_ := 0, mintPrice := ⟨0, 0⟩, perAddr := 0,
    memberLimit := 5, whaleCap := none, members := [], stages := [exStage13 1 100 200, exStage13 2 200 300],
    stageMembers := [[(20, 0)], [(21, 0), (20, 0)]], roots := [], uriOk := true, uris := none, discountBps := none }

def exOps13 : List Op :=
  [.fund 10 ⟨0, 1000000000⟩,
   .instantiate Variant.tieredV 10 [⟨0, 100000000⟩] 1000 exMsgTiered,
   .exec 10 [] (.addStage (exStage13 3 300 400) [(22, 0)]),
   .exec 10 [] (.updateStageConfig ⟨1, none, none, some (exG13 + 290), none, none, none⟩),
   .exec 30 [] (.removeStage 2),
   .setTime (exG13 + 200),
   .exec 10 [] (.removeStage 0),
   .exec 10 [] (.removeStage 2)]

/-- three stages touching at 200, the admin shortens stage 2, a stranger cannot remove, a started stage cannot be removed, the
unstarted third one can; at instant `G+200` two windows contain the clock and the earlier one is reported -/
example : ((run (init exG13) exOps13).wl.map fun w =>
      (w.stages.map (fun st => (st.start - exG13, st.stop - exG13)), w.numMembers, w.smembers.map (·.count),
       activeIdx w (exG13 + 200), qHasMember w (exG13 + 200) 21, qHasMember w (exG13 + 201) 21)) =
    some ([(100, 200), (200, 290)], 3, [1, 2], some 0, some false, some true) := by rfl

example : Tier Variant.tieredV ∧ Tier Variant.tieredFlex ∧ Tier Variant.tieredMerkle := by
  refine ⟨⟨rfl, by decide⟩, ⟨rfl, by decide⟩, ⟨rfl, by decide⟩⟩

/-- the hypothesis of the reachability theorems is satisfied by every run from a fresh chain, e.g. this one -/
example : Reach13 (run (init exG13) exOps13) := C13_full_reachable exG13 exOps13

end LP
