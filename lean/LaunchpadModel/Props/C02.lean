import LaunchpadModel.Lemmas.MintPay
import LaunchpadModel.Model.MintPayStaged
/-!
# C02 — A mint charges exactly the current price and disburses all of it

Model: `Model/MintPay.lean` (all 11 minters = every `Variant`; the bank; `mint`; price / fee-parameter / whitelist updates).
Every theorem is for ALL prices, fee bps, denoms, balances, payment addresses, variants and clock values; the history
theorems are inductions over arbitrary operation lists.  What C02 is silent about (limits, sale window, supply,
membership, authorisation, whether a price update is accepted) is the arbitrary boolean `allowed` / `acc` carried by
the operation, so every statement holds for every possible gating logic.

Token-merge `ReceiveNft` deposits (`family = tokenMerge`, `isAdmin = false`) are the one entry point without a payment
check: the caller is a cw721 collection whose `send_nft` never forwards funds, so theorems about them assume `funds = []`.
-/
namespace LP
open LP.MintPay

/-! ## The network fee -/

/-- "the network fee floor(price x applicable fee rate)": `price * Decimal::bps(b)` is `⌊price·b / 10^4⌋`;
admin (airdrop) mints use `airdrop_mint_fee_bps`, all others `mint_fee_bps` -/
theorem C02_fee_closed_form (f : Factory) (isAdmin : Bool) (price : Coin) :
    networkFee f isAdmin price = price.amount * (if isAdmin then f.airdropFeeBps else f.mintFeeBps) / 10000 := by
  unfold networkFee feeBps
  exact mulFloor_bps _ _

/-- fee ≤ price for every price whenever the rate is at most 10000 bps (so `price − fee` never underflows) -/
theorem C02_fee_le_price (f : Factory) (isAdmin : Bool) (price : Coin) (hb : feeBps f isAdmin ≤ 10000) :
    networkFee f isAdmin price ≤ price.amount := by
  unfold networkFee
  exact mulFloor_le _ _ (bps_le _ hb)

/-! ## Which price is in force — `mint_price()` -/

/-- admin `MintTo` / `MintFor`: the factory's airdrop price (open edition refuses a zero airdrop price on an uncapped collection) -/
theorem C02_price_airdrop (v : Variant) (f : Factory) (m : Minter) (now : Nat)
    (h : ¬(v.family = .openEdition ∧ f.airdropPrice.amount = 0 ∧ m.hasCap = false)) :
    selectPrice v f m now true = .ok f.airdropPrice := by
  simp [selectPrice, h]

/-- while a whitelist is active: the whitelist's price -/
theorem C02_price_whitelist (v : Variant) (f : Factory) (m : Minter) (now : Nat) (wl : Whitelist)
    (hw : m.whitelist = some wl) (ha : wl.active now = true) :
    selectPrice v f m now false = .ok wl.price := by
  simp [selectPrice, senderPrice, hw, ha]

/-- no whitelist, or the whitelist not active: vending = discount price when one is set -/
theorem C02_price_discount (v : Variant) (f : Factory) (m : Minter) (now : Nat) (dc : Coin)
    (hv : v.family = .vending) (hd : m.discount = some dc)
    (hw : ∀ wl, m.whitelist = some wl → wl.active now = false) :
    selectPrice v f m now false = .ok dc := by
  cases hwl : m.whitelist with
  | none => simp [selectPrice, senderPrice, publicPrice, hwl, hv, hd]
  | some wl => simp [selectPrice, senderPrice, publicPrice, hwl, hw wl hwl, hv, hd]

/-- otherwise the public price `config.mint_price` -/
theorem C02_price_public (v : Variant) (f : Factory) (m : Minter) (now : Nat)
    (hd : v.family = .vending → m.discount = none)
    (hw : ∀ wl, m.whitelist = some wl → wl.active now = false) :
    selectPrice v f m now false = .ok m.mintPrice := by
  have hp : publicPrice v m = m.mintPrice := by
    unfold publicPrice
    cases hf : v.family <;> simp [hd, hf]
  cases hwl : m.whitelist with
  | none => simp [selectPrice, senderPrice, hwl, hp]
  | some wl => simp [selectPrice, senderPrice, hwl, hw wl hwl, hp]

/-! ## Exact payment -/

/-- "exactly the price, in the right denom (nothing when the price is zero)" -/
def exactFunds (price : Coin) : List Coin := if price.amount = 0 then [] else [price]

/-- the calls that go through the price / payment / fee / payout path of `_execute_mint`:
every vending and open-edition mint, and token-merge admin mints -/
def IsSale (v : Variant) (isAdmin : Bool) : Prop :=
  v.family = .vending ∨ v.family = .openEdition ∨ (v.family = .tokenMerge ∧ isAdmin = true)

/-- decomposition of a successful mint -/
theorem mint_ok {w w' : World} {sender : Addr} {isAdmin : Bool} {funds : List Coin} {allowed : Bool}
    (h : mint w sender isAdmin funds allowed = .ok w') :
    ∃ b1 price ms, w.bank.sendFunds sender w.m.addr funds = some b1 ∧ allowed = true ∧
      payMint w.v w.f w.m w.now isAdmin funds = .ok (price, ms) ∧
      applyMsgs w.m.addr b1 ms = some w'.bank ∧ w' = { w with bank := w'.bank } := by
  unfold mint at h
  split at h
  · cases h
  · rename_i b1 hb1
    split at h
    · cases h
    · rename_i hal
      split at h
      · cases h
      · rename_i price ms hp
        split at h
        · cases h
        · rename_i b2 hb2
          cases h
          refine ⟨b1, price, ms, hb1, ?_, hp, hb2, rfl⟩
          cases allowed <;> simp_all

theorem payMint_sale {v : Variant} {f : Factory} {m : Minter} {now : Nat} {ad : Bool} {funds : List Coin}
    (hs : IsSale v ad) : payMint v f m now ad funds = paySale v f m now ad funds := by
  unfold payMint
  rcases hs with h | h | ⟨h, ha⟩
  · simp [h]
  · simp [h]
  · simp [h, ha]

/-- a payment accepted by the bank and by `may_pay` + equality is exactly `exactFunds price` -/
theorem funds_exact {b b1 : Bank} {s mi : Addr} {funds : List Coin} {price : Coin}
    (hb : b.sendFunds s mi funds = some b1) (hp : mayPay funds price.denom = .ok price.amount) :
    funds = exactFunds price := by
  unfold exactFunds
  rcases mayPay_ok hp with ⟨rfl, h0⟩ | hf
  · simp [h0]
  · have hpe : (⟨price.denom, price.amount⟩ : Coin) = price := by cases price; rfl
    rw [hpe] at hf
    subst hf
    by_cases h0 : price.amount = 0
    · simp [Bank.sendFunds, h0] at hb
    · simp [h0]

/-- "A mint (public, whitelist or airdrop) succeeds only if the caller attaches exactly the price currently in force
for that kind of mint, in the right denom (nothing when the price is zero)" — vending, open edition, token-merge airdrops -/
theorem C02_exact_payment (w w' : World) (sender : Addr) (isAdmin : Bool) (funds : List Coin) (allowed : Bool)
    (hs : IsSale w.v isAdmin) (h : mint w sender isAdmin funds allowed = .ok w') :
    ∃ price, selectPrice w.v w.f w.m w.now isAdmin = .ok price ∧ funds = exactFunds price := by
  obtain ⟨b1, price, ms, hb1, _, hp, _, _⟩ := mint_ok h
  rw [payMint_sale hs] at hp
  obtain ⟨hsel, hpay, _, _⟩ := paySale_ok hp
  exact ⟨price, hsel, funds_exact hb1 hpay⟩

/-- base minter: the price is `⌊min_mint_price × mint_fee_bps / 10^4⌋` ustars, must be non-zero, and is paid exactly -/
theorem C02_exact_payment_base (w w' : World) (sender : Addr) (isAdmin : Bool) (funds : List Coin) (allowed : Bool)
    (hb : w.v.family = .base) (h : mint w sender isAdmin funds allowed = .ok w') :
    funds = [⟨NATIVE, w.m.mintPrice.amount * w.f.mintFeeBps / 10000⟩] ∧ w.m.mintPrice.amount * w.f.mintFeeBps / 10000 ≠ 0 := by
  obtain ⟨b1, price, ms, _, _, hp, _, _⟩ := mint_ok h
  have : payMint w.v w.f w.m w.now isAdmin funds = payBase w.f w.m funds := by unfold payMint; simp [hb]
  rw [this] at hp
  obtain ⟨hf, hnz, _, _⟩ := payBase_ok hp
  rw [mulFloor_bps] at hf hnz
  exact ⟨hf, hnz⟩

/-- base minter: anything but exactly that one coin is rejected (in particular every payment when the price is zero) -/
theorem C02_base_other_payment_rejected (w : World) (sender : Addr) (isAdmin : Bool) (funds : List Coin) (allowed : Bool)
    (hb : w.v.family = .base) (hne : funds ≠ [⟨NATIVE, w.m.mintPrice.amount * w.f.mintFeeBps / 10000⟩] ∨
      w.m.mintPrice.amount * w.f.mintFeeBps / 10000 = 0) :
    ∃ e, mint w sender isAdmin funds allowed = .error e := by
  cases hm : mint w sender isAdmin funds allowed with
  | error e => exact ⟨e, rfl⟩
  | ok w' =>
    obtain ⟨hf, hnz⟩ := C02_exact_payment_base w w' sender isAdmin funds allowed hb hm
    rcases hne with h | h
    · exact absurd hf h
    · exact absurd h hnz

/-- "any other amount, denom or extra coin is rejected" -/
theorem C02_other_payment_rejected (w : World) (sender : Addr) (isAdmin : Bool) (funds : List Coin) (allowed : Bool)
    (price : Coin) (hs : IsSale w.v isAdmin) (hp : selectPrice w.v w.f w.m w.now isAdmin = .ok price)
    (hne : funds ≠ exactFunds price) : ∃ e, mint w sender isAdmin funds allowed = .error e := by
  cases hm : mint w sender isAdmin funds allowed with
  | error e => exact ⟨e, rfl⟩
  | ok w' =>
    obtain ⟨p, hsel, hf⟩ := C02_exact_payment w w' sender isAdmin funds allowed hs hm
    rw [hp] at hsel
    cases hsel
    exact absurd hf hne

/-- a wrong amount (price ± anything) is rejected -/
theorem C02_reject_wrong_amount (w : World) (sender : Addr) (isAdmin : Bool) (allowed : Bool) (price : Coin) (n : Nat)
    (hs : IsSale w.v isAdmin) (hp : selectPrice w.v w.f w.m w.now isAdmin = .ok price) (hn : n ≠ price.amount) :
    ∃ e, mint w sender isAdmin [⟨price.denom, n⟩] allowed = .error e := by
  apply C02_other_payment_rejected w sender isAdmin _ allowed price hs hp
  unfold exactFunds
  split
  · simp
  · intro h
    have : (⟨price.denom, n⟩ : Coin) = price := by simpa using h
    rw [← this] at hn
    exact hn rfl

/-- a wrong denom is rejected, whatever the amount -/
theorem C02_reject_wrong_denom (w : World) (sender : Addr) (isAdmin : Bool) (allowed : Bool) (price : Coin) (d : Denom) (n : Nat)
    (hs : IsSale w.v isAdmin) (hp : selectPrice w.v w.f w.m w.now isAdmin = .ok price) (hd : d ≠ price.denom) :
    ∃ e, mint w sender isAdmin [⟨d, n⟩] allowed = .error e := by
  apply C02_other_payment_rejected w sender isAdmin _ allowed price hs hp
  unfold exactFunds
  split
  · simp
  · intro h
    have : (⟨d, n⟩ : Coin) = price := by simpa using h
    rw [← this] at hd
    exact hd rfl

/-- an extra coin is rejected -/
theorem C02_reject_extra_coin (w : World) (sender : Addr) (isAdmin : Bool) (allowed : Bool) (price : Coin)
    (c c' : Coin) (cs : List Coin)
    (hs : IsSale w.v isAdmin) (hp : selectPrice w.v w.f w.m w.now isAdmin = .ok price) :
    ∃ e, mint w sender isAdmin (c :: c' :: cs) allowed = .error e := by
  apply C02_other_payment_rejected w sender isAdmin _ allowed price hs hp
  unfold exactFunds
  split <;> simp

/-- funds attached when the price is zero are rejected -/
theorem C02_reject_funds_when_free (w : World) (sender : Addr) (isAdmin : Bool) (allowed : Bool) (price : Coin)
    (c : Coin) (cs : List Coin)
    (hs : IsSale w.v isAdmin) (hp : selectPrice w.v w.f w.m w.now isAdmin = .ok price) (h0 : price.amount = 0) :
    ∃ e, mint w sender isAdmin (c :: cs) allowed = .error e := by
  apply C02_other_payment_rejected w sender isAdmin _ allowed price hs hp
  simp [exactFunds, h0]

/-! ## Where the money goes -/

/-- "the network fee floor(price x applicable fee rate) is … paid to the protocol fee recipients according to the fee
schedule, the rest goes to the configured payment address (or the creator when none is set)": the bank after a
successful sale is the bank after (1) the funds reach the minter, (2) `distribute_mint_fees(fee, featured?, dev?)` with
the flag and developer that contract passes, (3) one send of `price − fee` to the seller — and nothing else. -/
theorem C02_fee_routing (w w' : World) (sender : Addr) (isAdmin : Bool) (funds : List Coin) (allowed : Bool)
    (hs : IsSale w.v isAdmin) (h : mint w sender isAdmin funds allowed = .ok w') :
    ∃ price b1, selectPrice w.v w.f w.m w.now isAdmin = .ok price ∧
      w.bank.sendFunds sender w.m.addr (exactFunds price) = some b1 ∧
      networkFee w.f isAdmin price ≤ price.amount ∧
      applyMsgs w.m.addr b1
        ((if networkFee w.f isAdmin price = 0 then []
          else Sg1.distributeMintFees ⟨price.denom, networkFee w.f isAdmin price⟩ (featuredOf w.v) (devOf w.v w.f)) ++
         (if price.amount - networkFee w.f isAdmin price = 0 then []
          else [Msg.send (sellerOf w.v w.m) ⟨price.denom, price.amount - networkFee w.f isAdmin price⟩])) = some w'.bank := by
  obtain ⟨b1, price, ms, hb1, _, hp, hb2, _⟩ := mint_ok h
  rw [payMint_sale hs] at hp
  obtain ⟨hsel, hpay, hle, rfl⟩ := paySale_ok hp
  have hf := funds_exact hb1 hpay
  subst hf
  exact ⟨price, b1, hsel, hb1, hle, hb2⟩

/-- base minter: "the network fee … is burned or paid to the protocol fee recipients": the whole price is fair-burned
on behalf of the minter (half burned, the rest to the fair-burn pool); there is no seller share -/
theorem C02_fee_routing_base (w w' : World) (sender : Addr) (isAdmin : Bool) (funds : List Coin) (allowed : Bool)
    (hb : w.v.family = .base) (h : mint w sender isAdmin funds allowed = .ok w') :
    ∃ b1, w.bank.sendFunds sender w.m.addr funds = some b1 ∧
      applyMsgs w.m.addr b1 (Sg1.fairBurn w.m.addr (mulFloor w.m.mintPrice.amount (bps w.f.mintFeeBps)) none) = some w'.bank := by
  obtain ⟨b1, price, ms, hb1, _, hp, hb2, _⟩ := mint_ok h
  have : payMint w.v w.f w.m w.now isAdmin funds = payBase w.f w.m funds := by unfold payMint; simp [hb]
  rw [this] at hp
  obtain ⟨_, _, _, rfl⟩ := payBase_ok hp
  exact ⟨b1, hb1, hb2⟩

/-- the flag and developer each of the 11 contracts passes to `distribute_mint_fees`, and who its seller is:
featured = true exactly for the three `*-featured` vending minters; developer = the factory's `dev_fee_address`
exactly for the three open-edition minters; token-merge pays its admin, base has no sale path -/
theorem C02_variant_table :
    variants.map (fun v => (v.family, featuredOf v)) =
      [ (.vending, false), (.vending, true), (.vending, false), (.vending, true), (.vending, false), (.vending, true),
        (.openEdition, false), (.openEdition, false), (.openEdition, false), (.tokenMerge, false), (.base, false) ] ∧
    (∀ v f, devOf v f = if v.family = .openEdition then some f.devAddr else none) ∧
    (∀ v m, sellerOf v m = if v.family = .tokenMerge then m.admin else m.paymentAddr.getD m.admin) := by
  refine ⟨by decide, ?_, ?_⟩
  · intro v f; unfold devOf; cases v.family <;> simp
  · intro v m; unfold sellerOf; cases v.family <;> simp

/-- Full ledger of a successful mint, for every account and denom: what the payer attached leaves the payer and reaches
the minter; the minter's messages move `outflow` out of it and `inflow` into their recipients. -/
theorem C02_ledger (w w' : World) (sender : Addr) (isAdmin : Bool) (funds : List Coin) (allowed : Bool)
    (h : mint w sender isAdmin funds allowed = .ok w') :
    ∃ price ms, payMint w.v w.f w.m w.now isAdmin funds = .ok (price, ms) ∧
      ∀ a d, w'.bank.bal a d + (if a = sender then coinsIn d funds else 0) + (if a = w.m.addr then outflow d ms else 0)
        = w.bank.bal a d + (if a = w.m.addr then coinsIn d funds else 0) + inflow a d ms := by
  obtain ⟨b1, price, ms, hb1, _, hp, hb2, _⟩ := mint_ok h
  refine ⟨price, ms, hp, fun a d => ?_⟩
  have l1 := (sendFunds_ledger hb1 a d).1
  have l2 := (applyMsgs_ledger ms hb2 a d).1
  omega

theorem coinsIn_exact (price : Coin) (d : Denom) :
    coinsIn d (exactFunds price) = if price.denom = d then price.amount else 0 := by
  unfold exactFunds
  by_cases h0 : price.amount = 0
  · simp [h0, coinsIn]
  · simp [h0, coinsIn]

/-- what was attached is exactly what the minter's messages pass on (sale and base paths) -/
theorem paid_eq_outflow {w w' : World} {sender : Addr} {isAdmin : Bool} {funds : List Coin} {allowed : Bool}
    (h : mint w sender isAdmin funds allowed = .ok w') (hnd : ¬(w.v.family = .tokenMerge ∧ isAdmin = false) ∨ funds = []) :
    ∃ price ms, payMint w.v w.f w.m w.now isAdmin funds = .ok (price, ms) ∧ ∀ d, coinsIn d funds = outflow d ms := by
  obtain ⟨b1, price, ms, hb1, _, hp, hb2, _⟩ := mint_ok h
  refine ⟨price, ms, hp, fun d => ?_⟩
  have hflow := (payMint_flow hp d).1
  rw [hflow]
  cases hfam : w.v.family with
  | vending =>
    have hs : IsSale w.v isAdmin := Or.inl hfam
    rw [payMint_sale hs] at hp
    obtain ⟨_, hpay, _, _⟩ := paySale_ok hp
    rw [funds_exact hb1 hpay, coinsIn_exact]
  | openEdition =>
    have hs : IsSale w.v isAdmin := Or.inr (Or.inl hfam)
    rw [payMint_sale hs] at hp
    obtain ⟨_, hpay, _, _⟩ := paySale_ok hp
    rw [funds_exact hb1 hpay, coinsIn_exact]
  | tokenMerge =>
    cases had : isAdmin with
    | true =>
      have hs : IsSale w.v isAdmin := Or.inr (Or.inr ⟨hfam, had⟩)
      rw [payMint_sale hs] at hp
      obtain ⟨_, hpay, _, _⟩ := paySale_ok hp
      rw [funds_exact hb1 hpay, coinsIn_exact]
    | false =>
      rcases hnd with hnd | hnd
      · exact absurd ⟨hfam, had⟩ hnd
      · subst hnd
        unfold payMint at hp
        simp [hfam, had] at hp
        obtain ⟨rfl, _⟩ := hp
        simp [coinsIn]
  | base =>
    have : payMint w.v w.f w.m w.now isAdmin funds = payBase w.f w.m funds := by unfold payMint; simp [hfam]
    rw [this] at hp
    obtain ⟨hf, _, rfl, _⟩ := payBase_ok hp
    rw [hf]
    simp [coinsIn]

/-- "the minter contract's own balance is unchanged, so no coins are … stranded" — every denom, every variant,
provided the minter is not itself the payer or one of the payees.

PARTIAL.  The full clause would be, for ALL mint kinds of ALL variants,
  `mint w sender isAdmin funds allowed = .ok w' → sender ≠ w.m.addr → w.m.addr ∉ recipients … → w'.bank.bal w.m.addr d = w.bank.bal w.m.addr d`.
It is FALSE for token-merge deposits that carry funds (`family = tokenMerge`, `isAdmin = false`, `funds ≠ []`): that path
(`execute_receive_nft → _execute_mint(is_admin = false)`) has no payment check and emits no bank message, so whatever
arrives with the deposit stays in the minter — `C02_merge_deposit_funds_counterexample` below, replayed on the real
contract by `corpus/C02/merge-deposit-with-funds.json`.  Hypothesis `hnd` excludes exactly that case (a standard cw721
`send_nft` forwards no funds, so it needs a listed collection contract that does). -/
theorem C02_minter_balance_unchanged_partial (w w' : World) (sender : Addr) (isAdmin : Bool) (funds : List Coin) (allowed : Bool)
    (h : mint w sender isAdmin funds allowed = .ok w')
    (hnd : ¬(w.v.family = .tokenMerge ∧ isAdmin = false) ∨ funds = [])
    (hsm : sender ≠ w.m.addr) (hrec : w.m.addr ∉ recipients w.v w.f w.m) (d : Denom) :
    w'.bank.bal w.m.addr d = w.bank.bal w.m.addr d := by
  obtain ⟨price, ms, hp, hflow⟩ := paid_eq_outflow h hnd
  obtain ⟨price', ms', hp', hl⟩ := C02_ledger w w' sender isAdmin funds allowed h
  rw [hp] at hp'; cases hp'
  have hl := hl w.m.addr d
  have hin : inflow w.m.addr d ms = 0 :=
    inflow_zero _ _ _ (fun x hx hd => hrec (payMint_dests hp x hx _ hd))
  have hs : ¬ w.m.addr = sender := fun e => hsm e.symm
  simp only [hs, if_false, if_true, hin, hflow d] at hl
  omega

/-- alias of `C02_minter_balance_unchanged_partial` (kept because other modules refer to it) — same statement, hypothesis
`hnd` (no token-merge deposit with funds) included; NOT the unrestricted clause. -/
theorem C02_minter_balance_unchanged (w w' : World) (sender : Addr) (isAdmin : Bool) (funds : List Coin) (allowed : Bool)
    (h : mint w sender isAdmin funds allowed = .ok w')
    (hnd : ¬(w.v.family = .tokenMerge ∧ isAdmin = false) ∨ funds = [])
    (hsm : sender ≠ w.m.addr) (hrec : w.m.addr ∉ recipients w.v w.f w.m) (d : Denom) :
    w'.bank.bal w.m.addr d = w.bank.bal w.m.addr d :=
  C02_minter_balance_unchanged_partial w w' sender isAdmin funds allowed h hnd hsm hrec d

/-- "On success the payer's balance drops by exactly that price" (a payer who is not also a payee; for an admin
airdrop with no payment address the admin is the seller and gets `price − fee` back: see `C02_ledger`) -/
theorem C02_payer_pays_price (w w' : World) (sender : Addr) (isAdmin : Bool) (funds : List Coin) (allowed : Bool)
    (hs : IsSale w.v isAdmin) (h : mint w sender isAdmin funds allowed = .ok w')
    (hsm : sender ≠ w.m.addr) (hrec : sender ∉ recipients w.v w.f w.m) :
    ∃ price, selectPrice w.v w.f w.m w.now isAdmin = .ok price ∧
      ∀ d, w'.bank.bal sender d + (if price.denom = d then price.amount else 0) = w.bank.bal sender d := by
  obtain ⟨price, hsel, hf⟩ := C02_exact_payment w w' sender isAdmin funds allowed hs h
  obtain ⟨price', ms, hp, hl⟩ := C02_ledger w w' sender isAdmin funds allowed h
  refine ⟨price, hsel, fun d => ?_⟩
  have hl := hl sender d
  have hin : inflow sender d ms = 0 :=
    inflow_zero _ _ _ (fun x hx hd => hrec (payMint_dests hp x hx _ hd))
  simp only [hsm, if_false, if_true, hin] at hl
  rw [hf, coinsIn_exact] at hl
  omega

/-- every account other than the payer and the minter receives exactly what the fee distribution and the seller
payout address to it ("the rest goes to the configured payment address (or the creator when none is set)") -/
theorem C02_recipient_ledger (w w' : World) (sender : Addr) (isAdmin : Bool) (funds : List Coin) (allowed : Bool)
    (hs : IsSale w.v isAdmin) (h : mint w sender isAdmin funds allowed = .ok w') :
    ∃ price, selectPrice w.v w.f w.m w.now isAdmin = .ok price ∧
      ∀ a d, a ≠ sender → a ≠ w.m.addr →
        w'.bank.bal a d = w.bank.bal a d +
          inflow a d (feeMsgs w.v w.f price (networkFee w.f isAdmin price) ++ sellerMsgs w.v w.m price (networkFee w.f isAdmin price)) := by
  obtain ⟨price', ms, hp, hl⟩ := C02_ledger w w' sender isAdmin funds allowed h
  have hp2 := hp
  rw [payMint_sale hs] at hp2
  obtain ⟨hsel, _, _, rfl⟩ := paySale_ok hp2
  refine ⟨price', hsel, fun a d ha hm => ?_⟩
  have hl := hl a d
  simp only [ha, hm, if_false] at hl
  omega

/-- the seller's share is exactly `price − fee`, with `fee = ⌊price·bps/10^4⌋` by `C02_fee_closed_form`
(seller distinct from payer, minter and the fee recipients) -/
theorem C02_seller_gets_rest (w w' : World) (sender : Addr) (isAdmin : Bool) (funds : List Coin) (allowed : Bool)
    (hs : IsSale w.v isAdmin) (h : mint w sender isAdmin funds allowed = .ok w')
    (h1 : sellerOf w.v w.m ≠ sender) (h2 : sellerOf w.v w.m ≠ w.m.addr)
    (h3 : sellerOf w.v w.m ≠ LIQUIDITY_DAO) (h4 : sellerOf w.v w.m ≠ LAUNCHPAD_DAO) (h5 : sellerOf w.v w.m ≠ w.f.devAddr) :
    ∃ price, selectPrice w.v w.f w.m w.now isAdmin = .ok price ∧
      w'.bank.bal (sellerOf w.v w.m) price.denom =
        w.bank.bal (sellerOf w.v w.m) price.denom + (price.amount - networkFee w.f isAdmin price) := by
  obtain ⟨price, hsel, hl⟩ := C02_recipient_ledger w w' sender isAdmin funds allowed hs h
  refine ⟨price, hsel, ?_⟩
  rw [hl _ price.denom h1 h2, inflow_append, feeMsgs_inflow_zero _ _ _ _ _ _ h3 h4 h5, sellerMsgs_inflow]
  omega
/-- "no coins are created, lost or stranded": over any duplicate-free account list containing the parties, the sum of
the balances plus the amount ever burned is unchanged by a mint, in every denom; a sale burns nothing -/
theorem C02_conservation (w w' : World) (sender : Addr) (isAdmin : Bool) (funds : List Coin) (allowed : Bool)
    (accts : List Addr) (hn : accts.Nodup) (hsnd : sender ∈ accts) (hmin : w.m.addr ∈ accts)
    (hrec : ∀ a ∈ recipients w.v w.f w.m, a ∈ accts)
    (h : mint w sender isAdmin funds allowed = .ok w') (d : Denom) :
    w'.bank.total accts d + w'.bank.burned d = w.bank.total accts d + w.bank.burned d ∧
    w'.bank.minted d = w.bank.minted d ∧
    (w.v.family ≠ .base → w'.bank.burned d = w.bank.burned d) := by
  obtain ⟨b1, price, ms, hb1, _, hp, hb2, _⟩ := mint_ok h
  have t1 := total_sendFunds hb1 accts hn hsnd hmin d
  have m1 := sendFunds_ledger hb1 sender d
  have hc : Closed accts ms := fun x hx a ha => hrec a (payMint_dests hp x hx a ha)
  have t2 := total_applyMsgs ms hb2 accts hn hmin hc d
  have l2 := applyMsgs_ledger ms hb2 sender d
  refine ⟨?_, ?_, ?_⟩
  · rw [t2, t1, m1.2.1]
  · rw [l2.2.2, m1.2.2]
  · intro hnb
    rw [l2.2.1, (payMint_flow hp d).2.1 hnb, m1.2.1]; rfl

/-- base minter: exactly `⌊fee × FEE_BURN_PERCENT%⌋` ustars leave the supply, nothing in any other denom -/
theorem C02_base_burn (w w' : World) (sender : Addr) (isAdmin : Bool) (funds : List Coin) (allowed : Bool)
    (hb : w.v.family = .base) (h : mint w sender isAdmin funds allowed = .ok w') (d : Denom) :
    w'.bank.burned d = w.bank.burned d +
      (if NATIVE = d then mulFloor (mulFloor w.m.mintPrice.amount (bps w.f.mintFeeBps)) (percent Gen.sg1_FEE_BURN_PERCENT) else 0) := by
  obtain ⟨b1, price, ms, hb1, _, hp, hb2, _⟩ := mint_ok h
  have m1 := sendFunds_ledger hb1 sender d
  have l2 := applyMsgs_ledger ms hb2 sender d
  have hfl := (payMint_flow hp d).2.2 hb
  have : payMint w.v w.f w.m w.now isAdmin funds = payBase w.f w.m funds := by unfold payMint; simp [hb]
  rw [this] at hp
  obtain ⟨_, _, rfl, _⟩ := payBase_ok hp
  rw [l2.2.1, hfl, m1.2.1]

/-! ## Failed calls -/

/-- "Failed calls move no funds": a rejected operation leaves the whole world, in particular every balance, unchanged
(CosmWasm transactions are atomic; the harness monitors this on the real contracts after every rejected call) -/
theorem C02_failed_moves_nothing (w : World) (op : Op) (e : Err) (h : step w op = .error e) : step' w op = w := by
  unfold step'; rw [h]

/-- a token-merge deposit moves no funds at all -/
theorem C02_merge_deposit_free (w w' : World) (sender : Addr) (allowed : Bool)
    (hf : w.v.family = .tokenMerge) (h : mint w sender false [] allowed = .ok w') : w'.bank = w.bank := by
  obtain ⟨b1, price, ms, hb1, _, hp, hb2, _⟩ := mint_ok h
  unfold payMint at hp
  simp [hf] at hp
  obtain ⟨_, rfl⟩ := hp
  simp [Bank.sendFunds] at hb1
  simp [applyMsgs] at hb2
  rw [← hb2, ← hb1]

/-! ## Histories -/

/-- seller and minter address are fixed by instantiation -/
theorem step_frame (w w' : World) (op : Op) (h : step w op = .ok w') :
    w'.v = w.v ∧ w'.m.addr = w.m.addr ∧ sellerOf w'.v w'.m = sellerOf w.v w.m := by
  cases op with
  | time t => cases h; exact ⟨rfl, rfl, rfl⟩
  | fund a c => cases h; exact ⟨rfl, rfl, rfl⟩
  | mint s ad fu al =>
    obtain ⟨_, _, _, _, _, _, _, e⟩ := mint_ok h
    rw [e]; exact ⟨rfl, rfl, rfl⟩
  | setPrice p acc =>
    simp only [step] at h
    split at h
    · cases h
      refine ⟨rfl, ?_, ?_⟩
      · simp only [setPrice]; repeat' split
        all_goals rfl
      · simp only [sellerOf, setPrice]; repeat' split
        all_goals rfl
    · cases h
  | setDiscount p acc =>
    simp only [step] at h
    split at h
    · cases h; exact ⟨rfl, rfl, rfl⟩
    · cases h
  | rmDiscount acc =>
    simp only [step] at h
    split at h
    · cases h; exact ⟨rfl, rfl, rfl⟩
    · cases h
  | setWhitelist wl acc =>
    simp only [step] at h
    split at h
    · cases h; exact ⟨rfl, rfl, rfl⟩
    · cases h
  | sudoParams fb ap ab dev acc =>
    simp only [step] at h
    split at h
    · cases h; exact ⟨rfl, rfl, rfl⟩
    · cases h

/-- an operation whose parties all belong to `accts` -/
def OpIn (accts : List Addr) : Op → Prop
  | .fund a _ => a ∈ accts
  | .mint s _ _ _ => s ∈ accts
  | .sudoParams _ _ _ dev _ => dev ∈ accts
  | _ => True

/-- all money is in `accts`, and so are the minter and everybody a mint can pay -/
def Solvent (accts : List Addr) (w : World) : Prop :=
  w.m.addr ∈ accts ∧ (∀ a ∈ recipients w.v w.f w.m, a ∈ accts) ∧
  ∀ d, w.bank.total accts d + w.bank.burned d = w.bank.minted d

theorem solvent_step (accts : List Addr) (hn : accts.Nodup) (w : World) (op : Op) (hop : OpIn accts op)
    (hs : Solvent accts w) : Solvent accts (step' w op) := by
  unfold step'
  cases hstep : step w op with
  | error e => exact hs
  | ok w' =>
    obtain ⟨hv, hma, hsel⟩ := step_frame w w' op hstep
    obtain ⟨hm, hr, ht⟩ := hs
    simp only []
    cases op with
    | time t => cases hstep; exact ⟨hm, hr, ht⟩
    | fund a c =>
      cases hstep
      refine ⟨hm, hr, fun d => ?_⟩
      have := total_fund w.bank a c accts hn hop d
      have := ht d
      simp only [] at *
      omega
    | mint s ad fu al =>
      obtain ⟨_, _, _, _, _, _, _, e⟩ := mint_ok hstep
      have hc := fun d => C02_conservation w w' s ad fu al accts hn hop hm hr hstep d
      refine ⟨by rw [hma]; exact hm, ?_, fun d => ?_⟩
      · rw [e]; exact hr
      · have := hc d; have := ht d; omega
    | setPrice p acc =>
      simp only [step] at hstep
      split at hstep
      · cases hstep
        refine ⟨by rw [hma]; exact hm, ?_, ht⟩
        intro a ha
        apply hr
        simp only [recipients, hsel] at ha ⊢
        exact ha
      · cases hstep
    | setDiscount p acc =>
      simp only [step] at hstep
      split at hstep
      · cases hstep; exact ⟨hm, hr, ht⟩
      · cases hstep
    | rmDiscount acc =>
      simp only [step] at hstep
      split at hstep
      · cases hstep; exact ⟨hm, hr, ht⟩
      · cases hstep
    | setWhitelist wl acc =>
      simp only [step] at hstep
      split at hstep
      · cases hstep; exact ⟨hm, hr, ht⟩
      · cases hstep
    | sudoParams fb ap ab dev acc =>
      simp only [step] at hstep
      split at hstep
      · cases hstep
        refine ⟨hm, ?_, ht⟩
        intro a ha
        simp only [recipients, List.mem_cons, List.not_mem_nil, or_false] at ha
        rcases ha with rfl | rfl | rfl | rfl | rfl
        · exact hr _ (by simp [recipients])
        · exact hr _ (by simp [recipients])
        · exact hr _ (by simp [recipients])
        · exact hop
        · exact hr _ (by simp [recipients])
      · cases hstep

/-- "no coins are created, lost or stranded" after ANY history of mints (accepted or rejected, any payments), price,
discount, whitelist and fee-parameter changes and clock steps by parties in `accts`: the tracked balances plus
everything ever burned always equal everything ever created, in every denom -/
theorem C02_history_conservation (accts : List Addr) (hn : accts.Nodup) (w : World) (ops : List Op)
    (hops : ∀ op ∈ ops, OpIn accts op) (hs : Solvent accts w) : Solvent accts (run w ops) := by
  unfold run
  induction ops generalizing w with
  | nil => exact hs
  | cons op ops ih =>
    simp only [List.foldl_cons]
    apply ih
    · exact fun o ho => hops o (List.mem_cons_of_mem _ ho)
    · exact solvent_step accts hn w op (hops op (List.mem_cons_self ..)) hs

/-- operations in which the minter contract is never itself a payer, a funding target or a configured payee, and
token-merge deposits carry no funds (cw721 `send_nft`) -/
def OpAway (mi : Addr) (v : Variant) : Op → Prop
  | .fund a _ => a ≠ mi
  | .mint s ad fu _ => s ≠ mi ∧ (¬(v.family = .tokenMerge ∧ ad = false) ∨ fu = [])
  | .sudoParams _ _ _ dev _ => dev ≠ mi
  | _ => True

theorem away_step (w : World) (op : Op) (hop : OpAway w.m.addr w.v op) (hrec : w.m.addr ∉ recipients w.v w.f w.m) :
    (step' w op).m.addr = w.m.addr ∧ (step' w op).v = w.v ∧
    (step' w op).m.addr ∉ recipients (step' w op).v (step' w op).f (step' w op).m ∧
    ∀ d, (step' w op).bank.bal w.m.addr d = w.bank.bal w.m.addr d := by
  unfold step'
  cases hstep : step w op with
  | error e => exact ⟨rfl, rfl, hrec, fun _ => rfl⟩
  | ok w' =>
    obtain ⟨hv, hma, hsel⟩ := step_frame w w' op hstep
    simp only []
    refine ⟨hma, hv, ?_, ?_⟩
    · cases op with
      | sudoParams fb ap ab dev acc =>
        simp only [step] at hstep
        split at hstep
        · cases hstep
          intro hmem
          simp only [recipients, List.mem_cons, List.not_mem_nil, or_false] at hmem
          rcases hmem with e | e | e | e | e
          · exact hrec (by simp [recipients, ← e])
          · exact hrec (by simp [recipients, ← e])
          · exact hrec (by simp [recipients, ← e])
          · exact hop e.symm
          · exact hrec (by simp [recipients, ← e])
        · cases hstep
      | time t => cases hstep; exact hrec
      | fund a c => cases hstep; exact hrec
      | mint s ad fu al =>
        obtain ⟨_, _, _, _, _, _, _, e⟩ := mint_ok hstep
        rw [e]; exact hrec
      | setPrice p acc =>
        rw [hma]
        intro hmem
        apply hrec
        simp only [step] at hstep
        split at hstep
        · cases hstep
          simp only [recipients, hsel] at hmem ⊢
          exact hmem
        · cases hstep
      | setDiscount p acc =>
        simp only [step] at hstep
        split at hstep
        · cases hstep; exact hrec
        · cases hstep
      | rmDiscount acc =>
        simp only [step] at hstep
        split at hstep
        · cases hstep; exact hrec
        · cases hstep
      | setWhitelist wl acc =>
        simp only [step] at hstep
        split at hstep
        · cases hstep; exact hrec
        · cases hstep
    · intro d
      cases op with
      | mint s ad fu al =>
        exact C02_minter_balance_unchanged_partial w w' s ad fu al hstep hop.2 hop.1 hrec d
      | fund a c =>
        cases hstep
        have hne : ¬ w.m.addr = a := fun e => hop e.symm
        simp [Bank.fund, Bank.credit, hne]
      | time t => cases hstep; rfl
      | setPrice p acc =>
        simp only [step] at hstep
        split at hstep
        · cases hstep; rfl
        · cases hstep
      | setDiscount p acc =>
        simp only [step] at hstep
        split at hstep
        · cases hstep; rfl
        · cases hstep
      | rmDiscount acc =>
        simp only [step] at hstep
        split at hstep
        · cases hstep; rfl
        · cases hstep
      | setWhitelist wl acc =>
        simp only [step] at hstep
        split at hstep
        · cases hstep; rfl
        · cases hstep
      | sudoParams fb ap ab dev acc =>
        simp only [step] at hstep
        split at hstep
        · cases hstep; rfl
        · cases hstep

/-- "the minter contract's own balance is unchanged" over histories — PARTIAL.  The full clause would quantify over ALL
operation lists; it is FALSE for token-merge `ReceiveNft` deposits that carry funds (`C02_merge_deposit_funds_counterexample`).
Proved: over any history in which every operation is `OpAway` — token-merge deposits carry no funds, the minter is never
the sender of a mint, never a funding target, and never made the factory's developer address by a parameter update — and
in which the minter is not one of the configured payees at the start (`hrec`: the two DAOs, the fair-burn pool, the
developer, the seller = payment address / admin are all ≠ minter), whatever sequence of mints (with any funds, accepted or
not), price / discount / whitelist / fee-parameter updates and clock steps, the minter holds in every denom exactly what it
held at the start. -/
theorem C02_history_minter_never_holds_partial (w : World) (ops : List Op)
    (hrec : w.m.addr ∉ recipients w.v w.f w.m) (hops : ∀ op ∈ ops, OpAway w.m.addr w.v op) (d : Denom) :
    (run w ops).bank.bal w.m.addr d = w.bank.bal w.m.addr d := by
  unfold run
  induction ops generalizing w with
  | nil => rfl
  | cons op ops ih =>
    simp only [List.foldl_cons]
    obtain ⟨hma, hv, hrec', hbal⟩ := away_step w op (hops op (List.mem_cons_self ..)) hrec
    have := ih (step' w op) hrec' (by
      intro o ho
      rw [hma, hv]
      exact hops o (List.mem_cons_of_mem _ ho))
    rw [hma] at this
    rw [this, hbal d]

/-- alias of `C02_history_minter_never_holds_partial` (kept because other modules refer to it) -/
theorem C02_history_minter_never_holds (w : World) (ops : List Op)
    (hrec : w.m.addr ∉ recipients w.v w.f w.m) (hops : ∀ op ∈ ops, OpAway w.m.addr w.v op) (d : Denom) :
    (run w ops).bank.bal w.m.addr d = w.bank.bal w.m.addr d :=
  C02_history_minter_never_holds_partial w ops hrec hops d

/-! ## Staged (tiered) whitelists, whitelist-side edits, other messages — `Model/MintPayStaged.lean`

The driver runs `sstep`: the minter's one-window view of its whitelist is recomputed from the attached contract's stage
table and the clock (`SWorld.refresh`) before every operation, then the unchanged `step` runs.  So every single-step
theorem above applies to the refreshed world; the theorems below say WHICH price that is, at which instants it changes,
and lift the history theorems to operation lists that also contain `SetWhitelist`, whitelist-admin edits and arbitrary
other messages. -/

theorem current_some {sc : Sched} {now : Nat} {st : Stage} (h : sc.current now = some st) :
    st ∈ sc.stages ∧ st.activeAt sc.endIncl now = true := by
  unfold Sched.current at h
  exact ⟨List.mem_of_find?_eq_some h, by simpa using List.find?_some h⟩

theorem window_active (st : Stage) (incl : Bool) (now : Nat) (h : st.activeAt incl now = true) :
    (st.window incl).active now = true := by
  unfold Stage.activeAt at h
  unfold Whitelist.active Stage.window
  cases incl <;> simp at h ⊢ <;> omega

theorem refresh_whitelist (s : SWorld) : s.refresh.m.whitelist = s.sched.bind (·.view s.w.now) := rfl

/-- "the price currently in force for that kind of mint": while a stage of the ATTACHED whitelist contract contains the
clock value — `start ≤ now < end` for the single-stage kinds, `start ≤ now ≤ end` and the first such stage for the tiered
kinds — a `Mint {}` is charged that stage's price -/
theorem C02_price_stage (s : SWorld) (sc : Sched) (st : Stage) (hs : s.sched = some sc)
    (hc : sc.current s.w.now = some st) :
    selectPrice s.refresh.v s.refresh.f s.refresh.m s.refresh.now false = .ok st.price := by
  have hw : s.refresh.m.whitelist = some (st.window sc.endIncl) := by
    rw [refresh_whitelist, hs]; simp [Sched.view, hc]
  have := C02_price_whitelist s.refresh.v s.refresh.f s.refresh.m s.refresh.now (st.window sc.endIncl) hw
    (window_active st sc.endIncl s.w.now (current_some hc).2)
  simpa [Stage.window] using this

theorem publicPrice_refresh (s : SWorld) : publicPrice s.refresh.v s.refresh.m = publicPrice s.w.v s.w.m := by
  unfold publicPrice SWorld.refresh
  cases s.w.v.family <;> rfl

/-- no whitelist attached, or no stage of it contains the clock value (before the first stage, in a gap between two
stages, after the last one, all stages removed): the public price — vending: the discount price when one is set -/
theorem C02_price_no_stage (s : SWorld) (h : ∀ sc, s.sched = some sc → sc.current s.w.now = none) :
    selectPrice s.refresh.v s.refresh.f s.refresh.m s.refresh.now false = .ok (publicPrice s.w.v s.w.m) := by
  have hw : s.refresh.m.whitelist = none := by
    rw [refresh_whitelist]
    cases hs : s.sched with
    | none => rfl
    | some sc => simp [Sched.view, h sc hs]
  simp [selectPrice, senderPrice, hw, publicPrice_refresh]

/-- exact instants at which a stage stops being in force: a tiered stage still is in its last instant `end` and is not
one nanosecond later; a single-stage whitelist is in force at `end − 1` and no longer at `end` -/
theorem C02_stage_end_boundary (st : Stage) (h : st.startT < st.endT) :
    st.activeAt true st.endT = true ∧ st.activeAt true (st.endT + 1) = false ∧
    st.activeAt false (st.endT - 1) = true ∧ st.activeAt false st.endT = false := by
  unfold Stage.activeAt
  refine ⟨?_, ?_, ?_, ?_⟩ <;> simp <;> omega

/-- … and starts: in force at `start`, not one nanosecond earlier (both kinds) -/
theorem C02_stage_start_boundary (st : Stage) (incl : Bool) (h : st.startT < st.endT) :
    st.activeAt incl st.startT = true ∧ (0 < st.startT → st.activeAt incl (st.startT - 1) = false) := by
  unfold Stage.activeAt
  cases incl <;> refine ⟨?_, ?_⟩ <;> simp <;> omega

/-- hand-over between two CONTIGUOUS tiered stages (`start₂ = end₁`, which `validate_stages` allows): in the shared
instant the EARLIER stage's price is charged, one nanosecond later the later stage's -/
theorem C02_stage_handover (a b : Stage) (rest : List Stage) (ha : a.startT < a.endT) (hab : b.startT = a.endT)
    (hb : b.startT < b.endT) :
    (Sched.mk (a :: b :: rest) true).current a.endT = some a ∧
    (Sched.mk (a :: b :: rest) true).current (a.endT + 1) = some b := by
  unfold Sched.current
  constructor
  · have : a.activeAt true a.endT = true := by unfold Stage.activeAt; simp; omega
    simp [List.find?, this]
  · have h1 : a.activeAt true (a.endT + 1) = false := by unfold Stage.activeAt; simp
    have h2 : b.activeAt true (a.endT + 1) = true := by unfold Stage.activeAt; simp; omega
    simp [List.find?, h1, h2]

/-- a gap between two tiered stages belongs to neither: the public price is charged there -/
theorem C02_stage_gap (a b : Stage) (now : Nat) (h1 : a.endT < now) (h2 : now < b.startT) :
    (Sched.mk [a, b] true).current now = none := by
  unfold Sched.current
  have ha : a.activeAt true now = false := by unfold Stage.activeAt; simp; omega
  have hb : b.activeAt true now = false := by unfold Stage.activeAt; simp; omega
  simp [List.find?, ha, hb]

theorem sstep_base_ok {s s' : SWorld} {op : Op} (h : sstep s (.base op) = .ok s') :
    ∃ w', step s.refresh op = .ok w' ∧ s' = { s with w := w' } := by
  simp only [sstep] at h
  split at h
  · rename_i w' hw; cases h; exact ⟨w', hw, rfl⟩
  · cases h

/-- "A mint (public, whitelist …) succeeds only if the caller attaches exactly the price currently in force" at the
staged layer the driver runs: a successful `Mint {}` attached exactly the price of the stage in force at that instant,
or exactly the public / discount price when no stage is (nothing when that price is zero) -/
theorem C02_staged_exact_payment (s s' : SWorld) (who : Addr) (funds : List Coin) (allowed : Bool)
    (hsale : IsSale s.w.v false) (h : sstep s (.base (.mint who false funds allowed)) = .ok s') :
    ∃ price, funds = exactFunds price ∧
      ((∃ sc st, s.sched = some sc ∧ sc.current s.w.now = some st ∧ price = st.price) ∨
       ((∀ sc, s.sched = some sc → sc.current s.w.now = none) ∧ price = publicPrice s.w.v s.w.m)) := by
  obtain ⟨w', hw, _⟩ := sstep_base_ok h
  obtain ⟨price, hsel, hf⟩ := C02_exact_payment s.refresh w' who false funds allowed hsale hw
  refine ⟨price, hf, ?_⟩
  cases hs : s.sched with
  | none =>
    right
    have hn : ∀ sc, s.sched = some sc → sc.current s.w.now = none := by intro sc h'; rw [hs] at h'; cases h'
    refine ⟨(by intro sc h'; cases h'), ?_⟩
    rw [C02_price_no_stage s hn] at hsel
    cases hsel; rfl
  | some sc =>
    cases hc : sc.current s.w.now with
    | some st =>
      left
      rw [C02_price_stage s sc st hs hc] at hsel
      cases hsel
      exact ⟨sc, st, rfl, hc, rfl⟩
    | none =>
      right
      have hn : ∀ sc', s.sched = some sc' → sc'.current s.w.now = none := by
        intro sc' h'; rw [hs] at h'; cases h'; exact hc
      refine ⟨(by intro sc' h'; cases h'; exact hc), ?_⟩
      rw [C02_price_no_stage s hn] at hsel
      cases hsel; rfl

/-- a whitelist-side edit takes effect on the very next mint — RESTATES THE MODEL'S DEFINITION: the `.wlEdit` branch of
`sstep` stores the witnessed table `sc'`, and this theorem only unfolds that (the stored table of the attached whitelist is
`sc'`, the world is untouched); together with `SWorld.refresh` (the table is re-read before every op BY CONSTRUCTION) the
next price is read off `sc'`.  That the real minters re-query the whitelist's `Config{}` on every mint and keep no stale
copy is a modelling decision validated by the harness only (`edit-between` scenarios, mutant m9). -/
theorem C02_wl_edit_takes_effect (s : SWorld) (id : Nat) (sc' : Sched) (hatt : s.att = some id) :
    (sstep' s (.wlEdit id sc' true)).sched = some sc' ∧ (sstep' s (.wlEdit id sc' true)).w = s.w := by
  simp [sstep', sstep, SWorld.sched, hatt, lookupWl, List.find?]

/-- parties of a staged operation -/
def SOpIn (accts : List Addr) : SOp → Prop
  | .base op => OpIn accts op
  | .ext sender moves _ => sender ∈ accts ∧ Closed accts moves
  | _ => True

theorem solvent_refresh (accts : List Addr) (s : SWorld) : Solvent accts s.refresh ↔ Solvent accts s.w := Iff.rfl

theorem ssolvent_step (accts : List Addr) (hn : accts.Nodup) (s : SWorld) (op : SOp) (hop : SOpIn accts op)
    (hs : Solvent accts s.w) : Solvent accts (sstep' s op).w := by
  unfold sstep'
  cases hstep : sstep s op with
  | error e => exact hs
  | ok s' =>
    simp only []
    cases op with
    | base op =>
      obtain ⟨w', hw, rfl⟩ := sstep_base_ok hstep
      have := solvent_step accts hn s.refresh op hop ((solvent_refresh accts s).2 hs)
      unfold step' at this
      rw [hw] at this
      exact this
    | attach id acc =>
      simp only [sstep] at hstep
      split at hstep
      · split at hstep
        · cases hstep; exact hs
        · cases hstep
      · cases hstep
    | wlEdit id sc acc =>
      simp only [sstep] at hstep
      split at hstep
      · cases hstep; exact hs
      · cases hstep
    | ext sender moves acc =>
      simp only [sstep] at hstep
      split at hstep
      · cases hstep
      · split at hstep
        · cases hstep
        · split at hstep
          · cases hstep
          · rename_i b hb
            cases hstep
            obtain ⟨hm, hr, ht⟩ := hs
            refine ⟨hm, hr, fun d => ?_⟩
            have t := total_applyMsgs moves hb accts hn hop.1 hop.2 d
            have l := (applyMsgs_ledger moves hb sender d).2.2
            have := ht d
            simp only [] at *
            rw [l]; omega

/-- "no coins are created, lost or stranded" after ANY history that also contains `SetWhitelist`, whitelist-admin edits
(windows moved, stage prices changed, stages added / removed) and arbitrary other messages of the minter -/
theorem C02_staged_history_conservation (accts : List Addr) (hn : accts.Nodup) (s : SWorld) (ops : List SOp)
    (hops : ∀ op ∈ ops, SOpIn accts op) (hs : Solvent accts s.w) : Solvent accts (srun s ops).w := by
  unfold srun
  induction ops generalizing s with
  | nil => exact hs
  | cons op ops ih =>
    simp only [List.foldl_cons]
    apply ih
    · exact fun o ho => hops o (List.mem_cons_of_mem _ ho)
    · exact ssolvent_step accts hn s op (hops op (List.mem_cons_self ..)) hs

/-- staged operations in which the minter is never a payer, funding target or configured payee -/
def SOpAway (mi : Addr) (v : Variant) : SOp → Prop
  | .base op => OpAway mi v op
  | _ => True

theorem saway_step (s : SWorld) (op : SOp) (hop : SOpAway s.w.m.addr s.w.v op)
    (hrec : s.w.m.addr ∉ recipients s.w.v s.w.f s.w.m) :
    (sstep' s op).w.m.addr = s.w.m.addr ∧ (sstep' s op).w.v = s.w.v ∧
    (sstep' s op).w.m.addr ∉ recipients (sstep' s op).w.v (sstep' s op).w.f (sstep' s op).w.m ∧
    ∀ d, (sstep' s op).w.bank.bal s.w.m.addr d = s.w.bank.bal s.w.m.addr d := by
  unfold sstep'
  cases hstep : sstep s op with
  | error e => exact ⟨rfl, rfl, hrec, fun _ => rfl⟩
  | ok s' =>
    simp only []
    cases op with
    | base op =>
      obtain ⟨w', hw, rfl⟩ := sstep_base_ok hstep
      have := away_step s.refresh op hop hrec
      unfold step' at this
      rw [hw] at this
      exact this
    | attach id acc =>
      simp only [sstep] at hstep
      split at hstep
      · split at hstep
        · cases hstep; exact ⟨rfl, rfl, hrec, fun _ => rfl⟩
        · cases hstep
      · cases hstep
    | wlEdit id sc acc =>
      simp only [sstep] at hstep
      split at hstep
      · cases hstep; exact ⟨rfl, rfl, hrec, fun _ => rfl⟩
      · cases hstep
    | ext sender moves acc =>
      simp only [sstep] at hstep
      split at hstep
      · cases hstep
      · split at hstep
        · cases hstep
        · rename_i hbad
          split at hstep
          · cases hstep
          · rename_i b hb
            cases hstep
            refine ⟨rfl, rfl, hrec, fun d => ?_⟩
            have hsm : ¬ s.w.m.addr = sender := fun e => hbad (Or.inl e.symm)
            have hok : extOk s.w.m.addr moves = true := by
              cases hx : extOk s.w.m.addr moves with
              | true => rfl
              | false => exact absurd (Or.inr hx) hbad
            have hin : inflow s.w.m.addr d moves = 0 := by
              apply inflow_zero
              intro x hx
              have := List.all_eq_true.mp hok x hx
              simpa using this
            have l := (applyMsgs_ledger moves hb s.w.m.addr d).1
            simp only [hsm, if_false, hin] at l
            simpa using l

/-- "the minter contract's own balance is unchanged" over staged histories — PARTIAL, same restriction as
`C02_history_minter_never_holds_partial`: every base operation must be `OpAway` (`SOpAway`: token-merge deposits carry no
funds — the unrestricted clause is false, `C02_merge_deposit_funds_counterexample` —, the minter is never mint sender,
funding target or newly configured developer) and the minter is not a configured payee at the start (`hrec`).  Under
that restriction: mints under single-stage or tiered whitelists at any instants, whitelist swaps and whitelist-admin edits
in between, and ANY other message whose observed bank effect does not name the minter (the model rejects an `ext` witness
that does) leave the minter's balance in every denom as it was. -/
theorem C02_staged_history_minter_never_holds_partial (s : SWorld) (ops : List SOp)
    (hrec : s.w.m.addr ∉ recipients s.w.v s.w.f s.w.m) (hops : ∀ op ∈ ops, SOpAway s.w.m.addr s.w.v op) (d : Denom) :
    (srun s ops).w.bank.bal s.w.m.addr d = s.w.bank.bal s.w.m.addr d := by
  unfold srun
  induction ops generalizing s with
  | nil => rfl
  | cons op ops ih =>
    simp only [List.foldl_cons]
    obtain ⟨hma, hv, hrec', hbal⟩ := saway_step s op (hops op (List.mem_cons_self ..)) hrec
    have := ih (sstep' s op) hrec' (by
      intro o ho
      rw [hma, hv]
      exact hops o (List.mem_cons_of_mem _ ho))
    rw [hma] at this
    rw [this, hbal d]

/-- alias of `C02_staged_history_minter_never_holds_partial` (kept because other modules refer to it) -/
theorem C02_staged_history_minter_never_holds (s : SWorld) (ops : List SOp)
    (hrec : s.w.m.addr ∉ recipients s.w.v s.w.f s.w.m) (hops : ∀ op ∈ ops, SOpAway s.w.m.addr s.w.v op) (d : Denom) :
    (srun s ops).w.bank.bal s.w.m.addr d = s.w.bank.bal s.w.m.addr d :=
  C02_staged_history_minter_never_holds_partial s ops hrec hops d

/-- an `ext` operation (any other message) whose witness pays the minter, or whose caller is the minter, is REJECTED by
the model — so such an observation on the real contracts is a model / implementation disagreement, never absorbed -/
theorem C02_ext_cannot_touch_minter (s : SWorld) (sender : Addr) (moves : List Msg) (acc : Bool)
    (h : sender = s.w.m.addr ∨ ∃ m ∈ moves, msgDest m = some s.w.m.addr) :
    ∃ e, sstep s (.ext sender moves acc) = .error e := by
  cases acc with
  | false => exact ⟨.other, by simp [sstep]⟩
  | true =>
    have hbad : sender = s.w.m.addr ∨ extOk s.w.m.addr moves = false := by
      rcases h with h | ⟨m, hm, hd⟩
      · exact Or.inl h
      · right
        cases hx : extOk s.w.m.addr moves with
        | false => rfl
        | true =>
          have := List.all_eq_true.mp hx m hm
          simp [hd] at this
    exact ⟨.invalid, by simp [sstep, hbad]⟩

/-! ## Aliased parties -/

/-- per-account closed form of a successful sale for EVERY account but the minter, with no distinctness assumption:
the payer may be the seller, the developer or a protocol fee recipient, the seller may be a fee recipient — each
account's change is minus what it attached plus everything the fee distribution and the payout address to it -/
theorem C02_account_ledger (w w' : World) (sender : Addr) (isAdmin : Bool) (funds : List Coin) (allowed : Bool)
    (hs : IsSale w.v isAdmin) (h : mint w sender isAdmin funds allowed = .ok w') :
    ∃ price, selectPrice w.v w.f w.m w.now isAdmin = .ok price ∧
      ∀ a d, a ≠ w.m.addr →
        w'.bank.bal a d + (if a = sender ∧ price.denom = d then price.amount else 0) =
          w.bank.bal a d +
            inflow a d (feeMsgs w.v w.f price (networkFee w.f isAdmin price) ++ sellerMsgs w.v w.m price (networkFee w.f isAdmin price)) := by
  obtain ⟨price, hsel, hf⟩ := C02_exact_payment w w' sender isAdmin funds allowed hs h
  obtain ⟨price', ms, hp, hl⟩ := C02_ledger w w' sender isAdmin funds allowed h
  have hp2 := hp
  rw [payMint_sale hs] at hp2
  obtain ⟨hsel', _, _, rfl⟩ := paySale_ok hp2
  rw [hsel] at hsel'; cases hsel'
  refine ⟨price, hsel, fun a d hm => ?_⟩
  have hl := hl a d
  rw [hf, coinsIn_exact] at hl
  simp only [hm, if_false] at hl
  by_cases ha : a = sender <;> by_cases hd : price.denom = d <;> simp [ha, hd] at hl ⊢ <;> omega

/-! ## Non-vacuity: concrete worlds in which the hypotheses hold and mints succeed -/

/-- a vending-minter-featured world: price 1000 ustars, 10 % fee, payment address 41, buyer 20 holds 5000 -/
def exWorld : World :=
  { v := ⟨.vending, true⟩,
    f := { mintFeeBps := 1000, airdropPrice := ⟨0, 100⟩, airdropFeeBps := 5000, devAddr := 60 },
    m := { addr := 1003, admin := 10, paymentAddr := some 41, mintPrice := ⟨0, 1000⟩, discount := none, whitelist := none, hasCap := true },
    bank := { bal := fun a d => if a = 20 ∧ d = 0 then 5000 else if a = 10 ∧ d = 0 then 700 else 0, minted := fun d => if d = 0 then 5700 else 0, burned := fun _ => 0 },
    now := 5 }

def balAfter (r : Except Err World) (a : Addr) (d : Denom) : Option Nat :=
  match r with
  | .ok w => some (w.bank.bal a d)
  | .error _ => none

/-- public mint: payer −1000, liquidity DAO ⌈100/8⌉ = 13, launchpad DAO 87, seller 900, minter 0 -/
example : (balAfter (mint exWorld 20 false [⟨0, 1000⟩] true) 20 0, balAfter (mint exWorld 20 false [⟨0, 1000⟩] true) LIQUIDITY_DAO 0,
    balAfter (mint exWorld 20 false [⟨0, 1000⟩] true) LAUNCHPAD_DAO 0, balAfter (mint exWorld 20 false [⟨0, 1000⟩] true) 41 0,
    balAfter (mint exWorld 20 false [⟨0, 1000⟩] true) 1003 0) = (some 4000, some 13, some 87, some 900, some 0) := by decide

/-- airdrop mint by the admin (price 100, fee 50 %): the remaining 50 go to the payment address, the minter keeps nothing -/
example : (balAfter (mint exWorld 10 true [⟨0, 100⟩] true) 10 0, balAfter (mint exWorld 10 true [⟨0, 100⟩] true) 41 0,
    balAfter (mint exWorld 10 true [⟨0, 100⟩] true) 1003 0) = (some 600, some 50, some 0) := by decide

/-- one unit too many, one too few, wrong denom, extra coin: all rejected -/
example : (balAfter (mint exWorld 20 false [⟨0, 1001⟩] true) 20 0, balAfter (mint exWorld 20 false [⟨0, 999⟩] true) 20 0,
    balAfter (mint exWorld 20 false [⟨7, 1000⟩] true) 20 0, balAfter (mint exWorld 20 false [⟨0, 1000⟩, ⟨7, 1⟩] true) 20 0)
    = (none, none, none, none) := by decide

/-- the token-merge variant of `exWorld` -/
def exMerge : World := { exWorld with v := ⟨.tokenMerge, false⟩ }

/-- COUNTEREXAMPLE to the unrestricted "the minter contract's own balance is unchanged": a token-merge deposit
(`ReceiveNft`, `isAdmin = false`) that arrives with 5 ustars succeeds, and the 5 ustars stay in the minter (1003), which
is neither the payer nor a payee.  Same on the real contract: `./check C02 --replay corpus/C02/merge-deposit-with-funds.json`. -/
theorem C02_merge_deposit_funds_counterexample :
    exMerge.v.family = .tokenMerge ∧ (20 : Addr) ≠ exMerge.m.addr ∧
    exMerge.m.addr ∉ recipients exMerge.v exMerge.f exMerge.m ∧
    exMerge.bank.bal exMerge.m.addr 0 = 0 ∧
    balAfter (mint exMerge 20 false [⟨0, 5⟩] true) exMerge.m.addr 0 = some 5 ∧
    balAfter (mint exMerge 20 false [⟨0, 5⟩] true) 20 0 = some 4995 := by decide

/-- a tiered whitelist with two CONTIGUOUS stages (700 in [100, 200], 800 in [200, 300]) attached to `exWorld`
(public price 1000), and the same table read as a single-stage kind would (end-exclusive) -/
def exStaged (incl : Bool) (now : Nat) : SWorld :=
  { w := { exWorld with now := now },
    wls := [(0, ⟨[⟨⟨0, 700⟩, 100, 200⟩, ⟨⟨0, 800⟩, 200, 300⟩], incl⟩)],
    att := some 0 }

def priceAt (s : SWorld) : Option Nat :=
  match selectPrice s.refresh.v s.refresh.f s.refresh.m s.refresh.now false with
  | .ok c => some c.amount
  | .error _ => none

/-- tiered: 99 → public, 100 → stage 1, 200 (shared instant) → stage 1, 201 → stage 2, 300 → stage 2, 301 → public -/
example : (priceAt (exStaged true 99), priceAt (exStaged true 100), priceAt (exStaged true 200), priceAt (exStaged true 201),
    priceAt (exStaged true 300), priceAt (exStaged true 301)) = (some 1000, some 700, some 700, some 800, some 800, some 1000) := by decide

/-- end-exclusive reading: 200 already belongs to the second window, 300 to nobody -/
example : (priceAt (exStaged false 199), priceAt (exStaged false 200), priceAt (exStaged false 300)) = (some 700, some 800, some 1000) := by decide

def sBalAfter (r : Except Err SWorld) (a : Addr) (d : Denom) : Option Nat :=
  match r with
  | .ok s => some (s.w.bank.bal a d)
  | .error _ => none

/-- in the shared instant 200 buyer 20 pays stage 1's 700 (accepted: payer 4300, seller 630, minter 0); stage 2's 800 and the
public 1000 are rejected; after the whitelist admin re-priced stage 1 to 650 the same block charges 650 -/
example : (sBalAfter (sstep (exStaged true 200) (.base (.mint 20 false [⟨0, 700⟩] true))) 20 0,
    sBalAfter (sstep (exStaged true 200) (.base (.mint 20 false [⟨0, 700⟩] true))) 41 0,
    sBalAfter (sstep (exStaged true 200) (.base (.mint 20 false [⟨0, 700⟩] true))) 1003 0,
    sBalAfter (sstep (exStaged true 200) (.base (.mint 20 false [⟨0, 800⟩] true))) 20 0,
    sBalAfter (sstep (exStaged true 200) (.base (.mint 20 false [⟨0, 1000⟩] true))) 20 0,
    sBalAfter (sstep (sstep' (exStaged true 200) (.wlEdit 0 ⟨[⟨⟨0, 650⟩, 100, 200⟩, ⟨⟨0, 800⟩, 200, 300⟩], true⟩ true))
      (.base (.mint 20 false [⟨0, 650⟩] true))) 20 0)
    = (some 4300, some 630, some 0, none, none, some 4350) := by decide

/-- another message (a shuffle paying 500 into the fair-burn pool and burning 500) is accepted; a witness that pays the
minter is not -/
example : (sBalAfter (sstep (exStaged true 150) (.ext 20 [.send FAIRBURN_POOL ⟨0, 500⟩, .burn ⟨0, 500⟩] true)) 20 0,
    sBalAfter (sstep (exStaged true 150) (.ext 20 [.send 1003 ⟨0, 1⟩] true)) 20 0) = (some 4000, none) := by decide

example : IsSale exWorld.v false ∧ exWorld.m.addr ∉ recipients exWorld.v exWorld.f exWorld.m := by
  refine ⟨Or.inl rfl, by decide⟩

end LP
