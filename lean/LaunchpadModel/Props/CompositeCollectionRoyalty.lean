import LaunchpadModel.Lemmas.CollectionFullRoyalty
import LaunchpadModel.Props.C10
/-!
# Refinement: the collection composite `LP.CF` refines the royalty aspect model `LP.Royalty` (C10)

(Separate module because `Props/C09.lean` and `Props/C10.lean` both declare `LP.run_cons`.)

* projection `proj10` of the C09 component onto `Royalty.Coll` (`Lemmas/CollectionFullRoyalty.lean`): code kind and cw2 name
  (equal in the composite: no foreign-code migration), version triple, creator, description LENGTH, image / link as
  parity-coded naturals, explicit flag, start-trading time, royalty, info freeze flag, `royalty_updated_at`. Address map
  `g`: valid address `a ↦ a + 6`, malformed ↦ `0` (the two models use different ids for malformed strings);
* translation `tr10 s op`: `UpdateCollectionInfo` / `FreezeCollectionInfo` whose attached funds the bank can move ↦ the
  aspect op ITSELF (`update (trU u)` / `freeze`, the aspect model decides); `UpdateStartTradingTime` ↦ `startTrading t
  (accepted)`; any other message ↦ `other (accepted)`; migrations ↦ `migrate target (accepted)`; `setVersion v` ↦ `setver`;
  block / funding / legacy item ↦ nothing. Time of every aspect op = the composite's block time;
* simulation `proj10 (after step') = Royalty.run (proj10 before) (tr10 s op)` for ALL states with a collection and ALL ops
  whose sender is a well-formed address (`SenderOk`: the chain only delivers messages from real accounts; needed because
  `g` identifies all malformed ids).  For `UpdateCollectionInfo` this compares two independently written transcriptions of
  `update_collection_info` (C09 machine + the composite's `royaltyGate` vs `Royalty.updateCollectionInfo`), in both directions.
-/
namespace LP
open LP.CF

namespace CF

/-- the bank can move the attached funds from the sender to the collection -/
def bankOk (s : State) (c : Coll) (sender : Addr) (funds : List Coin) : Bool := (s.bank.sendFunds sender c.self funds).isSome

def tr10 (s : State) (op : Op) : List Royalty.Op :=
  match op with
  | .exec sender funds m =>
    match s.coll with
    | none => []
    | some c =>
      match m with
      | .updateCollectionInfo u => if bankOk s c sender funds then [⟨s.block.time, g sender, .update (trU u)⟩] else []
      | .freezeCollectionInfo => if bankOk s c sender funds then [⟨s.block.time, g sender, .freeze⟩] else []
      | .updateStartTradingTime t => [⟨s.block.time, g sender, .startTrading t (accepted s op)⟩]
      | _ => [⟨s.block.time, g sender, .other (accepted s op)⟩]
  | .migrateUpdatable => [⟨s.block.time, 0, .migrate .updatable (accepted s op)⟩]
  | .migrateSelf =>
    match s.coll with
    | some c => [⟨s.block.time, 0, .migrate (pKind c.core.kind) (accepted s op)⟩]
    | none => []
  | .setVersion v => [⟨s.block.time, 0, .setver (pVer v)⟩]
  | _ => []

def trs10 : State → List Op → List Royalty.Op
  | _, [] => []
  | s, op :: ops => tr10 s op ++ trs10 (step' s op) ops

/-- senders are well-formed addresses -/
def SenderOk : Op → Prop
  | .exec sender _ _ => Sg721.validAddr sender = true
  | _ => True

/-- the royalty view of a state -/
def royOf (s : State) : Option Royalty.Coll := s.coll.map fun c => proj10 c.core

theorem r_step'_ok {c c' : Royalty.Coll} {op : Royalty.Op} (h : Royalty.step c op = .ok c') : Royalty.step' c op = c' := by
  unfold Royalty.step'; rw [h]
theorem r_step'_err {c : Royalty.Coll} {op : Royalty.Op} {e : Err} (h : Royalty.step c op = .error e) : Royalty.step' c op = c := by
  unfold Royalty.step'; rw [h]
theorem r_run_one (c : Royalty.Coll) (op : Royalty.Op) : Royalty.run c [op] = Royalty.step' c op := rfl
theorem r_run_append (c : Royalty.Coll) (a b : List Royalty.Op) : Royalty.run c (a ++ b) = Royalty.run (Royalty.run c a) b := by
  unfold Royalty.run; rw [List.foldl_append]

theorem responseMsgs_nil (self : Addr) (funds : List Coin) (m : ExecMsg) (h : m ≠ .enableUpdatable) :
    responseMsgs self funds m = [] := by
  cases m <;> first | rfl | exact absurd rfl h

/-- a message without response messages, once the funds moved: the composite is the C09 machine -/
theorem exec_noResp (s : State) (c : Coll) (sender : Addr) (funds : List Coin) (m : ExecMsg) (b1 : Bank) (hc : s.coll = some c)
    (hb : s.bank.sendFunds sender c.self funds = some b1) (hr : responseMsgs c.self funds m = []) :
    exec s sender funds m =
      match Sg721.exec c.core ⟨s.block, sender, funds, toExec c.core s.block m⟩ with
      | .error e => .error e
      | .ok core' => .ok { s with bank := b1, coll := some { c with core := core' } } := by
  unfold exec
  simp only [hc, hb, hr]
  cases Sg721.exec c.core ⟨s.block, sender, funds, toExec c.core s.block m⟩ <;> rfl

theorem exec_bankFail (s : State) (c : Coll) (sender : Addr) (funds : List Coin) (m : ExecMsg) (hc : s.coll = some c)
    (hb : s.bank.sendFunds sender c.self funds = none) : exec s sender funds m = .error .payment := by
  unfold exec; simp only [hc, hb]

end CF

/-- **C10 simulation, one step** (all states with a collection, all ops with a well-formed sender) -/
theorem C10_full_refines (s : State) (c : Coll) (op : Op) (hc : s.coll = some c) (hv : SenderOk op) :
    royOf (step' s op) = some (Royalty.run (proj10 c.core) (tr10 s op)) := by
  cases op with
  | block b => simp [step', step, royOf, hc, tr10, Royalty.run]
  | fund a x => simp [step', step, royOf, hc, tr10, Royalty.run]
  | instantiate k sender funds name symbol m self =>
    have : step s (.instantiate k sender funds name symbol m self) = .error .other := by simp [step, instantiate, hc]
    rw [step'_err this]; simp [royOf, hc, tr10, Royalty.run]
  | setLegacy a => simp [step', step, onColl_some _ hc, royOf, tr10, Royalty.run]
  | setVersion v =>
    simp [step', step, onColl_some _ hc, royOf, tr10, Royalty.run, Royalty.step', Royalty.step]
    try rfl
  | migrateUpdatable =>
    simp only [tr10, r_run_one]
    cases h : step s .migrateUpdatable with
    | ok s' =>
      obtain ⟨c0, c', hc0, hf, rfl⟩ := onColl_ok h
      rw [hc] at hc0; cases hc0
      have := migrateUpdatable_proj c c' s.block.time hf
      rw [step'_ok h, accepted_ok h, r_step'_ok (c' := proj10 c'.core) (by simpa [Royalty.step] using this)]
      rfl
    | error e =>
      rw [step'_err h, accepted_err h, r_step'_err (e := .version) (by simp [Royalty.step])]
      simp [royOf, hc]
  | migrateSelf =>
    simp only [tr10, hc, r_run_one]
    cases h : step s .migrateSelf with
    | ok s' =>
      obtain ⟨c0, c', hc0, hf, rfl⟩ := onColl_ok h
      rw [hc] at hc0; cases hc0
      have := migrateSelf_proj c c' s.block.time hf
      rw [step'_ok h, accepted_ok h, r_step'_ok (c' := proj10 c'.core) (by simpa [Royalty.step] using this)]
      rfl
    | error e =>
      rw [step'_err h, accepted_err h, r_step'_err (e := .version) (by simp [Royalty.step])]
      simp [royOf, hc]
  | exec sender funds m =>
    have hvs : Sg721.validAddr sender = true := hv
    -- the generic "witnessed" translation: accepted ⇒ frame lemma, rejected ⇒ nothing happens
    have generic : ∀ (act : Bool → Royalty.Action) (post : Royalty.Coll → Royalty.Coll),
        (∀ r : Royalty.Coll, ∀ t, Royalty.step r ⟨t, g sender, act true⟩ = .ok (post r)) →
        (∀ r : Royalty.Coll, ∀ t, ∃ e, Royalty.step r ⟨t, g sender, act false⟩ = .error e) →
        (∀ core', Sg721.exec c.core ⟨s.block, sender, funds, toExec c.core s.block m⟩ = .ok core' →
          proj10 core' = post (proj10 c.core)) →
        royOf (step' s (.exec sender funds m)) =
          some (Royalty.run (proj10 c.core) [⟨s.block.time, g sender, act (accepted s (.exec sender funds m))⟩]) := by
      intro act post hok herr hframe
      rw [r_run_one]
      cases h : step s (.exec sender funds m) with
      | ok s' =>
        obtain ⟨c0, _, core', _, hc0, _, hcore, _, rfl⟩ := exec_ok h
        rw [hc] at hc0; cases hc0
        rw [step'_ok h, accepted_ok h, r_step'_ok (hok _ _), ← hframe core' hcore]
        rfl
      | error e =>
        obtain ⟨e', he'⟩ := herr (proj10 c.core) s.block.time
        rw [step'_err h, accepted_err h, r_step'_err he']
        simp [royOf, hc]
    cases m with
    | updateCollectionInfo u =>
      simp only [tr10, hc]
      cases hb : s.bank.sendFunds sender c.self funds with
      | none =>
        have : step s (.exec sender funds (.updateCollectionInfo u)) = .error .payment := exec_bankFail s c sender funds _ hc hb
        rw [step'_err this]
        simp [bankOk, hb, royOf, hc, Royalty.run]
      | some b1 =>
        have hst : step s (.exec sender funds (.updateCollectionInfo u)) = _ :=
          exec_noResp s c sender funds (.updateCollectionInfo u) b1 hc hb rfl
        simp only [bankOk, hb, Option.isSome_some, if_true, r_run_one]
        cases hx : Sg721.exec c.core ⟨s.block, sender, funds, toExec c.core s.block (.updateCollectionInfo u)⟩ with
        | ok core' =>
          rw [hx] at hst
          have hf := uci_forward c.core s.block sender funds u core' hvs hx
          rw [step'_ok hst, r_step'_ok (c' := proj10 core') (by simpa [Royalty.step] using hf)]
          rfl
        | error e =>
          rw [hx] at hst
          rw [step'_err hst]
          cases hr : Royalty.step (proj10 c.core) ⟨s.block.time, g sender, .update (trU u)⟩ with
          | ok r' =>
            obtain ⟨core', hcore'⟩ := uci_backward c.core s.block sender funds u r' hvs (by simpa [Royalty.step] using hr)
            have : Sg721.exec c.core ⟨s.block, sender, funds, toExec c.core s.block (.updateCollectionInfo u)⟩ = .ok core' := hcore'
            rw [hx] at this; cases this
          | error e' => rw [r_step'_err hr]; simp [royOf, hc]
    | freezeCollectionInfo =>
      simp only [tr10, hc]
      cases hb : s.bank.sendFunds sender c.self funds with
      | none =>
        have : step s (.exec sender funds .freezeCollectionInfo) = .error .payment := exec_bankFail s c sender funds _ hc hb
        rw [step'_err this]
        simp [bankOk, hb, royOf, hc, Royalty.run]
      | some b1 =>
        have hst : step s (.exec sender funds .freezeCollectionInfo) = _ :=
          exec_noResp s c sender funds .freezeCollectionInfo b1 hc hb rfl
        simp only [bankOk, hb, Option.isSome_some, if_true, r_run_one]
        have hsim := freeze_sim c.core s.block sender funds hvs
        cases hx : Sg721.exec c.core ⟨s.block, sender, funds, toExec c.core s.block .freezeCollectionInfo⟩ with
        | ok core' =>
          rw [hx] at hst
          have hx' : Sg721.exec c.core ⟨s.block, sender, funds, .freezeCollectionInfo⟩ = .ok core' := hx
          rw [hx'] at hsim
          cases hr : Royalty.step (proj10 c.core) ⟨s.block.time, g sender, .freeze⟩ with
          | ok r' =>
            rw [hr] at hsim
            simp only [okOf, Except.map, Option.some.injEq] at hsim
            rw [step'_ok hst, r_step'_ok hr, ← hsim]; rfl
          | error e' => rw [hr] at hsim; simp [okOf, Except.map] at hsim
        | error e =>
          rw [hx] at hst
          have hx' : Sg721.exec c.core ⟨s.block, sender, funds, .freezeCollectionInfo⟩ = .error e := hx
          rw [hx'] at hsim
          cases hr : Royalty.step (proj10 c.core) ⟨s.block.time, g sender, .freeze⟩ with
          | ok r' => rw [hr] at hsim; simp [okOf, Except.map] at hsim
          | error e' => rw [step'_err hst, r_step'_err hr]; simp [royOf, hc]
    | updateStartTradingTime t =>
      simp only [tr10, hc]
      exact generic (fun b => .startTrading t b) (fun r => { r with startTrading := t })
        (fun r t' => by simp [Royalty.step]) (fun r t' => ⟨.unauthorized, by simp [Royalty.step]⟩)
        (fun core' h => ustt_frame c.core core' s.block sender funds t h)
    | transferNft r id =>
      simp only [tr10, hc]
      exact generic .other (fun r => r) (fun r t' => by simp [Royalty.step]) (fun r t' => ⟨.other, by simp [Royalty.step]⟩)
        (fun core' h => other_frame c.core core' s.block sender funds _ rfl h)
    | sendNft k id ok =>
      simp only [tr10, hc]
      exact generic .other (fun r => r) (fun r t' => by simp [Royalty.step]) (fun r t' => ⟨.other, by simp [Royalty.step]⟩)
        (fun core' h => other_frame c.core core' s.block sender funds _ rfl h)
    | approve sp id ex =>
      simp only [tr10, hc]
      exact generic .other (fun r => r) (fun r t' => by simp [Royalty.step]) (fun r t' => ⟨.other, by simp [Royalty.step]⟩)
        (fun core' h => other_frame c.core core' s.block sender funds _ rfl h)
    | revoke sp id =>
      simp only [tr10, hc]
      exact generic .other (fun r => r) (fun r t' => by simp [Royalty.step]) (fun r t' => ⟨.other, by simp [Royalty.step]⟩)
        (fun core' h => other_frame c.core core' s.block sender funds _ rfl h)
    | approveAll o ex =>
      simp only [tr10, hc]
      exact generic .other (fun r => r) (fun r t' => by simp [Royalty.step]) (fun r t' => ⟨.other, by simp [Royalty.step]⟩)
        (fun core' h => other_frame c.core core' s.block sender funds _ rfl h)
    | revokeAll o =>
      simp only [tr10, hc]
      exact generic .other (fun r => r) (fun r t' => by simp [Royalty.step]) (fun r t' => ⟨.other, by simp [Royalty.step]⟩)
        (fun core' h => other_frame c.core core' s.block sender funds _ rfl h)
    | mint i o uri ext =>
      simp only [tr10, hc]
      exact generic .other (fun r => r) (fun r t' => by simp [Royalty.step]) (fun r t' => ⟨.other, by simp [Royalty.step]⟩)
        (fun core' h => other_frame c.core core' s.block sender funds _ rfl h)
    | burn i =>
      simp only [tr10, hc]
      exact generic .other (fun r => r) (fun r t' => by simp [Royalty.step]) (fun r t' => ⟨.other, by simp [Royalty.step]⟩)
        (fun core' h => other_frame c.core core' s.block sender funds _ rfl h)
    | extension =>
      simp only [tr10, hc]
      exact generic .other (fun r => r) (fun r t' => by simp [Royalty.step]) (fun r t' => ⟨.other, by simp [Royalty.step]⟩)
        (fun core' h => other_frame c.core core' s.block sender funds _ rfl h)
    | updateOwnership a =>
      simp only [tr10, hc]
      exact generic .other (fun r => r) (fun r t' => by simp [Royalty.step]) (fun r t' => ⟨.other, by simp [Royalty.step]⟩)
        (fun core' h => other_frame c.core core' s.block sender funds _ rfl h)
    | freezeTokenMetadata =>
      simp only [tr10, hc]
      exact generic .other (fun r => r) (fun r t' => by simp [Royalty.step]) (fun r t' => ⟨.other, by simp [Royalty.step]⟩)
        (fun core' h => other_frame c.core core' s.block sender funds _ rfl h)
    | updateTokenMetadata i uri =>
      simp only [tr10, hc]
      exact generic .other (fun r => r) (fun r t' => by simp [Royalty.step]) (fun r t' => ⟨.other, by simp [Royalty.step]⟩)
        (fun core' h => other_frame c.core core' s.block sender funds _ rfl h)
    | enableUpdatable =>
      simp only [tr10, hc]
      exact generic .other (fun r => r) (fun r t' => by simp [Royalty.step]) (fun r t' => ⟨.other, by simp [Royalty.step]⟩)
        (fun core' h => other_frame c.core core' s.block sender funds _ rfl h)

/-- **C10 simulation, runs** -/
theorem C10_full_run (s : State) (c : Coll) (ops : List Op) (hc : s.coll = some c) (hv : ∀ op ∈ ops, SenderOk op) :
    royOf (run s ops) = some (Royalty.run (proj10 c.core) (trs10 s ops)) := by
  induction ops generalizing s c with
  | nil => simp [CF.run_nil, royOf, hc, trs10, Royalty.run]
  | cons op ops ih =>
    have h1 := C10_full_refines s c op hc (hv op (List.mem_cons_self ..))
    rw [CF.run_cons]
    cases hc1 : (step' s op).coll with
    | none => simp [royOf, hc1] at h1
    | some c1 =>
      have hcore : proj10 c1.core = Royalty.run (proj10 c.core) (tr10 s op) := by simpa [royOf, hc1] using h1
      rw [ih (step' s op) c1 hc1 (fun o ho => hv o (List.mem_cons_of_mem _ ho)), hcore, trs10, r_run_append]

theorem C10_full_run_coll (s : State) (c : Coll) (ops : List Op) (hc : s.coll = some c) (hv : ∀ op ∈ ops, SenderOk op) :
    ∃ c', (run s ops).coll = some c' ∧ proj10 c'.core = Royalty.run (proj10 c.core) (trs10 s ops) := by
  have h := C10_full_run s c ops hc hv
  cases hc' : (run s ops).coll with
  | none => simp [royOf, hc'] at h
  | some c' => exact ⟨c', rfl, by simpa [royOf, hc'] using h⟩

namespace CF

/-- the instantiate message as the royalty model reads it -/
def trInst (k : Sg721.Kind) (sender : Addr) (funds : List Coin) (m : Sg721.InstMsg) : Royalty.InstMsg :=
  { kind := pKind k, senderIsContract := Sg721.isContract sender, funds := if funds.isEmpty then 0 else 1,
    minter := g m.minter, creator := g m.info.creator, descLen := m.info.description.len, image := pUrl m.info.image,
    link := m.info.externalLink.map pUrl, explicit := m.info.explicitContent, startTrading := m.info.startTradingTime,
    royalty := m.info.royalty.map pRoy }

theorem inst_forward (k : Sg721.Kind) (b : Sg721.Block) (sender : Addr) (funds : List Coin) (m : Sg721.InstMsg) (core : Sg721.State)
    (h : Sg721.instantiate k b sender funds m = .ok core) :
    Royalty.instantiate b.time (trInst k sender funds m) = .ok (proj10 core) := by
  simp only [Sg721.instantiate, Sg721.ensure_ok, Except.ok.injEq, decide_eq_true_eq] at h
  obtain ⟨h1, h2, h3, h4, h5, h6, h7, h8, rfl⟩ := h
  rw [Royalty.instantiate_ok_iff]
  refine ⟨by simp [trInst, h1], h2, by simp [trInst, addrValid_g, h3], by simpa [trInst, ← MAXD_eq] using h4,
    by simp [trInst, urlValid_p, h5], by simp [trInst, optUrlValid_p, h6], ?_, by simp [trInst, addrValid_g, h8], ?_⟩
  · intro r hr
    cases hroy : m.info.royalty with
    | none => simp [trInst, hroy] at hr
    | some r0 =>
      simp only [trInst, hroy, Option.map, Option.some.injEq] at hr
      subst hr
      rw [hroy] at h7
      simp only [Bool.and_eq_true, decide_eq_true_eq] at h7
      exact ⟨by simp [pRoy, addrValid_g, h7.1], h7.2⟩
  · simp only [proj10, trInst, curVer_p]

theorem royalty_proj (c : Sg721.State) (r : Royalty.RoyaltyInfo) (h : (proj10 c).royalty = some r) :
    ∃ r0, c.info.royalty = some r0 ∧ r0.share = r.share := by
  unfold proj10 at h
  simp only at h
  cases hr : c.info.royalty with
  | none => rw [hr] at h; cases h
  | some r0 => rw [hr] at h; cases h; exact ⟨r0, rfl, rfl⟩

theorem royalty_proj' (c : Sg721.State) (r0 : Sg721.Royalty) (h : c.info.royalty = some r0) :
    (proj10 c).royalty = some (pRoy r0) := by
  unfold proj10; simp [h]

theorem tr10_noSetver (s : State) (op : Op) (h : ∀ v, op ≠ .setVersion v) : ∀ o ∈ tr10 s op, isSetver o = false := by
  intro o ho
  cases op with
  | setVersion v => exact absurd rfl (h v)
  | exec sender funds m =>
    simp only [tr10] at ho
    split at ho
    · cases ho
    · cases m <;> simp only [] at ho <;> (try split at ho) <;> simp at ho <;> (subst ho; rfl)
  | migrateUpdatable => simp [tr10] at ho; subst ho; rfl
  | migrateSelf => simp only [tr10] at ho; split at ho <;> simp at ho; subst ho; rfl
  | block b => cases ho
  | fund a x => cases ho
  | instantiate k sender funds name symbol m self => cases ho
  | setLegacy a => cases ho

theorem trs10_noSetver (s : State) (ops : List Op) (h : ∀ op ∈ ops, ∀ v, op ≠ .setVersion v) : NoSetver (trs10 s ops) := by
  induction ops generalizing s with
  | nil => intro o ho; cases ho
  | cons op ops ih =>
    intro o ho
    simp only [trs10, List.mem_append] at ho
    rcases ho with ho | ho
    · exact tr10_noSetver s op (h op (List.mem_cons_self ..)) o ho
    · exact ih (step' s op) (fun o' ho' => h o' (List.mem_cons_of_mem _ ho')) o ho

end CF

/-! ### C10 headline theorems for composite steps and runs -/

/-- "A collection's royalty share is never above 100%, at creation or after any update": after `instantiate` of any of the
four contracts and ANY composite history -/
theorem C10_full_share_le_one (s s1 : State) (k : Sg721.Kind) (sender : Addr) (funds : List Coin) (name symbol : Nat)
    (m : Sg721.InstMsg) (self : Addr) (h : step s (.instantiate k sender funds name symbol m self) = .ok s1)
    (ops : List Op) (hv : ∀ op ∈ ops, SenderOk op) :
    ∃ c', (run s1 ops).coll = some c' ∧ ∀ r, c'.core.info.royalty = some r → r.share ≤ 10^18 := by
  obtain ⟨b1, core, _, _, hcore, rfl⟩ := instantiate_ok h
  obtain ⟨c', hc', hp⟩ := C10_full_run_coll
    { s with bank := b1, coll := some ⟨core, self, name, symbol, none⟩ } ⟨core, self, name, symbol, none⟩ ops rfl hv
  refine ⟨c', hc', ?_⟩
  intro r hr
  have := C10_share_le_one s.block.time (trInst k sender funds m) (proj10 core) (trs10 _ ops)
    (inst_forward k s.block sender funds m core hcore) (pRoy r) (by rw [← hp]; exact royalty_proj' _ r hr)
  exact this

/-- "an update that raises the share raises it by at most 2 percentage points and to at most 10%": an accepted composite
`UpdateCollectionInfo` that raises an existing share -/
theorem C10_full_raise_bounded (s s' : State) (c c' : Coll) (sender : Addr) (funds : List Coin) (u : UpdateInfo)
    (o n : Sg721.Royalty) (hc : s.coll = some c) (hvs : Sg721.validAddr sender = true)
    (h : step s (.exec sender funds (.updateCollectionInfo u)) = .ok s') (hc' : s'.coll = some c')
    (ho : c.core.info.royalty = some o) (hn : c'.core.info.royalty = some n) (hlt : o.share < n.share) :
    n.share - o.share ≤ 2 * 10^16 ∧ n.share ≤ 10^17 := by
  obtain ⟨c0, _, core', _, hc0, _, hcore, _, rfl⟩ := exec_ok h
  rw [hc] at hc0; cases hc0
  cases hc'
  have hf := uci_forward c.core s.block sender funds u core' hvs hcore
  exact C10_raise_bounded (proj10 c.core) ⟨s.block.time, g sender, .update (trU u)⟩ (proj10 core') (pRoy o) (pRoy n)
    (by simpa [Royalty.step] using hf) (royalty_proj' _ o ho) (royalty_proj' _ n hn) hlt

/-- "at most once per 24 hours": over any composite history without the version-fabricating environment op, from a
collection instantiated by today's code, the accepted royalty updates (read off the translated history) are ≥ 24 h apart and
the first one is ≥ 24 h after creation -/
theorem C10_full_cadence (s s1 : State) (k : Sg721.Kind) (sender : Addr) (funds : List Coin) (name symbol : Nat)
    (m : Sg721.InstMsg) (self : Addr) (h : step s (.instantiate k sender funds name symbol m self) = .ok s1)
    (ops : List Op) (hns : ∀ op ∈ ops, ∀ v, op ≠ .setVersion v) :
    ∃ c1, s1.coll = some c1 ∧ Spaced s.block.time (Royalty.acceptedTimes (proj10 c1.core) (trs10 s1 ops)) := by
  obtain ⟨b1, core, _, _, hcore, rfl⟩ := instantiate_ok h
  exact ⟨_, rfl, C10_cadence s.block.time (trInst k sender funds m) (proj10 core) (trs10 _ ops)
    (inst_forward k s.block sender funds m core hcore) (trs10_noSetver _ ops hns)⟩

/-- climb bound: after any composite history with `k` raises the share is at most `s₀ + k·2 %` and at most `max(s₀, 10 %)` -/
theorem C10_full_climb (s : State) (c : Coll) (ops : List Op) (hc : s.coll = some c) (hv : ∀ op ∈ ops, SenderOk op)
    (o : Sg721.Royalty) (ho : c.core.info.royalty = some o) :
    ∃ c' n, (run s ops).coll = some c' ∧ c'.core.info.royalty = some n ∧
      n.share ≤ o.share + 2 * 10^16 * Royalty.raises (proj10 c.core) (trs10 s ops) ∧ n.share ≤ max o.share (10^17) := by
  obtain ⟨c', hc', hp⟩ := C10_full_run_coll s c ops hc hv
  obtain ⟨n, hn, h1, h2⟩ := C10_climb (proj10 c.core) (trs10 s ops) (pRoy o) (royalty_proj' _ o ho)
  rw [← hp] at hn
  obtain ⟨n0, hn0, hs⟩ := royalty_proj _ n hn
  exact ⟨c', n0, hc', hn0, by rw [hs]; exact h1, by rw [hs]; exact h2⟩

/-- a share that starts at or below 10 % stays there over every composite history -/
theorem C10_full_never_above_ten (s : State) (c : Coll) (ops : List Op) (hc : s.coll = some c) (hv : ∀ op ∈ ops, SenderOk op)
    (o : Sg721.Royalty) (ho : c.core.info.royalty = some o) (h10 : o.share ≤ 10^17) :
    ∃ c', (run s ops).coll = some c' ∧ ∀ n, c'.core.info.royalty = some n → n.share ≤ 10^17 := by
  obtain ⟨c', hc', hp⟩ := C10_full_run_coll s c ops hc hv
  refine ⟨c', hc', ?_⟩
  intro n hn
  exact C10_never_above_ten (proj10 c.core) (trs10 s ops) (pRoy o) (royalty_proj' _ o ho) h10 (pRoy n)
    (by rw [← hp]; exact royalty_proj' _ n hn)

/-- "Lowering the share is always allowed": the creator of an unfrozen collection lowers (or re-states) the share with a
royalty-only message without funds, 24 h after the last change — the composite accepts and stores exactly that -/
theorem C10_full_lower_allowed (s : State) (c : Coll) (sender : Addr) (r o : Sg721.Royalty) (ec : Option Bool)
    (hc : s.coll = some c) (hfz : c.core.frozenInfo = false) (hcr : c.core.info.creator = sender)
    (hd : c.core.info.description.len ≤ Sg721.MAX_DESC) (hi : c.core.info.image.valid = true)
    (hl : Sg721.optUrlValid c.core.info.externalLink = true) (ha : Sg721.validAddr r.payment = true)
    (ho : c.core.info.royalty = some o) (hle : r.share ≤ o.share) (hone : o.share ≤ DEC_ONE)
    (ht : c.core.royaltyUpdatedAt + Sg721.DAY_NS ≤ s.block.time) :
    ∃ s' c', step s (.exec sender [] (.updateCollectionInfo ⟨none, none, none, ec, some r, none⟩)) = .ok s' ∧
      s'.coll = some c' ∧ c'.core.info.royalty = some r ∧ c'.core.royaltyUpdatedAt = s.block.time := by
  have hg : royaltyGate c.core s.block r = true := by
    unfold royaltyGate CF.raiseOk
    have : ¬ o.share < r.share := by omega
    have h1 : r.share ≤ DEC_ONE := by omega
    simp [ht, ha, h1, ho, this]
  have hx := (uci_ok_iff c.core s.block sender [] ⟨none, none, none, ec, some r, none⟩ _).2
    ⟨hfz, hcr, rfl, hd, hi, hl, hg, rfl⟩
  have hstep : step s (.exec sender [] (.updateCollectionInfo ⟨none, none, none, ec, some r, none⟩)) =
      .ok { s with bank := s.bank, coll := some { c with core :=
        { c.core with info := newInfo c.core ⟨none, none, none, ec, some r, none⟩ (some r), royaltyUpdatedAt := s.block.time } } } :=
    exec_of (s := s) (c := c) (sender := sender) (funds := [])
      (m := .updateCollectionInfo ⟨none, none, none, ec, some r, none⟩) (b1 := s.bank) (b2 := s.bank) hc rfl hx rfl
  exact ⟨_, _, hstep, rfl, rfl, rfl⟩

namespace CF
/-- address map on the messages of the payout helper -/
def mapMsg : LP.Msg → LP.Msg
  | .send to c => .send (g to) c
  | m => m
end CF

/-- "Royalty payouts": the composite's `royalty_payout` IS the aspect model's on the projected royalty (same amount, same
refusals, the one `BankMsg::Send` goes to the projected payment address) — hence `C10_payout_spec` and its corollaries
(zero share / absent royalties pay nothing, `payment × share` rounded down, refusal when fees + royalty exceed the
payment) hold for the composite -/
theorem C10_full_payout (c : Coll) (payment fee : Nat) (finders : Option Nat) :
    (royaltyPayout c payment fee finders).map (fun x => (x.1, x.2.map mapMsg)) =
      Royalty.royaltyPayout (proj10 c.core).royalty payment fee finders := by
  unfold royaltyPayout Royalty.royaltyPayout proj10
  simp only
  by_cases h1 : payment < fee + finders.getD 0
  · simp [h1, Except.map]
  · cases hr : c.core.info.royalty with
    | none => simp [h1, Except.map]
    | some r =>
      by_cases h2 : r.share = 0
      · simp [h1, h2, pRoy, Except.map]
      · by_cases h3 : payment < fee + finders.getD 0 + mulFloor payment r.share
        · simp [h1, h2, h3, pRoy, Except.map]
        · simp [h1, h2, h3, pRoy, Except.map, mapMsg]

/-- the amount paid, in closed form (inherits `C10_payout_spec`) -/
theorem C10_full_payout_amount (c : Coll) (payment fee : Nat) (finders : Option Nat) (amt : Nat) (ms : List LP.Msg)
    (h : royaltyPayout c payment fee finders = .ok (amt, ms)) :
    fee + finders.getD 0 ≤ payment ∧
    amt = (match c.core.info.royalty with | none => 0 | some r => payment * r.share / 10^18) ∧
    fee + finders.getD 0 + amt ≤ payment := by
  have h0 := C10_full_payout c payment fee finders
  rw [h, C10_payout_spec] at h0
  simp only [Except.map] at h0
  by_cases h1 : payment < fee + finders.getD 0
  · simp [h1] at h0
  · simp only [h1, if_false] at h0
    cases hr : c.core.info.royalty with
    | none =>
      have : (proj10 c.core).royalty = none := by unfold proj10; simp [hr]
      rw [this] at h0
      simp only [Except.ok.injEq, Prod.mk.injEq] at h0
      exact ⟨by omega, h0.1, by omega⟩
    | some r =>
      have : (proj10 c.core).royalty = some (pRoy r) := royalty_proj' _ r hr
      rw [this] at h0
      simp only at h0
      by_cases h2 : (pRoy r).share = 0
      · simp only [h2, if_true, Except.ok.injEq, Prod.mk.injEq] at h0
        have h2' : r.share = 0 := h2
        refine ⟨by omega, by simp [h0.1, h2'], by omega⟩
      · simp only [h2, if_false] at h0
        split at h0
        · cases h0
        · simp only [Except.ok.injEq, Prod.mk.injEq] at h0
          have e : (pRoy r).share = r.share := rfl
          rw [e] at h0
          rename_i h3
          rw [e] at h3
          exact ⟨by omega, h0.1, by omega⟩

end LP
