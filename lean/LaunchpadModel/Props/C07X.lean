import LaunchpadModel.Model.PriceRulesT
import LaunchpadModel.Props.C07
/-!
# C07, round 3 — the price rules in a MOVING environment (`LP.PriceRulesT`)

`Props/C07.lean` proves the clauses for the aspect model `LP.PriceRules`, whose whitelists are immutable single windows.
Here the same clauses are carried over to the layered model the driver executes: tiered whitelists, whitelist admins
changing a whitelist after it was attached, fee-rate changes, the factory's `migrate`, the minter's `migrate`, and any
other message of the minter. Every message of the aspect model is `PriceRules.step` on `sync w`, so the per-message
theorems transfer verbatim (`C07_tiered_step`); the history theorems are re-proved over `runT` with the frame of the
environment steps (`C07_env_frame`).

What is NOT true on the unchanged code is stated as `…_partial` + `…_counterexample`:
* only the price the whitelist REPORTS when it is attached is compared with the floor (stage 0 before it starts): a later
  stage below the floor attaches fine — `C07_tiered_stage_below_floor_counterexample`;
* the whitelist's admin can re-price an attached whitelist below the floor afterwards (`UpdateStageConfig`): no
  operation of the minter is involved — `C07_attached_whitelist_repriced_counterexample`;
* a `migrate` from a stored version below 3.9.0 re-anchors `LAST_DISCOUNT_TIME` at `now − 12 h`: the next discount change is
  not held back by the cooldown — `C07_migrate_reanchor_counterexample` (hence the hypothesis of
  `C07_tiered_cooldown_history`).
-/
namespace LP
open LP.PriceRules LP.PriceRulesT

/-! ## `sync` only replaces the whitelist views -/

@[simp] theorem sync_m (w : WorldT) : (sync w).m = w.base.m := rfl
@[simp] theorem sync_fac (w : WorldT) : (sync w).fac = w.base.fac := rfl
@[simp] theorem sync_now (w : WorldT) : (sync w).now = w.base.now := rfl
@[simp] theorem sync_v (w : WorldT) : (sync w).v = w.base.v := rfl

/-- an environment step: clock, variant and the minter's price state are untouched (only `end_time` may move); the
factory minimum is untouched or was set to a native-denom coin (factory `migrate`) -/
def EnvStep (w w' : WorldT) : Prop :=
  w'.base.now = w.base.now ∧ w'.base.v = w.base.v ∧
  (w.base.m = none → w'.base.m = none) ∧
  (∀ m, w.base.m = some m → ∃ m', w'.base.m = some m' ∧ m'.admin = m.admin ∧ m'.price = m.price ∧
      m'.discount = m.discount ∧ m'.lastDiscount = m.lastDiscount ∧ m'.start = m.start ∧ m'.wl = m.wl) ∧
  (w'.base.fac.minPrice = w.base.fac.minPrice ∨ w'.base.fac.minPrice.denom = NATIVE)

theorem envStep_refl_base {w w' : WorldT} (h : w'.base = w.base) : EnvStep w w' := by
  refine ⟨by rw [h], by rw [h], fun hm => by rw [h]; exact hm, ?_, Or.inl (by rw [h])⟩
  intro m hm
  exact ⟨m, by rw [h]; exact hm, rfl, rfl, rfl, rfl, rfl, rfl⟩

theorem migrate_ok {w b : World} {v : Nat × Nat × Nat} (h : PriceRules.migrate w v = .ok b) :
    ∃ m l, w.m = some m ∧ b.m = some { m with lastDiscount := l } ∧ b.now = w.now ∧
      (verLt v (3, 9, 0) = false → l = m.lastDiscount) := by
  unfold PriceRules.migrate at h
  split at h
  · simp at h
  · rename_i m hm
    split at h
    · split at h
      · simp at h
      · simp at h; subst h
        exact ⟨m, m.lastDiscount, hm, by rw [hm], rfl, fun _ => rfl⟩
    · split at h
      · rename_i l hl
        simp at h; subst h
        refine ⟨m, l, hm, rfl, rfl, ?_⟩
        intro hv
        unfold migrateLast at hl
        split at hl
        · simp at hl
        · split at hl
          · simp at hl; exact hl.symm
          · simp [hv] at hl; exact hl.symm
      · simp at h

/-- every successful step of the layered model is a step of the aspect model on `sync w`, a minter migration, or an
environment step -/
theorem stepT_ok {w w' : WorldT} {op : OpT} (h : stepT w op = .ok w') :
    (∃ bop, op = .base bop ∧ step (sync w) bop = .ok w'.base ∧ w'.wlcs = w.wlcs) ∨
    (∃ v, op = .migrate v ∧ PriceRules.migrate (sync w) v = .ok w'.base ∧ w'.wlcs = w.wlcs) ∨
    EnvStep w w' := by
  cases op with
  | base bop =>
    left
    refine ⟨bop, rfl, ?_⟩
    cases bop <;> simp only [stepT] at h <;> first
      | (simp at h; done)
      | (split at h
         · rename_i b hb
           simp only [Except.ok.injEq] at h; subst h
           exact ⟨hb, rfl⟩
         · simp at h)
  | wlSet k c =>
    right; right
    simp only [stepT, PriceRulesT.wlSet] at h
    split at h
    · simp at h; subst h; exact envStep_refl_base rfl
    · split at h
      · simp at h; subst h; exact envStep_refl_base rfl
      · simp at h
  | sudoFee bps =>
    right; right
    simp only [stepT, Except.ok.injEq] at h; subst h
    refine ⟨rfl, rfl, fun hm => hm, ?_, Or.inl rfl⟩
    intro m hm; exact ⟨m, hm, rfl, rfl, rfl, rfl, rfl, rfl⟩
  | facMigrate min bps =>
    right; right
    simp only [stepT, PriceRulesT.facMigrate] at h
    cases min with
    | none =>
      cases bps <;> (simp at h; subst h)
      · exact envStep_refl_base rfl
      · refine ⟨rfl, rfl, fun hm => hm, ?_, Or.inl rfl⟩
        intro m hm; exact ⟨m, hm, rfl, rfl, rfl, rfl, rfl, rfl⟩
    | some c =>
      simp only at h
      split at h
      · simp at h
      · rename_i hd
        simp at hd
        cases bps <;> (simp at h; subst h)
        · refine ⟨rfl, rfl, fun hm => hm, ?_, Or.inr hd⟩
          intro m hm; exact ⟨m, hm, rfl, rfl, rfl, rfl, rfl, rfl⟩
        · refine ⟨rfl, rfl, fun hm => hm, ?_, Or.inr hd⟩
          intro m hm; exact ⟨m, hm, rfl, rfl, rfl, rfl, rfl, rfl⟩
  | migrate v =>
    right; left
    refine ⟨v, rfl, ?_⟩
    simp only [stepT] at h
    split at h
    · rename_i b hb
      simp only [Except.ok.injEq] at h; subst h
      exact ⟨hb, rfl⟩
    · simp at h
  | envStop e =>
    right; right
    simp only [stepT] at h
    split at h
    · rename_i m hm
      simp at h; subst h
      refine ⟨rfl, rfl, (fun hn => by rw [hm] at hn; cases hn), ?_, Or.inl rfl⟩
      intro m0 hm0
      rw [hm] at hm0; cases hm0
      exact ⟨_, rfl, rfl, rfl, rfl, rfl, rfl, rfl⟩
    · simp at h; subst h; exact envStep_refl_base rfl
  | other =>
    right; right
    simp only [stepT, Except.ok.injEq] at h; subst h
    exact envStep_refl_base rfl

theorem stepT'_cases (w : WorldT) (op : OpT) :
    (∃ w', stepT w op = .ok w' ∧ stepT' w op = w') ∨ stepT' w op = w := by
  unfold stepT'
  cases stepT w op with
  | ok w' => exact Or.inl ⟨w', rfl, rfl⟩
  | error e => exact Or.inr rfl

/-! ## The per-message clauses transfer verbatim -/

/-- a message of the aspect model is accepted by the layered model exactly when `PriceRules.step` accepts it on the
world in which every whitelist is what its `Config` query answers NOW — so `C07_floor_partial`, `C07_floor_denom_partial`,
`C07_only_lower_after_start`, `C07_public_price_step`, `C07_discount_rules_update/_remove`,
`C07_discount_cooldown_sharp`, `C07_query_honest` … all hold of `stepT w (.base op)` with `sync w` for `w` -/
theorem C07_tiered_step (w w' : WorldT) (op : Op) (hok : stepT w (.base op) = .ok w') :
    step (sync w) op = .ok w'.base ∧ w'.wlcs = w.wlcs := by
  rcases stepT_ok hok with ⟨bop, he, hs, hw⟩ | ⟨v, he, _⟩ | _
  · cases he; exact ⟨hs, hw⟩
  · cases he
  · -- an aspect message that happens to be an environment step as well: read it off the definition
    cases op <;> simp only [stepT] at hok <;> first
      | (simp at hok; done)
      | (split at hok
         · rename_i b hb
           simp only [Except.ok.injEq] at hok; subst hok
           exact ⟨hb, rfl⟩
         · simp at hok)

/-- the floor, in the moving environment. PARTIAL: for `SetWhitelist` (and creation, see `C07_floor_partial`) the price
that is compared is the one the whitelist contract REPORTS at that instant — stage 0 of a tiered whitelist that has not
started. The full clause ("attaching a whitelist … with a price below the factory minimum") fails for the later stages
(`C07_tiered_stage_below_floor_counterexample`); missing: a comparison of EVERY stage price. -/
theorem C07_tiered_floor_partial (w w' : WorldT) (op : Op) (c : Coin)
    (hok : stepT w (.base op) = .ok w') (hset : setsPrice (sync w) op = some c) :
    w.base.fac.minPrice.amount ≤ c.amount ∧ (DenomInv (sync w) → c.denom = w.base.fac.minPrice.denom) := by
  obtain ⟨hs, _⟩ := C07_tiered_step w w' op hok
  exact ⟨C07_floor_partial (sync w) _ op c hs hset, fun hinv => C07_floor_denom_partial (sync w) _ op c hinv hs hset⟩

/-- what `SetWhitelist k` compares for a tiered whitelist that has not started: its FIRST stage -/
theorem C07_tiered_attach_compares_first_stage (w : WorldT) (k : Nat) (s0 : Stage) (rest : List Stage) (snd : Addr) (pd : Bool)
    (hk : w.wlcs[k]? = some (.tiered (s0 :: rest))) (hnot : ∀ s ∈ s0 :: rest, s.active w.base.now = false)
    (hbefore : w.base.now < s0.start) :
    setsPrice (sync w) (.setWhitelist snd pd k) = some s0.price := by
  have hfind : (s0 :: rest).find? (fun s => s.active w.base.now) = none := by
    rw [List.find?_eq_none]; intro s hs; simp [hnot s hs]
  simp [setsPrice, sync, hk, WlC.view, tieredConfig, hfind, List.getLast?_cons, hbefore]

/-- (unchanged code, vending-minter, minimum 5000) a tiered whitelist with stages priced 5000 and 1000 is attached by
`SetWhitelist` — accepted: only stage 0 is looked at —; when stage 2 opens, the advertised and charged price is
1000 < 5000 = the minimum in force all along. Replay: corpus/C07/tiered-stage-below-floor.json -/
theorem C07_tiered_stage_below_floor_counterexample :
    let t0 := GENESIS + 100 * HOUR
    let w := runT (initT (variantOf 0) t0 { minPrice := ⟨0, 5000⟩, airdrop := ⟨0, 0⟩, feeBps := 1000 })
      [.wlSet 0 (.tiered [⟨⟨0, 5000⟩, t0 + HOUR, t0 + 2 * HOUR⟩, ⟨⟨0, 1000⟩, t0 + 2 * HOUR, t0 + 3 * HOUR⟩]),
       .base (.create 10 ⟨0, 100000⟩ (t0 + 24 * HOUR) none true none),
       .base (.setWhitelist 10 false 0),
       .base (.setTime (t0 + 2 * HOUR + 1))]
    ((sync w).m.map (fun m => (m.wl, currentPrice (sync w) m))) = some (some 0, ⟨0, 1000⟩) ∧
    (sync w).fac.minPrice = ⟨0, 5000⟩ ∧
    (stepT w (.base (.mint [⟨0, 1000⟩]))).toOption.isSome = true := by
  decide

/-- (unchanged code) the whitelist's admin re-prices the ATTACHED whitelist to 0 (`UpdateStageConfig{mint_price}`; the
minter is not involved): whitelisted buyers mint for free while the minimum in force is 5000.
Replay: corpus/C07/attached-whitelist-repriced-below-floor.json -/
theorem C07_attached_whitelist_repriced_counterexample :
    let t0 := GENESIS + 100 * HOUR
    let w := runT (initT (variantOf 0) t0 { minPrice := ⟨0, 5000⟩, airdrop := ⟨0, 0⟩, feeBps := 1000 })
      [.wlSet 0 (.tiered [⟨⟨0, 5000⟩, t0 + HOUR, t0 + 2 * HOUR⟩]),
       .base (.create 10 ⟨0, 100000⟩ (t0 + 24 * HOUR) none true none),
       .base (.setWhitelist 10 false 0),
       .wlSet 0 (.tiered [⟨⟨0, 0⟩, t0 + HOUR, t0 + 2 * HOUR⟩]),
       .base (.setTime (t0 + HOUR))]
    ((sync w).m.map (fun m => currentPrice (sync w) m)) = some ⟨0, 0⟩ ∧ (sync w).fac.minPrice = ⟨0, 5000⟩ ∧
    (stepT w (.base (.mint []))).toOption.isSome = true := by
  decide

/-! ## Tiered windows are closed; the first stage wins a shared instant; between and after stages the LAST stage is reported -/

theorem C07_tiered_edges (s1 s2 : Stage) (now : Nat) (h1 : s1.start ≤ s1.stop) (h12 : s1.stop ≤ s2.start) (h2 : s2.start ≤ s2.stop) :
    (s1.start ≤ now → now ≤ s1.stop → tieredConfig [s1, s2] now = (s1.price, true)) ∧
    (s1.stop < now → s2.start ≤ now → now ≤ s2.stop → tieredConfig [s1, s2] now = (s2.price, true)) ∧
    (now < s1.start → tieredConfig [s1, s2] now = (s1.price, false)) ∧
    (s1.stop < now → now < s2.start → tieredConfig [s1, s2] now = (s2.price, false)) ∧
    (s2.stop < now → tieredConfig [s1, s2] now = (s2.price, false)) := by
  refine ⟨?_, ?_, ?_, ?_, ?_⟩
  · intro a b
    simp [tieredConfig, List.find?, Stage.active, a, b]
  · intro a b c
    have : ¬ (now ≤ s1.stop) := by omega
    simp [tieredConfig, List.find?, Stage.active, this, b, c]
  · intro a
    have n1 : ¬ (s1.start ≤ now) := by omega
    have n2 : ¬ (s2.start ≤ now) := by omega
    simp [tieredConfig, List.find?, Stage.active, n1, n2, a]
  · intro a b
    have n1 : ¬ (now ≤ s1.stop) := by omega
    have n2 : ¬ (s2.start ≤ now) := by omega
    have n3 : ¬ (now < s1.start) := by omega
    simp [tieredConfig, List.find?, Stage.active, n1, n2, n3]
  · intro a
    have n1 : ¬ (now ≤ s1.stop) := by omega
    have n2 : ¬ (now ≤ s2.stop) := by omega
    have n3 : ¬ (now < s1.start) := by omega
    simp [tieredConfig, List.find?, Stage.active, n1, n2, n3]

/-- the `Wl` record handed to the aspect model says exactly what `query_config` says -/
theorem C07_view_faithful (st : List Stage) (now : Nat) :
    ((WlC.tiered st).view now).price = (tieredConfig st now).1 ∧
    ((WlC.tiered st).view now).active now = (tieredConfig st now).2 := by
  unfold WlC.view
  cases h : (tieredConfig st now).2 <;> simp [h, Wl.active]

/-! ## The frame of the environment -/

/-- NO environment step — a whitelist contract changing, a fee-rate change, the factory's migrate, an `UpdateEndTime`,
any other message of the minter — changes the public price, the discount, `LAST_DISCOUNT_TIME`, the start time or the
attached whitelist; the factory minimum is only ever replaced by a native-denom coin.
For `OpT.other` ("any other message of the minter") this holds BY DEFINITION: `stepT w .other = .ok w` is how the model defines
it, so the theorem restates the model's definition there — that the real minters' remaining messages leave these fields alone is
validated by the harness' run-time message-surface sweep only. -/
theorem C07_env_frame (w w' : WorldT) (op : OpT) (hok : stepT w op = .ok w')
    (henv : (∀ bop, op ≠ .base bop) ∧ (∀ v, op ≠ .migrate v)) : EnvStep w w' := by
  rcases stepT_ok hok with ⟨bop, he, _⟩ | ⟨v, he, _⟩ | h
  · exact absurd he (henv.1 bop)
  · exact absurd he (henv.2 v)
  · exact h

/-! ## Invariants over all histories of the layered model -/

theorem discInvT_step (w w' : WorldT) (op : OpT) (hinv : DiscInv (sync w)) (hok : stepT w op = .ok w') :
    DiscInv (sync w') := by
  rcases stepT_ok hok with ⟨bop, _, hs, _⟩ | ⟨v, _, hs, _⟩ | henv
  · have := discInv_step (sync w) _ bop hinv hs
    intro m d hm hd; exact this m d hm hd
  · obtain ⟨m0, l, hm0, hb, _⟩ := migrate_ok hs
    intro m d hm hd
    simp only [sync_m] at hm
    rw [hb] at hm; cases hm
    exact hinv m0 d hm0 hd
  · obtain ⟨_, _, hnone, hsome, _⟩ := henv
    intro m d hm hd
    simp only [sync_m] at hm
    cases hb : w.base.m with
    | none => rw [hnone hb] at hm; cases hm
    | some m0 =>
      obtain ⟨m1, hm1, _, hp, hdisc, _⟩ := hsome m0 hb
      rw [hm1] at hm; cases hm
      rw [hp]
      exact hinv m0 d hb (by rw [← hdisc]; exact hd)

theorem discInvT_run (w : WorldT) (ops : List OpT) (hinv : DiscInv (sync w)) : DiscInv (sync (runT w ops)) := by
  induction ops generalizing w with
  | nil => exact hinv
  | cons op ops ih =>
    simp only [runT, List.foldl_cons]
    apply ih
    rcases stepT'_cases w op with ⟨w', hok, he⟩ | he
    · rw [he]; exact discInvT_step w w' op hinv hok
    · rw [he]; exact hinv

/-- in every state the layered model can reach — tiered whitelists, whitelist updates, migrations, fee changes, any
other message, in any order — a standing discount is at most the public price, in its denom -/
theorem C07_tiered_discount_le_public (v : Variant) (now : Nat) (fac : Factory) (ops : List OpT) (m : Minter) (d : Coin)
    (hm : (runT (initT v now fac) ops).base.m = some m) (hd : m.discount = some d) :
    d.amount ≤ m.price.amount ∧ d.denom = m.price.denom :=
  discInvT_run _ ops (by intro m d hm; simp [initT, init] at hm) m d hm hd

/-- "the amount a public buyer is actually charged never exceeds the advertised public price", in the moving
environment: whenever the attached whitelist reports `is_active = false` (whatever its kind, however it was changed), an
accepted `Mint {}` paid at most `MintPrice.public_price`, in its denom -/
theorem C07_tiered_charged_le_public (v : Variant) (now : Nat) (fac : Factory) (ops : List OpT) (m : Minter)
    (hm : (runT (initT v now fac) ops).base.m = some m)
    (hpub : wlActive (sync (runT (initT v now fac) ops)) m = false) :
    let w := sync (runT (initT v now fac) ops)
    (currentPrice w m).amount ≤ (queryMintPrice w m).publicPrice.amount ∧
    (currentPrice w m).denom = (queryMintPrice w m).publicPrice.denom ∧
    ∀ funds, mintCheck w m funds = .ok () →
      ∃ paid, mayPay funds (queryMintPrice w m).publicPrice.denom = .ok paid ∧
        paid ≤ (queryMintPrice w m).publicPrice.amount := by
  intro w
  have hcur : (currentPrice w m).amount ≤ m.price.amount ∧ (currentPrice w m).denom = m.price.denom := by
    have hinv := C07_tiered_discount_le_public v now fac ops m
    unfold currentPrice
    unfold wlActive at hpub
    cases hwl : wlOf w m with
    | none =>
      cases hd : m.discount with
      | none => simp
      | some d => simpa using hinv d hm hd
    | some x =>
      have : x.active w.now = false := by simpa [w, hwl] using hpub
      simp only [this]
      cases hd : m.discount with
      | none => simp
      | some d => simpa using hinv d hm hd
  refine ⟨hcur.1, hcur.2, ?_⟩
  intro funds hok
  unfold mintCheck at hok
  split at hok
  · simp at hok
  · simp only at hok
    split at hok
    · simp at hok
    · rename_i paid hpay
      split at hok
      · simp at hok
      · rename_i heq
        refine ⟨paid, ?_, ?_⟩
        · simpa [queryMintPrice, ← hcur.2] using hpay
        · simp at heq; simp [queryMintPrice]; omega

/-! ### once started, the public price only goes down — over all histories of the layered model -/

theorem C07_tiered_public_price_step (w w' : WorldT) (op : OpT) (m : Minter) (hm : w.base.m = some m)
    (hstarted : m.start ≤ w.base.now) (hok : stepT w op = .ok w') :
    ∃ m', w'.base.m = some m' ∧ m'.price.amount ≤ m.price.amount ∧ m'.price.denom = m.price.denom ∧
      m'.start = m.start := by
  rcases stepT_ok hok with ⟨bop, _, hs, _⟩ | ⟨v, _, hs, _⟩ | henv
  · exact C07_public_price_step (sync w) _ bop m hm hstarted hs
  · obtain ⟨m0, l, hm0, hb, _⟩ := migrate_ok hs
    simp only [sync_m] at hm0
    rw [hm] at hm0; cases hm0
    exact ⟨_, hb, Nat.le_refl _, rfl, rfl⟩
  · obtain ⟨_, _, _, hsome, _⟩ := henv
    obtain ⟨m1, hm1, _, hp, _, _, hst, _⟩ := hsome m hm
    exact ⟨m1, hm1, by rw [hp]; exact Nat.le_refl _, by rw [hp], hst⟩

/-- block time never runs backwards -/
def MonotoneClockT : WorldT → List OpT → Prop
  | _, [] => True
  | w, op :: ops =>
    (match op with
     | .base (.setTime t) => w.base.now ≤ t
     | _ => True) ∧ MonotoneClockT (stepT' w op) ops

theorem nowT_step (w w' : WorldT) (op : OpT) (hok : stepT w op = .ok w') :
    (∀ t, op = .base (.setTime t) → w'.base.now = t) ∧ ((∀ t, op ≠ .base (.setTime t)) → w'.base.now = w.base.now) := by
  rcases stepT_ok hok with ⟨bop, he, hs, _⟩ | ⟨v, he, hs, _⟩ | henv
  · subst he
    obtain ⟨h1, h2⟩ := now_step (sync w) _ bop hs
    constructor
    · intro t ht; cases ht; exact h1 t rfl
    · intro hne
      have := h2 (fun t ht => hne t (by rw [ht]))
      simpa using this
  · subst he
    obtain ⟨m0, l, _, _, hn, _⟩ := migrate_ok hs
    constructor
    · intro t ht; cases ht
    · intro _; rw [hn]; rfl
  · obtain ⟨hn, _⟩ := henv
    constructor
    · intro t ht
      subst ht
      -- a `setTime` is never an environment step of a different kind: read it off the definition
      simp [stepT, step, setBase] at hok
      subst hok; rfl
    · intro _; exact hn

/-- history form: from any state of the layered model in which the mint has started, after ANY sequence of operations
and environment steps (clock not running backwards) the public price is at most what it was, in the same denom -/
theorem C07_tiered_public_price_history (w : WorldT) (ops : List OpT) (m : Minter) (hm : w.base.m = some m)
    (hstarted : m.start ≤ w.base.now) (hclock : MonotoneClockT w ops) :
    ∃ m', (runT w ops).base.m = some m' ∧ m'.price.amount ≤ m.price.amount ∧ m'.price.denom = m.price.denom ∧
      m'.start = m.start ∧ m'.start ≤ (runT w ops).base.now := by
  induction ops generalizing w m with
  | nil => exact ⟨m, hm, Nat.le_refl _, rfl, rfl, hstarted⟩
  | cons op ops ih =>
    simp only [runT, List.foldl_cons]
    obtain ⟨hc1, hc2⟩ := hclock
    rcases stepT'_cases w op with ⟨w1, hok, he⟩ | he
    · rw [he] at hc2 ⊢
      obtain ⟨m1, hm1, hle, hden, hst⟩ := C07_tiered_public_price_step w w1 op m hm hstarted hok
      have hnow : m1.start ≤ w1.base.now := by
        obtain ⟨h1, h2⟩ := nowT_step w w1 op hok
        by_cases hset : ∃ t, op = .base (.setTime t)
        · obtain ⟨t, rfl⟩ := hset
          rw [h1 t rfl, hst]; simp at hc1; omega
        · rw [h2 (fun t ht => hset ⟨t, ht⟩), hst]; exact hstarted
      obtain ⟨m', h1, h2, h3, h4, h5⟩ := ih w1 m1 hm1 hnow hc2
      exact ⟨m', h1, Nat.le_trans h2 hle, by rw [h3, hden], by rw [h4, hst], h5⟩
    · rw [he] at hc2 ⊢
      exact ih w m hm hstarted hc2

/-! ### the discount cooldown over all histories of the layered model -/

/-- no minter migration from a stored version below 3.9.0 (the one that re-initialises `LAST_DISCOUNT_TIME`) -/
def NoReanchor : List OpT → Prop
  | [] => True
  | .migrate v :: ops => verLt v (3, 9, 0) = false ∧ NoReanchor ops
  | _ :: ops => NoReanchor ops

def discEventT (w : WorldT) : OpT → Option (Bool × Nat)
  | .base bop => discEvent (sync w) bop
  | _ => none

def discEventsT : WorldT → List OpT → List (Bool × Nat)
  | _, [] => []
  | w, op :: ops => (discEventT w op).toList ++ discEventsT (stepT' w op) ops

theorem stepT'_base (w : WorldT) (bop : Op) (hn : ∀ p s e, bop ≠ .newWl p s e) :
    (stepT' w (.base bop)).base.m = (step' (sync w) bop).m := by
  unfold stepT' step'
  cases bop <;> simp only [stepT] <;> first
    | (exact absurd rfl (hn _ _ _))
    | (split <;> rename_i h
       · split at h
         · rename_i b hb; simp at h; subst h; simp [hb, setBase]
         · simp at h
       · split at h
         · simp at h
         · rename_i e he; simp [he])

theorem discEventT_some {w : WorldT} {op : OpT} {e : Bool × Nat} (h : discEventT w op = some e) :
    ∃ m m', w.base.m = some m ∧ (stepT' w op).base.m = some m' ∧ m.lastDiscount + gap e ≤ e.2 ∧ m'.lastDiscount = e.2 := by
  cases op with
  | base bop =>
    simp only [discEventT] at h
    obtain ⟨m, m', hm, hm', hc, hl⟩ := discEvent_some h
    refine ⟨m, m', hm, ?_, hc, hl⟩
    rw [stepT'_base w bop]
    · exact hm'
    · rintro p s e rfl; simp [discEvent] at h
  | _ => simp [discEventT] at h

theorem discEventT_none {w : WorldT} {op : OpT} {m : Minter} (h : discEventT w op = none) (hm : w.base.m = some m)
    (hre : ∀ v, op = .migrate v → verLt v (3, 9, 0) = false) :
    ∃ m', (stepT' w op).base.m = some m' ∧ m'.lastDiscount = m.lastDiscount := by
  rcases stepT'_cases w op with ⟨w1, hok, he⟩ | he
  · rw [he]
    rcases stepT_ok hok with ⟨bop, hb, hs, _⟩ | ⟨v, hv, hs, _⟩ | henv
    · subst hb
      simp only [discEventT] at h
      have := discEvent_none (w := sync w) (op := bop) (m := m) h hm
      rw [step'_eq_of_ok hs] at this
      exact this
    · obtain ⟨m0, l, hm0, hb, _, hl⟩ := migrate_ok hs
      simp only [sync_m] at hm0
      rw [hm] at hm0; cases hm0
      refine ⟨_, hb, ?_⟩
      exact hl (hre v hv)
    · obtain ⟨_, _, _, hsome, _⟩ := henv
      obtain ⟨m1, hm1, _, _, _, hl, _⟩ := hsome m hm
      exact ⟨m1, hm1, hl⟩
  · rw [he]; exact ⟨m, hm, rfl⟩

theorem cooldownT_aux (w : WorldT) (ops : List OpT) (hre : NoReanchor ops) :
    CooldownOk (discEventsT w ops) ∧
      ∀ e, (discEventsT w ops).head? = some e → ∀ m, w.base.m = some m → m.lastDiscount + gap e ≤ e.2 := by
  induction ops generalizing w with
  | nil => simp [discEventsT, CooldownOk]
  | cons op ops ih =>
    have hre' : NoReanchor ops := by
      cases op <;> simp only [NoReanchor] at hre <;> first | exact hre | exact hre.2
    have hmig : ∀ v, op = .migrate v → verLt v (3, 9, 0) = false := by
      intro v hv; subst hv; simp only [NoReanchor] at hre; exact hre.1
    obtain ⟨ih1, ih2⟩ := ih (stepT' w op) hre'
    cases hev : discEventT w op with
    | none =>
      simp only [discEventsT, hev, Option.toList_none, List.nil_append]
      refine ⟨ih1, ?_⟩
      intro e he m hm
      obtain ⟨m', hm', hl⟩ := discEventT_none hev hm hmig
      rw [← hl]; exact ih2 e he m' hm'
    | some e =>
      simp only [discEventsT, hev, Option.toList_some, List.cons_append, List.nil_append]
      obtain ⟨m, m', hm, hm', hc, hl⟩ := discEventT_some hev
      constructor
      · cases hrest : discEventsT (stepT' w op) ops with
        | nil => simp [CooldownOk]
        | cons e2 rest =>
          simp only [CooldownOk]
          refine ⟨?_, by rw [← hrest]; exact ih1⟩
          have := ih2 e2 (by rw [hrest]; rfl) m' hm'
          omega
      · intro e0 he0 m0 hm0
        simp at he0; subst he0
        rw [hm] at hm0; cases hm0; exact hc

/-- "no sooner than 12 hours after the previous discount change, removed no sooner than one hour after it", over every
history of the layered model that contains no minter migration from a version below 3.9.0: whitelist changes, fee
changes, factory migrations, other messages, price cuts that drop the discount, arbitrary clock moves in between -/
theorem C07_tiered_cooldown_history (w : WorldT) (ops : List OpT) (hre : NoReanchor ops) :
    CooldownOk (discEventsT w ops) :=
  (cooldownT_aux w ops hre).1

/-- without the hypothesis (unchanged code, vending-minter): a discount is set at `start`; one hour later the contract is
migrated with a stored version 3.8.0 — `LAST_DISCOUNT_TIME := now − 12 h` — and a second `UpdateDiscountPrice` is accepted
in the same block, 1 h (not 12 h) after the first. Only reachable by rewriting the stored cw2 version (the harness does). -/
theorem C07_migrate_reanchor_counterexample :
    let t0 := GENESIS + 100 * HOUR
    let ops : List OpT :=
      [.base (.create 10 ⟨0, 1000⟩ (t0 + HOUR) none true none), .base (.setTime (t0 + HOUR)),
       .base (.updateDiscount 10 false 900), .base (.setTime (t0 + 2 * HOUR)), .migrate (3, 8, 0),
       .base (.updateDiscount 10 false 800)]
    discEventsT (initT (variantOf 0) t0 { minPrice := ⟨0, 50⟩, airdrop := ⟨0, 0⟩, feeBps := 1000 }) ops =
      [(true, t0 + HOUR), (true, t0 + 2 * HOUR)] ∧
    ¬ CooldownOk [(true, t0 + HOUR), (true, t0 + 2 * HOUR)] := by
  constructor
  · decide
  · simp only [CooldownOk, gap, GENESIS, HOUR]; decide

/-! ## Non-vacuity -/

def exT : WorldT := initT (variantOf 0) exT0 { minPrice := ⟨0, 50⟩, airdrop := ⟨0, 0⟩, feeBps := 1000 }
/-- a tiered whitelist (two touching stages, 70 then 60), attached, then the clock walks over its edges -/
def exTOps : List OpT :=
  [.wlSet 0 (.tiered [⟨⟨0, 70⟩, exT0 + HOUR, exT0 + 2 * HOUR⟩, ⟨⟨0, 60⟩, exT0 + 2 * HOUR, exT0 + 3 * HOUR⟩]),
   .base (.create 10 ⟨0, 1000⟩ (exT0 + 24 * HOUR) none true none), .base (.setWhitelist 10 false 0)]
def curAt (t : Nat) : Option Coin :=
  let w := runT exT (exTOps ++ [.base (.setTime t)])
  (sync w).m.map (fun m => currentPrice (sync w) m)

example : curAt (exT0 + HOUR - 1) = some ⟨0, 1000⟩ := by decide
example : curAt (exT0 + HOUR) = some ⟨0, 70⟩ := by decide
example : curAt (exT0 + 2 * HOUR) = some ⟨0, 70⟩ := by decide      -- shared instant: the first stage wins
example : curAt (exT0 + 2 * HOUR + 1) = some ⟨0, 60⟩ := by decide
example : curAt (exT0 + 3 * HOUR) = some ⟨0, 60⟩ := by decide      -- closed on the right
example : curAt (exT0 + 3 * HOUR + 1) = some ⟨0, 1000⟩ := by decide
example : NoReanchor (exTOps ++ [.migrate (3, 9, 0), .sudoFee 5, .other]) := by
  simp [NoReanchor, exTOps, verLt]
example : MonotoneClockT exT (exTOps ++ [.base (.setTime (exT0 + 5))]) := by
  simp only [MonotoneClockT, exTOps, List.cons_append, List.nil_append, and_true, true_and]; decide

end LP
