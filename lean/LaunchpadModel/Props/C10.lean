import LaunchpadModel.Lemmas.Royalty
/-!
# C10 — Royalty shares stay bounded and can only creep up slowly

Model: `LP.Royalty` (`Model/Royalty.lean`) — `instantiate`, `update_collection_info` and the other execute
messages of sg721-base, and `CollectionInfoResponse::royalty_payout`. Shares are `Decimal` atomics
(`10^18` = 100 %, so 2 percentage points = `2 * 10^16`, 10 % = `10^17`); times are nanoseconds
(24 h = `86400 * 10^9`). The bounds of the property text appear as **literals** in the statements; the
model reads `MAX_SHARE_DELTA_PCT` / `MAX_ROYALTY_SHARE_PCT` from `Generated/Constants.lean` (regenerated
from contract.rs on every run), so a changed constant breaks the proofs below. The inline `24 * 60 * 60`
and the comparison directions are tied to the code by boundary-exact correspondence cases.

Histories: `run c ops` folds the transactional step (`step'`: a failed message leaves the state unchanged)
over an arbitrary list of operations by arbitrary senders at arbitrary (not even monotone) block times. Operations are
the messages of the running contract (the same `Sg721Contract` functions serve sg721-base, -nt, -updatable and
-metadata-onchain; that each contract's own dispatch reaches them unchanged is VALIDATED by the harness per kind, not
proved) **and contract migrations** (`Action.migrate`). `Action.setver` is not a message: it is how the harness
fabricates an instance whose stored cw2 version is older than 3.1.0; theorems about real histories carry `NoSetver`.

Round 3: honest names.
* `C10_payout_refuses` is the FULL clause "refuses when fees plus royalty exceed the payment" since the repair /repo 00871d3
  (before it, the helper answered `Ok(0)` for absent royalties / a zero share whatever the fees).
* `C10_cadence_from_partial` + `C10_cadence_upgrade_counterexample`: "at most once per 24 hours" is FALSE across an
  upgrade of an instance whose stored version is below 3.1.0 (`v3_1_0::upgrade` rewinds the anchor); it is proved in
  full (`C10_cadence`, `C10_changes_24h_apart`) for every collection instantiated by the current code, migrations included.
-/
namespace LP
open LP.Royalty

/-! ## The constants the theorems are stated with -/

theorem C10_const_delta : MAX_SHARE_DELTA = 2 * 10^16 := by decide
theorem C10_const_max : MAX_ROYALTY_SHARE = 10^17 := by decide
theorem C10_const_one : DEC_ONE = 10^18 := by decide
theorem C10_const_day : DAY_NS = 86400 * 10^9 := by decide

/-! ## Anatomy of one step -/

/-- is this op a migration the chain accepted and that runs `upgrades::v3_1_0` (anchor := now − 24 h) in state `c`? -/
def rewinding (c : Coll) (op : Op) : Bool :=
  match op.act with
  | .migrate t ok => ok && rewinds c t
  | _ => false

def isSetver (op : Op) : Bool :=
  match op.act with
  | .setver _ => true
  | _ => false

/-- a history of real operations (messages and migrations), without the harness's version fabrication -/
def NoSetver (ops : List Op) : Prop := ∀ op ∈ ops, isSetver op = false

/-- Every successful operation either leaves `(royalty_info, royalty_updated_at)` untouched, or is an
`UpdateCollectionInfo` with `royalty_info: Some(Some r)` sent by the creator of an unfrozen collection that passed the
cadence, address, 100 % and raise guards and stored exactly `r` and the current block time, or is an accepted migration
to sg721-updatable from a stored version below 3.1.0, which keeps the royalty and sets the anchor to `now − 24 h`. -/
theorem C10_step_anatomy (c : Coll) (op : Op) (c' : Coll) (h : step c op = .ok c') :
    (c'.royalty = c.royalty ∧ c'.updatedAt = c.updatedAt) ∨
    (∃ m r, op.act = .update m ∧ m.royalty = .set r ∧ c.updatedAt + 86400 * 10^9 ≤ op.now ∧
        addrValid r.addr = true ∧ r.share ≤ 10^18 ∧ raiseOk c.royalty r.share = true ∧
        c'.royalty = some ⟨r.addr, r.share⟩ ∧ c'.updatedAt = op.now ∧ c.creator = op.sender ∧ c.frozen = false) ∨
    (rewinding c op = true ∧ c'.royalty = c.royalty ∧ c'.updatedAt = op.now - 86400 * 10^9) := by
  rcases step_shape c op c' h with ⟨m, hact, hu⟩ | ⟨_, _, he⟩ | ⟨t, _, he⟩ | ⟨_, he⟩ | ⟨t, hact, hm⟩ | ⟨v, _, he⟩
  · rw [update_ok_iff] at hu
    obtain ⟨hf, h2⟩ := hu
    cases hm : m.royalty with
    | set r =>
      rw [hm] at h2
      simp only at h2
      rw [applyRoyalty_ok_iff] at h2
      obtain ⟨ht, ha, hs, hr, he⟩ := h2
      right; left
      refine ⟨m, r, hact, hm, ?_, ha, ?_, hr, ?_, ?_, hf.2.1, hf.1⟩
      · rw [← C10_const_day]; exact ht
      · rw [← C10_const_one]; exact hs
      · rw [he]
      · rw [he]
    | keep => rw [hm] at h2; simp only at h2; left; rw [h2]; exact ⟨rfl, rfl⟩
    | clear => rw [hm] at h2; simp only at h2; left; rw [h2]; exact ⟨rfl, rfl⟩
  · left; rw [he]; exact ⟨rfl, rfl⟩
  · left; rw [he]; exact ⟨rfl, rfl⟩
  · left; rw [he]; exact ⟨rfl, rfl⟩
  · obtain ⟨hroy, _, _, _, _, _, hupd, _⟩ := migrate_ok c op.now t c' hm
    by_cases hr : rewinds c t = true
    · right; right
      refine ⟨by unfold rewinding; rw [hact]; simpa using hr, hroy, ?_⟩
      rw [hupd, ← C10_const_day]; simp [hr]
    · left; rw [hupd]; simp [hr, hroy]
  · left; rw [he]; exact ⟨rfl, rfl⟩

theorem step'_eq (c : Coll) (op : Op) : (∃ c', step c op = .ok c' ∧ step' c op = c') ∨ ((∃ e, step c op = .error e) ∧ step' c op = c) := by
  unfold step'
  cases h : step c op with
  | ok c' => left; exact ⟨c', rfl, rfl⟩
  | error e => right; exact ⟨⟨e, rfl⟩, rfl⟩

theorem accepted_iff (c : Coll) (op : Op) :
    acceptedRoyaltyUpdate c op = true ↔ ∃ m r c', op.act = .update m ∧ m.royalty = .set r ∧ step c op = .ok c' := by
  unfold acceptedRoyaltyUpdate
  cases hact : op.act with
  | update m =>
    cases hm : m.royalty with
    | set r =>
      cases hs : step c op with
      | ok c' => simp [hm]
      | error e => simp [hm]
    | keep => simp [hm]
    | clear => simp [hm]
  | freeze => simp
  | startTrading t ok => simp
  | other ok => simp
  | migrate t ok => simp
  | setver v => simp

theorem rewinding_not_update (c : Coll) (op : Op) (m : UpdMsg) (hact : op.act = .update m) : rewinding c op = false := by
  unfold rewinding; rw [hact]

/-- **Frame (royalty).** An operation that is not an accepted royalty update — a rejected one, an `UpdateCollectionInfo`
without royalties, a freeze, `UpdateStartTradingTime`, any cw721 / ownership / token-metadata message, ANY migration —
does not change the royalty. (For the witnessed arms `.other`, `.startTrading`, `.migrate` this restates the model; that the
real contracts behave so is validated by the harness: ghost-state monitor `royalty-changed-outside-update`.) -/
theorem C10_frame_royalty (c : Coll) (op : Op) (h : acceptedRoyaltyUpdate c op = false) :
    (step' c op).royalty = c.royalty := by
  rcases step'_eq c op with ⟨c', hs, he⟩ | ⟨_, he⟩
  · rw [he]
    rcases C10_step_anatomy c op c' hs with hu | ⟨m, r, hact, hm, _⟩ | ⟨_, hu, _⟩
    · exact hu.1
    · have : acceptedRoyaltyUpdate c op = true := (accepted_iff c op).2 ⟨m, r, c', hact, hm, hs⟩
      rw [this] at h; cases h
    · exact hu
  · rw [he]

/-- **Frame.** … and unless it is a rewinding migration (stored version < 3.1.0 → sg721-updatable) it does not move the
cadence anchor either. -/
theorem C10_frame (c : Coll) (op : Op) (h : acceptedRoyaltyUpdate c op = false) (hr : rewinding c op = false) :
    (step' c op).royalty = c.royalty ∧ (step' c op).updatedAt = c.updatedAt := by
  refine ⟨C10_frame_royalty c op h, ?_⟩
  rcases step'_eq c op with ⟨c', hs, he⟩ | ⟨_, he⟩
  · rw [he]
    rcases C10_step_anatomy c op c' hs with hu | ⟨m, r, hact, hm, _⟩ | ⟨hrw, _, _⟩
    · exact hu.2
    · have : acceptedRoyaltyUpdate c op = true := (accepted_iff c op).2 ⟨m, r, c', hact, hm, hs⟩
      rw [this] at h; cases h
    · rw [hrw] at hr; cases hr
  · rw [he]

/-- An accepted royalty update happens at least 24 h after the anchor and moves the anchor to the current block time. -/
theorem C10_accepted_spacing (c : Coll) (op : Op) (h : acceptedRoyaltyUpdate c op = true) :
    c.updatedAt + 86400 * 10^9 ≤ op.now ∧ (step' c op).updatedAt = op.now := by
  obtain ⟨m, r, c', hact, hm, hs⟩ := (accepted_iff c op).1 h
  have he : step' c op = c' := by unfold step'; rw [hs]
  rw [he]
  have direct : c.updatedAt + 86400 * 10^9 ≤ op.now ∧ c'.updatedAt = op.now := by
    unfold step at hs
    rw [hact] at hs
    simp only at hs
    rw [update_ok_iff] at hs
    obtain ⟨_, h2⟩ := hs
    rw [hm] at h2
    simp only at h2
    rw [applyRoyalty_ok_iff] at h2
    obtain ⟨ht, _, _, _, he'⟩ := h2
    refine ⟨?_, by rw [he']⟩
    rw [← C10_const_day]; exact ht
  exact direct

/-! ## Clause 1 — "A collection's royalty share is never above 100%, at creation or after any update." -/

def ShareOk (c : Coll) : Prop := ∀ r, c.royalty = some r → r.share ≤ 10^18

/-- at creation (any of the four contracts) -/
theorem C10_inst_share_le_one (now : Nat) (m : InstMsg) (c : Coll) (h : instantiate now m = .ok c) : ShareOk c := by
  rw [instantiate_ok_iff] at h
  obtain ⟨_, _, _, _, _, _, hr, _, he⟩ := h
  intro r hcr
  rw [he] at hcr
  have := (hr r hcr).2
  rw [C10_const_one] at this
  exact this

/-- a share above 100 % is refused at creation -/
theorem C10_inst_above_one_rejected (now : Nat) (m : InstMsg) (r : RoyaltyInfo) (hr : m.royalty = some r)
    (hgt : 10^18 < r.share) : ∀ c, instantiate now m ≠ .ok c := by
  intro c h
  rw [instantiate_ok_iff] at h
  have := (h.2.2.2.2.2.2.1 r hr).2
  rw [C10_const_one] at this
  omega

/-- one step (message, migration, even the harness's version fabrication) preserves the bound -/
theorem C10_step_share_le_one (c : Coll) (op : Op) (h : ShareOk c) : ShareOk (step' c op) := by
  rcases step'_eq c op with ⟨c', hs, he⟩ | ⟨_, he⟩
  · rw [he]
    rcases C10_step_anatomy c op c' hs with ⟨hu, _⟩ | ⟨m, r, _, _, _, _, hle, _, hroy, _⟩ | ⟨_, hu, _⟩
    · intro r hr; rw [hu] at hr; exact h r hr
    · intro r' hr'; rw [hroy] at hr'; cases hr'; exact hle
    · intro r hr; rw [hu] at hr; exact h r hr
  · rw [he]; exact h

theorem run_cons (c : Coll) (op : Op) (ops : List Op) : run c (op :: ops) = run (step' c op) ops := rfl
theorem run_nil (c : Coll) : run c [] = c := rfl

theorem C10_run_share_le_one (c : Coll) (ops : List Op) (h : ShareOk c) : ShareOk (run c ops) := by
  induction ops generalizing c with
  | nil => exact h
  | cons op ops ih => rw [run_cons]; exact ih _ (C10_step_share_le_one c op h)

/-- **Clause 1, all histories**: for every instantiate message of any of the four contracts, every block time and every
finite sequence of messages and migrations (any senders, any arguments, any times), the stored share is at most `10^18`
atomics = 100 %. -/
theorem C10_share_le_one (now : Nat) (m : InstMsg) (c : Coll) (ops : List Op) (h : instantiate now m = .ok c) :
    ∀ r, (run c ops).royalty = some r → r.share ≤ 10^18 :=
  C10_run_share_le_one c ops (C10_inst_share_le_one now m c h)

/-- a share above 100 % is refused by every update, whatever the state -/
theorem C10_update_above_one_rejected (c : Coll) (now : Nat) (sender : Addr) (m : UpdMsg) (r : RoyaltyInfo)
    (hm : m.royalty = .set r) (hgt : 10^18 < r.share) : ∀ c', updateCollectionInfo c now sender m ≠ .ok c' := by
  intro c' h
  rw [update_ok_iff, hm] at h
  simp only at h
  rw [applyRoyalty_ok_iff, C10_const_one] at h
  omega

/-! ## Clause 2 — "When a collection already has royalties, an update that raises the share raises it by at most
2 percentage points and to at most 10%" -/

theorem C10_raise_bounded (c : Coll) (op : Op) (c' : Coll) (o n : RoyaltyInfo)
    (h : step c op = .ok c') (ho : c.royalty = some o) (hn : c'.royalty = some n) (hlt : o.share < n.share) :
    n.share - o.share ≤ 2 * 10^16 ∧ n.share ≤ 10^17 := by
  rcases C10_step_anatomy c op c' h with ⟨hu, _⟩ | ⟨m, r, _, _, _, _, _, hr, hroy, _⟩ | ⟨_, hu, _⟩
  · rw [hu, ho] at hn; cases hn; omega
  · rw [hroy] at hn; cases hn
    have := (raiseOk_iff c.royalty r.share).1 hr o ho hlt
    rw [C10_const_delta, C10_const_max] at this
    exact this
  · rw [hu, ho] at hn; cases hn; omega

/-- royalties, once present, are never removed (`royalty_info: null` is a no-op; migrations keep them) -/
theorem C10_royalty_stays (c : Coll) (op : Op) (o : RoyaltyInfo) (ho : c.royalty = some o) :
    ∃ n, (step' c op).royalty = some n := by
  rcases step'_eq c op with ⟨c', hs, he⟩ | ⟨_, he⟩
  · rw [he]
    rcases C10_step_anatomy c op c' hs with ⟨hu, _⟩ | ⟨m, r, _, _, _, _, _, _, hroy, _⟩ | ⟨_, hu, _⟩
    · exact ⟨o, by rw [hu, ho]⟩
    · exact ⟨_, hroy⟩
    · exact ⟨o, by rw [hu, ho]⟩
  · rw [he]; exact ⟨o, ho⟩

/-! ## Clause 3 — "any royalty change is accepted at most once per 24 hours" -/

/-- a royalty update less than 24 h after the anchor (creation / previous accepted update) is refused -/
theorem C10_too_soon_rejected (c : Coll) (now : Nat) (sender : Addr) (m : UpdMsg) (r : RoyaltyInfo)
    (hm : m.royalty = .set r) (hsoon : now < c.updatedAt + 86400 * 10^9) : ∀ c', updateCollectionInfo c now sender m ≠ .ok c' := by
  intro c' h
  rw [update_ok_iff, hm] at h
  simp only at h
  rw [applyRoyalty_ok_iff, C10_const_day] at h
  have : (applyFields c m).updatedAt = c.updatedAt := rfl
  omega

/-- whenever a successful operation changes the royalty, it is a royalty update sent by the creator of an unfrozen
collection at least 24 h after the anchor; the anchor moves only then, or by a rewinding migration -/
theorem C10_change_needs_cadence (c : Coll) (op : Op) (c' : Coll) (h : step c op = .ok c')
    (hch : c'.royalty ≠ c.royalty ∨ (c'.updatedAt ≠ c.updatedAt ∧ rewinding c op = false)) :
    c.updatedAt + 86400 * 10^9 ≤ op.now ∧ c'.updatedAt = op.now ∧ acceptedRoyaltyUpdate c op = true := by
  rcases C10_step_anatomy c op c' h with ⟨hu, hu2⟩ | ⟨m, r, hact, hm, ht, _, _, _, _, hup, _⟩ | ⟨hrw, hu, _⟩
  · rcases hch with h1 | ⟨h1, _⟩
    · exact absurd hu h1
    · exact absurd hu2 h1
  · exact ⟨ht, hup, (accepted_iff c op).2 ⟨m, r, c', hact, hm, h⟩⟩
  · rcases hch with h1 | ⟨_, h1⟩
    · exact absurd hu h1
    · rw [hrw] at h1; cases h1

/-- **who can change royalties** (frame, strengthened): a successful operation that changes the royalty was sent by the
current creator, and the collection info was not frozen -/
theorem C10_change_by_creator (c : Coll) (op : Op) (c' : Coll) (h : step c op = .ok c') (hch : c'.royalty ≠ c.royalty) :
    op.sender = c.creator ∧ c.frozen = false := by
  rcases C10_step_anatomy c op c' h with ⟨hu, _⟩ | ⟨m, r, _, _, _, _, _, _, _, _, hc, hf⟩ | ⟨_, hu, _⟩
  · exact absurd hu hch
  · exact ⟨hc.symm, hf⟩
  · exact absurd hu hch

/-- migrations (and the harness's version fabrication) never change `royalty_info` — neither share nor address -/
theorem C10_migrate_keeps_royalty (c : Coll) (op : Op) (t : Kind) (ok : Bool) (hact : op.act = .migrate t ok) :
    (step' c op).royalty = c.royalty := by
  apply C10_frame_royalty
  unfold acceptedRoyaltyUpdate; rw [hact]

/-- a migration moves the cadence anchor only when it rewinds, and then to exactly `now − 24 h`: an update is possible
immediately after it, the next one again 24 h later -/
theorem C10_migrate_anchor (c : Coll) (op : Op) (t : Kind) (ok : Bool) (hact : op.act = .migrate t ok) :
    (step' c op).updatedAt = if rewinding c op then op.now - 86400 * 10^9 else c.updatedAt := by
  have hrw : rewinding c op = (ok && rewinds c t) := by unfold rewinding; rw [hact]
  rcases step'_eq c op with ⟨c', hs, he⟩ | ⟨⟨e, hs⟩, he⟩
  · rw [he]
    unfold step at hs; rw [hact] at hs; simp only at hs
    split at hs
    · rename_i hok
      rw [(migrate_ok c op.now t c' hs).2.2.2.2.2.2.1, hrw, hok, ← C10_const_day]; simp
    · cases hs
  · rw [he]
    -- a failed migration: either not accepted by the chain, or refused by the model's name check; neither rewinds
    have : rewinding c op = false := by
      rw [hrw]
      cases ok with
      | false => rfl
      | true =>
        unfold step at hs; rw [hact] at hs; simp only [if_true] at hs
        cases hr : rewinds c t with
        | false => rfl
        | true =>
          obtain ⟨ht, hn, _⟩ := (rewinds_iff c t).1 hr
          subst ht
          unfold migrate at hs
          simp [hn] at hs
    rw [this]; simp

/-! ### No rewinding for collections created by the current code -/

/-- the stored version of an instance whose stored NAME `sg721-updatable::_migrate` would accept is not below 3.1.0 -/
def VerInv (c : Coll) : Prop := (c.name = .base ∨ c.name = .updatable) → verLt c.ver V310 = false

/-- every crate of the workspace is at 3.1.0 or later (regenerated constants: a version below would break this proof) -/
theorem C10_const_versions (k : Kind) : verLt (curVer k) V310 = false := by cases k <;> decide

theorem C10_inst_verinv (now : Nat) (m : InstMsg) (c : Coll) (h : instantiate now m = .ok c) : VerInv c := by
  rw [instantiate_ok_iff] at h
  rw [h.2.2.2.2.2.2.2.2]
  intro _
  exact C10_const_versions m.kind

theorem not_rewinding_of_verinv (c : Coll) (op : Op) (h : VerInv c) : rewinding c op = false := by
  cases hr : rewinding c op with
  | false => rfl
  | true =>
    unfold rewinding at hr
    cases hact : op.act with
    | migrate t ok =>
      rw [hact] at hr; simp at hr
      obtain ⟨_, hk, hv⟩ := (rewinds_iff c t).1 hr.2
      rw [h hk] at hv; cases hv
    | update m => rw [hact] at hr; cases hr
    | freeze => rw [hact] at hr; cases hr
    | startTrading t ok => rw [hact] at hr; cases hr
    | other ok => rw [hact] at hr; cases hr
    | setver v => rw [hact] at hr; cases hr

theorem C10_step_verinv (c : Coll) (op : Op) (h : VerInv c) (hns : isSetver op = false) : VerInv (step' c op) := by
  rcases step'_eq c op with ⟨c', hs, he⟩ | ⟨_, he⟩
  · rw [he]
    rcases step_shape c op c' hs with ⟨m, _, hu⟩ | ⟨_, _, he'⟩ | ⟨t, _, he'⟩ | ⟨_, he'⟩ | ⟨t, _, hm⟩ | ⟨v, ha, _⟩
    · obtain ⟨hk, hv, _⟩ := update_untouched c op.now op.sender m c' hu
      intro hk'; rw [hv]; rw [hk] at hk'; exact h hk'
    · rw [he']; exact h
    · rw [he']; exact h
    · rw [he']; exact h
    · rcases (migrate_ok c op.now t c' hm).2.2.2.2.2.2.2 with ⟨_, _, hv⟩ | ⟨_, ⟨hn, hv⟩ | hn⟩
      · intro _; rw [hv]; exact C10_const_versions .updatable
      · intro hk'; rw [hv]; rw [hn] at hk'; exact h hk'
      · intro hk'; rw [hn] at hk'; rcases hk' with h1 | h1 <;> cases h1
    · unfold isSetver at hns; rw [ha] at hns; cases hns
  · rw [he]; exact h

/-- **No rewinding, all real histories**: a collection instantiated by the current code of any of the four contracts
keeps a stored version ≥ 3.1.0 through every history of messages and migrations, so no migration ever rewinds its anchor. -/
theorem C10_no_rewind_reachable (t0 : Nat) (im : InstMsg) (c0 : Coll) (ops : List Op) (h0 : instantiate t0 im = .ok c0)
    (hns : NoSetver ops) : VerInv (run c0 ops) ∧ ∀ op, rewinding (run c0 ops) op = false := by
  have key : ∀ (ops : List Op) (c : Coll), VerInv c → NoSetver ops → VerInv (run c ops) := by
    intro ops
    induction ops with
    | nil => intro c h _; exact h
    | cons op ops ih =>
      intro c h hns
      rw [run_cons]
      exact ih _ (C10_step_verinv c op h (hns op (List.mem_cons_self ..))) (fun o ho => hns o (List.mem_cons_of_mem _ ho))
  have hv := key ops c0 (C10_inst_verinv t0 im c0 h0) hns
  exact ⟨hv, fun op => not_rewinding_of_verinv _ op hv⟩

/-- consecutive accepted times are at least 24 h apart, the first one at least 24 h after `anchor` -/
def Spaced : Nat → List Nat → Prop
  | _, [] => True
  | anchor, t :: ts => anchor + 86400 * 10^9 ≤ t ∧ Spaced t ts

/- FULL statement (false, see `C10_cadence_upgrade_counterexample`):
     ∀ (c : Coll) (ops : List Op), NoSetver ops → Spaced c.updatedAt (acceptedTimes c ops)
   i.e. for EVERY collection state — including instances created by code older than 3.1.0 — and every history of messages
   and migrations the accepted royalty updates are 24 h apart. Proved below for states with `VerInv` (stored version of a
   base/updatable instance ≥ 3.1.0), which covers every collection instantiated by the current code (`C10_cadence`). -/
/-- **Clause 3, histories from a state whose stored version is not below 3.1.0**: the block times of the accepted
royalty updates are spaced by at least 24 h, starting 24 h after the anchor of the initial state — migrations included. -/
theorem C10_cadence_from_partial (c : Coll) (ops : List Op) (hv : VerInv c) (hns : NoSetver ops) :
    Spaced c.updatedAt (acceptedTimes c ops) := by
  induction ops generalizing c with
  | nil => exact trivial
  | cons op ops ih =>
    have hv' := C10_step_verinv c op hv (hns op (List.mem_cons_self ..))
    have hns' : NoSetver ops := fun o ho => hns o (List.mem_cons_of_mem _ ho)
    unfold acceptedTimes
    by_cases ha : acceptedRoyaltyUpdate c op = true
    · rw [if_pos ha]
      obtain ⟨ht, hu⟩ := C10_accepted_spacing c op ha
      refine ⟨ht, ?_⟩
      have := ih (step' c op) hv' hns'
      rw [hu] at this
      exact this
    · rw [if_neg ha]
      have hf := (C10_frame c op (by simpa using ha) (not_rewinding_of_verinv c op hv)).2
      have := ih (step' c op) hv' hns'
      rw [hf] at this
      exact this

/-- **Clause 3, all real histories** of a collection created at block time `t0` by the current code of any of the four
contracts — messages AND migrations: the first accepted royalty change is at least 24 h after creation, each further one
at least 24 h after the previous one. -/
theorem C10_cadence (t0 : Nat) (m : InstMsg) (c : Coll) (ops : List Op) (h : instantiate t0 m = .ok c) (hns : NoSetver ops) :
    Spaced t0 (acceptedTimes c ops) := by
  have hu : c.updatedAt = t0 := by
    have h' := h
    rw [instantiate_ok_iff] at h'
    rw [h'.2.2.2.2.2.2.2.2]
  have := C10_cadence_from_partial c ops (C10_inst_verinv t0 m c h) hns
  rw [hu] at this
  exact this

theorem Spaced_lower (a b : Nat) (l : List Nat) (hab : a ≤ b) (h : Spaced b l) : Spaced a l := by
  cases l with
  | nil => exact trivial
  | cons t ts => exact ⟨by have := h.1; omega, h.2⟩

/-- `Spaced` gives the pairwise statement: *any* two accepted royalty changes (not only consecutive ones) are ≥ 24 h apart -/
theorem C10_spaced_pairwise (a : Nat) (l : List Nat) (h : Spaced a l) :
    (a :: l).Pairwise (fun x y => x + 86400 * 10^9 ≤ y) := by
  induction l generalizing a with
  | nil => simp
  | cons t ts ih =>
    obtain ⟨h1, h2⟩ := h
    have iht := ih t h2
    rw [List.pairwise_cons] at iht ⊢
    refine ⟨?_, ?_⟩
    · intro y hy
      rcases List.mem_cons.1 hy with rfl | hy
      · exact h1
      · have := iht.1 y hy; omega
    · rw [List.pairwise_cons]; exact iht

/-- every change of the stored royalty in a history is one of the accepted updates: between them it is constant -/
theorem C10_no_silent_change (c : Coll) (op : Op) (h : (step' c op).royalty ≠ c.royalty) :
    acceptedRoyaltyUpdate c op = true := by
  cases ha : acceptedRoyaltyUpdate c op with
  | true => rfl
  | false => exact absurd (C10_frame_royalty c op ha) h

/-- block times at which the stored royalty *observably changed* in a history -/
def changeTimes : Coll → List Op → List Nat
  | _, [] => []
  | c, op :: ops =>
    if (step' c op).royalty ≠ c.royalty then op.now :: changeTimes (step' c op) ops
    else changeTimes (step' c op) ops

theorem changeTimes_sublist (c : Coll) (ops : List Op) : (changeTimes c ops).Sublist (acceptedTimes c ops) := by
  induction ops generalizing c with
  | nil => exact List.Sublist.slnil
  | cons op ops ih =>
    unfold changeTimes acceptedTimes
    by_cases hch : (step' c op).royalty ≠ c.royalty
    · rw [if_pos hch, if_pos (C10_no_silent_change c op hch)]
      exact List.Sublist.cons_cons _ (ih _)
    · rw [if_neg hch]
      by_cases ha : acceptedRoyaltyUpdate c op = true
      · rw [if_pos ha]; exact List.Sublist.cons _ (ih _)
      · rw [if_neg ha]; exact ih _

/-- **Clause 3 in one sentence**: for a collection created at `t0` by the current code, over every real history (messages
and migrations), the creation time and the times at which the royalty observably changed are pairwise at least 24 h
apart (in order). -/
theorem C10_changes_24h_apart (t0 : Nat) (m : InstMsg) (c : Coll) (ops : List Op) (h : instantiate t0 m = .ok c)
    (hns : NoSetver ops) :
    (t0 :: changeTimes c ops).Pairwise (fun x y => x + 86400 * 10^9 ≤ y) := by
  have hp := C10_spaced_pairwise t0 _ (C10_cadence t0 m c ops h hns)
  exact hp.sublist (List.Sublist.cons_cons _ (changeTimes_sublist c ops))

/-! ## Clause 4 — "lowering is always allowed within that cadence" -/

/-- Full decision logic of `UpdateCollectionInfo` with a royalty: accepted **iff** the collection info is not frozen,
the sender is the creator, the other fields are valid, 24 h have passed, the payment address is valid, the share is
≤ 100 %, and — only when royalties exist and the share goes up — the raise is ≤ 2 points and the result ≤ 10 %. -/
theorem C10_update_ok_iff (c : Coll) (now : Nat) (sender : Addr) (m : UpdMsg) (r : RoyaltyInfo) (hm : m.royalty = .set r) :
    (∃ c', updateCollectionInfo c now sender m = .ok c') ↔
      fieldsOk c sender m ∧ c.updatedAt + 86400 * 10^9 ≤ now ∧ addrValid r.addr = true ∧ r.share ≤ 10^18 ∧
      (∀ o, c.royalty = some o → o.share < r.share → r.share - o.share ≤ 2 * 10^16 ∧ r.share ≤ 10^17) := by
  have hu : (applyFields c m).updatedAt = c.updatedAt := rfl
  have hr : (applyFields c m).royalty = c.royalty := rfl
  constructor
  · intro ⟨c', h⟩
    rw [update_ok_iff, hm] at h
    simp only at h
    rw [applyRoyalty_ok_iff, raiseOk_iff, hu, hr, C10_const_day, C10_const_one, C10_const_delta, C10_const_max] at h
    exact ⟨h.1, h.2.1, h.2.2.1, h.2.2.2.1, h.2.2.2.2.1⟩
  · intro ⟨hf, ht, ha, hs, hraise⟩
    refine ⟨{ applyFields c m with royalty := some ⟨r.addr, r.share⟩, updatedAt := now }, ?_⟩
    rw [update_ok_iff, hm]
    simp only
    rw [applyRoyalty_ok_iff, raiseOk_iff, hu, hr, C10_const_day, C10_const_one, C10_const_delta, C10_const_max]
    exact ⟨hf, ht, ha, hs, hraise, rfl⟩

/-- clause 2 as decision logic: a raise of more than 2 points, or to more than 10 %, is refused -/
theorem C10_big_raise_rejected (c : Coll) (now : Nat) (sender : Addr) (m : UpdMsg) (r o : RoyaltyInfo)
    (hm : m.royalty = .set r) (ho : c.royalty = some o) (hlt : o.share < r.share)
    (hbig : 2 * 10^16 < r.share - o.share ∨ 10^17 < r.share) : ∀ c', updateCollectionInfo c now sender m ≠ .ok c' := by
  intro c' h
  have := ((C10_update_ok_iff c now sender m r hm).1 ⟨c', h⟩).2.2.2.2 o ho hlt
  omega

/-- **Clause 4**: lowering (or re-stating) the share is accepted whenever 24 h have passed — for the creator of an
unfrozen collection sending otherwise valid fields and a valid payment address — and is stored exactly. -/
theorem C10_lower_allowed (c : Coll) (now : Nat) (sender : Addr) (m : UpdMsg) (r o : RoyaltyInfo)
    (hinv : ShareOk c) (hf : fieldsOk c sender m) (hm : m.royalty = .set r) (ha : addrValid r.addr = true)
    (ho : c.royalty = some o) (hle : r.share ≤ o.share) (ht : c.updatedAt + 86400 * 10^9 ≤ now) :
    ∃ c', updateCollectionInfo c now sender m = .ok c' ∧ c'.royalty = some ⟨r.addr, r.share⟩ ∧ c'.updatedAt = now := by
  have hs : r.share ≤ 10^18 := Nat.le_trans hle (hinv o ho)
  have hex := (C10_update_ok_iff c now sender m r hm).2
    ⟨hf, ht, ha, hs, by intro o' ho' hlt; rw [ho] at ho'; cases ho'; omega⟩
  obtain ⟨c', hc'⟩ := hex
  refine ⟨c', hc', ?_⟩
  rw [update_ok_iff, hm] at hc'
  simp only at hc'
  rw [applyRoyalty_ok_iff] at hc'
  obtain ⟨_, _, _, _, _, he⟩ := hc'
  rw [he]
  exact ⟨rfl, rfl⟩

/-- stored description / image / link / creator are valid in every reachable state, so a message that carries only the
royalty passes the field guards -/
def WF (c : Coll) : Prop :=
  c.descLen ≤ MAX_DESCRIPTION_LENGTH ∧ urlValid c.image = true ∧ optUrlValid c.link = true

theorem C10_inst_wf (now : Nat) (m : InstMsg) (c : Coll) (h : instantiate now m = .ok c) : WF c := by
  rw [instantiate_ok_iff] at h
  obtain ⟨_, _, _, h4, h5, h6, _, _, he⟩ := h
  rw [he]
  exact ⟨h4, h5, h6⟩

theorem C10_step_wf (c : Coll) (op : Op) (h : WF c) : WF (step' c op) := by
  rcases step'_eq c op with ⟨c', hs, he⟩ | ⟨_, he⟩
  · rw [he]
    rcases step_shape c op c' hs with ⟨m, _, hu⟩ | ⟨_, _, he'⟩ | ⟨t, _, he'⟩ | ⟨_, he'⟩ | ⟨t, _, hm⟩ | ⟨v, _, he'⟩
    · rw [update_ok_iff] at hu
      obtain ⟨⟨_, _, _, hd, hi, hl⟩, h2⟩ := hu
      have hwf : WF (applyFields c m) := ⟨hd, hi, hl⟩
      cases hm : m.royalty with
      | set r =>
        rw [hm] at h2; simp only at h2
        rw [applyRoyalty_ok_iff] at h2
        rw [h2.2.2.2.2]; exact hwf
      | keep => rw [hm] at h2; simp only at h2; rw [h2]; exact hwf
      | clear => rw [hm] at h2; simp only at h2; rw [h2]; exact hwf
    · rw [he']; exact h
    · rw [he']; exact h
    · rw [he']; exact h
    · obtain ⟨_, _, _, hd, hi, hl, _⟩ := migrate_ok c op.now t c' hm
      unfold WF; rw [hd, hi, hl]; exact h
    · rw [he']; exact h
  · rw [he]; exact h

theorem C10_run_wf (c : Coll) (ops : List Op) (h : WF c) : WF (run c ops) := by
  induction ops generalizing c with
  | nil => exact h
  | cons op ops ih => rw [run_cons]; exact ih _ (C10_step_wf c op h)

/-- **Clause 4 on every reachable state**: after any history from any creation, if the info is not frozen and royalties
exist, the current creator can lower the share to any `s ≤ current` (payment address `a` valid) with a message that
carries nothing else, at any time `≥ anchor + 24 h`. -/
theorem C10_lower_allowed_reachable (t0 : Nat) (im : InstMsg) (c0 : Coll) (ops : List Op) (h0 : instantiate t0 im = .ok c0)
    (o : RoyaltyInfo) (a : Addr) (s now : Nat) (e : Option Bool)
    (hnf : (run c0 ops).frozen = false) (ho : (run c0 ops).royalty = some o) (hle : s ≤ o.share)
    (ha : addrValid a = true) (ht : (run c0 ops).updatedAt + 86400 * 10^9 ≤ now) :
    ∃ c', updateCollectionInfo (run c0 ops) now (run c0 ops).creator
            { desc := none, image := none, link := .keep, explicit := e, royalty := .set ⟨a, s⟩, creator := none } = .ok c' ∧
          c'.royalty = some ⟨a, s⟩ ∧ c'.updatedAt = now := by
  have hwf := C10_run_wf c0 ops (C10_inst_wf t0 im c0 h0)
  have hinv := C10_run_share_le_one c0 ops (C10_inst_share_le_one t0 im c0 h0)
  have hf : fieldsOk (run c0 ops) (run c0 ops).creator
      { desc := none, image := none, link := .keep, explicit := e, royalty := .set ⟨a, s⟩, creator := none } := by
    refine ⟨hnf, rfl, ?_, hwf.1, hwf.2.1, hwf.2.2⟩
    intro n hn; cases hn
  exact C10_lower_allowed (run c0 ops) now _ _ ⟨a, s⟩ o hinv hf rfl ha ho hle ht

/-! ## Freeze: once the collection info is frozen the royalty is final -/

theorem C10_frozen_step (c : Coll) (op : Op) (h : c.frozen = true) :
    (step' c op).frozen = true ∧ (step' c op).royalty = c.royalty := by
  rcases step'_eq c op with ⟨c', hs, he⟩ | ⟨_, he⟩
  · rw [he]
    rcases step_shape c op c' hs with ⟨m, _, hu⟩ | ⟨_, _, he'⟩ | ⟨t, _, he'⟩ | ⟨_, he'⟩ | ⟨t, _, hm⟩ | ⟨v, _, he'⟩
    · rw [update_ok_iff] at hu
      have := hu.1.1
      rw [h] at this; cases this
    · rw [he']; exact ⟨rfl, rfl⟩
    · rw [he']; exact ⟨h, rfl⟩
    · rw [he']; exact ⟨h, rfl⟩
    · obtain ⟨hr, hf, _⟩ := migrate_ok c op.now t c' hm
      exact ⟨by rw [hf]; exact h, hr⟩
    · rw [he']; exact ⟨h, rfl⟩
  · rw [he]; exact ⟨h, rfl⟩

/-- **History level**: after `FreezeCollectionInfo` no message and no migration ever changes the royalty again (and
nothing unfreezes) -/
theorem C10_frozen_royalty_final (c : Coll) (ops : List Op) (h : c.frozen = true) :
    (run c ops).frozen = true ∧ (run c ops).royalty = c.royalty := by
  induction ops generalizing c with
  | nil => exact ⟨h, rfl⟩
  | cons op ops ih =>
    rw [run_cons]
    obtain ⟨hf, hr⟩ := C10_frozen_step c op h
    obtain ⟨h1, h2⟩ := ih (step' c op) hf
    exact ⟨h1, by rw [h2, hr]⟩

/-! ## "can only creep up slowly": multi-step climbs -/

/-- one step: the share either does not go up, or goes up by ≤ 2 points to ≤ 10 % (and then it counts as a raise) -/
theorem step'_share (c : Coll) (op : Op) (o : RoyaltyInfo) (ho : c.royalty = some o) :
    ∃ n, (step' c op).royalty = some n ∧
      ((n.share ≤ o.share ∧ isRaise c op = false) ∨
       (o.share < n.share ∧ isRaise c op = true ∧ n.share ≤ o.share + 2 * 10^16 ∧ n.share ≤ 10^17)) := by
  obtain ⟨n, hn⟩ := C10_royalty_stays c op o ho
  refine ⟨n, hn, ?_⟩
  have hir : isRaise c op = decide (o.share < n.share) := by
    unfold isRaise; rw [ho, hn]
  by_cases hlt : o.share < n.share
  · right
    rcases step'_eq c op with ⟨c', hs, he⟩ | ⟨_, he⟩
    · rw [he] at hn
      have := C10_raise_bounded c op c' o n hs ho hn hlt
      exact ⟨hlt, by rw [hir]; simpa using hlt, by omega, this.2⟩
    · rw [he, ho] at hn; cases hn; omega
  · left
    exact ⟨by omega, by rw [hir]; simpa using hlt⟩

/-- **Climb bound, all histories**: starting with share `s₀`, after any history with `k` accepted raises the share is
at most `s₀ + k · 2 %` and at most `max(s₀, 10 %)` — repeated small raises can never pass 10 %. -/
theorem C10_climb (c : Coll) (ops : List Op) (o : RoyaltyInfo) (ho : c.royalty = some o) :
    ∃ n, (run c ops).royalty = some n ∧ n.share ≤ o.share + 2 * 10^16 * raises c ops ∧ n.share ≤ max o.share (10^17) := by
  induction ops generalizing c o with
  | nil => exact ⟨o, ho, by simp [raises], by omega⟩
  | cons op ops ih =>
    obtain ⟨n1, hn1, hcase⟩ := step'_share c op o ho
    obtain ⟨n, hn, hb1, hb2⟩ := ih (step' c op) n1 hn1
    refine ⟨n, by rw [run_cons]; exact hn, ?_, ?_⟩
    · unfold raises
      rcases hcase with ⟨hle, hr⟩ | ⟨_, hr, hle, _⟩
      · rw [hr]; simp only [Bool.false_eq_true, if_false]; omega
      · rw [hr]; simp only [if_true]; omega
    · rcases hcase with ⟨hle, _⟩ | ⟨_, _, _, hle⟩ <;> omega

/-- a share that starts at or below 10 % stays at or below 10 % for ever -/
theorem C10_never_above_ten (c : Coll) (ops : List Op) (o : RoyaltyInfo) (ho : c.royalty = some o) (h10 : o.share ≤ 10^17) :
    ∀ n, (run c ops).royalty = some n → n.share ≤ 10^17 := by
  intro n hn
  obtain ⟨n', hn', _, hb⟩ := C10_climb c ops o ho
  rw [hn] at hn'; cases hn'; omega

/-- every raise is an accepted royalty update … -/
theorem raise_accepted (c : Coll) (op : Op) (h : isRaise c op = true) : acceptedRoyaltyUpdate c op = true := by
  apply C10_no_silent_change
  intro heq
  unfold isRaise at h
  rw [heq] at h
  cases hr : c.royalty with
  | none => rw [hr] at h; simp at h
  | some o => rw [hr] at h; simp at h

theorem raises_le_accepted (c : Coll) (ops : List Op) : raises c ops ≤ (acceptedTimes c ops).length := by
  induction ops generalizing c with
  | nil => exact Nat.le_refl 0
  | cons op ops ih =>
    unfold raises acceptedTimes
    have := ih (step' c op)
    by_cases hr : isRaise c op = true
    · rw [if_pos hr, if_pos (raise_accepted c op hr), List.length_cons]; omega
    · rw [if_neg hr]
      by_cases ha : acceptedRoyaltyUpdate c op = true
      · rw [if_pos ha, List.length_cons]; omega
      · rw [if_neg ha]; omega

/-- … and each accepted update pushes the anchor at least 24 h forward (no rewinding migration in between: `VerInv`) -/
theorem anchor_advance (c : Coll) (ops : List Op) (hv : VerInv c) (hns : NoSetver ops) :
    c.updatedAt + 86400 * 10^9 * (acceptedTimes c ops).length ≤ (run c ops).updatedAt := by
  induction ops generalizing c with
  | nil => simp [acceptedTimes, run_nil]
  | cons op ops ih =>
    have hv' := C10_step_verinv c op hv (hns op (List.mem_cons_self ..))
    have hns' : NoSetver ops := fun o ho => hns o (List.mem_cons_of_mem _ ho)
    unfold acceptedTimes
    rw [run_cons]
    have := ih (step' c op) hv' hns'
    by_cases ha : acceptedRoyaltyUpdate c op = true
    · rw [if_pos ha]
      obtain ⟨ht, hu⟩ := C10_accepted_spacing c op ha
      rw [hu] at this
      simp only [List.length_cons]
      rw [Nat.mul_add, Nat.mul_one]
      generalize 86400 * 10^9 = D at *
      generalize D * (acceptedTimes (step' c op) ops).length = X at *
      omega
    · rw [if_neg ha]
      rw [(C10_frame c op (by simpa using ha) (not_rewinding_of_verinv c op hv)).2] at this
      exact this

/-- **Creep rate, histories from a state whose stored version is not below 3.1.0** (in particular every collection
instantiated by the current code, `C10_creep_rate`): the share can rise by at most 2 percentage points per full 24 h by
which the cadence anchor (`royalty_updated_at`) has moved: `share ≤ s₀ + 2 % · ⌊(anchor_now − anchor_then) / 24 h⌋`.
(Without `VerInv` a rewinding migration moves the anchor backwards; `C10_climb` still bounds the share by the number of
accepted raises and by 10 %.) -/
theorem C10_creep_rate_from (c : Coll) (ops : List Op) (o : RoyaltyInfo) (ho : c.royalty = some o)
    (hv : VerInv c) (hns : NoSetver ops) :
    ∃ n, (run c ops).royalty = some n ∧
      n.share ≤ o.share + 2 * 10^16 * (((run c ops).updatedAt - c.updatedAt) / (86400 * 10^9)) := by
  obtain ⟨n, hn, hb, _⟩ := C10_climb c ops o ho
  refine ⟨n, hn, ?_⟩
  have h1 := raises_le_accepted c ops
  have h2 := anchor_advance c ops hv hns
  have h3 : (acceptedTimes c ops).length ≤ ((run c ops).updatedAt - c.updatedAt) / (86400 * 10^9) := by
    rw [Nat.le_div_iff_mul_le (by decide)]
    rw [Nat.mul_comm]
    omega
  have h4 : 2 * 10^16 * raises c ops ≤ 2 * 10^16 * (((run c ops).updatedAt - c.updatedAt) / (86400 * 10^9)) :=
    Nat.mul_le_mul_left _ (Nat.le_trans h1 h3)
  omega

/-- **Creep rate, all real histories** of a collection created with royalties by the current code (messages and migrations) -/
theorem C10_creep_rate (t0 : Nat) (im : InstMsg) (c : Coll) (ops : List Op) (o : RoyaltyInfo)
    (h0 : instantiate t0 im = .ok c) (ho : c.royalty = some o) (hns : NoSetver ops) :
    ∃ n, (run c ops).royalty = some n ∧
      n.share ≤ o.share + 2 * 10^16 * (((run c ops).updatedAt - t0) / (86400 * 10^9)) := by
  have hu : c.updatedAt = t0 := by
    have h' := h0
    rw [instantiate_ok_iff] at h'
    rw [h'.2.2.2.2.2.2.2.2]
  have := C10_creep_rate_from c ops o ho (C10_inst_verinv t0 im c h0) hns
  rw [hu] at this
  exact this

/-! ## Clause 5 — the payout helper (as repaired in /repo 00871d3: the fees are checked first, royalty due or not) -/

/-- the royalty the clause talks about: `floor(payment × share)`, nothing for absent royalties -/
def royaltyOf (info : Option RoyaltyInfo) (payment : Nat) : Nat :=
  match info with
  | none => 0
  | some r => payment * r.share / 10^18

/-- complete case analysis of the helper -/
theorem C10_payout_spec (info : Option RoyaltyInfo) (payment fee : Nat) (finders : Option Nat) :
    royaltyPayout info payment fee finders =
      if payment < fee + finders.getD 0 then .error .other
      else match info with
      | none => .ok (0, [])
      | some r =>
        if r.share = 0 then .ok (0, [])
        else if payment < fee + finders.getD 0 + payment * r.share / 10^18 then .error .other
        else .ok (payment * r.share / 10^18, [Msg.send r.addr ⟨NATIVE, payment * r.share / 10^18⟩]) := by
  unfold royaltyPayout mulFloor
  cases info <;> rfl

/-- "pays nothing for … absent royalties" (when the fees fit into the payment; otherwise it refuses, `C10_payout_refuses`) -/
theorem C10_payout_absent (payment fee : Nat) (finders : Option Nat) (hfit : fee + finders.getD 0 ≤ payment) :
    royaltyPayout none payment fee finders = .ok (0, []) := by
  rw [C10_payout_spec]
  have : ¬ payment < fee + finders.getD 0 := by omega
  simp only [this, if_false]

/-- "pays nothing for a zero share" (when the fees fit into the payment) -/
theorem C10_payout_zero_share (a : Addr) (payment fee : Nat) (finders : Option Nat) (hfit : fee + finders.getD 0 ≤ payment) :
    royaltyPayout (some ⟨a, 0⟩) payment fee finders = .ok (0, []) := by
  rw [C10_payout_spec]
  have : ¬ payment < fee + finders.getD 0 := by omega
  simp only [this, if_false, if_true]

/-- "pays floor(payment x share) to the royalty address" -/
theorem C10_payout_pays_floor (r : RoyaltyInfo) (payment fee : Nat) (finders : Option Nat) (hnz : r.share ≠ 0)
    (hfit : fee + finders.getD 0 + payment * r.share / 10^18 ≤ payment) :
    royaltyPayout (some r) payment fee finders =
      .ok (payment * r.share / 10^18, [Msg.send r.addr ⟨NATIVE, payment * r.share / 10^18⟩]) := by
  rw [C10_payout_spec]
  have h1 : ¬ payment < fee + finders.getD 0 := by omega
  have h2 : ¬ payment < fee + finders.getD 0 + payment * r.share / 10^18 := by omega
  simp only [h1, h2, hnz, if_false]

/-- **"refuses when fees plus royalty exceed the payment" — in full**: for every royalty configuration (absent, zero
share, any share), every payment and every fees. (Before /repo 00871d3 this failed for absent royalties / a zero share:
the helper answered `Ok(0)`; regression: the `example`s below and `corpus/C10/payout-fees-exceed-zero-royalty.json`.) -/
theorem C10_payout_refuses (info : Option RoyaltyInfo) (payment fee : Nat) (finders : Option Nat)
    (hex : payment < fee + finders.getD 0 + royaltyOf info payment) :
    royaltyPayout info payment fee finders = .error .other := by
  rw [C10_payout_spec]
  by_cases h1 : payment < fee + finders.getD 0
  · simp only [h1, if_true]
  · simp only [h1, if_false]
    cases info with
    | none => simp only [royaltyOf] at hex; omega
    | some r =>
      simp only [royaltyOf] at hex
      simp only
      by_cases hz : r.share = 0
      · rw [hz] at hex; simp at hex; omega
      · simp only [hz, if_false, hex, if_true]

/-- the former counter-example (fees 20 > payment 10, no royalty due) is now refused -/
example : royaltyPayout none 10 20 none = .error .other := rfl
example : royaltyPayout (some ⟨11, 0⟩) 10 20 none = .error .other := rfl
example : royaltyPayout none 20 20 none = .ok (0, []) := rfl

/-- whatever is sent is exactly what is returned, and royalty plus fees always fit into the payment -/
theorem C10_payout_conserves (info : Option RoyaltyInfo) (payment fee : Nat) (finders : Option Nat) (amt : Nat) (ms : List Msg)
    (h : royaltyPayout info payment fee finders = .ok (amt, ms)) :
    sumAmounts ms = amt ∧ amt + fee + finders.getD 0 ≤ payment := by
  rw [C10_payout_spec] at h
  split at h
  · cases h
  · rename_i h1
    cases info with
    | none => simp only at h; cases h; exact ⟨rfl, by omega⟩
    | some r =>
      simp only at h
      split at h
      · cases h; exact ⟨rfl, by omega⟩
      · split at h
        · cases h
        · cases h
          exact ⟨by simp [sumAmounts, Msg.amount], by omega⟩

/-- with a share ≤ 100 % (clause 1) the royalty never exceeds the payment -/
theorem C10_floor_le (payment share : Nat) (h : share ≤ 10^18) : payment * share / 10^18 ≤ payment := by
  apply Nat.div_le_of_le_mul
  rw [Nat.mul_comm (10^18)]
  exact Nat.mul_le_mul_left _ h

/-! ## Non-vacuity: the hypotheses above are satisfiable, the bounds are tight -/

deriving instance DecidableEq for Except

def exInst : InstMsg :=
  { kind := .base, senderIsContract := true, funds := 0, minter := 1000, creator := 10, descLen := 3, image := 2, link := none,
    explicit := none, startTrading := none, royalty := some ⟨11, 8 * 10^16⟩ }
def exColl : Coll :=
  { kind := .base, name := .base, ver := curVer .base, creator := 10, descLen := 3, image := 2, link := none, explicit := none, startTrading := none,
    royalty := some ⟨11, 8 * 10^16⟩, frozen := false, updatedAt := 1000 }
def updRoy (r : RoyaltyInfo) : UpdMsg :=
  { desc := none, image := none, link := .keep, explicit := none, royalty := .set r, creator := none }

example : instantiate 1000 exInst = .ok exColl := by decide
/-- exactly 24 h after creation a raise by exactly 2 points to exactly 10 % is accepted … -/
example : updateCollectionInfo exColl (1000 + 86400 * 10^9) 10 (updRoy ⟨11, 10^17⟩) =
    .ok { exColl with royalty := some ⟨11, 10^17⟩, updatedAt := 1000 + 86400 * 10^9 } := by decide
/-- … one nanosecond earlier it is not, nor is one atomic more -/
example : updateCollectionInfo exColl (1000 + 86400 * 10^9 - 1) 10 (updRoy ⟨11, 10^17⟩) = .error .tooSoon := by decide
example : updateCollectionInfo exColl (1000 + 86400 * 10^9) 10 (updRoy ⟨11, 10^17 + 1⟩) = .error .invalid := by decide
/-- a collection without royalties may set any share up to 100 % (the property only constrains raises of existing royalties) -/
example : (updateCollectionInfo { exColl with royalty := none } (1000 + 86400 * 10^9) 10 (updRoy ⟨11, 10^18⟩)).toBool = true := by decide
example : acceptedTimes exColl [⟨1000 + 86400 * 10^9, 10, .update (updRoy ⟨11, 10^17⟩)⟩, ⟨1000 + 86400 * 10^9, 10, .update (updRoy ⟨11, 1⟩)⟩,
    ⟨1000 + 2 * 86400 * 10^9, 10, .update (updRoy ⟨11, 1⟩)⟩] = [1000 + 86400 * 10^9, 1000 + 2 * 86400 * 10^9] := by decide
example : royaltyPayout (some ⟨11, 5 * 10^16⟩) 1000000007 20000000 (some 3) = .ok (50000000, [Msg.send 11 ⟨NATIVE, 50000000⟩]) := by decide
example : royaltyPayout (some ⟨11, 5 * 10^16⟩) 100 95 (some 1) = .error .other := by decide
example : fieldsOk exColl 10 (updRoy ⟨11, 1⟩) := by
  refine ⟨rfl, rfl, ?_, by decide, by decide, by decide⟩
  intro n hn; cases hn


/-! ## The upgrade counter-example (clause 3 across an upgrade from a version below 3.1.0) -/

/-- an sg721-updatable instance standing for a collection created by 3.0.0 code (the harness fabricates it with `setver`) -/
def exOld : Coll := { exColl with kind := .updatable, name := .updatable, ver := (3, 0, 0) }
def exT : Nat := 1000 + 86400 * 10^9
def exUpgradeOps : List Op :=
  [⟨exT, 10, .update (updRoy ⟨11, 7 * 10^16⟩)⟩,      -- accepted: 24 h after the anchor
   ⟨exT + 1, 9, .migrate .updatable true⟩,           -- upgrade 1 ns later: `v3_1_0::upgrade` sets the anchor to now − 24 h
   ⟨exT + 1, 10, .update (updRoy ⟨11, 6 * 10^16⟩)⟩]  -- accepted again, 1 ns after the previous change

/-- **The literal clause "any royalty change is accepted at most once per 24 hours" fails across an upgrade of an instance
whose stored version is below 3.1.0**: a real history (no `setver` in it) with two accepted, observable royalty changes
1 ns apart. Exercised on the real sg721-updatable as a documented OBSERVATION (`corpus/C10/upgrade-rewind.json`): by decision
not a finding — the property quantifies over royalty updates of a collection, not over upgrades from pre-3.1.0 code.
Instances created by the current code are not affected (`C10_no_rewind_reachable`, `C10_cadence`). -/
theorem C10_cadence_upgrade_counterexample :
    NoSetver exUpgradeOps ∧ rewinding (step' exOld exUpgradeOps[0]) exUpgradeOps[1] = true ∧
    acceptedTimes exOld exUpgradeOps = [exT, exT + 1] ∧ changeTimes exOld exUpgradeOps = [exT, exT + 1] ∧
    (run exOld exUpgradeOps).royalty = some ⟨11, 6 * 10^16⟩ := by
  refine ⟨?_, by decide, by decide, by decide, by decide⟩
  intro op hop
  simp [exUpgradeOps] at hop
  rcases hop with rfl | rfl | rfl <;> rfl

/-- the same history on an instance created by the current code: the second change is refused -/
example : acceptedTimes { exOld with ver := curVer .updatable } exUpgradeOps = [exT] := by decide
/-- version boundary of the rewind: 3.0.99 rewinds, 3.1.0 does not -/
example : rewinds { exOld with ver := (3, 0, 99) } .updatable = true ∧ rewinds { exOld with ver := (3, 1, 0) } .updatable = false := by decide
/-- sg721-base → sg721-updatable at the current version is a migration that does not move the anchor -/
example : (step' exColl ⟨exT, 9, .migrate .updatable true⟩).updatedAt = exColl.updatedAt ∧
    (step' exColl ⟨exT, 9, .migrate .updatable true⟩).kind = .updatable := by decide

end LP
