import LaunchpadModel.Lemmas.Royalty
/-!
# C10 — Royalty shares stay bounded and can only creep up slowly

Model: `LP.Royalty` (`Model/Royalty.lean`) — `instantiate`, `update_collection_info` and the other execute
messages of sg721-base, and `CollectionInfoResponse::royalty_payout`. Shares are `Decimal` atomics
(`10^18` = 100 %, so 2 percentage points = `2 * 10^16`, 10 % = `10^17`); times are nanoseconds
(24 h = `86400 * 10^9`). The bounds of the property text appear as **literals** in the statements; the
model reads `MAX_SHARE_DELTA_PCT` / `MAX_ROYALTY_SHARE_PCT` from `Generated/Constants.lean` (regenerated
from contract.rs on every run), so a changed constant breaks the proofs below. The inline `24 * 60 * 60`
and the comparison directions are tied to the code by boundary-exact correspondence cases.

Histories: `run c ops` folds the transactional step (`step'`: a failed message leaves the state unchanged)
over an arbitrary list of operations by arbitrary senders at arbitrary (not even monotone) block times.
-/
namespace LP
open LP.Royalty

/-! ## The constants the theorems are stated with -/

theorem C10_const_delta : MAX_SHARE_DELTA = 2 * 10^16 := by decide
theorem C10_const_max : MAX_ROYALTY_SHARE = 10^17 := by decide
theorem C10_const_one : DEC_ONE = 10^18 := by decide
theorem C10_const_day : DAY_NS = 86400 * 10^9 := by decide

/-! ## Anatomy of one step -/

/-- Every successful message either leaves `(royalty_info, royalty_updated_at)` untouched, or is an
`UpdateCollectionInfo` with `royalty_info: Some(Some r)` that passed the cadence, address, 100 % and raise guards
and stored exactly `r` and the current block time. -/
theorem C10_step_anatomy (c : Coll) (op : Op) (c' : Coll) (h : step c op = .ok c') :
    (c'.royalty = c.royalty ∧ c'.updatedAt = c.updatedAt) ∨
    (∃ m r, op.act = .update m ∧ m.royalty = .set r ∧ c.updatedAt + 86400 * 10^9 ≤ op.now ∧
        addrValid r.addr = true ∧ r.share ≤ 10^18 ∧ raiseOk c.royalty r.share = true ∧
        c'.royalty = some ⟨r.addr, r.share⟩ ∧ c'.updatedAt = op.now) := by
  unfold step at h
  cases hact : op.act with
  | update m =>
    rw [hact] at h
    simp only at h
    rw [update_ok_iff] at h
    obtain ⟨_, h2⟩ := h
    cases hm : m.royalty with
    | set r =>
      rw [hm] at h2
      simp only at h2
      rw [applyRoyalty_ok_iff] at h2
      obtain ⟨ht, ha, hs, hr, he⟩ := h2
      right
      refine ⟨m, r, rfl, hm, ?_, ha, ?_, hr, ?_, ?_⟩
      · rw [← C10_const_day]; exact ht
      · rw [← C10_const_one]; exact hs
      · rw [he]
      · rw [he]
    | keep => rw [hm] at h2; simp only at h2; left; rw [h2]; exact ⟨rfl, rfl⟩
    | clear => rw [hm] at h2; simp only at h2; left; rw [h2]; exact ⟨rfl, rfl⟩
  | freeze =>
    rw [hact] at h
    simp only at h
    split at h
    · cases h
    · cases h; left; exact ⟨rfl, rfl⟩
  | startTrading t ok =>
    rw [hact] at h
    simp only at h
    split at h
    · cases h; left; exact ⟨rfl, rfl⟩
    · cases h
  | other ok =>
    rw [hact] at h
    simp only at h
    split at h
    · cases h; left; exact ⟨rfl, rfl⟩
    · cases h

theorem step'_eq (c : Coll) (op : Op) : (∃ c', step c op = .ok c' ∧ step' c op = c') ∨ ((∃ e, step c op = .error e) ∧ step' c op = c) := by
  unfold step'
  cases h : step c op with
  | ok c' => left; exact ⟨c', rfl, rfl⟩
  | error e => right; exact ⟨⟨e, rfl⟩, rfl⟩

theorem accepted_iff (c : Coll) (op : Op) :
    acceptedRoyaltyUpdate c op = true ↔ ∃ m r c', op.act = .update m ∧ m.royalty = .set r ∧ step c op = .ok c' := by
  unfold acceptedRoyaltyUpdate
  cases hact : op.act with
  | update m =>
    cases hm : m.royalty with
    | set r =>
      cases hs : step c op with
      | ok c' => simp [hm]
      | error e => simp [hm]
    | keep => simp [hm]
    | clear => simp [hm]
  | freeze => simp
  | startTrading t ok => simp
  | other ok => simp

/-- **Frame.** A message that is not an accepted royalty update — a rejected one, an `UpdateCollectionInfo` without
royalties, a freeze, `UpdateStartTradingTime`, any cw721 / ownership message — changes neither the royalty nor the anchor. -/
theorem C10_frame (c : Coll) (op : Op) (h : acceptedRoyaltyUpdate c op = false) :
    (step' c op).royalty = c.royalty ∧ (step' c op).updatedAt = c.updatedAt := by
  rcases step'_eq c op with ⟨c', hs, he⟩ | ⟨_, he⟩
  · rw [he]
    rcases C10_step_anatomy c op c' hs with hu | ⟨m, r, hact, hm, _⟩
    · exact hu
    · have : acceptedRoyaltyUpdate c op = true := (accepted_iff c op).2 ⟨m, r, c', hact, hm, hs⟩
      rw [this] at h; cases h
  · rw [he]; exact ⟨rfl, rfl⟩

/-- An accepted royalty update happens at least 24 h after the anchor and moves the anchor to the current block time. -/
theorem C10_accepted_spacing (c : Coll) (op : Op) (h : acceptedRoyaltyUpdate c op = true) :
    c.updatedAt + 86400 * 10^9 ≤ op.now ∧ (step' c op).updatedAt = op.now := by
  obtain ⟨m, r, c', hact, hm, hs⟩ := (accepted_iff c op).1 h
  have he : step' c op = c' := by unfold step'; rw [hs]
  rw [he]
  rcases C10_step_anatomy c op c' hs with ⟨_, _⟩ | ⟨m', r', hact', hm', ht, _, _, _, _, hu⟩
  · -- impossible: the update carried `set r`, so the anatomy is the second case; derive it directly
    unfold step at hs
    rw [hact] at hs
    simp only at hs
    rw [update_ok_iff] at hs
    obtain ⟨_, h2⟩ := hs
    rw [hm] at h2
    simp only at h2
    rw [applyRoyalty_ok_iff] at h2
    obtain ⟨ht, _, _, _, he'⟩ := h2
    refine ⟨?_, by rw [he']⟩
    rw [← C10_const_day]; exact ht
  · exact ⟨ht, hu⟩

/-! ## Clause 1 — "A collection's royalty share is never above 100%, at creation or after any update." -/

def ShareOk (c : Coll) : Prop := ∀ r, c.royalty = some r → r.share ≤ 10^18

/-- at creation -/
theorem C10_inst_share_le_one (now : Nat) (m : InstMsg) (c : Coll) (h : instantiate now m = .ok c) : ShareOk c := by
  rw [instantiate_ok_iff] at h
  obtain ⟨_, _, _, _, _, _, hr, _, he⟩ := h
  intro r hcr
  rw [he] at hcr
  have := (hr r hcr).2
  rw [C10_const_one] at this
  exact this

/-- a share above 100 % is refused at creation -/
theorem C10_inst_above_one_rejected (now : Nat) (m : InstMsg) (r : RoyaltyInfo) (hr : m.royalty = some r)
    (hgt : 10^18 < r.share) : ∀ c, instantiate now m ≠ .ok c := by
  intro c h
  rw [instantiate_ok_iff] at h
  have := (h.2.2.2.2.2.2.1 r hr).2
  rw [C10_const_one] at this
  omega

/-- one step preserves the bound -/
theorem C10_step_share_le_one (c : Coll) (op : Op) (h : ShareOk c) : ShareOk (step' c op) := by
  rcases step'_eq c op with ⟨c', hs, he⟩ | ⟨_, he⟩
  · rw [he]
    rcases C10_step_anatomy c op c' hs with ⟨hu, _⟩ | ⟨m, r, _, _, _, _, hle, _, hroy, _⟩
    · intro r hr; rw [hu] at hr; exact h r hr
    · intro r' hr'; rw [hroy] at hr'; cases hr'; exact hle
  · rw [he]; exact h

theorem run_cons (c : Coll) (op : Op) (ops : List Op) : run c (op :: ops) = run (step' c op) ops := rfl
theorem run_nil (c : Coll) : run c [] = c := rfl

theorem C10_run_share_le_one (c : Coll) (ops : List Op) (h : ShareOk c) : ShareOk (run c ops) := by
  induction ops generalizing c with
  | nil => exact h
  | cons op ops ih => rw [run_cons]; exact ih _ (C10_step_share_le_one c op h)

/-- **Clause 1, all histories**: for every instantiate message, every block time and every finite sequence of
messages (any senders, any arguments, any times), the stored share is at most `10^18` atomics = 100 %. -/
theorem C10_share_le_one (now : Nat) (m : InstMsg) (c : Coll) (ops : List Op) (h : instantiate now m = .ok c) :
    ∀ r, (run c ops).royalty = some r → r.share ≤ 10^18 :=
  C10_run_share_le_one c ops (C10_inst_share_le_one now m c h)

/-- a share above 100 % is refused by every update, whatever the state -/
theorem C10_update_above_one_rejected (c : Coll) (now : Nat) (sender : Addr) (m : UpdMsg) (r : RoyaltyInfo)
    (hm : m.royalty = .set r) (hgt : 10^18 < r.share) : ∀ c', updateCollectionInfo c now sender m ≠ .ok c' := by
  intro c' h
  rw [update_ok_iff, hm] at h
  simp only at h
  rw [applyRoyalty_ok_iff, C10_const_one] at h
  omega

/-! ## Clause 2 — "When a collection already has royalties, an update that raises the share raises it by at most
2 percentage points and to at most 10%" -/

theorem C10_raise_bounded (c : Coll) (op : Op) (c' : Coll) (o n : RoyaltyInfo)
    (h : step c op = .ok c') (ho : c.royalty = some o) (hn : c'.royalty = some n) (hlt : o.share < n.share) :
    n.share - o.share ≤ 2 * 10^16 ∧ n.share ≤ 10^17 := by
  rcases C10_step_anatomy c op c' h with ⟨hu, _⟩ | ⟨m, r, _, _, _, _, _, hr, hroy, _⟩
  · rw [hu, ho] at hn; cases hn; omega
  · rw [hroy] at hn; cases hn
    have := (raiseOk_iff c.royalty r.share).1 hr o ho hlt
    rw [C10_const_delta, C10_const_max] at this
    exact this

/-- royalties, once present, are never removed (`royalty_info: null` is a no-op) -/
theorem C10_royalty_stays (c : Coll) (op : Op) (o : RoyaltyInfo) (ho : c.royalty = some o) :
    ∃ n, (step' c op).royalty = some n := by
  rcases step'_eq c op with ⟨c', hs, he⟩ | ⟨_, he⟩
  · rw [he]
    rcases C10_step_anatomy c op c' hs with ⟨hu, _⟩ | ⟨m, r, _, _, _, _, _, _, hroy, _⟩
    · exact ⟨o, by rw [hu, ho]⟩
    · exact ⟨_, hroy⟩
  · rw [he]; exact ⟨o, ho⟩

/-! ## Clause 3 — "any royalty change is accepted at most once per 24 hours" -/

/-- a royalty update less than 24 h after the anchor (creation / previous accepted update) is refused -/
theorem C10_too_soon_rejected (c : Coll) (now : Nat) (sender : Addr) (m : UpdMsg) (r : RoyaltyInfo)
    (hm : m.royalty = .set r) (hsoon : now < c.updatedAt + 86400 * 10^9) : ∀ c', updateCollectionInfo c now sender m ≠ .ok c' := by
  intro c' h
  rw [update_ok_iff, hm] at h
  simp only at h
  rw [applyRoyalty_ok_iff, C10_const_day] at h
  have : (applyFields c m).updatedAt = c.updatedAt := rfl
  omega

/-- whenever a successful message changes the royalty (or the anchor), it is a royalty update at least 24 h after the anchor -/
theorem C10_change_needs_cadence (c : Coll) (op : Op) (c' : Coll) (h : step c op = .ok c')
    (hch : c'.royalty ≠ c.royalty ∨ c'.updatedAt ≠ c.updatedAt) :
    c.updatedAt + 86400 * 10^9 ≤ op.now ∧ c'.updatedAt = op.now ∧ acceptedRoyaltyUpdate c op = true := by
  rcases C10_step_anatomy c op c' h with ⟨hu, hu2⟩ | ⟨m, r, hact, hm, ht, _, _, _, _, hup⟩
  · rcases hch with h1 | h1
    · exact absurd hu h1
    · exact absurd hu2 h1
  · exact ⟨ht, hup, (accepted_iff c op).2 ⟨m, r, c', hact, hm, h⟩⟩

/-- consecutive accepted times are at least 24 h apart, the first one at least 24 h after `anchor` -/
def Spaced : Nat → List Nat → Prop
  | _, [] => True
  | anchor, t :: ts => anchor + 86400 * 10^9 ≤ t ∧ Spaced t ts

/-- **Clause 3, all histories**: in every history the block times of the accepted royalty updates are spaced by
at least 24 h, starting 24 h after the anchor of the initial state. -/
theorem C10_cadence_from (c : Coll) (ops : List Op) : Spaced c.updatedAt (acceptedTimes c ops) := by
  induction ops generalizing c with
  | nil => exact trivial
  | cons op ops ih =>
    unfold acceptedTimes
    by_cases ha : acceptedRoyaltyUpdate c op = true
    · rw [if_pos ha]
      obtain ⟨ht, hu⟩ := C10_accepted_spacing c op ha
      refine ⟨ht, ?_⟩
      have := ih (step' c op)
      rw [hu] at this
      exact this
    · rw [if_neg ha]
      have hf := (C10_frame c op (by simpa using ha)).2
      have := ih (step' c op)
      rw [hf] at this
      exact this

/-- … for a collection created at block time `t0`: the first accepted royalty change is at least 24 h after creation -/
theorem C10_cadence (t0 : Nat) (m : InstMsg) (c : Coll) (ops : List Op) (h : instantiate t0 m = .ok c) :
    Spaced t0 (acceptedTimes c ops) := by
  have hu : c.updatedAt = t0 := by
    rw [instantiate_ok_iff] at h
    rw [h.2.2.2.2.2.2.2.2]
  have := C10_cadence_from c ops
  rw [hu] at this
  exact this

theorem Spaced_lower (a b : Nat) (l : List Nat) (hab : a ≤ b) (h : Spaced b l) : Spaced a l := by
  cases l with
  | nil => exact trivial
  | cons t ts => exact ⟨by have := h.1; omega, h.2⟩

/-- `Spaced` gives the pairwise statement: *any* two accepted royalty changes (not only consecutive ones) are ≥ 24 h apart -/
theorem C10_spaced_pairwise (a : Nat) (l : List Nat) (h : Spaced a l) :
    (a :: l).Pairwise (fun x y => x + 86400 * 10^9 ≤ y) := by
  induction l generalizing a with
  | nil => simp
  | cons t ts ih =>
    obtain ⟨h1, h2⟩ := h
    have iht := ih t h2
    rw [List.pairwise_cons] at iht ⊢
    refine ⟨?_, ?_⟩
    · intro y hy
      rcases List.mem_cons.1 hy with rfl | hy
      · exact h1
      · have := iht.1 y hy; omega
    · rw [List.pairwise_cons]; exact iht

/-- every change of the stored royalty in a history is one of the accepted updates: between them it is constant -/
theorem C10_no_silent_change (c : Coll) (op : Op) (h : (step' c op).royalty ≠ c.royalty) :
    acceptedRoyaltyUpdate c op = true := by
  cases ha : acceptedRoyaltyUpdate c op with
  | true => rfl
  | false => exact absurd (C10_frame c op ha).1 h

/-- block times at which the stored royalty *observably changed* in a history -/
def changeTimes : Coll → List Op → List Nat
  | _, [] => []
  | c, op :: ops =>
    if (step' c op).royalty ≠ c.royalty then op.now :: changeTimes (step' c op) ops
    else changeTimes (step' c op) ops

theorem changeTimes_sublist (c : Coll) (ops : List Op) : (changeTimes c ops).Sublist (acceptedTimes c ops) := by
  induction ops generalizing c with
  | nil => exact List.Sublist.slnil
  | cons op ops ih =>
    unfold changeTimes acceptedTimes
    by_cases hch : (step' c op).royalty ≠ c.royalty
    · rw [if_pos hch, if_pos (C10_no_silent_change c op hch)]
      exact List.Sublist.cons_cons _ (ih _)
    · rw [if_neg hch]
      by_cases ha : acceptedRoyaltyUpdate c op = true
      · rw [if_pos ha]; exact List.Sublist.cons _ (ih _)
      · rw [if_neg ha]; exact ih _

/-- **Clause 3 in one sentence**: for a collection created at `t0`, over every history, the creation time and the times
at which the royalty observably changed are pairwise at least 24 h apart (in order). -/
theorem C10_changes_24h_apart (t0 : Nat) (m : InstMsg) (c : Coll) (ops : List Op) (h : instantiate t0 m = .ok c) :
    (t0 :: changeTimes c ops).Pairwise (fun x y => x + 86400 * 10^9 ≤ y) := by
  have hp := C10_spaced_pairwise t0 _ (C10_cadence t0 m c ops h)
  exact hp.sublist (List.Sublist.cons_cons _ (changeTimes_sublist c ops))

/-! ## Clause 4 — "lowering is always allowed within that cadence" -/

/-- Full decision logic of `UpdateCollectionInfo` with a royalty: accepted **iff** the collection info is not frozen,
the sender is the creator, the other fields are valid, 24 h have passed, the payment address is valid, the share is
≤ 100 %, and — only when royalties exist and the share goes up — the raise is ≤ 2 points and the result ≤ 10 %. -/
theorem C10_update_ok_iff (c : Coll) (now : Nat) (sender : Addr) (m : UpdMsg) (r : RoyaltyInfo) (hm : m.royalty = .set r) :
    (∃ c', updateCollectionInfo c now sender m = .ok c') ↔
      fieldsOk c sender m ∧ c.updatedAt + 86400 * 10^9 ≤ now ∧ addrValid r.addr = true ∧ r.share ≤ 10^18 ∧
      (∀ o, c.royalty = some o → o.share < r.share → r.share - o.share ≤ 2 * 10^16 ∧ r.share ≤ 10^17) := by
  have hu : (applyFields c m).updatedAt = c.updatedAt := rfl
  have hr : (applyFields c m).royalty = c.royalty := rfl
  constructor
  · intro ⟨c', h⟩
    rw [update_ok_iff, hm] at h
    simp only at h
    rw [applyRoyalty_ok_iff, raiseOk_iff, hu, hr, C10_const_day, C10_const_one, C10_const_delta, C10_const_max] at h
    exact ⟨h.1, h.2.1, h.2.2.1, h.2.2.2.1, h.2.2.2.2.1⟩
  · intro ⟨hf, ht, ha, hs, hraise⟩
    refine ⟨{ applyFields c m with royalty := some ⟨r.addr, r.share⟩, updatedAt := now }, ?_⟩
    rw [update_ok_iff, hm]
    simp only
    rw [applyRoyalty_ok_iff, raiseOk_iff, hu, hr, C10_const_day, C10_const_one, C10_const_delta, C10_const_max]
    exact ⟨hf, ht, ha, hs, hraise, rfl⟩

/-- clause 2 as decision logic: a raise of more than 2 points, or to more than 10 %, is refused -/
theorem C10_big_raise_rejected (c : Coll) (now : Nat) (sender : Addr) (m : UpdMsg) (r o : RoyaltyInfo)
    (hm : m.royalty = .set r) (ho : c.royalty = some o) (hlt : o.share < r.share)
    (hbig : 2 * 10^16 < r.share - o.share ∨ 10^17 < r.share) : ∀ c', updateCollectionInfo c now sender m ≠ .ok c' := by
  intro c' h
  have := ((C10_update_ok_iff c now sender m r hm).1 ⟨c', h⟩).2.2.2.2 o ho hlt
  omega

/-- **Clause 4**: lowering (or re-stating) the share is accepted whenever 24 h have passed — for the creator of an
unfrozen collection sending otherwise valid fields and a valid payment address — and is stored exactly. -/
theorem C10_lower_allowed (c : Coll) (now : Nat) (sender : Addr) (m : UpdMsg) (r o : RoyaltyInfo)
    (hinv : ShareOk c) (hf : fieldsOk c sender m) (hm : m.royalty = .set r) (ha : addrValid r.addr = true)
    (ho : c.royalty = some o) (hle : r.share ≤ o.share) (ht : c.updatedAt + 86400 * 10^9 ≤ now) :
    ∃ c', updateCollectionInfo c now sender m = .ok c' ∧ c'.royalty = some ⟨r.addr, r.share⟩ ∧ c'.updatedAt = now := by
  have hs : r.share ≤ 10^18 := Nat.le_trans hle (hinv o ho)
  have hex := (C10_update_ok_iff c now sender m r hm).2
    ⟨hf, ht, ha, hs, by intro o' ho' hlt; rw [ho] at ho'; cases ho'; omega⟩
  obtain ⟨c', hc'⟩ := hex
  refine ⟨c', hc', ?_⟩
  rw [update_ok_iff, hm] at hc'
  simp only at hc'
  rw [applyRoyalty_ok_iff] at hc'
  obtain ⟨_, _, _, _, _, he⟩ := hc'
  rw [he]
  exact ⟨rfl, rfl⟩

/-- stored description / image / link / creator are valid in every reachable state, so a message that carries only the
royalty passes the field guards -/
def WF (c : Coll) : Prop :=
  c.descLen ≤ MAX_DESCRIPTION_LENGTH ∧ urlValid c.image = true ∧ optUrlValid c.link = true

theorem C10_inst_wf (now : Nat) (m : InstMsg) (c : Coll) (h : instantiate now m = .ok c) : WF c := by
  rw [instantiate_ok_iff] at h
  obtain ⟨_, _, _, h4, h5, h6, _, _, he⟩ := h
  rw [he]
  exact ⟨h4, h5, h6⟩

theorem C10_step_wf (c : Coll) (op : Op) (h : WF c) : WF (step' c op) := by
  rcases step'_eq c op with ⟨c', hs, he⟩ | ⟨_, he⟩
  · rw [he]
    unfold step at hs
    cases hact : op.act with
    | update m =>
      rw [hact] at hs
      simp only at hs
      rw [update_ok_iff] at hs
      obtain ⟨⟨_, _, _, hd, hi, hl⟩, h2⟩ := hs
      have hwf : WF (applyFields c m) := ⟨hd, hi, hl⟩
      cases hm : m.royalty with
      | set r =>
        rw [hm] at h2; simp only at h2
        rw [applyRoyalty_ok_iff] at h2
        rw [h2.2.2.2.2]; exact hwf
      | keep => rw [hm] at h2; simp only at h2; rw [h2]; exact hwf
      | clear => rw [hm] at h2; simp only at h2; rw [h2]; exact hwf
    | freeze =>
      rw [hact] at hs; simp only at hs
      split at hs
      · cases hs
      · cases hs; exact h
    | startTrading t ok =>
      rw [hact] at hs; simp only at hs
      split at hs
      · cases hs; exact h
      · cases hs
    | other ok =>
      rw [hact] at hs; simp only at hs
      split at hs
      · cases hs; exact h
      · cases hs
  · rw [he]; exact h

theorem C10_run_wf (c : Coll) (ops : List Op) (h : WF c) : WF (run c ops) := by
  induction ops generalizing c with
  | nil => exact h
  | cons op ops ih => rw [run_cons]; exact ih _ (C10_step_wf c op h)

/-- **Clause 4 on every reachable state**: after any history from any creation, if the info is not frozen and royalties
exist, the current creator can lower the share to any `s ≤ current` (payment address `a` valid) with a message that
carries nothing else, at any time `≥ anchor + 24 h`. -/
theorem C10_lower_allowed_reachable (t0 : Nat) (im : InstMsg) (c0 : Coll) (ops : List Op) (h0 : instantiate t0 im = .ok c0)
    (o : RoyaltyInfo) (a : Addr) (s now : Nat) (e : Option Bool)
    (hnf : (run c0 ops).frozen = false) (ho : (run c0 ops).royalty = some o) (hle : s ≤ o.share)
    (ha : addrValid a = true) (ht : (run c0 ops).updatedAt + 86400 * 10^9 ≤ now) :
    ∃ c', updateCollectionInfo (run c0 ops) now (run c0 ops).creator
            { desc := none, image := none, link := .keep, explicit := e, royalty := .set ⟨a, s⟩, creator := none } = .ok c' ∧
          c'.royalty = some ⟨a, s⟩ ∧ c'.updatedAt = now := by
  have hwf := C10_run_wf c0 ops (C10_inst_wf t0 im c0 h0)
  have hinv := C10_run_share_le_one c0 ops (C10_inst_share_le_one t0 im c0 h0)
  have hf : fieldsOk (run c0 ops) (run c0 ops).creator
      { desc := none, image := none, link := .keep, explicit := e, royalty := .set ⟨a, s⟩, creator := none } := by
    refine ⟨hnf, rfl, ?_, hwf.1, hwf.2.1, hwf.2.2⟩
    intro n hn; cases hn
  exact C10_lower_allowed (run c0 ops) now _ _ ⟨a, s⟩ o hinv hf rfl ha ho hle ht

/-! ## "can only creep up slowly": multi-step climbs -/

/-- one step: the share either does not go up, or goes up by ≤ 2 points to ≤ 10 % (and then it counts as a raise) -/
theorem step'_share (c : Coll) (op : Op) (o : RoyaltyInfo) (ho : c.royalty = some o) :
    ∃ n, (step' c op).royalty = some n ∧
      ((n.share ≤ o.share ∧ isRaise c op = false) ∨
       (o.share < n.share ∧ isRaise c op = true ∧ n.share ≤ o.share + 2 * 10^16 ∧ n.share ≤ 10^17)) := by
  obtain ⟨n, hn⟩ := C10_royalty_stays c op o ho
  refine ⟨n, hn, ?_⟩
  have hir : isRaise c op = decide (o.share < n.share) := by
    unfold isRaise; rw [ho, hn]
  by_cases hlt : o.share < n.share
  · right
    rcases step'_eq c op with ⟨c', hs, he⟩ | ⟨_, he⟩
    · rw [he] at hn
      have := C10_raise_bounded c op c' o n hs ho hn hlt
      exact ⟨hlt, by rw [hir]; simpa using hlt, by omega, this.2⟩
    · rw [he, ho] at hn; cases hn; omega
  · left
    exact ⟨by omega, by rw [hir]; simpa using hlt⟩

/-- **Climb bound, all histories**: starting with share `s₀`, after any history with `k` accepted raises the share is
at most `s₀ + k · 2 %` and at most `max(s₀, 10 %)` — repeated small raises can never pass 10 %. -/
theorem C10_climb (c : Coll) (ops : List Op) (o : RoyaltyInfo) (ho : c.royalty = some o) :
    ∃ n, (run c ops).royalty = some n ∧ n.share ≤ o.share + 2 * 10^16 * raises c ops ∧ n.share ≤ max o.share (10^17) := by
  induction ops generalizing c o with
  | nil => exact ⟨o, ho, by simp [raises], by omega⟩
  | cons op ops ih =>
    obtain ⟨n1, hn1, hcase⟩ := step'_share c op o ho
    obtain ⟨n, hn, hb1, hb2⟩ := ih (step' c op) n1 hn1
    refine ⟨n, by rw [run_cons]; exact hn, ?_, ?_⟩
    · unfold raises
      rcases hcase with ⟨hle, hr⟩ | ⟨_, hr, hle, _⟩
      · rw [hr]; simp only [Bool.false_eq_true, if_false]; omega
      · rw [hr]; simp only [if_true]; omega
    · rcases hcase with ⟨hle, _⟩ | ⟨_, _, _, hle⟩ <;> omega

/-- a share that starts at or below 10 % stays at or below 10 % for ever -/
theorem C10_never_above_ten (c : Coll) (ops : List Op) (o : RoyaltyInfo) (ho : c.royalty = some o) (h10 : o.share ≤ 10^17) :
    ∀ n, (run c ops).royalty = some n → n.share ≤ 10^17 := by
  intro n hn
  obtain ⟨n', hn', _, hb⟩ := C10_climb c ops o ho
  rw [hn] at hn'; cases hn'; omega

/-- every raise is an accepted royalty update … -/
theorem raise_accepted (c : Coll) (op : Op) (h : isRaise c op = true) : acceptedRoyaltyUpdate c op = true := by
  apply C10_no_silent_change
  intro heq
  unfold isRaise at h
  rw [heq] at h
  cases hr : c.royalty with
  | none => rw [hr] at h; simp at h
  | some o => rw [hr] at h; simp at h

theorem raises_le_accepted (c : Coll) (ops : List Op) : raises c ops ≤ (acceptedTimes c ops).length := by
  induction ops generalizing c with
  | nil => exact Nat.le_refl 0
  | cons op ops ih =>
    unfold raises acceptedTimes
    have := ih (step' c op)
    by_cases hr : isRaise c op = true
    · rw [if_pos hr, if_pos (raise_accepted c op hr), List.length_cons]; omega
    · rw [if_neg hr]
      by_cases ha : acceptedRoyaltyUpdate c op = true
      · rw [if_pos ha, List.length_cons]; omega
      · rw [if_neg ha]; omega

/-- … and each accepted update pushes the anchor at least 24 h forward -/
theorem anchor_advance (c : Coll) (ops : List Op) :
    c.updatedAt + 86400 * 10^9 * (acceptedTimes c ops).length ≤ (run c ops).updatedAt := by
  induction ops generalizing c with
  | nil => simp [acceptedTimes, run_nil]
  | cons op ops ih =>
    unfold acceptedTimes
    rw [run_cons]
    have := ih (step' c op)
    by_cases ha : acceptedRoyaltyUpdate c op = true
    · rw [if_pos ha]
      obtain ⟨ht, hu⟩ := C10_accepted_spacing c op ha
      rw [hu] at this
      simp only [List.length_cons]
      rw [Nat.mul_add, Nat.mul_one]
      generalize 86400 * 10^9 = D at *
      generalize D * (acceptedTimes (step' c op) ops).length = X at *
      omega
    · rw [if_neg ha]
      rw [(C10_frame c op (by simpa using ha)).2] at this
      exact this

/-- **Creep rate, all histories**: the share can rise by at most 2 percentage points per full 24 h by which the
cadence anchor (`royalty_updated_at`) has moved: `share ≤ s₀ + 2 % · ⌊(anchor_now − anchor_then) / 24 h⌋`. -/
theorem C10_creep_rate (c : Coll) (ops : List Op) (o : RoyaltyInfo) (ho : c.royalty = some o) :
    ∃ n, (run c ops).royalty = some n ∧
      n.share ≤ o.share + 2 * 10^16 * (((run c ops).updatedAt - c.updatedAt) / (86400 * 10^9)) := by
  obtain ⟨n, hn, hb, _⟩ := C10_climb c ops o ho
  refine ⟨n, hn, ?_⟩
  have h1 := raises_le_accepted c ops
  have h2 := anchor_advance c ops
  have h3 : (acceptedTimes c ops).length ≤ ((run c ops).updatedAt - c.updatedAt) / (86400 * 10^9) := by
    rw [Nat.le_div_iff_mul_le (by decide)]
    rw [Nat.mul_comm]
    omega
  have h4 : 2 * 10^16 * raises c ops ≤ 2 * 10^16 * (((run c ops).updatedAt - c.updatedAt) / (86400 * 10^9)) :=
    Nat.mul_le_mul_left _ (Nat.le_trans h1 h3)
  omega

/-! ## Clause 5 — the payout helper -/

/-- "pays nothing for … absent royalties" -/
theorem C10_payout_absent (payment fee : Nat) (finders : Option Nat) :
    royaltyPayout none payment fee finders = .ok (0, []) := rfl

/-- "pays nothing for a zero share" -/
theorem C10_payout_zero_share (a : Addr) (payment fee : Nat) (finders : Option Nat) :
    royaltyPayout (some ⟨a, 0⟩) payment fee finders = .ok (0, []) := rfl

/-- "pays floor(payment x share) to the royalty address" -/
theorem C10_payout_pays_floor (r : RoyaltyInfo) (payment fee : Nat) (finders : Option Nat) (hnz : r.share ≠ 0)
    (hfit : fee + finders.getD 0 + payment * r.share / 10^18 ≤ payment) :
    royaltyPayout (some r) payment fee finders =
      .ok (payment * r.share / 10^18, [Msg.send r.addr ⟨NATIVE, payment * r.share / 10^18⟩]) := by
  unfold royaltyPayout mulFloor
  simp only [hnz, if_false]
  have : ¬ payment < fee + finders.getD 0 + payment * r.share / 10^18 := by omega
  simp only [this, if_false]

/-- "refuses when fees plus royalty exceed the payment" -/
theorem C10_payout_refuses (r : RoyaltyInfo) (payment fee : Nat) (finders : Option Nat) (hnz : r.share ≠ 0)
    (hex : payment < fee + finders.getD 0 + payment * r.share / 10^18) :
    royaltyPayout (some r) payment fee finders = .error .other := by
  unfold royaltyPayout mulFloor
  simp only [hnz, if_false, hex, if_true]

/-- complete case analysis of the helper -/
theorem C10_payout_spec (info : Option RoyaltyInfo) (payment fee : Nat) (finders : Option Nat) :
    royaltyPayout info payment fee finders =
      match info with
      | none => .ok (0, [])
      | some r =>
        if r.share = 0 then .ok (0, [])
        else if payment < fee + finders.getD 0 + payment * r.share / 10^18 then .error .other
        else .ok (payment * r.share / 10^18, [Msg.send r.addr ⟨NATIVE, payment * r.share / 10^18⟩]) := by
  unfold royaltyPayout mulFloor
  cases info <;> rfl

/-- whatever is sent is exactly what is returned; and when something is charged (non-zero share), royalty plus fees fit
into the payment -/
theorem C10_payout_conserves (r : RoyaltyInfo) (payment fee : Nat) (finders : Option Nat) (amt : Nat) (ms : List Msg)
    (h : royaltyPayout (some r) payment fee finders = .ok (amt, ms)) :
    sumAmounts ms = amt ∧ (r.share ≠ 0 → amt + fee + finders.getD 0 ≤ payment) := by
  rw [C10_payout_spec] at h
  simp only at h
  split at h
  · rename_i hz
    cases h
    exact ⟨rfl, fun hnz => absurd hz hnz⟩
  · split at h
    · cases h
    · cases h
      refine ⟨by simp [sumAmounts, Msg.amount], fun _ => by omega⟩

/-- with a share ≤ 100 % (clause 1) the royalty never exceeds the payment -/
theorem C10_floor_le (payment share : Nat) (h : share ≤ 10^18) : payment * share / 10^18 ≤ payment := by
  apply Nat.div_le_of_le_mul
  rw [Nat.mul_comm (10^18)]
  exact Nat.mul_le_mul_left _ h

/-! ## Non-vacuity: the hypotheses above are satisfiable, the bounds are tight -/

deriving instance DecidableEq for Except

def exInst : InstMsg :=
  { senderIsContract := true, funds := 0, minter := 1000, creator := 10, descLen := 3, image := 2, link := none,
    explicit := none, startTrading := none, royalty := some ⟨11, 8 * 10^16⟩ }
def exColl : Coll :=
  { creator := 10, descLen := 3, image := 2, link := none, explicit := none, startTrading := none,
    royalty := some ⟨11, 8 * 10^16⟩, frozen := false, updatedAt := 1000 }
def updRoy (r : RoyaltyInfo) : UpdMsg :=
  { desc := none, image := none, link := .keep, explicit := none, royalty := .set r, creator := none }

example : instantiate 1000 exInst = .ok exColl := by decide
/-- exactly 24 h after creation a raise by exactly 2 points to exactly 10 % is accepted … -/
example : updateCollectionInfo exColl (1000 + 86400 * 10^9) 10 (updRoy ⟨11, 10^17⟩) =
    .ok { exColl with royalty := some ⟨11, 10^17⟩, updatedAt := 1000 + 86400 * 10^9 } := by decide
/-- … one nanosecond earlier it is not, nor is one atomic more -/
example : updateCollectionInfo exColl (1000 + 86400 * 10^9 - 1) 10 (updRoy ⟨11, 10^17⟩) = .error .tooSoon := by decide
example : updateCollectionInfo exColl (1000 + 86400 * 10^9) 10 (updRoy ⟨11, 10^17 + 1⟩) = .error .invalid := by decide
/-- a collection without royalties may set any share up to 100 % (the property only constrains raises of existing royalties) -/
example : (updateCollectionInfo { exColl with royalty := none } (1000 + 86400 * 10^9) 10 (updRoy ⟨11, 10^18⟩)).toBool = true := by decide
example : acceptedTimes exColl [⟨1000 + 86400 * 10^9, 10, .update (updRoy ⟨11, 10^17⟩)⟩, ⟨1000 + 86400 * 10^9, 10, .update (updRoy ⟨11, 1⟩)⟩,
    ⟨1000 + 2 * 86400 * 10^9, 10, .update (updRoy ⟨11, 1⟩)⟩] = [1000 + 86400 * 10^9, 1000 + 2 * 86400 * 10^9] := by decide
example : royaltyPayout (some ⟨11, 5 * 10^16⟩) 1000000007 20000000 (some 3) = .ok (50000000, [Msg.send 11 ⟨NATIVE, 50000000⟩]) := by decide
example : royaltyPayout (some ⟨11, 5 * 10^16⟩) 100 95 (some 1) = .error .other := by decide
example : fieldsOk exColl 10 (updRoy ⟨11, 1⟩) := by
  refine ⟨rfl, rfl, ?_, by decide, by decide, by decide⟩
  intro n hn; cases hn

end LP
