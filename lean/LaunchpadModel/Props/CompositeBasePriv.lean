import LaunchpadModel.Lemmas.BaseFull
import LaunchpadModel.Props.C05
/-!
# Refinement: the composite base-family model `LP.BF` refines the base-factory / base-minter rows of the C05 aspect model `LP.Priv`

(A module of its own: `./check C05` audits all `extra_props` of C05 together with the collection and whitelist composites.)

Projection `BF.privOf` (the authorisation-relevant state: the collection's live creator, cw_ownable owner / pending owner, frozen
flag, the minter's status flags packed into a number; base-minter has no admin of its own: `minterAdmin` = the creator named at
creation, a constant).  Translation `BF.privOp`: each composite message ↦ the `Priv.Op` of its (contract kind, message kind) row
with the witness `w := accepted s op` (the composite's own verdict on all non-authorisation preconditions).  The simulation is
FUNCTIONAL for every message: `privOf (step' s op) m' = Priv.step' (privOf s m) (privOp s m op)` — in particular every message
the composite accepts is authorised by the privilege table, and the hand-over messages (`update_collection_info {creator}`,
`freeze_collection_info`, cw_ownable transfer / accept / renounce) move the principals exactly as the aspect model says.
Factory params are not part of the projection (`params := 0`): "params change only through sudo / migrate" is proved on the
composite directly (`C05_fullbase_sudo_only`).
-/
namespace LP
open LP.BF

namespace BF

def statusBits (st : VF.Status) : Nat :=
  (if st.verified then 1 else 0) + (if st.blocked then 2 else 0) + (if st.explicit then 4 else 0)

def privOf (s : State) (m : Minter) : Priv.AuthState :=
  { now := s.now, minterAdmin := m.collAdmin, collOwner := m.tt.owner, collPending := m.tt.pending,
    collPendingExpiry := none, creator := m.tt.creator, collFrozen := m.tt.frozen, wlAdmins := [], wlMutable := false,
    splitsAdmin := none, members := [], groupAdmin := none, mergeSources := [], params := 0,
    status := statusBits m.status }

def privKind : TT.CollKind → Priv.CollKind
  | .base => .base | .updatable => .updatable | .nt => .nt | .metadata => .metadataOnchain

/-- composite message ↦ the aspect op of its row, witness = the composite's own verdict -/
def privOp (s : State) (m : Minter) (op : Op) : Priv.Op :=
  let w := accepted s op
  match op with
  | .setTime t => .tick (if w then t else s.now)
  | .create sender _ _ _ => .exec ⟨sender, false⟩ (.factory .base) .createMinter {} w
  | .instantiateDirect sender => .inst ⟨sender, false⟩ (.minter .base) w
  | .mint sender _ _ _ => .exec ⟨sender, false⟩ (.minter .base) .mint {} w
  | .updateStartTradingTime sender _ _ => .exec ⟨sender, false⟩ (.minter .base) .updateStartTradingTime {} w
  | .foreign sender => .exec ⟨sender, false⟩ (.minter .base) .other {} w
  | .sudoStatus v b e => .sudo (.minter .base) .updateStatus (statusBits ⟨v, b, e⟩) w
  | .collTransfer sender _ _ => .exec ⟨sender, false⟩ (.collection (privKind m.v.coll)) .transferNft {} w
  | .collBurn sender _ => .exec ⟨sender, false⟩ (.collection (privKind m.v.coll)) .burn {} w
  | .collTrading sender _ => .exec ⟨sender, false⟩ (.collection (privKind m.tt.kind)) .updateStartTradingTime {} w
  | .collCreator sender new =>
    .exec ⟨sender, false⟩ (.collection (privKind m.tt.kind)) .updateCollectionInfo { newCreator := some new } w
  | .collFreeze sender => .exec ⟨sender, false⟩ (.collection (privKind m.tt.kind)) .freezeCollectionInfo {} w
  | .collOwn sender (.transfer new) =>
    .exec ⟨sender, false⟩ (.collection (privKind m.tt.kind)) .transferOwnership { newOwner := new } w
  | .collOwn sender .accept => .exec ⟨sender, false⟩ (.collection (privKind m.tt.kind)) .acceptOwnership {} w
  | .collOwn sender .renounce => .exec ⟨sender, false⟩ (.collection (privKind m.tt.kind)) .renounceOwnership {} w
  -- coin creation and governance of the factory params: outside the authorisation state
  | .fund _ _ => .tick s.now
  | .sudoParams _ => .tick s.now
  | .migrate _ _ => .tick s.now

theorem priv_tick_now (s : State) (m : Minter) : Priv.step' (privOf s m) (.tick s.now) = privOf s m := rfl

theorem priv_exec_false (p : Priv.AuthState) (c : Priv.Caller) (k : Priv.Kind) (mk : Priv.MsgKind) (a : Priv.Args)
    (h : Priv.effect p k mk a false = none ∨ Priv.authorised p c (Priv.principal k mk) = false) :
    Priv.step' p (.exec c k mk a false) = p := by
  unfold Priv.step'
  simp only [Priv.step]
  rcases h with h | h
  · split <;> simp [h]
  · simp [h]

/-- the rows whose effect is "something outside the authorisation state": accepted ⇒ authorised ⇒ the state stays -/
theorem priv_exec_plain (p : Priv.AuthState) (c : Priv.Caller) (k : Priv.Kind) (mk : Priv.MsgKind) (a : Priv.Args) (w : Bool)
    (heff : ∀ w', Priv.effect p k mk a w' = if w' then some p else none)
    (hauth : w = true → Priv.authorised p c (Priv.principal k mk) = true) :
    Priv.step' p (.exec c k mk a w) = p := by
  unfold Priv.step'
  simp only [Priv.step]
  cases w with
  | false => split <;> simp [heff]
  | true => simp [hauth rfl, heff]

theorem priv_exec_auth (p : Priv.AuthState) (c : Priv.Caller) (k : Priv.Kind) (mk : Priv.MsgKind) (a : Priv.Args) (w : Bool)
    (hauth : Priv.authorised p c (Priv.principal k mk) = true) :
    Priv.step' p (.exec c k mk a w) = (Priv.effect p k mk a w).getD p := by
  simp [Priv.step', Priv.step, hauth]

end BF

namespace BF

/-- **functional simulation, every composite message** -/
theorem priv_sim (s : State) (m : Minter) (hm : s.minter = some m) (op : Op) :
    ∃ m', (step' s op).minter = some m' ∧ privOf (step' s op) m' = Priv.step' (privOf s m) (privOp s m op) := by
  rcases step'_cases s op with ⟨s', hok, hs'⟩ | ⟨⟨e, herr⟩, hs'⟩
  · -- accepted
    have hacc := accepted_of_ok hok
    rw [hs']
    cases op with
    | setTime t =>
      simp only [step] at hok; split at hok <;> cases hok
      exact ⟨m, hm, by simp [privOp, hacc, Priv.step', Priv.step, privOf]⟩
    | fund a c => simp only [step] at hok; cases hok; exact ⟨m, hm, rfl⟩
    | sudoParams u =>
      simp only [step] at hok
      obtain ⟨p, _, rfl⟩ := sudoParams_ok hok
      exact ⟨m, hm, rfl⟩
    | migrate a u =>
      simp only [step] at hok
      obtain ⟨_, hc⟩ := migrate_ok hok
      rcases hc with ⟨_, rfl⟩ | ⟨u', _, hs⟩
      · exact ⟨m, hm, rfl⟩
      · obtain ⟨p, _, rfl⟩ := sudoParams_ok hs; exact ⟨m, hm, rfl⟩
    | create sender funds msg w =>
      simp only [step] at hok
      obtain ⟨_, _, _, _, hnone, _⟩ := createMinter_ok hok
      rw [hm] at hnone; cases hnone
    | instantiateDirect sender => simp [step] at hok
    | foreign sender => simp [step] at hok
    | mint sender funds uri uriOk =>
      simp only [step] at hok
      obtain ⟨m0, hm0, hmint⟩ := withMinterS_ok hok
      rw [hm] at hm0; cases hm0
      obtain ⟨_, _, _, _, _, hcr, _, _, _, _, _, _, rfl⟩ := mint_ok hmint
      refine ⟨_, rfl, ?_⟩
      simp only [privOp, hacc]
      rw [priv_exec_plain _ _ _ _ _ _ (fun w' => rfl) (fun _ => by simp [Priv.principal, Priv.minterPrincipal, Priv.MinterKind.family, Priv.authorised, privOf, hcr])]
      rfl
    | updateStartTradingTime sender funds t =>
      simp only [step] at hok
      obtain ⟨m0, m', hm0, hf, rfl⟩ := withMinter_ok hok
      rw [hm] at hm0; cases hm0
      obtain ⟨c, _, hcr, _, hc, rfl⟩ := updateStartTradingTime_ok hf
      refine ⟨_, rfl, ?_⟩
      simp only [privOp, hacc]
      rw [priv_exec_plain _ _ _ _ _ _ (fun w' => rfl) (fun _ => by simp [Priv.principal, Priv.minterPrincipal, Priv.MinterKind.family, Priv.authorised, privOf, hcr])]
      simp only [TT.Coll.updateTrading] at hc
      repeat' split at hc
      all_goals first | (cases hc; done) | (cases hc; rfl)
    | sudoStatus v b e =>
      simp only [step] at hok
      obtain ⟨m0, m', hm0, hf, rfl⟩ := withMinter_ok hok
      rw [hm] at hm0; cases hm0
      cases hf
      exact ⟨_, rfl, by simp [privOp, hacc, Priv.step', Priv.step, privOf]⟩
    | collTransfer sender id to =>
      simp only [step] at hok
      obtain ⟨m0, m', hm0, hf, rfl⟩ := withMinter_ok hok
      rw [hm] at hm0; cases hm0
      obtain ⟨c, hnt, _, _, rfl⟩ := collTransfer_ok hf
      refine ⟨_, rfl, ?_⟩
      simp only [privOp, hacc]
      rw [priv_exec_plain _ _ _ _ _ _ (fun w' => rfl) (fun _ => by
        cases hk : m.v.coll <;> simp_all [privKind, Priv.principal, Priv.collPrincipal, Priv.authorised])]
      rfl
    | collBurn sender id =>
      simp only [step] at hok
      obtain ⟨m0, m', hm0, hf, rfl⟩ := withMinter_ok hok
      rw [hm] at hm0; cases hm0
      obtain ⟨c, _, _, rfl⟩ := collBurn_ok hf
      refine ⟨_, rfl, ?_⟩
      simp only [privOp, hacc]
      rw [priv_exec_plain _ _ _ _ _ _ (fun w' => rfl) (fun _ => by
        cases hk : m.v.coll <;> simp [privKind, Priv.principal, Priv.collPrincipal, Priv.authorised])]
      rfl
    | collTrading sender t =>
      simp only [step] at hok
      obtain ⟨m0, c, hm0, hc, rfl⟩ := onColl_ok hok
      rw [hm] at hm0; cases hm0
      refine ⟨_, rfl, ?_⟩
      simp only [TT.Coll.updateTrading] at hc
      split at hc
      · cases hc
      · rename_i hk
        split at hc
        · rename_i ho
          cases hc
          simp only [privOp, hacc]
          rw [priv_exec_plain _ _ _ _ _ _ (fun w' => rfl) (fun _ => by
            cases hkk : m.tt.kind <;> simp_all [privKind, Priv.principal, Priv.collPrincipal, Priv.authorised, privOf,
              TT.CollKind.hasTradingMsg])]
          rfl
        · cases hc
    | collCreator sender new =>
      simp only [step] at hok
      obtain ⟨m0, c, hm0, hc, rfl⟩ := onColl_ok hok
      rw [hm] at hm0; cases hm0
      refine ⟨_, rfl, ?_⟩
      simp only [TT.Coll.updateCreator] at hc
      split at hc
      · cases hc
      · rename_i hfr
        split at hc
        · rename_i hcr
          cases hc
          have hauth : Priv.authorised (privOf s m) ⟨sender, false⟩
              (Priv.principal (.collection (privKind m.tt.kind)) .updateCollectionInfo) = true := by
            cases hkk : m.tt.kind <;> simp [privKind, Priv.principal, Priv.collPrincipal, Priv.authorised, privOf, hcr]
          have hfr' : m.tt.frozen = false := by simpa using hfr
          simp only [privOp, hacc]
          rw [priv_exec_auth _ _ _ _ _ _ hauth]
          simp [Priv.effect, privOf, hfr']
        · cases hc
    | collFreeze sender =>
      simp only [step] at hok
      obtain ⟨m0, c, hm0, hc, rfl⟩ := onColl_ok hok
      rw [hm] at hm0; cases hm0
      refine ⟨_, rfl, ?_⟩
      simp only [TT.Coll.freeze] at hc
      split at hc
      · rename_i hcr
        cases hc
        have hauth : Priv.authorised (privOf s m) ⟨sender, false⟩
            (Priv.principal (.collection (privKind m.tt.kind)) .freezeCollectionInfo) = true := by
          cases hkk : m.tt.kind <;> simp [privKind, Priv.principal, Priv.collPrincipal, Priv.authorised, privOf, hcr]
        simp only [privOp, hacc]
        rw [priv_exec_auth _ _ _ _ _ _ hauth]
        simp [Priv.effect, privOf]
      · cases hc
    | collOwn sender a =>
      simp only [step] at hok
      obtain ⟨m0, c, hm0, hc, rfl⟩ := onColl_ok hok
      rw [hm] at hm0; cases hm0
      refine ⟨_, rfl, ?_⟩
      simp only [TT.Coll.updateOwnership] at hc
      split at hc
      · cases hc
      · rename_i hk
        have hkind : m.tt.kind = .base ∨ m.tt.kind = .metadata := by
          cases hkk : m.tt.kind <;> simp_all [TT.CollKind.hasOwnershipMsg]
        cases a with
        | transfer new =>
          simp only at hc
          split at hc
          · rename_i ho
            cases hc
            have hauth : Priv.authorised (privOf s m) ⟨sender, false⟩
                (Priv.principal (.collection (privKind m.tt.kind)) .transferOwnership) = true := by
              rcases hkind with hkk | hkk <;> simp [hkk, privKind, Priv.principal, Priv.collPrincipal, Priv.authorised, privOf, ho]
            simp only [privOp, hacc]
            rw [priv_exec_auth _ _ _ _ _ _ hauth]
            simp [Priv.effect, privOf]
          · cases hc
        | accept =>
          simp only at hc
          split at hc
          · rename_i hp
            cases hc
            have hauth : Priv.authorised (privOf s m) ⟨sender, false⟩
                (Priv.principal (.collection (privKind m.tt.kind)) .acceptOwnership) = true := by
              rcases hkind with hkk | hkk <;> simp [hkk, privKind, Priv.principal, Priv.collPrincipal, Priv.authorised, privOf, hp]
            simp only [privOp, hacc]
            rw [priv_exec_auth _ _ _ _ _ _ hauth]
            simp [Priv.effect, privOf, Priv.transferExpired, hp]
          · cases hc
        | renounce =>
          simp only at hc
          split at hc
          · rename_i ho
            cases hc
            have hauth : Priv.authorised (privOf s m) ⟨sender, false⟩
                (Priv.principal (.collection (privKind m.tt.kind)) .renounceOwnership) = true := by
              rcases hkind with hkk | hkk <;> simp [hkk, privKind, Priv.principal, Priv.collPrincipal, Priv.authorised, privOf, ho]
            simp only [privOp, hacc]
            rw [priv_exec_auth _ _ _ _ _ _ hauth]
            simp [Priv.effect, privOf]
          · cases hc
  · -- refused: the witness is `false`, the aspect op is refused too (or is a no-op tick)
    have hacc := accepted_of_err herr
    rw [hs']
    refine ⟨m, hm, ?_⟩
    cases op with
    | setTime t => simp [privOp, hacc, Priv.step', Priv.step, privOf]
    | fund a c => rfl
    | sudoParams u => rfl
    | migrate a u => rfl
    | instantiateDirect sender => simp [privOp, hacc, Priv.step', Priv.step]
    | sudoStatus v b e => simp [privOp, hacc, Priv.step', Priv.step]
    | collCreator sender new =>
      simp only [privOp, hacc]
      symm
      unfold Priv.step'
      simp only [Priv.step]
      split
      · rfl
      · rename_i hauth
        -- authorised but refused by the composite: only a frozen collection does that, and then the aspect model refuses too
        have hcr : sender = m.tt.creator := by
          cases hkk : m.tt.kind <;>
            simp_all [privKind, Priv.principal, Priv.collPrincipal, Priv.authorised, privOf]
        have hfz : m.tt.frozen = true := by
          cases hfz : m.tt.frozen with
          | true => rfl
          | false =>
            exfalso
            have : step s (.collCreator sender new) = .ok { s with minter := some { m with tt := { m.tt with creator := new } } } := by
              simp [step, onColl, withMinter, hm, TT.Coll.updateCreator, hfz, hcr]
            rw [this] at herr; cases herr
        simp [Priv.effect, privOf, hfz]
    | collFreeze sender =>
      simp only [privOp, hacc]
      symm
      unfold Priv.step'
      simp only [Priv.step]
      split
      · rfl
      · rename_i hauth
        exfalso
        have hcr : sender = m.tt.creator := by
          cases hkk : m.tt.kind <;>
            simp_all [privKind, Priv.principal, Priv.collPrincipal, Priv.authorised, privOf]
        have : step s (.collFreeze sender) = .ok { s with minter := some { m with tt := { m.tt with frozen := true } } } := by
          simp [step, onColl, withMinter, hm, TT.Coll.freeze, hcr]
        rw [this] at herr; cases herr
    | collOwn sender a =>
      cases a with
      | transfer new =>
        simp only [privOp, hacc]
        symm
        unfold Priv.step'
        simp only [Priv.step]
        split
        · rfl
        · rename_i hauth
          exfalso
          have hk : m.tt.kind.hasOwnershipMsg = true ∧ m.tt.owner = some sender := by
            cases hkk : m.tt.kind <;>
              simp_all [privKind, Priv.principal, Priv.collPrincipal, Priv.authorised, privOf, TT.CollKind.hasOwnershipMsg]
          have : ∃ x, step s (.collOwn sender (.transfer new)) = .ok x := by
            simp [step, onColl, withMinter, hm, TT.Coll.updateOwnership, hk.1, hk.2]
          obtain ⟨x, hx⟩ := this
          rw [hx] at herr; cases herr
      | accept =>
        simp only [privOp, hacc]
        symm
        unfold Priv.step'
        simp only [Priv.step]
        split
        · rfl
        · rename_i hauth
          exfalso
          have hk : m.tt.kind.hasOwnershipMsg = true ∧ m.tt.pending = some sender := by
            cases hkk : m.tt.kind <;>
              simp_all [privKind, Priv.principal, Priv.collPrincipal, Priv.authorised, privOf, TT.CollKind.hasOwnershipMsg]
          have : ∃ x, step s (.collOwn sender .accept) = .ok x := by
            simp [step, onColl, withMinter, hm, TT.Coll.updateOwnership, hk.1, hk.2]
          obtain ⟨x, hx⟩ := this
          rw [hx] at herr; cases herr
      | renounce =>
        simp only [privOp, hacc]
        symm
        unfold Priv.step'
        simp only [Priv.step]
        split
        · rfl
        · rename_i hauth
          exfalso
          have hk : m.tt.kind.hasOwnershipMsg = true ∧ m.tt.owner = some sender := by
            cases hkk : m.tt.kind <;>
              simp_all [privKind, Priv.principal, Priv.collPrincipal, Priv.authorised, privOf, TT.CollKind.hasOwnershipMsg]
          have : ∃ x, step s (.collOwn sender .renounce) = .ok x := by
            simp [step, onColl, withMinter, hm, TT.Coll.updateOwnership, hk.1, hk.2]
          obtain ⟨x, hx⟩ := this
          rw [hx] at herr; cases herr
    | create sender funds msg w =>
      simp only [privOp, hacc]; symm; exact priv_exec_false _ _ _ _ _ (Or.inl rfl)
    | foreign sender =>
      simp only [privOp, hacc]; symm; exact priv_exec_false _ _ _ _ _ (Or.inl rfl)
    | mint sender funds uri uriOk =>
      simp only [privOp, hacc]; symm; exact priv_exec_false _ _ _ _ _ (Or.inl rfl)
    | updateStartTradingTime sender funds t =>
      simp only [privOp, hacc]; symm; exact priv_exec_false _ _ _ _ _ (Or.inl rfl)
    | collTransfer sender id to =>
      simp only [privOp, hacc]; symm; exact priv_exec_false _ _ _ _ _ (Or.inl rfl)
    | collBurn sender id =>
      simp only [privOp, hacc]; symm; exact priv_exec_false _ _ _ _ _ (Or.inl rfl)
    | collTrading sender t =>
      simp only [privOp, hacc]; symm; exact priv_exec_false _ _ _ _ _ (Or.inl rfl)

def privRunOps (s : State) (m : Minter) : List Op → List Priv.Op
  | [] => []
  | op :: rest => privOp s m op :: privRunOps (step' s op) (((step' s op).minter).getD m) rest

theorem priv_run (s : State) (m : Minter) (hm : s.minter = some m) (ops : List Op) :
    ∃ m', (run s ops).minter = some m' ∧ privOf (run s ops) m' = Priv.run (privOf s m) (privRunOps s m ops) := by
  induction ops generalizing s m with
  | nil => exact ⟨m, hm, rfl⟩
  | cons op ops ih =>
    obtain ⟨m1, hm1, heq⟩ := priv_sim s m hm op
    obtain ⟨m', hm', hrun⟩ := ih (step' s op) m1 hm1
    refine ⟨m', by rw [run_cons]; exact hm', ?_⟩
    rw [run_cons, hrun, heq]
    simp only [privRunOps, hm1, Option.getD_some, Priv.run, List.foldl_cons]

end BF

/-- the C05 simulation for the base composite: one composite step (ANY message) = the aspect op of its privilege-table row, with
the witness computed by the composite — same verdict on authorisation, same movement of the principals -/
theorem C05_fullbase_refines (s : BF.State) (m : BF.Minter) (hm : s.minter = some m) (op : BF.Op) :
    ∃ m', (BF.step' s op).minter = some m' ∧
      BF.privOf (BF.step' s op) m' = Priv.step' (BF.privOf s m) (BF.privOp s m op) :=
  BF.priv_sim s m hm op

theorem C05_fullbase_refines_run (s : BF.State) (m : BF.Minter) (hm : s.minter = some m) (ops : List BF.Op) :
    ∃ m', (BF.run s ops).minter = some m' ∧
      BF.privOf (BF.run s ops) m' = Priv.run (BF.privOf s m) (BF.privRunOps s m ops) :=
  BF.priv_run s m hm ops

/-- "base-minter mints only for the collection creator" (and only he moves the trading time): an accepted `Mint` /
`UpdateStartTradingTime` was sent by the collection's CURRENT creator — the row `creator` of the privilege table -/
theorem C05_fullbase_creator_only (s s' : BF.State) (m : BF.Minter) (hm : s.minter = some m) (sender : Addr)
    (funds : List Coin) :
    (∀ uri ok, BF.step s (.mint sender funds uri ok) = .ok s' → sender = m.tt.creator) ∧
    (∀ t, BF.step s (.updateStartTradingTime sender funds t) = .ok s' → sender = m.tt.creator) ∧
    Priv.principal (.minter .base) .mint = .creator ∧
    Priv.principal (.minter .base) .updateStartTradingTime = .creator := by
  refine ⟨?_, ?_, C05_table_base_minter.1, C05_table_base_minter.2⟩
  · intro uri ok h
    simp only [BF.step] at h
    obtain ⟨m0, hm0, hmint⟩ := BF.withMinterS_ok h
    rw [hm] at hm0; cases hm0
    obtain ⟨_, _, _, _, _, hcr, _⟩ := BF.mint_ok hmint
    exact hcr.symm
  · intro t h
    simp only [BF.step] at h
    obtain ⟨m0, m', hm0, hf, _⟩ := BF.withMinter_ok h
    rw [hm] at hm0; cases hm0
    obtain ⟨_, _, hcr, _⟩ := BF.updateStartTradingTime_ok hf
    exact hcr

/-- a stranger's `Mint` / `UpdateStartTradingTime` changes nothing at all (not a balance, not a counter) -/
theorem C05_fullbase_stranger_rejected (s : BF.State) (m : BF.Minter) (hm : s.minter = some m) (sender : Addr)
    (hs : sender ≠ m.tt.creator) (funds : List Coin) :
    (∀ uri ok, BF.step' s (.mint sender funds uri ok) = s) ∧
    (∀ t, BF.step' s (.updateStartTradingTime sender funds t) = s) := by
  constructor
  · intro uri ok
    rcases BF.step'_cases s (.mint sender funds uri ok) with ⟨s', hok, _⟩ | ⟨_, h⟩
    · exact absurd ((C05_fullbase_creator_only s s' m hm sender funds).1 uri ok hok) hs
    · exact h
  · intro t
    rcases BF.step'_cases s (.updateStartTradingTime sender funds t) with ⟨s', hok, _⟩ | ⟨_, h⟩
    · exact absurd ((C05_fullbase_creator_only s s' m hm sender funds).2.1 t hok) hs
    · exact h

/-- "factory parameters and minter status change only through governance": every message other than `sudo UpdateParams` /
`migrate` leaves the params alone, `migrate` needs the factory's wasm admin, and a message kind the family does not have
(a sudo message sent through `execute` included) is refused outright -/
theorem C05_fullbase_sudo_only (s : BF.State) (op : BF.Op) :
    ((∀ u, op ≠ .sudoParams u) → (∀ a u, op ≠ .migrate a u) → (BF.step' s op).params = s.params) ∧
    (∀ a u, op = .migrate a u → s.factoryAdmin ≠ some a → BF.step' s op = s) ∧
    (∀ a, op = .foreign a → BF.step' s op = s) := by
  refine ⟨?_, ?_, ?_⟩
  · intro h1 h2
    rcases BF.step'_cases s op with ⟨s', hok, hs'⟩ | ⟨_, hs'⟩
    · rw [hs']
      rcases (BF.step_frame hok).2.2.2.1 with ⟨u, rfl⟩ | ⟨a, u, rfl⟩ | h
      · exact absurd rfl (h1 u)
      · exact absurd rfl (h2 a u)
      · exact h
    · rw [hs']
  · rintro a u rfl h
    simp [BF.step', BF.step, BF.migrate, h]
  · rintro a rfl
    simp [BF.step', BF.step]

/-- once the collection info is frozen the creator — the only account that may mint — can never be handed over again: constant
over ALL composite continuations (`C05_frozen_creator` through the simulation) -/
theorem C05_fullbase_frozen_creator (s : BF.State) (m : BF.Minter) (hm : s.minter = some m) (hf : m.tt.frozen = true)
    (ops : List BF.Op) :
    ∃ m', (BF.run s ops).minter = some m' ∧ m'.tt.creator = m.tt.creator ∧ m'.tt.frozen = true := by
  obtain ⟨m', hm', heq⟩ := BF.priv_run s m hm ops
  have := C05_frozen_creator (BF.privOf s m) hf (BF.privRunOps s m ops)
  rw [← heq] at this
  exact ⟨m', hm', this.1, this.2⟩

/-- renounced ownership is final: once the collection has neither owner nor pending owner it never has one again, so the minter
can never mint or move the trading time again (`C05_renounced_final` through the simulation) -/
theorem C05_fullbase_renounced_final (s : BF.State) (m : BF.Minter) (hm : s.minter = some m) (ho : m.tt.owner = none)
    (hp : m.tt.pending = none) (ops : List BF.Op) :
    ∃ m', (BF.run s ops).minter = some m' ∧ m'.tt.owner = none ∧ m'.tt.pending = none := by
  obtain ⟨m', hm', heq⟩ := BF.priv_run s m hm ops
  have := C05_renounced_final (BF.privOf s m) ho hp (BF.privRunOps s m ops)
  rw [← heq] at this
  exact ⟨m', hm', this.1, this.2.1⟩

/-- if the creator at the end of a composite history differs from the one at its beginning, the translated history contains an
`update_collection_info` sent by the account that was the creator AT THAT MOMENT (`C05_creator_change_history`) -/
theorem C05_fullbase_creator_change_history (s : BF.State) (m : BF.Minter) (hm : s.minter = some m) (ops : List BF.Op)
    (m' : BF.Minter) (hm' : (BF.run s ops).minter = some m') (h : m'.tt.creator ≠ m.tt.creator) :
    ∃ pre c k a w post, BF.privRunOps s m ops = pre ++ .exec c (.collection k) .updateCollectionInfo a w :: post ∧
      c.addr = (Priv.run (BF.privOf s m) pre).creator := by
  obtain ⟨m2, hm2, heq⟩ := BF.priv_run s m hm ops
  rw [hm'] at hm2; cases hm2
  apply C05_creator_change_history (BF.privOf s m) (BF.privRunOps s m ops)
  rw [← heq]
  exact h

/-! ## Non-vacuity (kernel-evaluated): creator hand-over, freeze, and the old creator locked out -/

example : ((BF.run BF.exInit (BF.exOps.take 3 ++
      [.fund 21 ⟨0, 100000000⟩, .collCreator 10 21, .mint 10 [⟨0, 5000000⟩] 1 true, .mint 21 [⟨0, 5000000⟩] 2 true, .collFreeze 21,
       .collCreator 21 10])).minter.map fun m => (m.tt.creator, m.tt.frozen, m.seq.tokenIndex)) = some (21, true, 1) := by
  decide

end LP
