import LaunchpadModel.Lemmas.WhitelistFullMerkle
import LaunchpadModel.Props.C14
/-!
# Refinement theorems, part 3: the composite model `LP.WF` refines the C14 aspect model (Merkle whitelists)

Projection `proj14`, translation `tr14` (witnesses `accepted` / `post` computed by the composite), one-step and run-level
simulation, and the C14 headline theorems restated for the composite's own `HasMember {member, proof_hashes}` query
(`qHasMemberMerkle`, hashes SHA-256 / BLAKE3-16 computed by the model).
-/
namespace LP
open LP.WF LP.Merkle

namespace WF

/-- op translation along a run -/
def trRun14 : State → List Op → List (Nat × MerkleWl.Op)
  | _, [] => []
  | s, op :: ops => tr14 s op :: trRun14 (step' s op) ops

theorem run_sim14 (H : Bytes → Bytes) (l : List MerkleWl.MintRec) (ops : List Op) : ∀ {s : State} {w : Wl},
    s.wl = some w → NoInst14 ops →
    ∃ w', (run s ops).wl = some w' ∧ w'.v = w.v ∧ w'.roots = w.roots ∧
      (⟨proj14 w', l⟩ : MerkleWl.World) = MerkleWl.run H ⟨proj14 w, l⟩ (trRun14 s ops) := by
  induction ops with
  | nil => intro s w hw _; exact ⟨w, hw, rfl, rfl, rfl⟩
  | cons op ops ih =>
    intro s w hw hni
    obtain ⟨w1, hw1, hv1, hr1, hsim⟩ := step_sim14 H hw op (hni op List.mem_cons_self) l
    obtain ⟨w2, hw2, hv2, hr2, hrun⟩ := ih hw1 (fun o ho => hni o (List.mem_cons_of_mem _ ho))
    refine ⟨w2, by rw [run_cons]; exact hw2, by rw [hv2, hv1], by rw [hr2, hr1], ?_⟩
    rw [hrun, hsim]
    simp only [trRun14, MerkleWl.run, List.foldl_cons]

end WF

/-- **C14 refinement**: for every op list without a re-instantiate (which creates another contract), the composite run projects
onto the C14 aspect run of the translated ops, for every hash and every ghost mint log -/
theorem C14_full_refines (H : Bytes → Bytes) (l : List MerkleWl.MintRec) (ops : List Op) {s : State} {w : Wl}
    (hw : s.wl = some w) (hni : NoInst14 ops) :
    ∃ w', (WF.run s ops).wl = some w' ∧ w'.v = w.v ∧
      (⟨proj14 w', l⟩ : MerkleWl.World) = MerkleWl.run H ⟨proj14 w, l⟩ (trRun14 s ops) := by
  obtain ⟨w', h1, h2, _, h4⟩ := run_sim14 H l ops hw hni
  exact ⟨w', h1, h2, h4⟩

/-- "the root cannot be changed by any call": whatever messages anybody sends at any time, the committed root(s) of the observed
contract are those written at instantiation (via the aspect theorem `C14_root_immutable`) -/
theorem C14_full_root_immutable (ops : List Op) {s : State} {w : Wl} (hw : s.wl = some w) (hr : RootsOk w)
    (hni : NoInst14 ops) : ∃ w', (WF.run s ops).wl = some w' ∧ w'.roots = w.roots ∧ RootsOk w' := by
  obtain ⟨w', h1, hv, hroots, hsim⟩ := run_sim14 (fun x => x) [] ops hw hni
  have hok' : RootsOk w' := fun ht => by rw [hroots]; exact hr (by rw [← hv]; exact ht)
  refine ⟨w', h1, ?_, hok'⟩
  have := C14_root_immutable (fun x => x) ⟨proj14 w, []⟩ (trRun14 s ops)
  rw [← hsim] at this
  simp only [proj14_roots w hr, proj14_roots w' hok'] at this
  exact this

/-- an accepted instantiate of a Merkle kind stores exactly the roots that were sent, each a well-formed digest string of the
crate's hash; a malformed root is refused -/
theorem C14_full_inst_roots {s s' : State} {v : Variant} (hm : Mk v) {sender self : Addr} {funds : List Coin} {m : InstMsg}
    (h : WF.step s (.instantiate v sender funds self m) = .ok s') :
    ∃ w, s'.wl = some w ∧ w.v = v ∧ w.roots = m.roots ∧ (∀ r ∈ m.roots, validHash v.digest r = true) ∧ RootsOk w := by
  simp only [WF.step] at h
  obtain ⟨b1, w, msgs, b2, _, hi, _, rfl⟩ := instantiateTx_ok h
  simp only [instantiateWl, show v.store = .merkle from hm] at hi
  obtain ⟨h1, h2, h3, h4⟩ := instMerkle_roots hi
  exact ⟨w, rfl, h4, h1, fun r hr => List.all_eq_true.1 h2 r hr, h3⟩

theorem C14_full_malformed_root {s : State} {v : Variant} (hm : Mk v) {sender self : Addr} {funds : List Coin} {m : InstMsg}
    (r : List Nat) (hr : r ∈ m.roots) (hbad : validHash v.digest r = false) :
    ∀ s', WF.step s (.instantiate v sender funds self m) ≠ .ok s' := by
  intro s' h
  obtain ⟨_, _, _, _, hall, _⟩ := C14_full_inst_roots hm h
  rw [hall r hr] at hbad; cases hbad

/-- the composite's membership query is the aspect model's -/
theorem C14_full_has_member_eq {w : Wl} (hm : Mk w.v) (hr : RootsOk w) (now : Nat) (member : Bytes) (proof : List (List Nat)) :
    qHasMemberMerkle w now member proof = (proj14 w).hasMember w.v.hash now member proof :=
  qHasMemberMerkle_eq w hm hr now member proof

/-- single-stage Merkle whitelist: the answer is the plain Merkle check of the committed root (SHA-256, 32-byte digests) -/
theorem C14_full_plain_query {w : Wl} (hm : Mk w.v) (ht : w.v.tiered = false) {r : List Nat} (hr : w.roots = [r]) (now : Nat)
    (member : Bytes) (proof : List (List Nat)) :
    qHasMemberMerkle w now member proof = hasMember Sha256.sha256 32 r member proof := by
  rw [qHasMemberMerkle_eq w hm (fun _ => ⟨r, hr⟩)]
  simp [proj14, ht, MerkleWl.Wl.hasMember, MerkleWl.Plain.hasMember, hr, Variant.hash]

/-- "the tiered variant checks against the root of the currently active stage only": no active stage ⇒ the query errors -/
theorem C14_full_tiered_no_active_stage {w : Wl} (hm : Mk w.v) (ht : w.v.tiered = true) (now : Nat) (member : Bytes)
    (proof : List (List Nat)) (h : activeIdx w now = none) : qHasMemberMerkle w now member proof = none := by
  rw [qHasMemberMerkle_eq w hm (fun hx => by rw [ht] at hx; cases hx)]
  simp only [proj14, ht, if_true, MerkleWl.Wl.hasMember]
  exact C14_tiered_no_active_stage _ _ now member proof (by rw [activeIdx_map]; exact h)

/-- with active stage `i` the answer is the plain Merkle check against `roots[i]` (BLAKE3 truncated to 16 bytes) -/
theorem C14_full_tiered_active_root {w : Wl} (hm : Mk w.v) (ht : w.v.tiered = true) (now i : Nat) (r : List Nat)
    (member : Bytes) (proof : List (List Nat)) (hi : activeIdx w now = some i) (hr : w.roots[i]? = some r) :
    qHasMemberMerkle w now member proof = hasMember Blake3.blake3_16 16 r member proof := by
  rw [qHasMemberMerkle_eq w hm (fun hx => by rw [ht] at hx; cases hx)]
  simp only [proj14, ht, if_true, MerkleWl.Wl.hasMember, Variant.hash]
  exact C14_tiered_active_root _ _ now i r member proof (by rw [activeIdx_map]; exact hi) hr

/-- a proof element that is not hex of exactly the digest size makes the query an error — never `true`, never `false` -/
theorem C14_full_malformed {w : Wl} (hm : Mk w.v) (hr : RootsOk w) (now : Nat) (member : Bytes) (proof : List (List Nat))
    (x : List Nat) (hx : x ∈ proof) (hbad : ¬ (x.length = 2 * w.v.digest ∧ ∀ c ∈ x, (hexVal c).isSome)) :
    qHasMemberMerkle w now member proof = none := by
  rw [qHasMemberMerkle_eq w hm hr]
  unfold proj14
  by_cases ht : w.v.tiered = true
  · simp only [ht, if_true, MerkleWl.Wl.hasMember, MerkleWl.Tiered.hasMember]
    have hd : w.v.digest = 16 := by simp [Variant.digest, ht]
    rw [hd] at hbad
    split
    · rfl
    · split
      · rfl
      · exact C14_malformed _ 16 _ member proof x hx hbad
  · have ht' : w.v.tiered = false := by cases hq : w.v.tiered <;> simp_all
    have hd : w.v.digest = 32 := by simp [Variant.digest, ht']
    rw [hd] at hbad
    simp only [ht', Bool.false_eq_true, if_false, MerkleWl.Wl.hasMember, MerkleWl.Plain.hasMember]
    exact C14_malformed _ 32 _ member proof x hx hbad

/-- completeness at the composite's interface (single-stage): if the committed root is the lower-case hex of the root of a tree,
every listed entry with its hex-encoded proof is answered `has_member: true` -/
theorem C14_full_complete_plain {w : Wl} (hm : Mk w.v) (ht : w.v.tiered = false) (t : Tree) (ds : List Dir) (m : Bytes)
    (p : List Bytes) (hroot : w.roots = [hexEncode (t.root Sha256.sha256)]) (h : t.proofOf Sha256.sha256 ds = some (m, p))
    (now : Nat) : qHasMemberMerkle w now m (p.map hexEncode) = some true := by
  rw [C14_full_plain_query hm ht hroot]
  exact C14_complete_query _ 32 sha256_ok t ds m p h

/-- soundness at the composite's interface (single-stage, SHA-256): a positive answer for a string that is not 64 bytes long
means the string is listed, or a SHA-256 collision among the strings of this tree and this query is exhibited -/
theorem C14_full_sound_plain {w : Wl} (hm : Mk w.v) (ht : w.v.tiered = false) (members : List Bytes) (r : Bytes)
    (hr : layeredRoot Sha256.sha256 members = some r) (hroot : w.roots = [hexEncode r])
    (hleaf : ∀ x ∈ members, x.length ≠ 64) (m : Bytes) (hml : m.length ≠ 64) (proof : List (List Nat)) (now : Nat)
    (h : qHasMemberMerkle w now m proof = some true) :
    m ∈ members ∨ QueryCollision Sha256.sha256 32 members m proof := by
  rw [C14_full_plain_query hm ht hroot] at h
  exact C14_sound_sha256 members r hr hleaf m hml proof h

/-- soundness at the composite's interface (tiered, BLAKE3-16): a positive answer is about the ACTIVE stage's list -/
theorem C14_full_sound_tiered {w : Wl} (hm : Mk w.v) (ht : w.v.tiered = true) (now i : Nat) (members : List Bytes) (r : Bytes)
    (hi : activeIdx w now = some i) (hr : layeredRoot Blake3.blake3_16 members = some r)
    (hroot : w.roots[i]? = some (hexEncode r)) (hleaf : ∀ x ∈ members, x.length ≠ 32) (m : Bytes) (hml : m.length ≠ 32)
    (proof : List (List Nat)) (h : qHasMemberMerkle w now m proof = some true) :
    m ∈ members ∨ QueryCollision Blake3.blake3_16 16 members m proof := by
  rw [C14_full_tiered_active_root hm ht now i _ m proof hi hroot] at h
  exact C14_sound_blake3 members r hr hleaf m hml proof h

/-! ## Non-vacuity: concrete Merkle histories (kernel-evaluated; the hashes themselves are not evaluated here) -/

def exG14 : Nat := Gen.sg_utils_GENESIS_MINT_START_TIME

/-- a 64-character lower-case hex string -/
def exRoot32 : List Nat := (List.range 64).map fun i => if i % 2 = 0 then 97 else 49
/-- a 32-character hex string -/
def exRoot16 : List Nat := (List.range 32).map fun i => if i % 2 = 0 then 98 else 50

def exMsgMerkle : InstMsg :=
  { admins := [10], adminsMutable := true, start := exG14 + 100, end_ := exG14 + 200, mintPrice := ⟨0, 5⟩, perAddr := 40,
    memberLimit := 0, whaleCap := none, members := [], stages := [], stageMembers := [], roots := [exRoot32],
    uriOk := true, uris := none, discountBps := none }

def exOps14 : List Op :=
  [.fund 10 ⟨0, 5000000000⟩,
   .instantiate Variant.merkle 10 [⟨0, 1000000000⟩] 1000 exMsgMerkle,
   .exec 10 [] (.updateEndTime (exG14 + 150)),
   .exec 10 [] .unknown,
   .exec 10 [] (.addMembers 0 [(20, 0)]),
   .exec 10 [⟨0, 3⟩] .freeze]

example : ((run (init exG14) exOps14).wl.map fun w => (w.roots == [exRoot32], w.end_ - exG14, w.mutable_, w.g.feesPaid)) =
    some (true, 150, false, 1000000000) := by rfl

example : Mk Variant.merkle ∧ Mk Variant.tieredMerkle := ⟨rfl, rfl⟩

/-- a malformed root (63 characters) is refused -/
def exMsgMerkleBad : InstMsg :=
  { exMsgMerkle with roots := [List.drop 1 exRoot32] }
example : accepted (run (init exG14) [.fund 10 ⟨0, 5000000000⟩])
    (.instantiate Variant.merkle 10 [⟨0, 1000000000⟩] 1000 exMsgMerkleBad) = false := by rfl

/-- tiered Merkle: two stages, two 16-byte roots; no active stage before the first window ⇒ the query errors whatever the proof -/
def exMsgTMerkle : InstMsg :=
  { admins := [10], adminsMutable := true, start := 0, end_ := 0, mintPrice := ⟨0, 0⟩, perAddr := 0,
    memberLimit := 0, whaleCap := none, members := [], stageMembers := [], roots := [exRoot16, exRoot16],
    uriOk := true, uris := some [7, 8], discountBps := none,
    stages := [{ name := 1, start := exG14 + 100, stop := exG14 + 200, denom := 0, price := 5, pal := 50, mcl := none },
               { name := 2, start := exG14 + 200, stop := exG14 + 300, denom := 0, price := 6, pal := 1, mcl := some 3 }] }

example : ((run (init exG14) [.fund 10 ⟨0, 5000000000⟩, .instantiate Variant.tieredMerkle 10 [⟨0, 1000000000⟩] 1000 exMsgTMerkle]).wl.map
      fun w => (w.roots.length, w.stages.length, activeIdx w (exG14 + 99), activeIdx w (exG14 + 200),
                qHasMemberMerkle w (exG14 + 99) [1, 2, 3] [])) =
    some (2, 2, none, some 0, none) := by rfl

end LP
