import LaunchpadModel.Lemmas.CollectionFull
import LaunchpadModel.Props.C09
/-!
# Refinement theorems: the collection composite `LP.CF` (Model/CollectionFull.lean) refines the aspect models — C09

For each aspect: a projection of the composite state, a translation of composite ops into aspect ops *whose witnesses
are computed from the composite state*, the one-step simulation for ALL states and ops, its lift to runs, and the
headline theorems of the property restated for composite runs (`Cxx_full_*`).

The refinements to C10, C19 and C20 live in `Props/CompositeCollectionRoyalty.lean`, `Props/CompositeCollectionTrading.lean`,
`Props/CompositeCollectionMigrate.lean`: `Props/C09.lean`, `Props/C10.lean` and `Props/C20.lean` each declare `LP.run_cons`, and
`Props/C09.lean` clashes with `Props/C07.lean` (`LP.step'_cases`), which C19's other composite module imports.

## C09 — tokens, ids, freezes, ownership

* projection `coreOf s = s.coll.map (·.core)`: the embedded `Sg721.State` (cw2 kind / version, tokens, count, operators,
  ownership, collection info, the three freeze / enable flags, royalty timestamp);
* translation `tr09 s op`: an accepted message ↦ `Sg721.Op.exec` of the same call with the two environment witnesses of the
  aspect model COMPUTED: `royAccepted` := the composite's royalty gate, `recvOk` := the receiver interface; a rejected one
  ↦ nothing; migrations ↦ `Sg721.Op.migrate` to the sg721-updatable code / the collection's own code; `setVersion` ↦
  itself; block, bank funding and the legacy-`minter` environment op ↦ nothing;
* simulation `coreOf (step' s op) = some (Sg721.run c.core (tr09 s op))` for ALL states with a collection and ALL ops —
  for the two migration ops under `c.legacy = none` (the aspect model has no cw721-0.16 `minter` item: with one, a stored
  version below 3.0.0 makes the composite — and the real code — accept a migration the aspect model refuses).
-/
namespace LP
open LP.CF

namespace CF

/-- op translation for C09 (witnesses computed from the composite state) -/
def tr09 (s : State) : Op → List Sg721.Op
  | .exec sender funds m =>
    match s.coll with
    | some c => if accepted s (.exec sender funds m) then [.exec ⟨s.block, sender, funds, toExec c.core s.block m⟩] else []
    | none => []
  | .migrateUpdatable => [.migrate .updatable s.block.time]
  | .migrateSelf =>
    match s.coll with
    | some c => [.migrate c.core.kind s.block.time]
    | none => []
  | .setVersion v => [.setVersion v]
  | _ => []

def trs09 : State → List Op → List Sg721.Op
  | _, [] => []
  | s, op :: ops => tr09 s op ++ trs09 (step' s op) ops

theorem sg_step'_ok {s s' : Sg721.State} {op : Sg721.Op} (h : Sg721.step s op = .ok s') : Sg721.step' s op = s' := by
  unfold Sg721.step'; rw [h]

theorem sg_run_one (s : Sg721.State) (op : Sg721.Op) : Sg721.run s [op] = Sg721.step' s op := rfl

/-- a migration of the composite against `Sg721.step'` of the translated op -/
theorem migrate_sim (c : Coll) (f : Coll → Except Err Coll) (op : Sg721.Op)
    (h : okOf ((f c).map (·.core)) = okOf (Sg721.step c.core op)) :
    (match f c with | .ok c' => c'.core | .error _ => c.core) = Sg721.step' c.core op := by
  unfold Sg721.step'
  cases hf : f c with
  | ok c' =>
    rw [hf] at h
    cases hs : Sg721.step c.core op with
    | ok s' => rw [hs] at h; simp [okOf, Except.map] at h; simp [h]
    | error e => rw [hs] at h; simp [okOf, Except.map] at h
  | error e =>
    rw [hf] at h
    cases hs : Sg721.step c.core op with
    | ok s' => rw [hs] at h; simp [okOf, Except.map] at h
    | error e => rfl

end CF

/-- **C09 simulation, one step.** For every state with a collection and every op, the C09 component after the composite
step is the aspect model's run of the translated ops from the C09 component before. -/
theorem C09_full_refines (s : State) (c : Coll) (op : Op) (hc : s.coll = some c)
    (hl : isMigrate op = true → c.legacy = none) :
    coreOf (step' s op) = some (Sg721.run c.core (tr09 s op)) := by
  cases op with
  | block b => simp [step', step, coreOf, hc, tr09, Sg721.run]
  | fund a x => simp [step', step, coreOf, hc, tr09, Sg721.run]
  | instantiate k sender funds name symbol m self =>
    have : step s (.instantiate k sender funds name symbol m self) = .error .other := by
      simp [step, instantiate, hc]
    rw [step'_err this]
    simp [coreOf, hc, tr09, Sg721.run]
  | exec sender funds m =>
    cases h : step s (.exec sender funds m) with
    | ok s' =>
      rw [step'_ok h]
      obtain ⟨c0, b1, core', b2, hc0, _, hcore, _, rfl⟩ := exec_ok h
      rw [hc] at hc0; cases hc0
      have hs : Sg721.step c.core (.exec ⟨s.block, sender, funds, toExec c.core s.block m⟩) = .ok core' := hcore
      simp only [tr09, hc, accepted_ok h, if_true, sg_run_one, sg_step'_ok hs, coreOf, Option.map]
    | error e =>
      rw [step'_err h]
      simp only [tr09, hc, accepted_err h, coreOf, Option.map]
      rfl
  | migrateUpdatable =>
    have hl' := hl rfl
    have key := migrate_sim c (migrateUpdatable · s.block.time) (.migrate .updatable s.block.time)
      (by simpa [Sg721.step, Sg721.migrateTo] using migrateUpdatable_core c s.block.time hl')
    simp only [tr09, sg_run_one, ← key]
    unfold step'
    simp only [step, onColl_some _ hc]
    cases migrateUpdatable c s.block.time <;> simp [coreOf, hc]
  | migrateSelf =>
    have hl' := hl rfl
    have key := migrate_sim c (migrateSelf · s.block.time) (.migrate c.core.kind s.block.time)
      (by simpa [Sg721.step] using migrateSelf_core c s.block.time hl')
    simp only [tr09, hc, sg_run_one, ← key]
    unfold step'
    simp only [step, onColl_some _ hc]
    cases migrateSelf c s.block.time <;> simp [coreOf, hc]
  | setVersion v =>
    simp [step', step, onColl_some _ hc, coreOf, tr09, Sg721.run, Sg721.step', Sg721.step]
  | setLegacy a =>
    simp [step', step, onColl_some _ hc, coreOf, tr09, Sg721.run]

/-- the instantiate step: the composite's `instantiate` IS the aspect model's, and leaves no legacy item -/
theorem C09_full_instantiate (s s' : State) (k : Sg721.Kind) (sender : Addr) (funds : List Coin) (name symbol : Nat)
    (m : Sg721.InstMsg) (self : Addr) (h : step s (.instantiate k sender funds name symbol m self) = .ok s') :
    ∃ core, Sg721.instantiate k s.block sender funds m = .ok core ∧ coreOf s' = some core ∧ NoLegacy s' := by
  obtain ⟨b1, core, _, _, hcore, rfl⟩ := instantiate_ok h
  refine ⟨core, hcore, rfl, ?_⟩
  intro c hc; cases hc; rfl

/-- **C09 simulation, runs.** Along any history without the environment op `setLegacy`, starting from a state with a
collection and no legacy item (e.g. right after `instantiate`), the C09 component is an aspect-model run. -/
theorem C09_full_run (s : State) (c : Coll) (ops : List Op) (hc : s.coll = some c) (hi : NoLegacy s)
    (hops : ∀ op ∈ ops, isSetLegacy op = false) :
    coreOf (run s ops) = some (Sg721.run c.core (trs09 s ops)) := by
  induction ops generalizing s c with
  | nil => simp [CF.run_nil, coreOf, hc, trs09, Sg721.run]
  | cons op ops ih =>
    have h1 := C09_full_refines s c op hc (fun _ => hi c hc)
    rw [CF.run_cons]
    cases hc1 : (step' s op).coll with
    | none => simp [coreOf, hc1] at h1
    | some c1 =>
      have hcore : c1.core = Sg721.run c.core (tr09 s op) := by simpa [coreOf, hc1] using h1
      have hi1 : NoLegacy (step' s op) := NoLegacy_step' hi (hops op (List.mem_cons_self ..))
      rw [ih (step' s op) c1 hc1 hi1 (fun o ho => hops o (List.mem_cons_of_mem _ ho)), hcore, trs09, _root_.LP.run_append]

/-- the same with the collection of the final state named -/
theorem C09_full_run_coll (s : State) (c : Coll) (ops : List Op) (hc : s.coll = some c) (hi : NoLegacy s)
    (hops : ∀ op ∈ ops, isSetLegacy op = false) :
    ∃ c', (run s ops).coll = some c' ∧ c'.core = Sg721.run c.core (trs09 s ops) := by
  have h := C09_full_run s c ops hc hi hops
  cases hc' : (run s ops).coll with
  | none => simp [coreOf, hc'] at h
  | some c' => exact ⟨c', rfl, by simpa [coreOf, hc'] using h⟩

/-! ### C09 headline theorems for composite steps and runs -/

/-- "a token can be created only by the collection's minter, never with an id that already exists": an accepted
composite `Mint` was sent by the current cw_ownable owner, its id was absent, it appends exactly that token. -/
theorem C09_full_mint_auth_unique (s s' : State) (c : Coll) (sender : Addr) (funds : List Coin) (id : Nat) (owner : Addr)
    (uri : Option Nat) (ext : Nat) (hc : s.coll = some c) (h : step s (.exec sender funds (.mint id owner uri ext)) = .ok s') :
    c.core.ownership.owner = some sender ∧ id ∉ c.core.ids ∧
    ∃ c', s'.coll = some c' ∧
      c'.core.tokens = c.core.tokens ++ [⟨id, owner, [], uri, if c.core.kind = .onchain then ext else 0⟩] ∧
      c'.core.count = c.core.count + 1 := by
  obtain ⟨c0, _, core', _, hc0, _, hcore, _, rfl⟩ := exec_ok h
  rw [hc] at hc0; cases hc0
  obtain ⟨h1, h2, h3, h4⟩ := C09_mint_auth_unique c.core core' _ id owner uri ext rfl hcore
  exact ⟨h1, h2, _, rfl, h3, h4⟩

/-- no other composite operation creates a token: a new id after a step stems from a translated `Mint` of that id by the
minter of that moment -/
theorem C09_full_only_mint_creates (s : State) (c c' : Coll) (op : Op) (hc : s.coll = some c)
    (hl : isMigrate op = true → c.legacy = none) (hc' : (step' s op).coll = some c') (id : Nat)
    (hid : id ∈ c'.core.ids) (hnew : id ∉ c.core.ids) :
    ∃ call owner uri ext, tr09 s op = [.exec call] ∧ call.msg = .mint id owner uri ext ∧
      c.core.ownership.owner = some call.sender := by
  have h := C09_full_refines s c op hc hl
  have hcore : c'.core = Sg721.run c.core (tr09 s op) := by simpa [coreOf, hc'] using h
  have hlen : tr09 s op = [] ∨ ∃ x, tr09 s op = [x] := by
    cases op <;> simp only [tr09] <;> (try split) <;> (try split) <;> simp
  rcases hlen with h0 | ⟨x, hx⟩
  · rw [h0] at hcore; rw [hcore] at hid; exact absurd hid hnew
  · rw [hx, sg_run_one] at hcore
    rcases _root_.LP.step'_cases c.core x with ⟨s1, hs, he⟩ | he
    · rw [he] at hcore; rw [hcore] at hid
      obtain ⟨call, owner, uri, ext, rfl, hm, ho⟩ := C09_only_mint_creates c.core s1 x hs id hid hnew
      exact ⟨call, owner, uri, ext, hx, hm, ho⟩
    · rw [he] at hcore; rw [hcore] at hid; exact absurd hid hnew

/-- "the token count always equals the number of existing tokens": after `instantiate` and ANY composite history
(messages from anybody with any funds, blocks, funding, migrations, version changes) -/
theorem C09_full_count (s s1 : State) (k : Sg721.Kind) (sender : Addr) (funds : List Coin) (name symbol : Nat)
    (m : Sg721.InstMsg) (self : Addr) (h : step s (.instantiate k sender funds name symbol m self) = .ok s1)
    (ops : List Op) (hops : ∀ op ∈ ops, isSetLegacy op = false) :
    ∃ c', (run s1 ops).coll = some c' ∧ c'.core.count = c'.core.tokens.length ∧ c'.core.ids.Nodup := by
  obtain ⟨core, hinst, hco, hnl⟩ := C09_full_instantiate s s1 k sender funds name symbol m self h
  cases hc1 : s1.coll with
  | none => simp [coreOf, hc1] at hco
  | some c1 =>
    have e : c1.core = core := by simpa [coreOf, hc1] using hco
    obtain ⟨c', hc', hcore⟩ := C09_full_run_coll s1 c1 ops hc1 hnl hops
    refine ⟨c', hc', ?_⟩
    rw [hcore, e]
    exact C09_count k s.block sender funds m core hinst _

/-- "Once the creator freezes collection info no later call changes any creator-editable field": from a frozen state, over
every composite continuation -/
theorem C09_full_freeze_final (s : State) (c : Coll) (ops : List Op) (hc : s.coll = some c) (hi : NoLegacy s)
    (hops : ∀ op ∈ ops, isSetLegacy op = false) (hf : c.core.frozenInfo = true) :
    ∃ c', (run s ops).coll = some c' ∧ c'.core.frozenInfo = true ∧ editable c'.core.info = editable c.core.info := by
  obtain ⟨c', hc', hcore⟩ := C09_full_run_coll s c ops hc hi hops
  refine ⟨c', hc', ?_⟩
  rw [hcore]
  exact C09_freeze_final c.core hf _

/-- `FreezeCollectionInfo` is accepted only from the creator and sets the flag -/
theorem C09_full_freeze_sets (s s' : State) (c : Coll) (sender : Addr) (funds : List Coin) (hc : s.coll = some c)
    (h : step s (.exec sender funds .freezeCollectionInfo) = .ok s') :
    c.core.info.creator = sender ∧ ∃ c', s'.coll = some c' ∧ c'.core = { c.core with frozenInfo := true } := by
  obtain ⟨c0, _, core', _, hc0, _, hcore, _, rfl⟩ := exec_ok h
  rw [hc] at hc0; cases hc0
  obtain ⟨h1, h2⟩ := C09_freeze_sets c.core core' _ rfl hcore
  exact ⟨h1, _, rfl, h2⟩

/-- "metadata updates otherwise require the creator and an existing token" (and an updatable collection, not frozen,
enabled, no funds) -/
theorem C09_full_update_meta_guard (s s' : State) (c : Coll) (sender : Addr) (funds : List Coin) (id : Nat) (uri : Option Nat)
    (hc : s.coll = some c) (h : step s (.exec sender funds (.updateTokenMetadata id uri)) = .ok s') :
    c.core.kind = .updatable ∧ c.core.info.creator = sender ∧ id ∈ c.core.ids ∧ c.core.frozenMeta = false ∧
    c.core.updEnabled = true ∧ funds = [] := by
  obtain ⟨c0, _, core', _, hc0, _, hcore, _, rfl⟩ := exec_ok h
  rw [hc] at hc0; cases hc0
  obtain ⟨h1, h2, h3, h4, h5, h6, _⟩ := C09_update_meta_guard c.core core' _ id uri rfl hcore
  exact ⟨h1, h2, h3, h4, h5, h6⟩

/-- "once token metadata is frozen on an updatable collection": no `UpdateTokenMetadata` is accepted after any composite
continuation (migrations included) -/
theorem C09_full_meta_freeze_blocks_updates (s : State) (c : Coll) (ops : List Op) (hc : s.coll = some c) (hi : NoLegacy s)
    (hops : ∀ op ∈ ops, isSetLegacy op = false) (hk : c.core.kind = .updatable) (hf : c.core.frozenMeta = true)
    (sender : Addr) (funds : List Coin) (id : Nat) (uri : Option Nat) :
    accepted (run s ops) (.exec sender funds (.updateTokenMetadata id uri)) = false := by
  obtain ⟨c', hc', hcore⟩ := C09_full_run_coll s c ops hc hi hops
  cases h : step (run s ops) (.exec sender funds (.updateTokenMetadata id uri)) with
  | error e => exact accepted_err h
  | ok s' =>
    obtain ⟨c0, _, core', _, hc0, _, hcore', _, _⟩ := exec_ok h
    rw [hc'] at hc0; cases hc0
    rw [hcore] at hcore'
    exact absurd hcore' (C09_meta_freeze_blocks_updates c.core hk hf _ _ id uri rfl core')

/-- … and the URI of every token that is not burned along the way never changes (the partial form the code satisfies; the
literal clause is refuted by `C09_meta_freeze_final_counterexample`: burn + re-mint) -/
theorem C09_full_meta_freeze_final_partial (s : State) (c : Coll) (ops : List Op) (hc : s.coll = some c) (hi : NoLegacy s)
    (hops : ∀ op ∈ ops, isSetLegacy op = false) (hk : c.core.kind = .updatable) (hf : c.core.frozenMeta = true)
    (id : Nat) (alive : aliveThrough c.core id (trs09 s ops)) :
    ∃ c', (run s ops).coll = some c' ∧ uriOf c'.core id = uriOf c.core id ∧ c'.core.frozenMeta = true ∧
      c'.core.kind = .updatable := by
  obtain ⟨c', hc', hcore⟩ := C09_full_run_coll s c ops hc hi hops
  refine ⟨c', hc', ?_⟩
  rw [hcore]
  exact C09_meta_freeze_final_partial c.core hk hf _ id alive

/-- "In the non-transferable collection a token's owner never changes between mint and burn" -/
theorem C09_full_nt_owner_constant (s : State) (c : Coll) (ops : List Op) (hc : s.coll = some c) (hi : NoLegacy s)
    (hops : ∀ op ∈ ops, isSetLegacy op = false) (hk : c.core.kind = .nt) (id : Nat)
    (alive : aliveThrough c.core id (trs09 s ops)) :
    ∃ c', (run s ops).coll = some c' ∧ ownerOf c'.core id = ownerOf c.core id ∧ c'.core.kind = .nt := by
  obtain ⟨c', hc', hcore⟩ := C09_full_run_coll s c ops hc hi hops
  refine ⟨c', hc', ?_⟩
  rw [hcore]
  exact C09_nt_owner_constant c.core hk _ id alive

/-- who is the minter after ANY composite history: the initial one, nobody, the initially proposed one, or an address named
by the minter of an earlier moment in an accepted `TransferOwnership` -/
theorem C09_full_minter_history (s : State) (c : Coll) (ops : List Op) (hc : s.coll = some c) (hi : NoLegacy s)
    (hops : ∀ op ∈ ops, isSetLegacy op = false) :
    ∃ c', (run s ops).coll = some c' ∧
      (Entitled c.core (trs09 s ops) c'.core.ownership.owner c.core.ownership.owner ∨
        c'.core.ownership.owner = c.core.ownership.pending) ∧
      Entitled c.core (trs09 s ops) c'.core.ownership.pending c.core.ownership.pending := by
  obtain ⟨c', hc', hcore⟩ := C09_full_run_coll s c ops hc hi hops
  refine ⟨c', hc', ?_⟩
  rw [hcore]
  exact C09_minter_history c.core _

/-- non-vacuity: the legacy condition holds after every `instantiate`, and a concrete composite history -/
example : NoLegacy (State.init ⟨1, 1⟩) := by intro c hc; cases hc

end LP
