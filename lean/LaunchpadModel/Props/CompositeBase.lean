import LaunchpadModel.Lemmas.BaseFull
import LaunchpadModel.Lemmas.BaseFullPay
import LaunchpadModel.Lemmas.BaseFullGov2
import LaunchpadModel.Lemmas.BaseFullTrading
import LaunchpadModel.Props.C01
import LaunchpadModel.Props.C02
import LaunchpadModel.Props.C18
import LaunchpadModel.Props.C19
/-!
# Refinement theorems: the composite base-family model `LP.BF` (Model/BaseFull.lean) refines the aspect models

Same structure as `Props/CompositeVending.lean` / `Props/CompositeOpenEdition.lean`: per aspect a projection, an op translation
whose witnesses are computed from the composite state, the one-step simulation for ALL states and ops, its lift to runs, and
the headline theorems restated for composite runs (`Cxx_fullbase_*`).  See `docs/COMPOSITE_BASE.md` §5.
-/
namespace LP
open LP.BF

namespace BF

/-! ## C01 — supply (`Supply.Seq`, kind `base`) -/

def supplyOf (s : State) : Option Supply.Seq := s.minter.map (·.seq)

/-- the same-named `QOp` with `gate := accepted s op` (the composite's own verdict) -/
def supplyOp (s : State) (op : Op) : Supply.QOp :=
  let g := accepted s op
  match op with
  | .mint sender _ _ _ => .mint g sender
  | .collBurn _ id => .collBurn g id
  | .collTransfer _ id to => .collTransfer g id to
  | _ => .noise g

theorem seq_step'_of_some {f f' : Supply.Seq} {op : Supply.QOp} (h : f.step op = some f') : f.step' op = f' := by
  simp [Supply.Seq.step', h]

theorem seq_step'_gate_false (f : Supply.Seq) (op : Supply.QOp)
    (h : match op with
      | .mint g _ => g = false | .burnRemaining g => g = false | .purge g => g = false
      | .collBurn g _ => g = false | .collTransfer g _ _ => g = false | .noise g => g = false) : f.step' op = f := by
  cases op <;> simp only at h <;> subst h <;> simp [Supply.Seq.step', Supply.Seq.step]

theorem supply_step_ok {s s' : State} {m : Minter} {op : Op} (hm : s.minter = some m) (h : step s op = .ok s') :
    ∃ m', s'.minter = some m' ∧ m.seq.step (supplyOp s op) = some m'.seq := by
  have hacc := accepted_of_ok h
  cases op with
  | setTime t =>
    simp only [step] at h; split at h <;> cases h
    exact ⟨m, hm, by simp [supplyOp, hacc, Supply.Seq.step]⟩
  | fund a c =>
    simp only [step] at h; cases h
    exact ⟨m, hm, by simp [supplyOp, hacc, Supply.Seq.step]⟩
  | sudoParams u =>
    simp only [step] at h
    obtain ⟨p, _, rfl⟩ := sudoParams_ok h
    exact ⟨m, hm, by simp [supplyOp, hacc, Supply.Seq.step]⟩
  | migrate a u =>
    simp only [step] at h
    obtain ⟨_, hc⟩ := migrate_ok h
    rcases hc with ⟨_, rfl⟩ | ⟨u', _, hs⟩
    · exact ⟨m, hm, by simp [supplyOp, hacc, Supply.Seq.step]⟩
    · obtain ⟨p, _, rfl⟩ := sudoParams_ok hs
      exact ⟨m, hm, by simp [supplyOp, hacc, Supply.Seq.step]⟩
  | create sender funds msg w =>
    simp only [step] at h
    obtain ⟨_, _, _, _, hnone, _⟩ := createMinter_ok h
    rw [hm] at hnone; cases hnone
  | instantiateDirect sender => simp [step] at h
  | foreign sender => simp [step] at h
  | mint sender funds uri uriOk =>
    simp only [step] at h
    obtain ⟨m0, hm0, h⟩ := withMinterS_ok h
    rw [hm] at hm0; cases hm0
    obtain ⟨b1, ms, sq, b2, _, _, _, _, _, _, hmint, _, rfl⟩ := mint_ok h
    exact ⟨_, rfl, by simpa [supplyOp, hacc, Supply.Seq.step] using hmint⟩
  | updateStartTradingTime sender funds t =>
    simp only [step] at h
    obtain ⟨m0, m', hm0, hf, rfl⟩ := withMinter_ok h
    rw [hm] at hm0; cases hm0
    obtain ⟨_, _, _, _, _, rfl⟩ := updateStartTradingTime_ok hf
    exact ⟨_, rfl, by simp [supplyOp, hacc, Supply.Seq.step]⟩
  | sudoStatus v b e =>
    simp only [step] at h
    obtain ⟨m0, m', hm0, hf, rfl⟩ := withMinter_ok h
    rw [hm] at hm0; cases hm0
    cases hf
    exact ⟨_, rfl, by simp [supplyOp, hacc, Supply.Seq.step]⟩
  | collTransfer sender id to =>
    simp only [step] at h
    obtain ⟨m0, m', hm0, hf, rfl⟩ := withMinter_ok h
    rw [hm] at hm0; cases hm0
    obtain ⟨c, _, _, hc, rfl⟩ := collTransfer_ok hf
    exact ⟨_, rfl, by simp [supplyOp, hacc, Supply.Seq.step, hc]⟩
  | collBurn sender id =>
    simp only [step] at h
    obtain ⟨m0, m', hm0, hf, rfl⟩ := withMinter_ok h
    rw [hm] at hm0; cases hm0
    obtain ⟨c, _, hc, rfl⟩ := collBurn_ok hf
    exact ⟨_, rfl, by simp [supplyOp, hacc, Supply.Seq.step, hc]⟩
  | collTrading sender t =>
    simp only [step] at h
    obtain ⟨m0, c, hm0, _, rfl⟩ := onColl_ok h
    rw [hm] at hm0; cases hm0
    exact ⟨_, rfl, by simp [supplyOp, hacc, Supply.Seq.step]⟩
  | collCreator sender new =>
    simp only [step] at h
    obtain ⟨m0, c, hm0, _, rfl⟩ := onColl_ok h
    rw [hm] at hm0; cases hm0
    exact ⟨_, rfl, by simp [supplyOp, hacc, Supply.Seq.step]⟩
  | collFreeze sender =>
    simp only [step] at h
    obtain ⟨m0, c, hm0, _, rfl⟩ := onColl_ok h
    rw [hm] at hm0; cases hm0
    exact ⟨_, rfl, by simp [supplyOp, hacc, Supply.Seq.step]⟩
  | collOwn sender a =>
    simp only [step] at h
    obtain ⟨m0, c, hm0, _, rfl⟩ := onColl_ok h
    rw [hm] at hm0; cases hm0
    exact ⟨_, rfl, by simp [supplyOp, hacc, Supply.Seq.step]⟩

/-- **simulation** (all states with a minter, all ops) -/
theorem supply_sim (s : State) (m : Minter) (hm : s.minter = some m) (op : Op) :
    supplyOf (step' s op) = some (m.seq.step' (supplyOp s op)) := by
  rcases step'_cases s op with ⟨s', hok, hs'⟩ | ⟨⟨e, herr⟩, hs'⟩
  · obtain ⟨m', hm', hstep⟩ := supply_step_ok hm hok
    rw [hs', seq_step'_of_some hstep]; simp [supplyOf, hm']
  · have hacc : accepted s op = false := accepted_of_err herr
    rw [hs']
    have : m.seq.step' (supplyOp s op) = m.seq := by
      apply seq_step'_gate_false
      cases op <;> simp [supplyOp, hacc]
    rw [this]; simp [supplyOf, hm]

/-- before the minter exists a step either leaves it absent or is the `CreateMinter`, which initialises the supply component
with `Supply.Seq.create .base none 0 false` (no counter, no cap, index 0) -/
theorem supply_create (s : State) (hm : s.minter = none) (op : Op) :
    (step' s op).minter = none ∨
    ∃ m, (step' s op).minter = some m ∧ m.seq = Supply.Seq.create .base none 0 false := by
  rcases step'_cases s op with ⟨s', hok, hs'⟩ | ⟨_, hs'⟩
  · rw [hs']
    rcases needs_minter hm hok with ⟨t, rfl⟩ | ⟨a, c, rfl⟩ | ⟨u, rfl⟩ | ⟨a, u, rfl⟩ | ⟨a, f, msg, w, rfl⟩
    · simp only [step] at hok; split at hok <;> cases hok; exact Or.inl hm
    · simp only [step] at hok; cases hok; exact Or.inl hm
    · simp only [step] at hok; obtain ⟨p, _, rfl⟩ := sudoParams_ok hok; exact Or.inl hm
    · simp only [step] at hok
      obtain ⟨_, hc⟩ := migrate_ok hok
      rcases hc with ⟨_, rfl⟩ | ⟨u', _, hs⟩
      · exact Or.inl hm
      · obtain ⟨p, _, rfl⟩ := sudoParams_ok hs; exact Or.inl hm
    · simp only [step] at hok
      obtain ⟨b1, ms, b2, m, _, _, _, _, _, hinst, rfl⟩ := createMinter_ok hok
      obtain ⟨creator, v, _, _, _, rfl⟩ := instantiateMinter_ok hinst
      exact Or.inr ⟨_, rfl, rfl⟩
  · rw [hs']; exact Or.inl hm

def SupplyReach (s : State) : Prop :=
  s.minter = none ∨ ∃ m qops, s.minter = some m ∧ m.seq = (Supply.Seq.create .base none 0 false).run qops

theorem seq_run_snoc (f : Supply.Seq) (ops : List Supply.QOp) (op : Supply.QOp) :
    f.run (ops ++ [op]) = (f.run ops).step' op := by
  simp [Supply.Seq.run, List.foldl_append]

theorem supplyReach_step (s : State) (op : Op) (h : SupplyReach s) : SupplyReach (step' s op) := by
  rcases h with hnone | ⟨m, qops, hm, hrun⟩
  · rcases supply_create s hnone op with h | ⟨m, hm, hinit⟩
    · exact Or.inl h
    · exact Or.inr ⟨m, [], hm, hinit⟩
  · have hsim := supply_sim s m hm op
    unfold supplyOf at hsim
    cases hm' : (step' s op).minter with
    | none => rw [hm'] at hsim; cases hsim
    | some m' =>
      rw [hm'] at hsim
      simp only [Option.map_some, Option.some.injEq] at hsim
      exact Or.inr ⟨m', qops ++ [supplyOp s op], hm', by rw [seq_run_snoc, ← hrun, hsim]⟩

/-- **lift to runs** -/
theorem supply_run (s0 : State) (h0 : s0.minter = none) (ops : List Op) : SupplyReach (run s0 ops) :=
  run_inv SupplyReach supplyReach_step s0 (Or.inl h0) ops

end BF

/-- the C01 simulation for the base composite: one composite step IS one `Supply.Seq` step on the projected component, with
the gate witness computed by the composite -/
theorem C01_fullbase_refines (s : BF.State) (m : BF.Minter) (hm : s.minter = some m) (op : BF.Op) :
    BF.supplyOf (BF.step' s op) = some (m.seq.step' (BF.supplyOp s op)) :=
  BF.supply_sim s m hm op

/-- along every composite history the supply component is a `Supply.Seq` run from `Seq.create .base none 0 false` -/
theorem C01_fullbase_refines_run (s0 : BF.State) (h0 : s0.minter = none) (ops : List BF.Op) (m : BF.Minter)
    (hm : (BF.run s0 ops).minter = some m) :
    ∃ qops, m.seq = (Supply.Seq.create .base none 0 false).run qops := by
  rcases BF.supply_run s0 h0 ops with hnone | ⟨m', qops, hm', hrun⟩
  · rw [hm] at hnone; cases hnone
  · rw [hm] at hm'; cases hm'; exact ⟨qops, hrun⟩

/-- the sequential-supply invariant (`QInv`: index = total = number of ids issued, ids are 1..index, collection tokens are
issued ids, unique, counted exactly) in every reachable composite state -/
theorem C01_fullbase_inv (s0 : BF.State) (h0 : s0.minter = none) (ops : List BF.Op) (m : BF.Minter)
    (hm : (BF.run s0 ops).minter = some m) : Supply.QInv m.seq := by
  obtain ⟨qops, hrun⟩ := C01_fullbase_refines_run s0 h0 ops m hm
  rw [hrun]; exact C01_seq_inv .base none 0 false qops

/-- "token ids are issued as 1,2,3,… with no gap or repeat": `TOKEN_INDEX` = number of ids issued = the ghost total, the ids
issued are exactly 1..TOKEN_INDEX in this order -/
theorem C01_fullbase_ids_sequential (s0 : BF.State) (h0 : s0.minter = none) (ops : List BF.Op) (m : BF.Minter)
    (hm : (BF.run s0 ops).minter = some m) :
    m.seq.issued.reverse = List.range' 1 m.seq.tokenIndex ∧ m.seq.totalMint = m.seq.tokenIndex ∧
      m.seq.issued.length = m.seq.tokenIndex := by
  obtain ⟨qops, hrun⟩ := C01_fullbase_refines_run s0 h0 ops m hm
  obtain ⟨h1, _⟩ := C01_seq_ids_sequential .base none 0 false qops
  obtain ⟨t1, t2, t3⟩ := C01_seq_total_mint .base none 0 false qops
  rw [hrun]
  exact ⟨by rw [t2]; exact h1, by rw [t1, t2], by rw [t2, t3]⟩

/-- every accepted composite `Mint` issues exactly `TOKEN_INDEX + 1` and hands that id to the SENDER in the collection -/
theorem C01_fullbase_mint_exact (s s' : BF.State) (m : BF.Minter) (hm : s.minter = some m)
    (sender : Addr) (funds : List Coin) (uri : Nat) (uriOk : Bool) (h : BF.step s (.mint sender funds uri uriOk) = .ok s') :
    ∃ m', s'.minter = some m' ∧ m'.seq.tokenIndex = m.seq.tokenIndex + 1 ∧
      m'.seq.issued = (m.seq.tokenIndex + 1) :: m.seq.issued ∧
      m'.seq.coll.toks = (m.seq.tokenIndex + 1, sender) :: m.seq.coll.toks := by
  obtain ⟨m', hm', hstep⟩ := BF.supply_step_ok hm h
  have hacc := BF.accepted_of_ok h
  simp only [BF.supplyOp, hacc] at hstep
  obtain ⟨h1, h2, h3, _⟩ := C01_seq_mint_exact m.seq m'.seq true sender hstep
  exact ⟨m', hm', h3, h1, h2⟩

/-- collection side: existing tokens are issued ids, unique, counted exactly -/
theorem C01_fullbase_collection (s0 : BF.State) (h0 : s0.minter = none) (ops : List BF.Op) (m : BF.Minter)
    (hm : (BF.run s0 ops).minter = some m) :
    (∀ id ∈ m.seq.coll.ids, 1 ≤ id ∧ id ≤ m.seq.tokenIndex) ∧ m.seq.coll.ids.Nodup ∧
      m.seq.coll.count = m.seq.coll.toks.length := by
  have hi := C01_fullbase_inv s0 h0 ops m hm
  exact ⟨fun id hid => hi.csub id hid, hi.cinv.nodup, hi.cinv.count⟩

/-- base-minter stores no `MINTABLE_NUM_TOKENS`: the supply is uncapped in every reachable state, and a `Mint` whose other
gates pass is never refused by the supply mechanism (the collection can never answer `Claimed`) -/
theorem C01_fullbase_uncapped (s0 : BF.State) (h0 : s0.minter = none) (ops : List BF.Op) (m : BF.Minter)
    (hm : (BF.run s0 ops).minter = some m) (o : Nat) :
    (m.seq.step (.mint true o)).isSome = true := by
  have hi := C01_fullbase_inv s0 h0 ops m hm
  have hnc : m.seq.tokenIndex + 1 ∉ m.seq.coll.ids := fun hc => by have := hi.csub _ hc; omega
  have hz : m.seq.mintable ≠ some 0 := by
    intro hz
    -- `mintable` is `some 0` only after a burn or with a cap; neither exists for kind `base`
    obtain ⟨qops, hrun⟩ := C01_fullbase_refines_run s0 h0 ops m hm
    have hb : ∀ (q : List Supply.QOp) (f : Supply.Seq), f.kind = .base → f.mintable = none →
        (f.run q).kind = .base ∧ (f.run q).mintable = none := by
      intro q
      induction q with
      | nil => intro f h1 h2; exact ⟨h1, h2⟩
      | cons op q ih =>
        intro f h1 h2
        have hs : (f.step' op).kind = .base ∧ (f.step' op).mintable = none := by
          unfold Supply.Seq.step'
          cases hst : f.step op with
          | none => exact ⟨h1, h2⟩
          | some f' =>
            simp only [Option.getD_some]
            cases op with
            | mint g o =>
              cases g <;> simp [Supply.Seq.step] at hst
              obtain ⟨_, _, _, rfl⟩ := Supply.Seq.mint_spec hst
              exact ⟨h1, by simp [h2]⟩
            | burnRemaining g =>
              cases g <;> simp [Supply.Seq.step] at hst
              obtain ⟨hk, _, _⟩ := Supply.Seq.burnRemaining_spec hst
              exact absurd h1 hk
            | purge g => cases g <;> simp [Supply.Seq.step] at hst; rw [Supply.Seq.purge_spec hst]; exact ⟨h1, h2⟩
            | collBurn g id => cases g <;> simp [Supply.Seq.step] at hst; obtain ⟨_, _, rfl⟩ := hst; exact ⟨h1, h2⟩
            | collTransfer g id to => cases g <;> simp [Supply.Seq.step] at hst; obtain ⟨_, _, rfl⟩ := hst; exact ⟨h1, h2⟩
            | noise g => cases g <;> simp [Supply.Seq.step] at hst; subst hst; exact ⟨h1, h2⟩
        exact ih _ hs.1 hs.2
    have := (hb qops (Supply.Seq.create .base none 0 false) rfl rfl).2
    rw [← hrun] at this
    rw [this] at hz; cases hz
  exact C01_seq_mint_succeeds m.seq o hi hz

/-! ## C02 — a mint charges exactly the price and all of it is fair-burned

Projection `BF.payOf` (family `base`: price = the factory minimum captured at creation, fee rate = the factory's `mint_fee_bps`
NOW, no seller, no developer); translation `BF.payOps` (at most one aspect op per message, `allowed := accepted`); the family has
no `Shuffle`, no whitelist, no discount: the simulation covers EVERY message (Lemmas/BaseFullPay.lean). -/

namespace BF

def payRunOps (s : State) : List Op → List MintPay.Op
  | [] => []
  | op :: rest => payOps s op ++ payRunOps (step' s op) rest

theorem pay_sim (s : State) (m : Minter) (hm : s.minter = some m) (op : Op) :
    ∃ m', (step' s op).minter = some m' ∧ payOf (step' s op) m' = MintPay.run (payOf s m) (payOps s op) := by
  rcases step'_cases s op with ⟨s', hok, hs'⟩ | ⟨⟨e, herr⟩, hs'⟩
  · obtain ⟨m', hm', heq⟩ := pay_sim_ok hm hok
    rw [hs']; exact ⟨m', hm', heq⟩
  · rw [hs']; exact ⟨m, hm, (pay_sim_err herr).symm⟩

theorem pay_run (s : State) (m : Minter) (hm : s.minter = some m) (ops : List Op) :
    ∃ m', (run s ops).minter = some m' ∧ payOf (run s ops) m' = MintPay.run (payOf s m) (payRunOps s ops) := by
  induction ops generalizing s m with
  | nil => exact ⟨m, hm, rfl⟩
  | cons op ops ih =>
    obtain ⟨m1, hm1, heq⟩ := pay_sim s m hm op
    obtain ⟨m', hm', hrun⟩ := ih (step' s op) m1 hm1
    refine ⟨m', by rw [run_cons]; exact hm', ?_⟩
    rw [run_cons, hrun, heq]
    simp only [payRunOps]
    rw [pay_run_append]

/-- an accepted composite `Mint`, as the aspect model's `mint` on the projected world -/
theorem mint_is_pay_mint {s s' : State} {m : Minter} (hm : s.minter = some m) {sender : Addr} {funds : List Coin}
    {uri : Nat} {uriOk : Bool} (h : step s (.mint sender funds uri uriOk) = .ok s') :
    MintPay.mint (payOf s m) sender false funds true = .ok { payOf s m with bank := s'.bank } := by
  simp only [step] at h
  obtain ⟨m0, hm0, h⟩ := withMinterS_ok h
  rw [hm] at hm0; cases hm0
  exact mint_pay h

/-- nobody funds the minter directly and the minter is never its own payer -/
def PayAway (mi : Addr) : Op → Prop
  | .fund a _ => a ≠ mi
  | .mint sender _ _ _ => sender ≠ mi
  | _ => True

theorem payOps_away (s : State) (op : Op) (mi : Addr) (hd : LAUNCHPAD_DAO ≠ mi) (h : PayAway mi op) :
    ∀ o ∈ payOps s op, LP.OpAway mi payVariant o := by
  intro o ho
  cases op <;> simp only [payOps] at ho
  case setTime t => split at ho <;> simp at ho; subst ho; trivial
  case fund a c => simp at ho; subst ho; exact h
  case mint sender funds uri uriOk => simp at ho; subst ho; exact ⟨h, Or.inl (by simp [payVariant])⟩
  case sudoParams u =>
    unfold paramsOps at ho
    split at ho
    · simp at ho; subst ho; exact hd
    · simp at ho
  case migrate a u =>
    cases u with
    | none => simp at ho
    | some u =>
      simp only at ho
      split at ho
      · unfold paramsOps at ho
        split at ho
        · simp at ho; subst ho; exact hd
        · simp at ho
      · simp at ho
  all_goals simp at ho

theorem payRunOps_away (s : State) (ops : List Op) (mi : Addr) (hd : LAUNCHPAD_DAO ≠ mi) (h : ∀ op ∈ ops, PayAway mi op) :
    ∀ o ∈ payRunOps s ops, LP.OpAway mi payVariant o := by
  induction ops generalizing s with
  | nil => intro o ho; simp [payRunOps] at ho
  | cons op ops ih =>
    intro o ho
    simp only [payRunOps, List.mem_append] at ho
    rcases ho with ho | ho
    · exact payOps_away s op mi hd (h op (List.mem_cons_self ..)) o ho
    · exact ih (step' s op) (fun x hx => h x (List.mem_cons_of_mem _ hx)) o ho

end BF

/-- the C02 simulation: one composite step (ANY message) = the translated aspect ops on the projection -/
theorem C02_fullbase_refines (s : BF.State) (m : BF.Minter) (hm : s.minter = some m) (op : BF.Op) :
    ∃ m', (BF.step' s op).minter = some m' ∧
      BF.payOf (BF.step' s op) m' = MintPay.run (BF.payOf s m) (BF.payOps s op) :=
  BF.pay_sim s m hm op

/-- … and along whole composite histories -/
theorem C02_fullbase_refines_run (s : BF.State) (m : BF.Minter) (hm : s.minter = some m) (ops : List BF.Op) :
    ∃ m', (BF.run s ops).minter = some m' ∧
      BF.payOf (BF.run s ops) m' = MintPay.run (BF.payOf s m) (BF.payRunOps s ops) :=
  BF.pay_run s m hm ops

/-- exact payment: every accepted `Mint` attached exactly one coin, `⌊captured price × mint_fee_bps / 10⁴⌋` ustars, non-zero —
the price captured at creation, the fee rate in force NOW, native whatever the denom of the captured price -/
theorem C02_fullbase_exact_payment (s s' : BF.State) (m : BF.Minter) (hm : s.minter = some m)
    (sender : Addr) (funds : List Coin) (uri : Nat) (uriOk : Bool) (h : BF.step s (.mint sender funds uri uriOk) = .ok s') :
    funds = [⟨NATIVE, m.mintPrice.amount * s.params.mintFeeBps / 10000⟩] ∧
      m.mintPrice.amount * s.params.mintFeeBps / 10000 ≠ 0 :=
  C02_exact_payment_base (BF.payOf s m) _ sender false funds true rfl (BF.mint_is_pay_mint hm h)

/-- any other payment (amount, denom, extra coin, nothing), and every payment when the fee rounds to zero, is refused -/
theorem C02_fullbase_other_payment_rejected (s : BF.State) (m : BF.Minter) (hm : s.minter = some m)
    (sender : Addr) (funds : List Coin) (uri : Nat) (uriOk : Bool)
    (hne : funds ≠ [⟨NATIVE, m.mintPrice.amount * s.params.mintFeeBps / 10000⟩] ∨
      m.mintPrice.amount * s.params.mintFeeBps / 10000 = 0) :
    BF.step' s (.mint sender funds uri uriOk) = s := by
  rcases BF.step'_cases s (.mint sender funds uri uriOk) with ⟨s', hok, _⟩ | ⟨_, hs'⟩
  · obtain ⟨h1, h2⟩ := C02_fullbase_exact_payment s s' m hm sender funds uri uriOk hok
    rcases hne with h | h
    · exact absurd h1 h
    · exact absurd h h2
  · exact hs'

/-- fee routing: "the whole price is fair-burned": the bank after an accepted mint = the payment to the minter, then
`fair_burn(fee, None)` on behalf of the minter (half burned, the rest to the fair-burn pool) — no seller, no developer share -/
theorem C02_fullbase_fee_routing (s s' : BF.State) (m : BF.Minter) (hm : s.minter = some m)
    (sender : Addr) (funds : List Coin) (uri : Nat) (uriOk : Bool) (h : BF.step s (.mint sender funds uri uriOk) = .ok s') :
    ∃ b1, s.bank.sendFunds sender m.addr funds = some b1 ∧
      MintPay.applyMsgs m.addr b1 (Sg1.fairBurn m.addr (BF.networkFee s.params m) none) = some s'.bank :=
  C02_fee_routing_base (BF.payOf s m) _ sender false funds true rfl (BF.mint_is_pay_mint hm h)

/-- exactly `⌊fee × FEE_BURN_PERCENT %⌋` ustars leave the supply, nothing in any other denom -/
theorem C02_fullbase_burn (s s' : BF.State) (m : BF.Minter) (hm : s.minter = some m)
    (sender : Addr) (funds : List Coin) (uri : Nat) (uriOk : Bool) (h : BF.step s (.mint sender funds uri uriOk) = .ok s')
    (d : Denom) :
    s'.bank.burned d = s.bank.burned d +
      (if NATIVE = d then mulFloor (BF.networkFee s.params m) (percent Gen.sg1_FEE_BURN_PERCENT) else 0) :=
  C02_base_burn (BF.payOf s m) _ sender false funds true rfl (BF.mint_is_pay_mint hm h) d

/-- the minter contract's own balance is unchanged by every accepted mint whose payer is not the minter itself -/
theorem C02_fullbase_minter_balance_unchanged (s s' : BF.State) (m : BF.Minter) (hm : s.minter = some m)
    (sender : Addr) (funds : List Coin) (uri : Nat) (uriOk : Bool) (h : BF.step s (.mint sender funds uri uriOk) = .ok s')
    (hsm : sender ≠ m.addr)
    (hrec : m.addr ∉ MintPay.recipients BF.payVariant (BF.payFactory s.params) (BF.payMinter m)) (d : Denom) :
    s'.bank.bal m.addr d = s.bank.bal m.addr d :=
  C02_minter_balance_unchanged_partial (BF.payOf s m) _ sender false funds true (BF.mint_is_pay_mint hm h)
    (Or.inl (by simp [BF.payOf, BF.payVariant])) hsm hrec d

/-- conservation: an accepted composite mint creates, loses and strands nothing (balances + burned = minted, per denom) -/
theorem C02_fullbase_conservation (s s' : BF.State) (m : BF.Minter) (hm : s.minter = some m)
    (sender : Addr) (funds : List Coin) (uri : Nat) (uriOk : Bool) (h : BF.step s (.mint sender funds uri uriOk) = .ok s')
    (accts : List Addr) (hn : accts.Nodup) (hsnd : sender ∈ accts) (hmin : m.addr ∈ accts)
    (hrec : ∀ a ∈ MintPay.recipients BF.payVariant (BF.payFactory s.params) (BF.payMinter m), a ∈ accts)
    (d : Denom) :
    s'.bank.total accts d + s'.bank.burned d = s.bank.total accts d + s.bank.burned d ∧
    s'.bank.minted d = s.bank.minted d := by
  obtain ⟨h1, h2, _⟩ := C02_conservation (BF.payOf s m) _ sender false funds true accts hn hsnd hmin hrec
    (BF.mint_is_pay_mint hm h) d
  exact ⟨h1, h2⟩

/-- the minter's own balance is unchanged after ANY composite history (every message kind of the family: mints with any
funds, accepted or not, governance, migrations, trading-time updates, collection traffic, clock), as long as nobody funds the
minter directly and the minter is not its own payer: nothing is ever stranded in it -/
theorem C02_fullbase_history_minter_never_holds (s : BF.State) (m : BF.Minter) (hm : s.minter = some m) (ops : List BF.Op)
    (haway : ∀ op ∈ ops, BF.PayAway m.addr op)
    (hrec : m.addr ∉ MintPay.recipients BF.payVariant (BF.payFactory s.params) (BF.payMinter m)) (d : Denom) :
    (BF.run s ops).bank.bal m.addr d = s.bank.bal m.addr d := by
  obtain ⟨m', _, heq⟩ := BF.pay_run s m hm ops
  have hd : LAUNCHPAD_DAO ≠ m.addr := by
    intro e
    apply hrec
    simp [MintPay.recipients, e]
  have := C02_history_minter_never_holds (BF.payOf s m) (BF.payRunOps s ops) hrec
    (BF.payRunOps_away s ops m.addr hd haway) d
  rw [← heq] at this
  exact this

/-! ## C18 — governance: the factory's parameters are read LIVE, the price is CAPTURED at creation

Projection `BF.govOf` (params as `Gov.Params.b`, the minter in slot 0 with its captured price and status); translation
`BF.govOps`; forward simulation with stuttering for every message (Lemmas/BaseFullGov2.lean): `sudo UpdateParams`, `migrate` and
`sudo UpdateStatus` are simulated functionally (same verdict both ways), an accepted `CreateMinter` / `Mint` /
`UpdateStartTradingTime` is an accepted aspect op evaluated against the params in force. -/

namespace BF

theorem codes_step' (s : State) (op : Op) : (step' s op).codes = s.codes := by
  rcases step'_cases s op with ⟨s', hok, hs'⟩ | ⟨_, hs'⟩
  · rw [hs']; exact (step_frame hok).1
  · rw [hs']

def govRunOps (s : State) : List Op → List Gov.Op
  | [] => []
  | op :: rest => govOps s op ++ govRunOps (step' s op) rest

theorem gov_run_append (e : Gov.Env) (w : Gov.World) (a b : List Gov.Op) :
    Gov.run e w (a ++ b) = Gov.run e (Gov.run e w a) b := by
  simp [Gov.run, List.foldl_append]

theorem gov_run (e : Gov.Env) (s : State) (he : EnvAgrees e s.codes) (ops : List Op) :
    govOf (run s ops) = Gov.run e (govOf s) (govRunOps s ops) := by
  induction ops generalizing s with
  | nil => rfl
  | cons op ops ih =>
    rw [run_cons, ih (step' s op) (by rw [codes_step']; exact he), gov_sim e s he op]
    simp only [govRunOps]
    rw [gov_run_append]

end BF

/-- the C18 simulation: one composite step (ANY message) = the translated aspect ops on the projection -/
theorem C18_fullbase_refines (e : Gov.Env) (s : BF.State) (he : BF.EnvAgrees e s.codes) (op : BF.Op) :
    BF.govOf (BF.step' s op) = Gov.run e (BF.govOf s) (BF.govOps s op) :=
  BF.gov_sim e s he op

theorem C18_fullbase_refines_run (e : Gov.Env) (s : BF.State) (he : BF.EnvAgrees e s.codes) (ops : List BF.Op) :
    BF.govOf (BF.run s ops) = Gov.run e (BF.govOf s) (BF.govRunOps s ops) :=
  BF.gov_run e s he ops

/-- over ALL composite histories the factory params are exactly the fold of the governance updates submitted (by `sudo` or
through `migrate`) — nothing else writes them (`C18_observed_params_history` through the simulation) -/
theorem C18_fullbase_params_history (e : Gov.Env) (s : BF.State) (he : BF.EnvAgrees e s.codes) (ops : List BF.Op) :
    BF.govParams (BF.run s ops).params =
      Gov.runUpd Gov.Params.sudo (BF.govParams s.params) (Gov.updatesOf (BF.govRunOps s ops)) := by
  have h := C18_observed_params_history e (BF.govRunOps s ops) (BF.govOf s)
  rw [← BF.gov_run e s he ops] at h
  exact h

/-- frame conditions of an ACCEPTED update: every field is the supplied value, else the old one; the allow-list is
"old ∪ added, minus removed" as a set; the extension bit is never touched -/
theorem C18_fullbase_params_frame (s s' : BF.State) (u : BF.ParamsUpdate) (h : BF.step s (.sudoParams u) = .ok s') :
    s'.params.codeId = u.codeId.getD s.params.codeId ∧
    s'.params.frozen = u.frozen.getD s.params.frozen ∧
    s'.params.creationFee = u.creationFee.getD s.params.creationFee ∧
    s'.params.minMintPrice = u.minMintPrice.getD s.params.minMintPrice ∧
    s'.params.mintFeeBps = u.mintFeeBps.getD s.params.mintFeeBps ∧
    s'.params.maxTradingOffsetSecs = u.maxTradingOffsetSecs.getD s.params.maxTradingOffsetSecs ∧
    s'.params.ext = s.params.ext ∧
    (∀ x, x ∈ s'.params.allowed ↔ (x ∈ s.params.allowed ∨ x ∈ u.addCodes.getD []) ∧ x ∉ u.rmCodes.getD []) ∧
    s'.minter = s.minter ∧ s'.bank = s.bank ∧ s'.now = s.now := by
  simp only [BF.step] at h
  obtain ⟨p, hp, rfl⟩ := BF.sudoParams_ok h
  have hs := BF.sudo_eq s.params u
  rw [hp] at hs
  have hb : Gov.sudoBase
      { codeId := s.params.codeId, allowed := s.params.allowed, frozen := s.params.frozen,
        creationFee := s.params.creationFee, minMintPrice := s.params.minMintPrice, mintFeeBps := s.params.mintFeeBps,
        maxTradingOffsetSecs := s.params.maxTradingOffsetSecs, ext := s.params.ext } (BF.govUpd u).toBase =
      .ok { codeId := p.codeId, allowed := p.allowed, frozen := p.frozen, creationFee := p.creationFee,
            minMintPrice := p.minMintPrice, mintFeeBps := p.mintFeeBps, maxTradingOffsetSecs := p.maxTradingOffsetSecs,
            ext := p.ext } := by
    simp only [BF.govParams, Gov.Params.sudo, Except.map] at hs
    cases hx : Gov.sudoBase _ (BF.govUpd u).toBase with
    | error e => rw [hx] at hs; cases hs
    | ok q => rw [hx] at hs; simp only [Except.ok.injEq, Gov.Params.b.injEq] at hs; rw [hs]
  obtain ⟨h1, h2, h3, h4, h5, h6, h7, h8⟩ := C18_params_frame_base _ _ _ hb
  exact ⟨h1, h2, h3, h4, h5, h6, h7, h8, rfl, rfl, rfl⟩

/-- "an update that would move the minimum mint price to a non-native denom is refused", by `sudo` and through `migrate`,
whatever else the message contains — and nothing at all is saved -/
theorem C18_fullbase_nonnative_refused (s : BF.State) (u : BF.ParamsUpdate) (c : Coin) (hu : u.minMintPrice = some c)
    (hc : c.denom ≠ NATIVE) (a : Addr) :
    BF.step' s (.sudoParams u) = s ∧ BF.step' s (.migrate a (some u)) = s := by
  have hup : ∃ e, BF.updateParams s.params u = .error e := by
    unfold BF.updateParams VF.nativeOr
    simp [hu, hc]
  obtain ⟨e, he⟩ := hup
  constructor
  · simp [BF.step', BF.step, BF.sudoParams, he]
  · unfold BF.step'
    simp only [BF.step, BF.migrate, BF.sudoParams, he]
    split
    · rename_i s' heq; split at heq <;> cases heq
    · rfl

/-- `migrate(Some(msg))` by the wasm admin is the same function of the state as `sudo UpdateParams(msg)`; `migrate(None)`
changes nothing; anybody else is refused -/
theorem C18_fullbase_migrate_same_as_sudo (s : BF.State) (a : Addr) (u : BF.ParamsUpdate) :
    (s.factoryAdmin = some a → BF.step s (.migrate a (some u)) = BF.step s (.sudoParams u) ∧
      BF.step s (.migrate a none) = .ok s) ∧
    (s.factoryAdmin ≠ some a → ∀ ou, BF.step' s (.migrate a ou) = s) := by
  constructor
  · intro h; simp [BF.step, BF.migrate, h]
  · intro h ou; simp [BF.step', BF.step, BF.migrate, h]

/-- CAPTURED: the price of a minter is the factory's `min_mint_price` of the moment of its creation and stays so after ANY
later history — updates of the minimum price included -/
theorem C18_fullbase_price_captured (s s1 : BF.State) (sender : Addr) (funds : List Coin) (msg : BF.CreateMsg)
    (w : BF.CreateWit) (h : BF.step s (.create sender funds msg w) = .ok s1) (ops : List BF.Op) :
    ∃ m', (BF.run s1 ops).minter = some m' ∧ m'.mintPrice = s.params.minMintPrice := by
  simp only [BF.step] at h
  obtain ⟨b1, ms, b2, m, _, _, _, _, _, hinst, rfl⟩ := BF.createMinter_ok h
  obtain ⟨m', hm', hid⟩ := BF.minter_frame_run { s with bank := b2, minter := some m } m rfl ops
  obtain ⟨creator, v, _, _, _, hmeq⟩ := BF.instantiateMinter_ok hinst
  refine ⟨m', hm', ?_⟩
  rw [hid.2.2.2.2.1, hmeq]

/-- LIVE: an accepted mint pays the captured price times the `mint_fee_bps` in force NOW — i.e. after every governance update
so far (`C18_fullbase_params_history` says which value that is) -/
theorem C18_fullbase_mint_observes_live_fee (s s' : BF.State) (m : BF.Minter) (hm : s.minter = some m)
    (sender : Addr) (funds : List Coin) (uri : Nat) (uriOk : Bool) (h : BF.step s (.mint sender funds uri uriOk) = .ok s') :
    mustPay funds NATIVE = .ok (m.mintPrice.amount * s.params.mintFeeBps / 10000) := by
  simp only [BF.step] at h
  obtain ⟨m0, hm0, hmint⟩ := BF.withMinterS_ok h
  rw [hm] at hm0; cases hm0
  obtain ⟨_, ms, _, _, _, _, _, hms, _⟩ := BF.mint_ok hmint
  obtain ⟨hpay, _⟩ := BF.mintMsgs_ok hms
  rw [hpay]
  unfold BF.networkFee
  rw [MintPay.mulFloor_bps]

/-- `sudo UpdateStatus`: the three flags become the supplied ones, nothing else changes; it only fails while no minter exists -/
theorem C18_fullbase_status (s : BF.State) (m : BF.Minter) (hm : s.minter = some m) (v b x : Bool) :
    BF.step s (.sudoStatus v b x) = .ok { s with minter := some { m with status := ⟨v, b, x⟩ } } := by
  simp [BF.step, BF.withMinter, hm]

/-! ## C19 — trading start time (family `base`: default = creation time + offset, no upper bound, never in the past)

Projection `BF.ttOf`, translation `BF.ttOps`, FUNCTIONAL simulation for every message (Lemmas/BaseFullTrading.lean). -/

namespace BF

def ttRunOps (s : State) : List Op → List TT.Op
  | [] => []
  | op :: rest => ttOps s op ++ ttRunOps (step' s op) rest

theorem tt_run_append (w : TT.World) (a b : List TT.Op) : TT.run w (a ++ b) = TT.run (TT.run w a) b := by
  simp [TT.run, List.foldl_append]

theorem tt_run (s : State) (m : Minter) (hm : s.minter = some m) (ops : List Op) :
    ∃ m', (run s ops).minter = some m' ∧ ttOf (run s ops) m' = TT.run (ttOf s m) (ttRunOps s ops) := by
  induction ops generalizing s m with
  | nil => exact ⟨m, hm, rfl⟩
  | cons op ops ih =>
    obtain ⟨m1, hm1, heq⟩ := tt_sim s m hm op
    obtain ⟨m', hm', hrun⟩ := ih (step' s op) m1 hm1
    refine ⟨m', by rw [run_cons]; exact hm', ?_⟩
    rw [run_cons, hrun, heq]
    simp only [ttRunOps]
    rw [tt_run_append]

/-- an accepted / refused `UpdateStartTradingTime` as the aspect model's step -/
theorem tt_upd_step (s : State) (m : Minter) (sender : Addr) (funds : List Coin) (t : Option Nat) :
    TT.step (ttOf s m) (.updTrading sender t funds.length) =
      (updateStartTradingTime s m sender funds t).map (fun m' => ttOf s m') := by
  simp only [TT.step]; exact tt_updTrading s m sender funds t

end BF

/-- the C19 simulation: one composite step (ANY message) = the translated aspect ops on the projection -/
theorem C19_fullbase_refines (s : BF.State) (m : BF.Minter) (hm : s.minter = some m) (op : BF.Op) :
    ∃ m', (BF.step' s op).minter = some m' ∧
      BF.ttOf (BF.step' s op) m' = TT.run (BF.ttOf s m) (BF.ttOps s op) :=
  BF.tt_sim s m hm op

theorem C19_fullbase_refines_run (s : BF.State) (m : BF.Minter) (hm : s.minter = some m) (ops : List BF.Op) :
    ∃ m', (BF.run s ops).minter = some m' ∧
      BF.ttOf (BF.run s ops) m' = TT.run (BF.ttOf s m) (BF.ttRunOps s ops) :=
  BF.tt_run s m hm ops

/-- creation: "(creation time plus the offset for the base minter)"; an explicit request is stored as given — whatever it is;
the collection is owned by the new minter, its creator is the one named in the request -/
theorem C19_fullbase_create_default (s s' : BF.State) (sender : Addr) (funds : List Coin) (msg : BF.CreateMsg)
    (w : BF.CreateWit) (h : BF.step s (.create sender funds msg w) = .ok s') :
    ∃ m creator t, s'.minter = some m ∧ msg.creator = some creator ∧ m.tt.trading = some t ∧
      (msg.trading = none → t = s.now + s.params.maxTradingOffsetSecs * 1000000000) ∧
      (∀ x, msg.trading = some x → t = x) ∧
      m.tt.owner = some w.minterAddr ∧ m.tt.pending = none ∧ m.tt.creator = creator := by
  simp only [BF.step] at h
  obtain ⟨m, creator, hm, hcr, hstep⟩ := BF.tt_create h
  obtain ⟨m0, c, t, hmc, ht, h1, h2, h3, h4, h5⟩ :=
    C19_create_default_base _ _ m.v.coll creator 0 none msg.trading rfl hstep
  simp only [BF.ttOf, Option.some.injEq, Prod.mk.injEq] at hmc
  obtain ⟨_, rfl⟩ := hmc
  exact ⟨m, creator, t, hm, hcr, ht, h1, h2, h3, h4, h5⟩

/-- update: exact characterisation of acceptance — no funds, the sender is the collection's CURRENT creator, a requested value is
not in the past (no upper bound in this family), the collection has the message (not sg721-nt) and is still owned by the minter -/
theorem C19_fullbase_update_iff (s : BF.State) (m : BF.Minter) (hm : s.minter = some m) (sender : Addr)
    (funds : List Coin) (t : Option Nat) :
    (∃ s', BF.step s (.updateStartTradingTime sender funds t) = .ok s') ↔
      funds = [] ∧ sender = m.tt.creator ∧ (∀ x, t = some x → s.now ≤ x) ∧
      m.tt.kind.hasTradingMsg = true ∧ m.tt.owner = some m.addr := by
  have hiff := C19_update_iff (BF.ttOf s m) (BF.ttMinter m) m.tt rfl sender funds.length t
  rw [BF.tt_upd_step] at hiff
  have hl : (∃ s', BF.step s (.updateStartTradingTime sender funds t) = .ok s') ↔
      (∃ w', (BF.updateStartTradingTime s m sender funds t).map (fun m' => BF.ttOf s m') = .ok w') := by
    simp only [BF.step, BF.withMinter, hm]
    cases BF.updateStartTradingTime s m sender funds t <;> simp [Except.map]
  rw [hl, hiff]
  constructor
  · rintro ⟨h1, h2, h3, h4, h5⟩
    exact ⟨List.eq_nil_of_length_eq_zero h1, by simpa [TT.adminOf, BF.ttOf] using h2, fun x hx => (h3 x hx).1, h4, h5⟩
  · rintro ⟨h1, h2, h3, h4, h5⟩
    exact ⟨by rw [h1]; rfl, by simpa [TT.adminOf, BF.ttOf] using h2, fun x hx => ⟨h3 x hx, fun hf => absurd rfl hf⟩, h4, h5⟩

/-- "no minter (the base minter included) accepts an update that sets it earlier than the current time"; the accepted value
becomes the visible one -/
theorem C19_fullbase_update_bound (s s' : BF.State) (m : BF.Minter) (hm : s.minter = some m) (sender : Addr)
    (funds : List Coin) (t : Nat) (h : BF.step s (.updateStartTradingTime sender funds (some t)) = .ok s') :
    s.now ≤ t ∧ sender = m.tt.creator ∧ ∃ m', s'.minter = some m' ∧ m'.tt.trading = some t := by
  obtain ⟨_, h2, h3, _, _⟩ := (C19_fullbase_update_iff s m hm sender funds (some t)).1 ⟨s', h⟩
  refine ⟨h3 t rfl, h2, ?_⟩
  simp only [BF.step] at h
  obtain ⟨m0, m', hm0, hf, rfl⟩ := BF.withMinter_ok h
  rw [hm] at hm0; cases hm0
  obtain ⟨c, _, _, _, hc, rfl⟩ := BF.updateStartTradingTime_ok hf
  refine ⟨_, rfl, ?_⟩
  simp only [TT.Coll.updateTrading] at hc
  repeat' split at hc
  all_goals first | (cases hc; done) | (cases hc; rfl)

/-- authorisation: the collection accepts a trading-time change only from its minter (the cw_ownable owner) -/
theorem C19_fullbase_auth_collection (s s' : BF.State) (m : BF.Minter) (hm : s.minter = some m) (sender : Addr)
    (t : Option Nat) (h : BF.step s (.collTrading sender t) = .ok s') : m.tt.owner = some sender := by
  simp only [BF.step] at h
  obtain ⟨m0, c, hm0, hc, _⟩ := BF.onColl_ok h
  rw [hm] at hm0; cases hm0
  simp only [TT.Coll.updateTrading] at hc
  split at hc
  · cases hc
  · split at hc
    · rename_i ho; exact ho
    · cases hc

/-- "the value visible in the collection info is always one the minter validated", for ALL composite histories from a state
whose collection is owned by the minter with no transfer pending (as right after `CreateMinter`), as long as the messages sent
straight to the collection come from anybody but the minter contract's own address: the visible value is the one stored by the
most recent validated write (`UpdateStartTradingTime` accepted by the minter), else the one visible at the start -/
theorem C19_fullbase_validated_history (s : BF.State) (m : BF.Minter) (hm : s.minter = some m)
    (hown : m.tt.owner = some m.addr ∧ m.tt.pending = none) (ops : List BF.Op)
    (hext : ∀ op ∈ BF.ttRunOps s ops, op.External m.addr) :
    ∃ m', (BF.run s ops).minter = some m' ∧
      some m'.tt.trading =
        ((TT.validatedHistory (BF.ttOf s m) (BF.ttRunOps s ops)).getLast?).getD (some m.tt.trading) := by
  obtain ⟨m', hm', heq⟩ := BF.tt_run s m hm ops
  have hinv : TT.OwnerInv (BF.ttOf s m) := by
    intro m0 c hmc
    simp only [BF.ttOf, Option.some.injEq, Prod.mk.injEq] at hmc
    obtain ⟨_, rfl⟩ := hmc
    exact hown
  have := C19_validated_history (BF.ttOf s m) (BF.ttRunOps s ops) hinv hext
  rw [← heq] at this
  exact ⟨m', hm', this⟩

/-! ## Non-vacuity: a kernel-evaluated composite history in which the hypotheses of the theorems above hold

`BF.exOps` (Lemmas/BaseFull.lean): a payer who is not the creator, an over-paid creation fee, a governance change between creation
and mint, an accepted and two refused mints, a refused trading-time update on sg721-nt, a holder burn. -/

example : BF.exInit.minter = none := rfl
example : ((BF.run BF.exInit (BF.exOps.take 3)).minter).isSome = true := by decide
/-- index 1 after three mint attempts, wasm admin = payer, collection admin = creator, price still the captured one -/
example : ((BF.run BF.exInit BF.exOps).minter.map fun m => (m.seq.tokenIndex, m.wasmAdmin, m.collAdmin, m.mintPrice.amount)) =
    some (1, 11, 10, 50000000) := by decide
/-- the over-payment stays with the factory, the minter holds nothing, the creator paid exactly captured price × live rate -/
example : ((BF.run BF.exInit BF.exOps).bank.bal 1000 0, (BF.run BF.exInit BF.exOps).bank.bal 1001 0,
    (BF.run BF.exInit BF.exOps).bank.bal 10 0) = (777, 0, 990000000) := by decide
/-- the burnt token is gone, the index is not reused, the trading time was never touched (sg721-nt has no such message) -/
example : ((BF.run BF.exInit BF.exOps).minter.map fun m => (m.seq.coll.toks, m.seq.coll.count, m.tt.trading)) =
    some ([], 0, some (5000 + 604800 * 1000000000)) := by decide
/-- the code tables of the example satisfy `EnvAgrees` for the harness' table of the eleven minter codes -/
example : BF.EnvAgrees ⟨[1, 2, 3, 4, 5, 6, 7, 8, 9, 10, 11], [16, 17, 18, 19]⟩ BF.exInit.codes := by
  constructor
  · intro code h
    have : code = 11 := by simpa [BF.exInit, BF.init] using h
    subst this; decide
  · intro code h
    rw [BF.variantOf_std BF.exInit.codes rfl code] at h
    simp only [Bool.and_eq_true, decide_eq_true_eq] at h
    have hc : code = 16 ∨ code = 17 ∨ code = 18 ∨ code = 19 := by omega
    rcases hc with rfl | rfl | rfl | rfl <;> decide

end LP
