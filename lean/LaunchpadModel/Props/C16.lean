import LaunchpadModel.Model.Airdrop
import LaunchpadModel.Model.AirdropCrypto
import LaunchpadModel.Lemmas.Airdrop
/-!
# C16 — ETH airdrop: only the key holder claims, bound to one wallet, within limits

Every theorem quantifies over an arbitrary `Crypto` (Keccak, `secp256k1_recover_pubkey`, `secp256k1_verify`),
arbitrary states and arbitrary byte strings. History theorems are inductions over `List Op`
(claims by anybody with any arguments, coins arriving anywhere, any administration of the collection whitelist, the
minter pointing to any other whitelist, time passing, any other message to the contract).

Honesty notes. `C16_failed_no_effect` and `C16_other_messages_no_effect` restate the shape of the model (atomic `step'`,
no message besides `ClaimAirdrop`); the corresponding clauses are carried by the harness monitors on the real code
(`failed-claim-effect`, `exec_raw/*`), not by these proofs. The per-ADDRESS reading of the limit clause is false for the
code as it is: see `C16_limit_per_address_partial` / `_spellings` / `_counterexample`.

Unforgeability of ECDSA is not (and cannot be) proved; what "a signature cannot be replayed" rests on is made
explicit: a replay that succeeds *is* one of three concrete collisions (`ReplayCollision`,
`C16_replay_needs_collision`).
-/
namespace LP
open LP.Airdrop

/-! ## the claim text binds the claimant's own address -/

/-- "… the claim text containing the claimant's own Stargaze address": a template that contains `{wallet}`
(which `instantiate` enforces, `C16_instantiate_post`) yields different texts for different wallets. -/
theorem C16_text_injective (tpl a b : Bytes) (h : containsPat WALLET tpl = true)
    (e : claimText tpl a = claimText tpl b) : a = b :=
  join_injective _ (splitPat_two_of_contains WALLET (by decide) [] tpl h) a b e

/-- without the placeholder the text would be the same for everybody (why `instantiate` insists on it) -/
theorem C16_text_constant_without_placeholder (tpl a : Bytes) (h : containsPat WALLET tpl = false) :
    claimText tpl a = tpl :=
  replaceAll_of_not_contains WALLET a tpl h

/-- what is hashed (`"\x19Ethereum Signed Message:\n" ‖ len ‖ text`) determines the text -/
theorem C16_envelope_injective (a b : Bytes) (h : envelope a = envelope b) : a = b :=
  envelope_injective a b h

/-! ## what `verify_ethereum_text` accepts -/

/-- `sig` (raw bytes `r‖s‖v`) is a valid personal-sign signature by the 20-byte address `addr` over `text`:
`v ∈ {0,1,27,28}`, `r‖s` is 64 bytes, the key recovered from the personal-sign digest hashes to `addr`, and the
signature verifies under that key. -/
def SigValid (C : Crypto) (text sig addr : Bytes) : Prop :=
  ∃ rec pk, sig ≠ [] ∧ getRecoveryParam (sig.getLast?.getD 0) = some rec ∧ sig.dropLast.length = 64 ∧
    C.recover (digest C text) sig.dropLast rec = some pk ∧ ethereumAddressRaw C pk = some addr ∧
    C.verify (digest C text) sig.dropLast pk = some true

theorem C16_verify_true_iff (C : Crypto) (text sig signer : Bytes) :
    verifyEthereumText C text sig signer = some true ↔
      ∃ a, decodeAddress signer = some a ∧ SigValid C text sig a := by
  unfold verifyEthereumText SigValid
  constructor
  · intro h
    split at h
    · cases h
    · rename_i a ha
      split at h
      · cases h
      · rename_i hne
        split at h
        · cases h
        · rename_i rec hrec
          split at h
          · cases h
          · rename_i hlen
            split at h
            · cases h
            · rename_i pk hpk
              split at h
              · cases h
              · rename_i calcAddr hcalc
                split at h
                · cases h
                · rename_i heq
                  have heq : a = calcAddr := by simpa using heq
                  subst heq
                  exact ⟨a, ha, rec, pk, hne, hrec, by simpa using hlen, hpk, hcalc, h⟩
  · rintro ⟨a, ha, rec, pk, hne, hrec, hlen, hpk, hcalc, hver⟩
    simp [ha, hne, hrec, hlen, hpk, hcalc, hver]

/-- "malformed addresses … are rejected, never accepted" (function level): anything but 42 bytes, `0x`,
40 hex digits makes `verify_ethereum_text` fail -/
theorem C16_verify_malformed_address (C : Crypto) (text sig signer : Bytes)
    (h : signer.length ≠ 42 ∨ signer.take 2 ≠ [48, 120] ∨ ∃ c ∈ signer.drop 2, hexVal c = none) :
    verifyEthereumText C text sig signer = none := by
  have hd : decodeAddress signer = none := by
    unfold decodeAddress
    rcases h with h | h | ⟨c, hc, hv⟩
    · simp [h]
    · split
      · rfl
      · rfl
    · split
      · rfl
      · split
        · rfl
        · exact hexDecode_nonhex _ c hc hv
  simp [verifyEthereumText, hd]

/-- "… or signatures": an empty signature, a recovery byte outside {0, 1, 27, 28}, or `r‖s` not 64 bytes long
is never accepted -/
theorem C16_verify_malformed_signature (C : Crypto) (text sig signer : Bytes)
    (h : sig = [] ∨ sig.length ≠ 65 ∨ (∀ v, sig.getLast? = some v → v ≠ 0 ∧ v ≠ 1 ∧ v ≠ 27 ∧ v ≠ 28)) :
    verifyEthereumText C text sig signer ≠ some true := by
  intro hv
  obtain ⟨a, _, rec, pk, hne, hrec, hlen, _⟩ := (C16_verify_true_iff C text sig signer).mp hv
  rcases h with h | h | h
  · exact hne h
  · simp only [List.length_dropLast] at hlen
    have : 0 < sig.length := List.length_pos_iff.mpr hne
    omega
  · obtain ⟨v, hv⟩ : ∃ v, sig.getLast? = some v := by
      cases hs : sig.getLast? with
      | none => exact absurd (List.getLast?_eq_none_iff.mp hs) hne
      | some v => exact ⟨v, rfl⟩
    have := h v hv
    rw [hv] at hrec
    simp [getRecoveryParam, this] at hrec

/-- a signature is checked against ONE address: the same signature over the same text cannot be accepted for
two address strings that decode to different 20-byte addresses ("cannot be replayed for a different … address") -/
theorem C16_no_replay_other_address (C : Crypto) (text sig e1 e2 : Bytes)
    (h1 : verifyEthereumText C text sig e1 = some true) (h2 : verifyEthereumText C text sig e2 = some true) :
    decodeAddress e1 = decodeAddress e2 := by
  obtain ⟨a1, ha1, rec1, pk1, _, hrec1, _, hpk1, hc1, _⟩ := (C16_verify_true_iff C text sig e1).mp h1
  obtain ⟨a2, ha2, rec2, pk2, _, hrec2, _, hpk2, hc2, _⟩ := (C16_verify_true_iff C text sig e2).mp h2
  rw [hrec1] at hrec2; cases hrec2
  rw [hpk1] at hpk2; cases hpk2
  rw [hc1] at hc2; cases hc2
  rw [ha1, ha2]

/-! ### replay for another message needs a collision -/

/-- The replayed data *themselves* are a collision — not merely "a collision exists somewhere" (for a real
256-bit hash that is true by counting and would say nothing). For one signature `sig` accepted over two texts:
* the two different envelopes have the same Keccak digest, or
* the keys recovered from the two digests differ but hash to the same Ethereum address, or
* the two digests differ and `(r‖s, recovery id)` recovers the *same* key from both (impossible for secp256k1:
  `Q = r⁻¹(sR − zG)` determines `z`). -/
def ReplayCollision (C : Crypto) (m1 m2 sig : Bytes) : Prop :=
  (envelope m1 ≠ envelope m2 ∧ C.keccak (envelope m1) = C.keccak (envelope m2)) ∨
  (∃ rec pk1 pk2, pk1 ≠ pk2 ∧ C.recover (digest C m1) sig.dropLast rec = some pk1 ∧
      C.recover (digest C m2) sig.dropLast rec = some pk2 ∧ ethereumAddressRaw C pk1 = ethereumAddressRaw C pk2) ∨
  (digest C m1 ≠ digest C m2 ∧ ∃ rec pk, C.recover (digest C m1) sig.dropLast rec = some pk ∧
      C.recover (digest C m2) sig.dropLast rec = some pk)

/-- "a signature cannot be replayed for a different … message": if one signature is valid for one address over
two different texts, the two acceptances exhibit a concrete collision. -/
theorem C16_replay_needs_collision (C : Crypto) (m1 m2 sig a : Bytes) (hm : m1 ≠ m2)
    (h1 : SigValid C m1 sig a) (h2 : SigValid C m2 sig a) : ReplayCollision C m1 m2 sig := by
  obtain ⟨rec1, pk1, _, hrec1, _, hpk1, hc1, _⟩ := h1
  obtain ⟨rec2, pk2, _, hrec2, _, hpk2, hc2, _⟩ := h2
  rw [hrec1] at hrec2; cases hrec2
  by_cases hpk : pk1 = pk2
  · subst hpk
    by_cases hd : digest C m1 = digest C m2
    · left
      exact ⟨fun e => hm (envelope_injective m1 m2 e), hd⟩
    · right; right
      exact ⟨hd, rec1, pk1, hpk1, hpk2⟩
  · right; left
    exact ⟨rec1, pk1, pk2, hpk, hpk1, hpk2, by rw [hc1, hc2]⟩

/-- the converse reading: with primitives that have none of the three collisions on the data at hand, a
signature is valid for at most one text -/
theorem C16_sig_binds_text (C : Crypto) (m1 m2 sig a : Bytes) (hno : ¬ ReplayCollision C m1 m2 sig)
    (h1 : SigValid C m1 sig a) (h2 : SigValid C m2 sig a) : m1 = m2 :=
  Classical.byContradiction fun hm => hno (C16_replay_needs_collision C m1 m2 sig a hm h1 h2)

/-! ## a claim -/

/-- the two dispatched messages can be delivered: the minter has a collection whitelist, the airdrop contract
is one of its admins, it is not full, and the contract holds at least the airdrop amount -/
def Deliverable (s : State) : Prop :=
  ∃ w, s.env.cwl = some w ∧ s.amount ≤ s.env.bal s.self ∧ w.admins.contains s.self = true ∧
    w.members.length < w.memberLimit

/-- "An airdrop claim succeeds only when the Ethereum address is on the airdrop's list and the supplied
signature is a valid personal-sign signature by that address over the claim text containing the claimant's own
Stargaze address" — and exactly when, in addition, the address has claims left and the payout is deliverable. -/
theorem C16_claim_ok_iff (C : Crypto) (s : State) (sender eth sig : Bytes) :
    (∃ s', claim C s sender eth sig = .ok s') ↔
      s.eligible.contains eth = true ∧
      (∃ a sb, decodeAddress eth = some a ∧ hexDecode sig = some sb ∧
        SigValid C (claimText s.template sender) sb a) ∧
      s.counts eth < s.perAddressLimit ∧ Deliverable s := by
  constructor
  · rintro ⟨s', h⟩
    unfold claim at h
    split at h
    · cases h
    · rename_i hel
      split at h
      · cases h
      · rename_i sb hsb
        split at h
        · cases h
        · cases h
        · rename_i hver
          obtain ⟨a, ha, hsv⟩ := (C16_verify_true_iff C _ _ _).mp hver
          split at h
          · cases h
          · rename_i hcnt
            split at h
            · cases h
            · rename_i w hw
              split at h
              · cases h
              · rename_i bal' hbal
                split at h
                · cases h
                · rename_i w' hadd
                  refine ⟨by simpa using hel, ⟨a, sb, ha, hsb, hsv⟩, by simpa using hcnt, w, hw, ?_, ?_, ?_⟩
                  · unfold send debit at hbal
                    split at hbal
                    · cases hbal
                    · rename_i hlt
                      split at hlt
                      · cases hlt
                      · rename_i hge; omega
                  · unfold CollWl.addMember at hadd
                    split at hadd
                    · cases hadd
                    · rename_i hadm; simpa using hadm
                  · unfold CollWl.addMember at hadd
                    split at hadd
                    · cases hadd
                    · split at hadd
                      · cases hadd
                      · rename_i hfull; omega
  · rintro ⟨hel, ⟨a, sb, ha, hsb, hsv⟩, hcnt, w, hw, hbal, hadm, hfull⟩
    have hver : verifyEthereumText C (claimText s.template sender) sb eth = some true :=
      (C16_verify_true_iff C _ _ _).mpr ⟨a, ha, hsv⟩
    have hnotlt : ¬ s.env.bal s.self < s.amount := by omega
    have hnotfull : ¬ w.memberLimit ≤ w.members.length := by omega
    by_cases hm : w.members.contains sender = true
    · simp only [claim, hel, hsb, hver, hcnt, hw, send, debit, hnotlt, CollWl.addMember, hadm, hnotfull, hm]
      exact ⟨_, rfl⟩
    · simp only [claim, hel, hsb, hver, hcnt, hw, send, debit, hnotlt, CollWl.addMember, hadm, hnotfull, hm]
      exact ⟨_, rfl⟩

/-- The "only when" half on its own, spelled out. -/
theorem C16_claim_only_if (C : Crypto) (s s' : State) (sender eth sig : Bytes)
    (h : claim C s sender eth sig = .ok s') :
    s.eligible.contains eth = true ∧
    ∃ a sb, decodeAddress eth = some a ∧ hexDecode sig = some sb ∧
      SigValid C (claimText s.template sender) sb a :=
  let ⟨h1, h2, _⟩ := (C16_claim_ok_iff C s sender eth sig).mp ⟨s', h⟩
  ⟨h1, h2⟩

/-- "malformed addresses or signatures are rejected, never accepted" (contract level). -/
theorem C16_malformed_rejected (C : Crypto) (s : State) (sender eth sig : Bytes)
    (h : -- the address string
         eth.length ≠ 42 ∨ eth.take 2 ≠ [48, 120] ∨ (∃ c ∈ eth.drop 2, hexVal c = none) ∨
         -- the signature string: not hex
         sig.length % 2 = 1 ∨ (∃ c ∈ sig, hexVal c = none) ∨
         -- hex, but not 65 bytes `r‖s‖v` with v ∈ {0,1,27,28}
         (∀ sb, hexDecode sig = some sb →
            sb.length ≠ 65 ∨ ∀ v, sb.getLast? = some v → v ≠ 0 ∧ v ≠ 1 ∧ v ≠ 27 ∧ v ≠ 28)) :
    ∀ s', claim C s sender eth sig ≠ .ok s' := by
  intro s' hok
  obtain ⟨_, ⟨a, sb, ha, hsb, hsv⟩, _, _⟩ := (C16_claim_ok_iff C s sender eth sig).mp ⟨s', hok⟩
  have hver := (C16_verify_true_iff C (claimText s.template sender) sb eth).mpr ⟨a, ha, hsv⟩
  rcases h with h | h | h | h | ⟨c, hc, hv⟩ | h
  · rw [C16_verify_malformed_address C _ _ _ (Or.inl h)] at hver; cases hver
  · rw [C16_verify_malformed_address C _ _ _ (Or.inr (Or.inl h))] at hver; cases hver
  · rw [C16_verify_malformed_address C _ _ _ (Or.inr (Or.inr h))] at hver; cases hver
  · rw [hexDecode_odd sig h] at hsb; cases hsb
  · rw [hexDecode_nonhex sig c hc hv] at hsb; cases hsb
  · rcases h sb hsb with h | h
    · exact C16_verify_malformed_signature C _ sb eth (Or.inr (Or.inl h)) hver
    · exact C16_verify_malformed_signature C _ sb eth (Or.inr (Or.inr h)) hver

/-- "so a signature cannot be replayed for a different wallet": if the same signature string is accepted for
wallet `a` and for wallet `b ≠ a` (same template, address strings decoding to the same address — in particular
the same string), the two acceptances are themselves a hash / address / recovery collision (`ReplayCollision`). States may differ arbitrarily
otherwise (any later moment, any other airdrop with that template). -/
theorem C16_no_replay_other_wallet (C : Crypto) (s1 s2 s1' s2' : State) (a b e1 e2 sig : Bytes)
    (htpl : containsPat WALLET s1.template = true) (hsame : s2.template = s1.template)
    (he : decodeAddress e1 = decodeAddress e2) (hab : a ≠ b)
    (h1 : claim C s1 a e1 sig = .ok s1') (h2 : claim C s2 b e2 sig = .ok s2') :
    ∃ sb, hexDecode sig = some sb ∧
      ReplayCollision C (claimText s1.template a) (claimText s1.template b) sb := by
  obtain ⟨_, x1, sb1, hx1, hsb1, hv1⟩ := C16_claim_only_if C s1 s1' a e1 sig h1
  obtain ⟨_, x2, sb2, hx2, hsb2, hv2⟩ := C16_claim_only_if C s2 s2' b e2 sig h2
  have hsb : sb1 = sb2 := by rw [hsb1] at hsb2; exact Option.some.inj hsb2
  have hx : x1 = x2 := by rw [he, hx2] at hx1; exact (Option.some.inj hx1).symm
  subst hsb; subst hx
  rw [hsame] at hv2
  refine ⟨sb1, hsb1, ?_⟩
  exact C16_replay_needs_collision C _ _ sb1 x1
    (fun e => hab (C16_text_injective s1.template a b htpl e)) hv1 hv2

/-- "… or message": the same for two airdrops whose claim texts for the two callers differ. -/
theorem C16_no_replay_other_message (C : Crypto) (s1 s2 s1' s2' : State) (a b e1 e2 sig : Bytes)
    (he : decodeAddress e1 = decodeAddress e2)
    (hm : claimText s1.template a ≠ claimText s2.template b)
    (h1 : claim C s1 a e1 sig = .ok s1') (h2 : claim C s2 b e2 sig = .ok s2') :
    ∃ sb, hexDecode sig = some sb ∧
      ReplayCollision C (claimText s1.template a) (claimText s2.template b) sb := by
  obtain ⟨_, x1, sb1, hx1, hsb1, hv1⟩ := C16_claim_only_if C s1 s1' a e1 sig h1
  obtain ⟨_, x2, sb2, hx2, hsb2, hv2⟩ := C16_claim_only_if C s2 s2' b e2 sig h2
  have hsb : sb1 = sb2 := by rw [hsb1] at hsb2; exact Option.some.inj hsb2
  have hx : x1 = x2 := by rw [he, hx2] at hx1; exact (Option.some.inj hx1).symm
  subst hsb; subst hx
  refine ⟨sb1, hsb1, ?_⟩
  exact C16_replay_needs_collision C _ _ sb1 x1 hm hv1 hv2

/-- "… or address": one signature string, one caller — the address strings accepted with it all decode to the
same 20 bytes. No assumption on the cryptography. -/
theorem C16_no_replay_other_address_claim (C : Crypto) (s1 s2 s1' s2' : State) (a e1 e2 sig : Bytes)
    (hsame : s2.template = s1.template)
    (h1 : claim C s1 a e1 sig = .ok s1') (h2 : claim C s2 a e2 sig = .ok s2') :
    decodeAddress e1 = decodeAddress e2 := by
  obtain ⟨_, x1, sb1, hx1, hsb1, hv1⟩ := C16_claim_only_if C s1 s1' a e1 sig h1
  obtain ⟨_, x2, sb2, hx2, hsb2, hv2⟩ := C16_claim_only_if C s2 s2' a e2 sig h2
  have hsb : sb1 = sb2 := by rw [hsb1] at hsb2; exact Option.some.inj hsb2
  subst hsb
  rw [hsame] at hv2
  exact C16_no_replay_other_address C _ sb1 e1 e2
    ((C16_verify_true_iff C _ _ _).mpr ⟨x1, hx1, hv1⟩) ((C16_verify_true_iff C _ _ _).mpr ⟨x2, hx2, hv2⟩)

/-! ## effects of a claim -/

/-- "every successful claim pays exactly the airdrop amount to the caller and adds the caller to the
collection's whitelist" (and counts one claim for that Ethereum address; nothing else changes). -/
theorem C16_claim_effects (C : Crypto) (s s' : State) (sender eth sig : Bytes)
    (h : claim C s sender eth sig = .ok s') :
    -- paid: exactly the airdrop amount, from the contract to the caller, nobody else touched
    (sender ≠ s.self → s'.env.bal sender = s.env.bal sender + s.amount ∧
                        s'.env.bal s.self + s.amount = s.env.bal s.self) ∧
    (∀ x, x ≠ sender → x ≠ s.self → s'.env.bal x = s.env.bal x) ∧
    -- whitelisted: the caller is on the collection whitelist, nobody was dropped
    (∃ w w', s.env.cwl = some w ∧ s'.env.cwl = some w' ∧ w'.members.contains sender = true ∧
        (∀ m, w.members.contains m = true → w'.members.contains m = true) ∧
        w'.admins = w.admins ∧ w'.memberLimit = w.memberLimit) ∧
    -- recorded: one more claim for this Ethereum address only
    s'.counts eth = s.counts eth + 1 ∧ (∀ e, e ≠ eth → s'.counts e = s.counts e) ∧
    -- configuration untouched
    s'.self = s.self ∧ s'.template = s.template ∧ s'.amount = s.amount ∧ s'.eligible = s.eligible ∧
    s'.perAddressLimit = s.perAddressLimit := by
  unfold claim at h
  split at h
  · cases h
  · split at h
    · cases h
    · split at h
      · cases h
      · cases h
      · split at h
        · cases h
        · split at h
          · cases h
          · rename_i w hw
            split at h
            · cases h
            · rename_i bal' hbal
              split at h
              · cases h
              · rename_i w' hadd
                simp only [Except.ok.injEq] at h
                subst h
                have hb : ¬ s.env.bal s.self < s.amount ∧
                    bal' = credit (fun x => if x = s.self then s.env.bal x - s.amount else s.env.bal x) sender s.amount := by
                  unfold send debit at hbal
                  split at hbal
                  · cases hbal
                  · rename_i b hd
                    split at hd
                    · cases hd
                    · rename_i hge
                      simp only [Option.some.injEq] at hd hbal
                      subst hd; subst hbal
                      exact ⟨hge, rfl⟩
                obtain ⟨hge, hb⟩ := hb
                subst hb
                have hw' : w'.members.contains sender = true ∧
                    (∀ m, w.members.contains m = true → w'.members.contains m = true) ∧
                    w'.admins = w.admins ∧ w'.memberLimit = w.memberLimit := by
                  unfold CollWl.addMember at hadd
                  split at hadd
                  · cases hadd
                  · split at hadd
                    · cases hadd
                    · split at hadd
                      · rename_i hm
                        simp only [Except.ok.injEq] at hadd; subst hadd
                        exact ⟨hm, fun _ h => h, rfl, rfl⟩
                      · simp only [Except.ok.injEq] at hadd; subst hadd
                        refine ⟨by simp, ?_, rfl, rfl⟩
                        intro m hm
                        simp only [List.contains_eq_mem, List.mem_cons, decide_eq_true_eq] at hm ⊢
                        exact Or.inr hm
                refine ⟨?_, ?_, ⟨w, w', hw, rfl, hw'⟩, ?_, ?_, rfl, rfl, rfl, rfl, rfl⟩
                · intro hne
                  have hne' : ¬ s.self = sender := fun e => hne e.symm
                  simp only [credit, if_true, hne, if_false, hne']
                  constructor
                  · trivial
                  · omega
                · intro x hx1 hx2
                  simp [credit, hx1, hx2]
                · simp [bump]
                · intro e he
                  simp [bump, he]

/-- "failed claims pay nothing and record nothing": the transaction is atomic. This RESTATES the definition of `step'`
(failed op ⇒ old state); that the real transaction is atomic is what the monitor `failed-claim-effect` checks on the code
(whole bank table, every claim counter, every member of both collection whitelists: before = after). -/
theorem C16_failed_no_effect (C : Crypto) (s : State) (op : Op) (e : Err) (h : step C s op = .error e) :
    step' C s op = s := by
  simp [step', h]

/-! ## histories -/

theorem step_frame (C : Crypto) (s s' : State) (op : Op) (h : step C s op = .ok s') :
    s'.self = s.self ∧ s'.template = s.template ∧ s'.amount = s.amount ∧ s'.eligible = s.eligible ∧
    s'.perAddressLimit = s.perAddressLimit := by
  cases op with
  | claim sender eth sig =>
    have := C16_claim_effects C s s' sender eth sig h
    exact ⟨this.2.2.2.2.2.1, this.2.2.2.2.2.2.1, this.2.2.2.2.2.2.2.1, this.2.2.2.2.2.2.2.2.1, this.2.2.2.2.2.2.2.2.2⟩
  | env e =>
    simp only [step] at h
    split at h
    · simp only [Except.ok.injEq] at h; subst h; exact ⟨rfl, rfl, rfl, rfl, rfl⟩
    · cases h
  | other x => simp [step] at h

theorem step'_frame (C : Crypto) (s : State) (op : Op) :
    (step' C s op).self = s.self ∧ (step' C s op).template = s.template ∧ (step' C s op).amount = s.amount ∧
    (step' C s op).eligible = s.eligible ∧ (step' C s op).perAddressLimit = s.perAddressLimit := by
  unfold step'
  split
  · rename_i s' h; exact step_frame C s s' op h
  · exact ⟨rfl, rfl, rfl, rfl, rfl⟩

/-- the configuration (own address, claim text template, amount, list, per-address limit) never changes -/
theorem C16_config_immutable (C : Crypto) (s : State) (ops : List Op) :
    (run C s ops).self = s.self ∧ (run C s ops).template = s.template ∧ (run C s ops).amount = s.amount ∧
    (run C s ops).eligible = s.eligible ∧ (run C s ops).perAddressLimit = s.perAddressLimit := by
  induction ops generalizing s with
  | nil => exact ⟨rfl, rfl, rfl, rfl, rfl⟩
  | cons op ops ih =>
    have h1 := step'_frame C s op
    have h2 := ih (step' C s op)
    simp only [run, List.foldl_cons] at h2 ⊢
    exact ⟨h2.1.trans h1.1, h2.2.1.trans h1.2.1, h2.2.2.1.trans h1.2.2.1, h2.2.2.2.1.trans h1.2.2.2.1,
      h2.2.2.2.2.trans h1.2.2.2.2⟩

/-- one if `op` is a claim for `e` that succeeds in `s` -/
def okClaimFor (C : Crypto) (s : State) (op : Op) (e : Bytes) : Nat :=
  match op with
  | .claim sender eth sig =>
    match claim C s sender eth sig with
    | .ok _ => if eth = e then 1 else 0
    | .error _ => 0
  | _ => 0

/-- number of successful claims for the Ethereum address string `e` along a history -/
def claimsFor (C : Crypto) (s : State) : List Op → Bytes → Nat
  | [], _ => 0
  | op :: ops, e => okClaimFor C s op e + claimsFor C (step' C s op) ops e

theorem step'_counts (C : Crypto) (s : State) (op : Op) (e : Bytes) :
    (step' C s op).counts e = s.counts e + okClaimFor C s op e := by
  cases op with
  | claim sender eth sig =>
    simp only [step', step, okClaimFor]
    cases h : claim C s sender eth sig with
    | error x => simp
    | ok s' =>
      have := C16_claim_effects C s s' sender eth sig h
      simp only []
      by_cases he : eth = e
      · subst he; simp [this.2.2.2.1]
      · simp [he, this.2.2.2.2.1 e (fun x => he x.symm)]
  | env ev =>
    simp only [step', step, okClaimFor]
    split
    · rename_i s' h
      split at h
      · simp only [Except.ok.injEq] at h; subst h; rfl
      · cases h
    · rfl
  | other x => simp [step', step, okClaimFor]

/-- the on-chain counter is exactly the number of successful claims -/
theorem C16_counter_counts_claims (C : Crypto) (s : State) (ops : List Op) (e : Bytes) :
    (run C s ops).counts e = s.counts e + claimsFor C s ops e := by
  induction ops generalizing s with
  | nil => simp [run, claimsFor]
  | cons op ops ih =>
    have := ih (step' C s op)
    simp only [run, List.foldl_cons, claimsFor] at this ⊢
    rw [this, step'_counts]; omega

theorem step'_limit (C : Crypto) (s : State) (op : Op) (e : Bytes)
    (h : s.counts e ≤ s.perAddressLimit) : (step' C s op).counts e ≤ s.perAddressLimit := by
  rw [step'_counts]
  cases op with
  | env ev => simp [okClaimFor]; exact h
  | other x => simp [okClaimFor]; exact h
  | claim sender eth sig =>
    simp only [okClaimFor]
    cases hc : claim C s sender eth sig with
    | error x => simpa using h
    | ok s' =>
      simp only []
      by_cases he : eth = e
      · subst he
        have := ((C16_claim_ok_iff C s sender eth sig).mp ⟨s', hc⟩).2.2.1
        simp; omega
      · simpa [he] using h

/-- "Each Ethereum address claims at most the per-address limit": for every history of operations — claims by
anybody in any order with any arguments, funding, whitelist administration — starting from a state whose
counters are within the limit (in particular a freshly instantiated contract), every counter stays within it. -/
theorem C16_limit (C : Crypto) (s : State) (ops : List Op) (e : Bytes)
    (h : s.counts e ≤ s.perAddressLimit) : (run C s ops).counts e ≤ s.perAddressLimit := by
  induction ops generalizing s with
  | nil => simpa [run] using h
  | cons op ops ih =>
    have h1 := step'_limit C s op e h
    have hf := (step'_frame C s op).2.2.2.2
    have := ih (step' C s op) (by rw [hf]; exact h1)
    simp only [run, List.foldl_cons] at this ⊢
    rw [hf] at this; exact this

/-- … hence the number of successful claims per Ethereum address, over any history of a fresh contract,
is at most the limit ("all claim orders up to and past the per-address limit") -/
theorem C16_claims_le_limit (C : Crypto) (s : State) (ops : List Op) (e : Bytes) (h0 : s.counts e = 0) :
    claimsFor C s ops e ≤ s.perAddressLimit := by
  have h1 := C16_limit C s ops e (by omega)
  have h2 := C16_counter_counts_claims C s ops e
  omega

/-! ### total paid -/

def okClaim (C : Crypto) (s : State) (op : Op) : Nat :=
  match op with
  | .claim sender eth sig => match claim C s sender eth sig with | .ok _ => 1 | .error _ => 0
  | _ => 0

/-- number of successful claims along a history -/
def totalClaims (C : Crypto) (s : State) : List Op → Nat
  | [] => 0
  | op :: ops => okClaim C s op + totalClaims C (step' C s op) ops

/-- coins that arrived at `a` from outside -/
def fundedTo (a : Bytes) : List Op → Nat
  | [] => 0
  | .env (.fund to amt) :: ops => (if to = a then amt else 0) + fundedTo a ops
  | _ :: ops => fundedTo a ops

def notSelfClaim (self : Bytes) : Op → Prop
  | .claim sender _ _ => sender ≠ self
  | _ => True

theorem envStep_bal (e e' : Env) (op : EnvOp) (hop : ∀ to amt, op ≠ .fund to amt) (h : e.step op = .ok e') :
    e'.bal = e.bal := by
  cases op with
  | fund to amt => exact absurd rfl (hop to amt)
  | cwlAdd sender member =>
    simp only [Env.step] at h
    split at h
    · cases h
    · split at h
      · simp only [Except.ok.injEq] at h; subst h; rfl
      · cases h
  | cwlRemove sender member =>
    simp only [Env.step] at h
    split at h
    · cases h
    · split at h
      · simp only [Except.ok.injEq] at h; subst h; rfl
      · cases h
  | cwlAdmins sender admins =>
    simp only [Env.step] at h
    split at h
    · cases h
    · split at h
      · simp only [Except.ok.injEq] at h; subst h; rfl
      · cases h
  | cwlFreeze sender =>
    simp only [Env.step] at h
    split at h
    · cases h
    · split at h
      · simp only [Except.ok.injEq] at h; subst h; rfl
      · cases h
  | setCwl w => simp only [Env.step, Except.ok.injEq] at h; subst h; rfl
  | time t => simp only [Env.step, Except.ok.injEq] at h; subst h; rfl

theorem step'_env_bal (C : Crypto) (s : State) (op : EnvOp) (hop : ∀ to amt, op ≠ .fund to amt) :
    (step' C s (.env op)).env.bal = s.env.bal := by
  simp only [step', step]
  cases h : s.env.step op with
  | error x => rfl
  | ok e' => simp only []; exact envStep_bal s.env e' op hop h

theorem step'_self_balance (C : Crypto) (s : State) (op : Op) (hns : notSelfClaim s.self op) :
    (step' C s op).env.bal s.self + s.amount * okClaim C s op = s.env.bal s.self + fundedTo s.self [op] := by
  cases op with
  | claim sender eth sig =>
    simp only [step', step, okClaim, fundedTo]
    cases h : claim C s sender eth sig with
    | error x => simp
    | ok s' =>
      have := (C16_claim_effects C s s' sender eth sig h).1 hns
      simp only []; omega
  | env ev =>
    cases ev with
    | fund to amt =>
      simp only [step', step, Env.step, okClaim, fundedTo, credit]
      by_cases ht : to = s.self
      · simp [ht]
      · have : ¬ s.self = to := fun e => ht e.symm
        simp [ht, this]
    | cwlAdd sender member =>
      have := step'_env_bal C s (.cwlAdd sender member) (by intro to amt h; cases h)
      simp [this, okClaim, fundedTo]
    | cwlRemove sender member =>
      have := step'_env_bal C s (.cwlRemove sender member) (by intro to amt h; cases h)
      simp [this, okClaim, fundedTo]
    | cwlAdmins sender admins =>
      have := step'_env_bal C s (.cwlAdmins sender admins) (by intro to amt h; cases h)
      simp [this, okClaim, fundedTo]
    | cwlFreeze sender =>
      have := step'_env_bal C s (.cwlFreeze sender) (by intro to amt h; cases h)
      simp [this, okClaim, fundedTo]
    | setCwl w =>
      have := step'_env_bal C s (.setCwl w) (by intro to amt h; cases h)
      simp [this, okClaim, fundedTo]
    | time t =>
      have := step'_env_bal C s (.time t) (by intro to amt h; cases h)
      simp [this, okClaim, fundedTo]
  | other x => simp [step', step, okClaim, fundedTo]

theorem fundedTo_cons (a : Bytes) (op : Op) (ops : List Op) :
    fundedTo a (op :: ops) = fundedTo a [op] + fundedTo a ops := by
  cases op with
  | claim _ _ _ => simp [fundedTo]
  | env ev => cases ev <;> simp [fundedTo]
  | other _ => simp [fundedTo]

/-- "accounting of total paid": over any history, what left the contract is exactly
`airdrop_amount × (number of successful claims)`; nothing else ever leaves it. -/
theorem C16_total_paid (C : Crypto) (s : State) (ops : List Op) (hns : ∀ op ∈ ops, notSelfClaim s.self op) :
    (run C s ops).env.bal s.self + s.amount * totalClaims C s ops = s.env.bal s.self + fundedTo s.self ops := by
  induction ops generalizing s with
  | nil => simp [run, totalClaims, fundedTo]
  | cons op ops ih =>
    have hf := step'_frame C s op
    have h1 := step'_self_balance C s op (hns op (by simp))
    have h2 := ih (step' C s op) (by intro o ho; rw [hf.1]; exact hns o (by simp [ho]))
    rw [hf.1, hf.2.2.1] at h2
    simp only [run, List.foldl_cons, totalClaims] at h2 ⊢
    rw [fundedTo_cons, Nat.mul_add]
    omega

/-! ## instantiate -/

/-- a contract that instantiates: counters are zero, the template contains `{wallet}` (so `C16_text_injective`
applies in every reachable state, `C16_config_immutable`), the amount is within the documented bounds, the list is
the submitted one and non-empty, and the contract keeps `funds − INSTANTIATION_FEE`. -/
theorem C16_instantiate_post (e : Env) (self sender : Bytes) (funds : List Coin) (m : InstMsg) (s : State)
    (h : instantiate e self sender funds m = .ok s) :
    (∀ x, s.counts x = 0) ∧ containsPat WALLET s.template = true ∧ s.template = m.template ∧
    s.template.length ≤ 1000 ∧
    Gen.sg_eth_airdrop_MIN_AIRDROP ≤ s.amount ∧ s.amount ≤ Gen.sg_eth_airdrop_MAX_AIRDROP ∧ s.amount = m.amount ∧
    s.eligible = m.addresses ∧ s.eligible ≠ [] ∧ s.perAddressLimit = m.perAddressLimit ∧ s.self = self ∧
    s.env.cwl = e.cwl ∧
    ∃ paid, mustPay funds NATIVE = .ok paid ∧ Gen.sg_eth_airdrop_INSTANTIATION_FEE ≤ paid ∧
      (sender ≠ self → s.env.bal self = e.bal self + paid - Gen.sg_eth_airdrop_INSTANTIATION_FEE) := by
  unfold instantiate at h
  split at h
  · cases h
  · rename_i h1
    split at h
    · cases h
    · rename_i h2
      split at h
      · cases h
      · rename_i h3
        split at h
        · cases h
        · rename_i h4
          split at h
          · cases h
          · rename_i paid hp
            split at h
            · cases h
            · rename_i h5
              split at h
              · cases h
              · rename_i b1 hb1
                split at h
                · cases h
                · rename_i b2 hb2
                  split at h
                  · cases h
                  · rename_i h6
                    simp only [Except.ok.injEq] at h
                    subst h
                    refine ⟨fun _ => rfl, by simpa using h3, rfl, by simpa using h4, by simpa using h1,
                      by simpa using h2, rfl, rfl, ?_, rfl, rfl, rfl, paid, hp, by simpa using h5, ?_⟩
                    · intro hnil; exact h6 (by simpa using hnil)
                    · intro hne
                      unfold send debit at hb1
                      split at hb1
                      · cases hb1
                      · rename_i b hd
                        split at hd
                        · cases hd
                        · simp only [Option.some.injEq] at hd hb1
                          subst hd; subst hb1
                          unfold debit at hb2
                          split at hb2
                          · cases hb2
                          · simp only [Option.some.injEq] at hb2
                            subst hb2
                            have : ¬ self = sender := fun e => hne e.symm
                            simp [credit, this]

/-- every history of a freshly instantiated contract: each Ethereum address claimed at most the limit, and the
claim text stays injective in the claimant -/
theorem C16_fresh_contract (C : Crypto) (e : Env) (self sender : Bytes) (funds : List Coin) (m : InstMsg)
    (s : State) (h : instantiate e self sender funds m = .ok s) (ops : List Op) (eth : Bytes) :
    claimsFor C s ops eth ≤ m.perAddressLimit ∧
    (run C s ops).counts eth ≤ m.perAddressLimit ∧
    (∀ a b, claimText (run C s ops).template a = claimText (run C s ops).template b → a = b) := by
  have hp := C16_instantiate_post e self sender funds m s h
  refine ⟨?_, ?_, ?_⟩
  · have := C16_claims_le_limit C s ops eth (hp.1 eth); rw [hp.2.2.2.2.2.2.2.2.2.1] at this; exact this
  · have := C16_limit C s ops eth (by rw [hp.1 eth]; omega); rw [hp.2.2.2.2.2.2.2.2.2.1] at this; exact this
  · intro a b hab
    rw [(C16_config_immutable C s ops).2.1] at hab
    exact C16_text_injective s.template a b hp.2.1 hab

/-! ## per Ethereum ADDRESS (the 20 bytes), not per spelling of it

`C16_limit` / `C16_claims_le_limit` bound the claims per address *string*: eligibility (`whitelist-immutable`'s map) and
the counter (`ADDRS_TO_MINT_COUNT`) are keyed by the string as submitted, while `decode_address` ignores the case of the
hex digits. The property text says "each Ethereum address". What the code guarantees for an address is
`limit × (number of listed spellings of it)` (`C16_limit_per_address_spellings`); the literal clause holds when no address
is listed under two spellings (`C16_limit_per_address_partial`) and FAILS otherwise
(`C16_limit_per_address_counterexample`, replayed on the real contracts: `corpus/C16/case-variant-double-claim.json`). -/

/-- one if `op` is a successful claim whose address string satisfies `P` -/
def okClaimP (C : Crypto) (s : State) (op : Op) (P : Bytes → Bool) : Nat :=
  match op with
  | .claim sender eth sig =>
    match claim C s sender eth sig with
    | .ok _ => if P eth then 1 else 0
    | .error _ => 0
  | _ => 0

/-- number of successful claims along a history whose address string satisfies `P` -/
def claimsP (C : Crypto) (s : State) : List Op → (Bytes → Bool) → Nat
  | [], _ => 0
  | op :: ops, P => okClaimP C s op P + claimsP C (step' C s op) ops P

/-- the address strings that denote the 20-byte address `a` -/
def spells (a : Bytes) : Bytes → Bool := fun e => decide (decodeAddress e = some a)

def sumOver (L : List Bytes) (f : Bytes → Nat) : Nat := (L.map f).sum

theorem sumOver_add (L : List Bytes) (f g : Bytes → Nat) :
    sumOver L (fun e => f e + g e) = sumOver L f + sumOver L g := by
  induction L with
  | nil => simp [sumOver]
  | cons x xs ih => simp only [sumOver, List.map_cons, List.sum_cons] at ih ⊢; omega

theorem sumOver_le (L : List Bytes) (f : Bytes → Nat) (k : Nat) (h : ∀ e ∈ L, f e ≤ k) :
    sumOver L f ≤ L.length * k := by
  induction L with
  | nil => simp [sumOver]
  | cons x xs ih =>
    have h1 := h x (by simp)
    have h2 := ih (fun e he => h e (by simp [he]))
    simp only [sumOver, List.map_cons, List.sum_cons, List.length_cons] at h2 ⊢
    rw [Nat.add_mul]; omega

theorem one_le_sumOver_ite (L : List Bytes) (x : Bytes) (h : x ∈ L) :
    1 ≤ sumOver L (fun e => if x = e then 1 else 0) := by
  induction L with
  | nil => simp at h
  | cons y ys ih =>
    simp only [sumOver, List.map_cons, List.sum_cons]
    by_cases hxy : x = y
    · simp [hxy]
    · have : x ∈ ys := by simpa [hxy] using h
      have := ih this
      simp only [sumOver] at this
      omega

theorem okClaimP_le (C : Crypto) (s : State) (op : Op) (P : Bytes → Bool) (L : List Bytes)
    (hL : ∀ e, s.eligible.contains e = true → P e = true → e ∈ L) :
    okClaimP C s op P ≤ sumOver L (okClaimFor C s op) := by
  cases op with
  | env ev => simp [okClaimP]
  | other x => simp [okClaimP]
  | claim sender eth sig =>
    cases h : claim C s sender eth sig with
    | error x => simp [okClaimP, h]
    | ok s' =>
      by_cases hp : P eth = true
      · have hel := (C16_claim_only_if C s s' sender eth sig h).1
        have hmem := hL eth hel hp
        have hf : okClaimFor C s (.claim sender eth sig) = fun e => if eth = e then 1 else 0 := by
          funext e; simp [okClaimFor, h]
        rw [hf]
        have := one_le_sumOver_ite L eth hmem
        simp [okClaimP, h, hp]; exact this
      · simp [okClaimP, h, hp]

theorem claimsP_le (C : Crypto) (s : State) (ops : List Op) (P : Bytes → Bool) (L : List Bytes)
    (hL : ∀ e, s.eligible.contains e = true → P e = true → e ∈ L) :
    claimsP C s ops P ≤ sumOver L (claimsFor C s ops) := by
  induction ops generalizing s with
  | nil => simp [claimsP]
  | cons op ops ih =>
    have h1 := okClaimP_le C s op P L hL
    have h2 := ih (step' C s op) (by rw [(step'_frame C s op).2.2.2.1]; exact hL)
    have hf : claimsFor C s (op :: ops) = fun e => okClaimFor C s op e + claimsFor C (step' C s op) ops e := by
      funext e; simp [claimsFor]
    rw [hf, sumOver_add]
    simp only [claimsP]; omega

/-- What the code guarantees per Ethereum address, for every history of a fresh contract: at most
`limit × (number of listed strings that spell it)`. `L` is any list containing the listed spellings of `a`
(for instance `s.eligible.filter (spells a)` with duplicates removed). -/
theorem C16_limit_per_address_spellings (C : Crypto) (s : State) (ops : List Op) (a : Bytes) (L : List Bytes)
    (h0 : ∀ e, s.counts e = 0)
    (hL : ∀ e, s.eligible.contains e = true → decodeAddress e = some a → e ∈ L) :
    claimsP C s ops (spells a) ≤ L.length * s.perAddressLimit := by
  have h1 := claimsP_le C s ops (spells a) L (by intro e he hp; exact hL e he (by simpa [spells] using hp))
  have h2 := sumOver_le L (claimsFor C s ops) s.perAddressLimit
    (fun e _ => C16_claims_le_limit C s ops e (h0 e))
  omega

/- FULL clause ("Each Ethereum address claims at most the per-address limit"), false for the code as it is:
   `∀ C s ops a, (∀ e, s.counts e = 0) → claimsP C s ops (spells a) ≤ s.perAddressLimit`
   — see `C16_limit_per_address_counterexample`. Proved below under the hypothesis that the list (fixed by whoever
   instantiates the airdrop, never validated by the contract) does not contain one address under two spellings. -/
theorem C16_limit_per_address_partial (C : Crypto) (s : State) (ops : List Op) (a : Bytes)
    (h0 : ∀ e, s.counts e = 0)
    (hinj : ∀ e1 e2, s.eligible.contains e1 = true → s.eligible.contains e2 = true →
      decodeAddress e1 = some a → decodeAddress e2 = some a → e1 = e2) :
    claimsP C s ops (spells a) ≤ s.perAddressLimit := by
  by_cases hex : ∃ e0, s.eligible.contains e0 = true ∧ decodeAddress e0 = some a
  · obtain ⟨e0, h1, h2⟩ := hex
    have := C16_limit_per_address_spellings C s ops a [e0] h0
      (by intro e he hd; simp [hinj e e0 he h1 hd h2])
    simpa using this
  · have := C16_limit_per_address_spellings C s ops a [] h0
      (by intro e he hd; exact absurd ⟨e, he, hd⟩ hex)
    simp at this; omega

/-- the whole airdrop pays out at most `amount × limit × (length of the list)`: total successful claims over any
history of a fresh contract -/
theorem C16_total_claims_bound (C : Crypto) (s : State) (ops : List Op) (h0 : ∀ e, s.counts e = 0) :
    totalClaims C s ops ≤ s.eligible.length * s.perAddressLimit := by
  have ht : ∀ (s : State) (ops : List Op), totalClaims C s ops = claimsP C s ops (fun _ => true) := by
    intro s ops
    induction ops generalizing s with
    | nil => rfl
    | cons op ops ih =>
      have : okClaim C s op = okClaimP C s op (fun _ => true) := by
        cases op with
        | claim sender eth sig => simp only [okClaim, okClaimP]; split <;> simp
        | env ev => rfl
        | other x => rfl
      simp only [totalClaims, claimsP, ih, this]
  rw [ht]
  have h1 := claimsP_le C s ops (fun _ => true) s.eligible (by intro e he _; simpa using he)
  have h2 := sumOver_le s.eligible (claimsFor C s ops) s.perAddressLimit
    (fun e _ => C16_claims_le_limit C s ops e (h0 e))
  omega

/-! ## nobody else is paid, nothing else does anything -/

/-- `x` is the sender of a claim or the target of outside funding -/
def touches (x : Bytes) : Op → Prop
  | .claim sender _ _ => sender = x
  | .env (.fund to _) => to = x
  | _ => False

theorem step'_bal_other (C : Crypto) (s : State) (op : Op) (x : Bytes) (hx : x ≠ s.self) (ht : ¬ touches x op) :
    (step' C s op).env.bal x = s.env.bal x := by
  cases op with
  | claim sender eth sig =>
    simp only [step', step]
    cases h : claim C s sender eth sig with
    | error e => rfl
    | ok s' =>
      have := (C16_claim_effects C s s' sender eth sig h).2.1 x (fun e => ht (by simp [touches, e])) hx
      simpa using this
  | other y => simp [step', step]
  | env ev =>
    cases ev with
    | fund to amt =>
      have : x ≠ to := fun e => ht (by simp [touches, e])
      simp [step', step, Env.step, credit, this]
    | cwlAdd a b => rw [step'_env_bal C s _ (by intro to amt h; cases h)]
    | cwlRemove a b => rw [step'_env_bal C s _ (by intro to amt h; cases h)]
    | cwlAdmins a b => rw [step'_env_bal C s _ (by intro to amt h; cases h)]
    | cwlFreeze a => rw [step'_env_bal C s _ (by intro to amt h; cases h)]
    | setCwl w => rw [step'_env_bal C s _ (by intro to amt h; cases h)]
    | time t => rw [step'_env_bal C s _ (by intro to amt h; cases h)]

/-- "pays … to the caller" on histories: an account that is never the caller of a claim (and is not funded from outside)
never receives or loses anything, whatever claims others make — a claim cannot be made to pay a third party. -/
theorem C16_third_party_untouched (C : Crypto) (s : State) (ops : List Op) (x : Bytes) (hx : x ≠ s.self)
    (h : ∀ op ∈ ops, ¬ touches x op) : (run C s ops).env.bal x = s.env.bal x := by
  induction ops generalizing s with
  | nil => rfl
  | cons op ops ih =>
    have h1 := step'_bal_other C s op x hx (h op (by simp))
    have h2 := ih (step' C s op) (by rw [(step'_frame C s op).1]; exact hx) (fun o ho => h o (by simp [ho]))
    simp only [run, List.foldl_cons] at h2 ⊢
    rw [h2, h1]

/-- Any message other than `ClaimAirdrop` (to the airdrop contract or its whitelist-immutable) is refused and changes
nothing. This RESTATES that the model has no other message (`Op.other`); that the code has none is validated by the
harness (run-time schema enumeration, raw-JSON `exec_raw` / `sudo` / `migrate` ops under the balance / list / counter /
whitelist monitors). -/
theorem C16_other_messages_no_effect (C : Crypto) (s : State) (x : Bytes) : step' C s (.other x) = s := by
  simp [step', step]

/-- the claims a history makes do not depend on which collection whitelist happens to be attached for the counter
bookkeeping: swapping the whitelist or letting time pass leaves counters, list, limit and balances alone -/
theorem C16_env_change_frame (C : Crypto) (s : State) (w : Option CollWl) (t : Nat) :
    (step' C s (.env (.setCwl w))).counts = s.counts ∧ (step' C s (.env (.setCwl w))).env.bal = s.env.bal ∧
    (step' C s (.env (.setCwl w))).env.cwl = w ∧
    (step' C s (.env (.time t))).counts = s.counts ∧ (step' C s (.env (.time t))).env.bal = s.env.bal ∧
    (step' C s (.env (.time t))).env.cwl = s.env.cwl := by
  simp [step', step, Env.step]

/-! ## non-vacuity: a concrete world in which claims succeed and then hit the limit -/

namespace Example
/-- toy primitives: "hash" = identity, the "key" recovered from `(h, rs)` is `4 ‖ rs`, everything verifies -/
def toy : Crypto :=
  { keccak := id, recover := fun _ rs _ => some (4 :: rs), verify := fun _ _ _ => some true }

/-- `0x` followed by forty `1`s — the address of the toy key whose `r‖s` ends in twenty bytes `0x11` -/
def eth : Bytes := [48, 120] ++ List.replicate 40 49
/-- hex of 44 bytes `0x00`, 20 bytes `0x11`, then `v = 0x1b` (27) -/
def sig : Bytes := List.replicate 88 48 ++ List.replicate 40 49 ++ [49, 98]
def alice : Bytes := [97, 108, 105, 99, 101]
def bob : Bytes := [98, 111, 98]
def me : Bytes := [109, 101]

def s0 : State :=
  { env := { bal := fun x => if x = me then 25 else 0,
             cwl := some { members := [], memberLimit := 5, admins := [me], mutable := true } },
    self := me, template := WALLET, amount := 10, eligible := [eth], perAddressLimit := 2, counts := fun _ => 0 }

def outcome (s : State) (sender : Bytes) : Bool × Nat × Nat × Nat :=
  match claim toy s sender eth sig with
  | .ok s' => (true, s'.env.bal sender, s'.env.bal me, s'.counts eth)
  | .error _ => (false, s.env.bal sender, s.env.bal me, s.counts eth)

/-- two claims succeed (10 each out of 25), the third fails on the limit -/
example : outcome s0 alice = (true, 10, 15, 1) := by decide
example : outcome (step' toy s0 (.claim alice eth sig)) bob = (true, 10, 5, 2) := by decide
example : outcome (run toy s0 [.claim alice eth sig, .claim bob eth sig]) alice = (false, 10, 5, 2) := by decide
/-- a malformed address (41 characters) on the list is still rejected -/
example : (match claim toy { s0 with eligible := [eth.dropLast] } alice eth.dropLast sig with
    | .ok _ => true | .error _ => false) = false := by decide
/-- hypotheses of `C16_text_injective` / `C16_instantiate_post` are satisfiable -/
example : containsPat WALLET s0.template = true := by decide
example : (match instantiate
      { bal := fun x => if x = alice then Gen.sg_eth_airdrop_INSTANTIATION_FEE + 60000000 else 0, cwl := none } me alice
      [⟨NATIVE, Gen.sg_eth_airdrop_INSTANTIATION_FEE + 50000000⟩]
      { template := WALLET, amount := Gen.sg_eth_airdrop_MIN_AIRDROP, addresses := [eth], perAddressLimit := 1 } with
    | .ok s => (s.env.bal me, s.env.bal alice) | .error _ => (0, 0)) = (50000000, 10000000) := by decide
end Example

/-! ### the literal per-address clause fails: one key, two spellings on the list, `2 × limit` claims -/
namespace Example3
/-- `0x` + forty `a` / forty `A`: two spellings of the address `aa…aa` (20 bytes `0xaa`) -/
def ethLower : Bytes := [48, 120] ++ List.replicate 40 97
def ethUpper : Bytes := [48, 120] ++ List.replicate 40 65
def addr : Bytes := List.replicate 20 170
/-- hex of 44 bytes `0x00`, 20 bytes `0xaa`, then `v = 0x1b`: under `Example.toy` the recovered key's address is `addr` -/
def sig : Bytes := List.replicate 88 48 ++ List.replicate 40 97 ++ [49, 98]

def s0 : State :=
  { env := { bal := fun x => if x = Example.me then 25 else 0,
             cwl := some { members := [], memberLimit := 5, admins := [Example.me], mutable := true } },
    self := Example.me, template := WALLET, amount := 10, eligible := [ethLower, ethUpper], perAddressLimit := 1,
    counts := fun _ => 0 }

def ops : List Op := [.claim Example.alice ethLower sig, .claim Example.alice ethUpper sig]

example : decodeAddress ethLower = some addr ∧ decodeAddress ethUpper = some addr := by decide
end Example3

/-- Counter-example to the literal clause "each Ethereum address claims at most the per-address limit": a fresh contract
with limit 1 whose list names one address in lower and in upper case pays that one key twice (both claims signed by the
same key for the same wallet; the signature does not even have to change). -/
theorem C16_limit_per_address_counterexample :
    ∃ (C : Crypto) (s : State) (ops : List Op) (a : Bytes),
      (∀ e, s.counts e = 0) ∧ s.perAddressLimit < claimsP C s ops (spells a) :=
  ⟨Example.toy, Example3.s0, Example3.ops, Example3.addr, fun _ => rfl, by decide⟩

/-! ## non-vacuity of the replay theorems: primitives without collisions on the data, a valid signature, no replay -/

namespace Example2
/-- toy primitives without collisions on the data below: "hash" = identity, the recovered "key" carries the last
20 bytes of the digest, so its address is the last 20 bytes of the signed envelope -/
def toy2 : Crypto :=
  { keccak := id,
    recover := fun h _ _ => some (4 :: (List.replicate 44 0 ++ h.drop (h.length - 20))),
    verify := fun _ _ _ => some true }
def m1 : Bytes := List.replicate 20 1
def m2 : Bytes := List.replicate 20 2
def sg : Bytes := List.replicate 64 7 ++ [27]

theorem env1 : envelope m1 = ETH_PREFIX ++ [50, 48] ++ m1 := by
  simp [envelope, m1, decDigits]
theorem env2 : envelope m2 = ETH_PREFIX ++ [50, 48] ++ m2 := by
  simp [envelope, m2, decDigits]

theorem noColl : ¬ ReplayCollision toy2 m1 m2 sg := by
  rintro (⟨_, h⟩ | ⟨rec, pk1, pk2, hne, h1, h2, ha⟩ | ⟨hd, rec, pk, h1, h2⟩)
  · rw [env1, env2] at h; revert h; decide
  · simp only [toy2, digest, id, Option.some.injEq, env1, env2] at h1 h2
    subst h1; subst h2
    revert ha; decide
  · simp only [toy2, digest, id, Option.some.injEq, env1, env2] at h1 h2
    subst h1
    revert h2; decide

/-- the signature is valid over `m1` for the address `m1` … -/
theorem valid1 : SigValid toy2 m1 sg m1 := by
  refine ⟨0, 4 :: (List.replicate 44 0 ++ m1), by decide, by decide, by decide, ?_, by decide, rfl⟩
  simp only [toy2, digest, id, env1]; decide

/-- … hence (no collision) not over `m2` -/
example : ¬ SigValid toy2 m2 sg m1 := fun h2 =>
  absurd (C16_sig_binds_text toy2 m1 m2 sg m1 noColl valid1 h2) (by decide)
end Example2

/-! ## Round 5: the concrete primitives (`realCrypto` = Lean Keccak-256 + Lean secp256k1, `Model/AirdropCrypto.lean`)

The theorems above hold for every `Crypto`; here the parameter is instantiated with the executable implementations the
driver runs, so the statements are about concrete bytes. What `Secp.recoverPubkey` / `Secp.verify` compute is *validated*
against k256 (line kind `secp`, and `rc=` on every claim line); nothing about the group law is proved, and ECDSA
unforgeability / Keccak collision resistance remain assumptions that no theorem uses. -/

/-- `Api::secp256k1_recover_pubkey` in Lean succeeds exactly when the hash has 32 bytes, `r ‖ s` has 64 bytes and the
parsed recovery succeeds; the result is the uncompressed SEC1 encoding -/
theorem C16_secp_recoverBytes_some_iff (h rs : Bytes) (rec : Nat) (pk : Bytes) :
    Secp.recoverBytes h rs rec = some pk ↔
      h.length = 32 ∧ rs.length = 64 ∧
      ∃ Q, Secp.recoverPubkey h (Secp.bytesToNat (rs.take 32)) (Secp.bytesToNat (rs.drop 32)) rec = some Q ∧
        pk = Secp.serialize Q := by
  unfold Secp.recoverBytes
  by_cases h1 : h.length = 32 <;> by_cases h2 : rs.length = 64 <;> simp [h1, h2]
  cases Secp.recoverPubkey h (Secp.bytesToNat (rs.take 32)) (Secp.bytesToNat (rs.drop 32)) rec with
  | none => simp
  | some Q => simp [eq_comm]

theorem natToBytesAux_length (v k : Nat) (acc : List Nat) :
    (Secp.natToBytesAux v k acc).length = k + acc.length := by
  induction k generalizing v acc with
  | zero => simp [Secp.natToBytesAux]
  | succ k ih => simp [Secp.natToBytesAux, ih]; omega

/-- the SEC1 serialisation `04 ‖ X ‖ Y` has 65 bytes -/
theorem C16_secp_serialize_length (Q : Nat × Nat) : (Secp.serialize Q).length = 65 := by
  simp [Secp.serialize, Secp.natToBytes, natToBytesAux_length]

/-- a recovered key is 65 bytes -/
theorem C16_secp_recovered_length (h rs : Bytes) (rec : Nat) (pk : Bytes)
    (hr : Secp.recoverBytes h rs rec = some pk) : pk.length = 65 := by
  obtain ⟨_, _, Q, _, rfl⟩ := (C16_secp_recoverBytes_some_iff h rs rec pk).mp hr
  exact C16_secp_serialize_length Q

/-- recovery refuses r = 0, s = 0, r ≥ n, s ≥ n (`Signature::from_bytes`) … -/
theorem C16_secp_recover_refuses_range (h : Bytes) (r s rec : Nat)
    (hb : r = 0 ∨ s = 0 ∨ Secp.n ≤ r ∨ Secp.n ≤ s) : Secp.recoverPubkey h r s rec = none := by
  unfold Secp.recoverPubkey; rw [if_pos hb]

/-- … and every recovery id other than 0 and 1 -/
theorem C16_secp_recover_refuses_recid (h : Bytes) (r s rec : Nat) (hrec : 1 < rec) :
    Secp.recoverPubkey h r s rec = none := by
  unfold Secp.recoverPubkey; split
  · rfl
  · simp

/-- verification is an error (not `false`) for r = 0, s = 0, r ≥ n, s ≥ n -/
theorem C16_secp_verify_refuses_range (h : Bytes) (r s : Nat) (pk : Bytes)
    (hb : r = 0 ∨ s = 0 ∨ Secp.n ≤ r ∨ Secp.n ≤ s) : Secp.verify h r s pk = none := by
  unfold Secp.verify; rw [if_pos hb]

/-- the Ethereum address of a point is at most 20 bytes (exactly 20 when the hash function returns at least 20) -/
theorem C16_secp_ethAddressRaw_length (Q : Nat × Nat) : (Secp.ethAddressRaw Q).length ≤ 20 := by
  simp only [Secp.ethAddressRaw, Secp.ethAddressRawWith, List.length_drop]; omega

/-- `ethereum_address_raw` of a serialised point, with the Lean Keccak, is `Secp.ethAddressRaw` -/
theorem C16_ethereumAddressRaw_real (Q : Nat × Nat) :
    ethereumAddressRaw realCrypto (Secp.serialize Q) = some (Secp.ethAddressRaw Q) := by
  have hl : (Secp.natToBytes 32 Q.1 ++ Secp.natToBytes 32 Q.2).length = 64 := by
    simp [Secp.natToBytes, natToBytesAux_length]
  simp [ethereumAddressRaw, Secp.serialize, hl, realCrypto, Secp.ethAddressRaw, Secp.ethAddressRawWith]

/-- A valid personal-sign signature, with nothing left abstract: `sig = r ‖ s ‖ v` (65 bytes, `v ∈ {0,1,27,28}`), the
Lean Keccak digest `h` of the enveloped text (32 bytes), the point `Q` that the Lean secp256k1 recovers from `(h, r, s, v)`
hashes to `addr`, and `(r, s)` verifies under `Q`. -/
def SigValidReal (text sig addr : Bytes) : Prop :=
  ∃ rec Q, sig ≠ [] ∧ getRecoveryParam (sig.getLast?.getD 0) = some rec ∧ sig.dropLast.length = 64 ∧
    (Keccak.keccak256 (envelope text)).length = 32 ∧
    Secp.recoverPubkey (Keccak.keccak256 (envelope text))
      (Secp.bytesToNat (sig.dropLast.take 32)) (Secp.bytesToNat (sig.dropLast.drop 32)) rec = some Q ∧
    Secp.ethAddressRaw Q = addr ∧
    Secp.verify (Keccak.keccak256 (envelope text))
      (Secp.bytesToNat (sig.dropLast.take 32)) (Secp.bytesToNat (sig.dropLast.drop 32)) (Secp.serialize Q) = some true

theorem C16_sigvalid_real_iff (text sig addr : Bytes) :
    SigValid realCrypto text sig addr ↔ SigValidReal text sig addr := by
  unfold SigValid SigValidReal
  constructor
  · rintro ⟨rec, pk, hne, hrec, hlen, hrecov, haddr, hver⟩
    obtain ⟨h32, _, Q, hQ, rfl⟩ := (C16_secp_recoverBytes_some_iff _ _ _ _).mp hrecov
    rw [C16_ethereumAddressRaw_real] at haddr
    refine ⟨rec, Q, hne, hrec, hlen, h32, hQ, by simpa using haddr, ?_⟩
    have : Secp.verifyBytes (Keccak.keccak256 (envelope text)) sig.dropLast (Secp.serialize Q) = some true := hver
    unfold Secp.verifyBytes at this
    have h32' : (Keccak.keccak256 (envelope text)).length = 32 := h32
    simpa [h32', hlen] using this
  · rintro ⟨rec, Q, hne, hrec, hlen, h32, hQ, haddr, hver⟩
    refine ⟨rec, Secp.serialize Q, hne, hrec, hlen, ?_, ?_, ?_⟩
    · exact (C16_secp_recoverBytes_some_iff _ _ _ _).mpr ⟨h32, hlen, Q, hQ, rfl⟩
    · rw [C16_ethereumAddressRaw_real, haddr]
    · show Secp.verifyBytes (Keccak.keccak256 (envelope text)) sig.dropLast (Secp.serialize Q) = some true
      unfold Secp.verifyBytes
      simpa [h32, hlen] using hver

/-- `C16_claim_ok_iff` for the concrete primitives: a claim — decided from the raw bytes of the message alone —
succeeds exactly when the address string is listed, it decodes to 20 bytes `a`, the signature string is hex for bytes
`sb` with `SigValidReal (claim text of the sender) sb a`, the address has claims left and the payout is deliverable. -/
theorem C16_claim_ok_iff_real (s : State) (sender eth sig : Bytes) :
    (∃ s', claim realCrypto s sender eth sig = .ok s') ↔
      s.eligible.contains eth = true ∧
      (∃ a sb, decodeAddress eth = some a ∧ hexDecode sig = some sb ∧
        SigValidReal (claimText s.template sender) sb a) ∧
      s.counts eth < s.perAddressLimit ∧ Deliverable s := by
  rw [C16_claim_ok_iff]
  constructor
  · rintro ⟨h1, ⟨a, sb, ha, hs, hv⟩, h3⟩
    exact ⟨h1, ⟨a, sb, ha, hs, (C16_sigvalid_real_iff _ _ _).mp hv⟩, h3⟩
  · rintro ⟨h1, ⟨a, sb, ha, hs, hv⟩, h3⟩
    exact ⟨h1, ⟨a, sb, ha, hs, (C16_sigvalid_real_iff _ _ _).mpr hv⟩, h3⟩

/-- `C16_limit` for the concrete primitives (every history, every byte string) -/
theorem C16_limit_real (s : State) (ops : List Op) (e : Bytes)
    (h : s.counts e ≤ s.perAddressLimit) : (run realCrypto s ops).counts e ≤ s.perAddressLimit :=
  C16_limit realCrypto s ops e h

/-- `C16_total_claims_bound` for the concrete primitives -/
theorem C16_total_claims_bound_real (s : State) (ops : List Op) (h0 : ∀ e, s.counts e = 0) :
    totalClaims realCrypto s ops ≤ s.eligible.length * s.perAddressLimit :=
  C16_total_claims_bound realCrypto s ops h0

/-- a claim whose signature has r = 0, s = 0, r ≥ n or s ≥ n fails, whatever else holds -/
theorem C16_claim_real_refuses_range (s : State) (sender eth sig sb : Bytes) (hs : hexDecode sig = some sb)
    (hb : Secp.bytesToNat (sb.dropLast.take 32) = 0 ∨ Secp.bytesToNat (sb.dropLast.drop 32) = 0 ∨
      Secp.n ≤ Secp.bytesToNat (sb.dropLast.take 32) ∨ Secp.n ≤ Secp.bytesToNat (sb.dropLast.drop 32)) :
    ∀ s', claim realCrypto s sender eth sig ≠ .ok s' := by
  intro s' hc
  obtain ⟨_, ⟨a, sb', _, hs', rec, Q, _, _, _, _, hQ, _⟩, _⟩ := (C16_claim_ok_iff_real s sender eth sig).mp ⟨s', hc⟩
  rw [hs] at hs'; cases hs'
  rw [C16_secp_recover_refuses_range _ _ _ _ hb] at hQ
  cases hQ

end LP
