import LaunchpadModel.Model.GovWorld
/-!
# C18 — Governance updates take effect exactly as submitted

"After a governance parameter update on any factory, the parameters query returns the previous parameters with precisely
the supplied fields replaced (code-id additions and removals applied as set operations, additions before removals),
omitted fields unchanged, and an update that would move the minimum mint price to a non-native denom is refused. After a
governance status update on any minter, the status query returns exactly the supplied verified/blocked/explicit flags.
Subsequent minter creations and mints observe the new parameters."

Reading. A field of an update message is `Option`; "supplied value if supplied, else the old value" is `supplied.getD old`
(`Option.getD`), so one equation per field states both "supplied fields replaced" and "omitted fields unchanged".
All theorems quantify over ALL parameter states and ALL update messages (`Nat` ⊇ `u32`/`u64`/`u128`).
-/
namespace LP
open LP.Gov
set_option linter.unusedSimpArgs false

/-! ## 1. The allowed-collection code ids: list behaviour and its set-level meaning -/

theorem C18_mem_dedup (x : Nat) : ∀ l : List Nat, x ∈ dedup l ↔ x ∈ l := by
  intro l
  fun_induction dedup l <;> simp_all

theorem C18_mem_removeEach (x : Nat) : ∀ (rm l : List Nat), x ∈ removeEach l rm ↔ x ∈ l ∧ x ∉ rm := by
  intro rm
  induction rm with
  | nil => intro l; simp [removeEach]
  | cons c t ih =>
    intro l
    have := ih (l.filter (fun y => y != c))
    simp only [removeEach, List.foldl_cons] at this ⊢
    rw [this]
    simp only [List.mem_filter, List.mem_cons, bne_iff_ne, ne_eq, not_or]
    constructor
    · rintro ⟨⟨h1, h2⟩, h3⟩; exact ⟨h1, h2, h3⟩
    · rintro ⟨h1, h2, h3⟩; exact ⟨⟨h1, h2⟩, h3⟩

/-- "code-id additions and removals applied as set operations, additions before removals":
`x ∈ allowed' ⇔ (x ∈ allowed ∨ x ∈ add) ∧ x ∉ rm` — an id that is both added and removed ends up absent. -/
theorem C18_ids_set (allowed : List Nat) (add rm : Option (List Nat)) (x : Nat) :
    x ∈ applyIds allowed add rm ↔ (x ∈ allowed ∨ x ∈ add.getD []) ∧ x ∉ rm.getD [] := by
  unfold applyIds
  rw [C18_mem_removeEach, C18_mem_dedup, List.mem_append]

/-- the `AllowedCollectionCodeId(x)` query is membership in the list the `Params` / `AllowedCollectionCodeIds` queries return -/
theorem C18_ids_query (l : List Nat) (x : Nat) : allowedQuery l x = true ↔ x ∈ l := by
  simp [allowedQuery]

/-- no additions and no removals: the SET is unchanged (the list may lose consecutive duplicates) -/
theorem C18_ids_omitted (allowed : List Nat) (x : Nat) : x ∈ applyIds allowed none none ↔ x ∈ allowed := by
  rw [C18_ids_set]; simp

/-- `Vec::dedup` really is only consecutive: the stored list is a list, not a set (a duplicate can survive).
Recorded so nobody "simplifies" the model to a set; the property is about membership (`C18_ids_set`). -/
theorem C18_ids_list_not_set : applyIds [1, 2] (some [1]) none = [1, 2, 1] ∧ applyIds [1, 1, 2] none none = [1, 2] := by
  decide

/-! ## 2. Frame conditions, per factory: every field of the result = supplied value, else the old value -/

/-- shared `update_params` (base-factory): the eight base fields; the params extension is untouched -/
theorem C18_params_frame_shared {ε υ : Type} (p p' : MinterParams ε) (m : UpdateMsg υ) (h : updateParams p m = .ok p') :
    p'.codeId = m.codeId.getD p.codeId ∧
    p'.frozen = m.frozen.getD p.frozen ∧
    p'.creationFee = m.creationFee.getD p.creationFee ∧
    p'.minMintPrice = m.minMintPrice.getD p.minMintPrice ∧
    p'.mintFeeBps = m.mintFeeBps.getD p.mintFeeBps ∧
    p'.maxTradingOffsetSecs = m.maxTradingOffsetSecs.getD p.maxTradingOffsetSecs ∧
    p'.ext = p.ext ∧
    (∀ x, x ∈ p'.allowed ↔ (x ∈ p.allowed ∨ x ∈ m.addIds.getD []) ∧ x ∉ m.rmIds.getD []) := by
  unfold updateParams at h
  split at h
  · cases h; simp only [true_and]; intro x; exact C18_ids_set _ _ _ x
  · cases h

/-- base-factory -/
theorem C18_params_frame_base (p p' : BaseParams) (m : BaseUpdate) (h : sudoBase p m = .ok p') :
    p'.codeId = m.codeId.getD p.codeId ∧
    p'.frozen = m.frozen.getD p.frozen ∧
    p'.creationFee = m.creationFee.getD p.creationFee ∧
    p'.minMintPrice = m.minMintPrice.getD p.minMintPrice ∧
    p'.mintFeeBps = m.mintFeeBps.getD p.mintFeeBps ∧
    p'.maxTradingOffsetSecs = m.maxTradingOffsetSecs.getD p.maxTradingOffsetSecs ∧
    p'.ext = p.ext ∧
    (∀ x, x ∈ p'.allowed ↔ (x ∈ p.allowed ∨ x ∈ m.addIds.getD []) ∧ x ∉ m.rmIds.getD []) :=
  C18_params_frame_shared p p' m h

/-- vending-factory: 8 base + 5 extension fields -/
theorem C18_params_frame_vending (p p' : VendingParams) (m : VendingUpdate) (h : sudoVending p m = .ok p') :
    p'.codeId = m.codeId.getD p.codeId ∧
    p'.frozen = m.frozen.getD p.frozen ∧
    p'.creationFee = m.creationFee.getD p.creationFee ∧
    p'.minMintPrice = m.minMintPrice.getD p.minMintPrice ∧
    p'.mintFeeBps = m.mintFeeBps.getD p.mintFeeBps ∧
    p'.maxTradingOffsetSecs = m.maxTradingOffsetSecs.getD p.maxTradingOffsetSecs ∧
    p'.ext.maxTokenLimit = m.ext.maxTokenLimit.getD p.ext.maxTokenLimit ∧
    p'.ext.maxPerAddressLimit = m.ext.maxPerAddressLimit.getD p.ext.maxPerAddressLimit ∧
    p'.ext.airdropMintPrice = m.ext.airdropMintPrice.getD p.ext.airdropMintPrice ∧
    p'.ext.airdropMintFeeBps = m.ext.airdropMintFeeBps.getD p.ext.airdropMintFeeBps ∧
    p'.ext.shuffleFee = m.ext.shuffleFee.getD p.ext.shuffleFee ∧
    (∀ x, x ∈ p'.allowed ↔ (x ∈ p.allowed ∨ x ∈ m.addIds.getD []) ∧ x ∉ m.rmIds.getD []) := by
  unfold sudoVending at h
  split at h
  · cases h
  · rename_i q hq
    have f := C18_params_frame_shared p q m hq
    split at h
    · cases h
      obtain ⟨h1, h2, h3, h4, h5, h6, h7, h8⟩ := f
      refine ⟨h1, h2, h3, h4, h5, h6, ?_, ?_, ?_, ?_, ?_, h8⟩ <;> simp [h7]
    · cases h

/-- open-edition-factory: 8 base + 5 extension fields. The stored params have NO `extension.min_mint_price`, so the
message's `extension.min_mint_price` has nothing to replace: it is not mentioned here (see `C18_oe_dead_field`). -/
theorem C18_params_frame_oe (p p' : OeParams) (m : OeUpdate) (h : sudoOe p m = .ok p') :
    p'.codeId = m.codeId.getD p.codeId ∧
    p'.frozen = m.frozen.getD p.frozen ∧
    p'.creationFee = m.creationFee.getD p.creationFee ∧
    p'.minMintPrice = m.minMintPrice.getD p.minMintPrice ∧
    p'.mintFeeBps = m.mintFeeBps.getD p.mintFeeBps ∧
    p'.maxTradingOffsetSecs = m.maxTradingOffsetSecs.getD p.maxTradingOffsetSecs ∧
    p'.ext.maxTokenLimit = m.ext.maxTokenLimit.getD p.ext.maxTokenLimit ∧
    p'.ext.maxPerAddressLimit = m.ext.maxPerAddressLimit.getD p.ext.maxPerAddressLimit ∧
    p'.ext.airdropMintFeeBps = m.ext.airdropMintFeeBps.getD p.ext.airdropMintFeeBps ∧
    p'.ext.airdropMintPrice = m.ext.airdropMintPrice.getD p.ext.airdropMintPrice ∧
    p'.ext.devFeeAddress = m.ext.devFeeAddress.getD p.ext.devFeeAddress ∧
    (∀ x, x ∈ p'.allowed ↔ (x ∈ p.allowed ∨ x ∈ m.addIds.getD []) ∧ x ∉ m.rmIds.getD []) := by
  unfold sudoOe at h
  split at h
  · cases h
  · rename_i q hq
    have f := C18_params_frame_shared p q m hq
    cases h
    obtain ⟨h1, h2, h3, h4, h5, h6, h7, h8⟩ := f
    refine ⟨h1, h2, h3, h4, h5, h6, ?_, ?_, ?_, ?_, ?_, h8⟩ <;> simp [h7]

/-- token-merge-factory (after fix de6038c): 6 base + 5 extension fields -/
theorem C18_params_frame_tm (p p' : TmParams) (m : TmUpdate) (h : sudoTm p m = .ok p') :
    p'.codeId = m.codeId.getD p.codeId ∧
    p'.frozen = m.frozen.getD p.frozen ∧
    p'.creationFee = m.creationFee.getD p.creationFee ∧
    p'.maxTradingOffsetSecs = m.maxTradingOffsetSecs.getD p.maxTradingOffsetSecs ∧
    p'.maxTokenLimit = m.maxTokenLimit.getD p.maxTokenLimit ∧
    p'.maxPerAddressLimit = m.maxPerAddressLimit.getD p.maxPerAddressLimit ∧
    p'.airdropMintPrice = m.airdropMintPrice.getD p.airdropMintPrice ∧
    p'.airdropMintFeeBps = m.airdropMintFeeBps.getD p.airdropMintFeeBps ∧
    p'.shuffleFee = m.shuffleFee.getD p.shuffleFee ∧
    (∀ x, x ∈ p'.allowed ↔ (x ∈ p.allowed ∨ x ∈ m.addIds.getD []) ∧ x ∉ m.rmIds.getD []) := by
  unfold sudoTm at h
  split at h
  · cases h; simp only [true_and]; intro x; exact C18_ids_set _ _ _ x
  · cases h

/-! ### which updates are accepted (exactly), and the refusal of a non-native minimum price -/

theorem C18_accept_iff_base (p : BaseParams) (m : BaseUpdate) :
    (∃ p', sudoBase p m = .ok p') ↔ nativeOrNone m.minMintPrice = true := by
  unfold sudoBase updateParams; split <;> simp_all

theorem C18_accept_iff_vending (p : VendingParams) (m : VendingUpdate) :
    (∃ p', sudoVending p m = .ok p') ↔
      nativeOrNone m.minMintPrice = true ∧ nativeOrNone m.ext.airdropMintPrice = true ∧ nativeOrNone m.ext.shuffleFee = true := by
  unfold sudoVending updateParams
  cases h1 : nativeOrNone m.minMintPrice <;> cases h2 : nativeOrNone m.ext.airdropMintPrice <;>
    cases h3 : nativeOrNone m.ext.shuffleFee <;> simp

theorem C18_accept_iff_oe (p : OeParams) (m : OeUpdate) :
    (∃ p', sudoOe p m = .ok p') ↔ nativeOrNone m.minMintPrice = true := by
  unfold sudoOe updateParams
  cases h1 : nativeOrNone m.minMintPrice <;> simp

theorem C18_accept_iff_tm (p : TmParams) (m : TmUpdate) :
    (∃ p', sudoTm p m = .ok p') ↔ nativeOrNone m.airdropMintPrice = true ∧ nativeOrNone m.shuffleFee = true := by
  unfold sudoTm
  cases h2 : nativeOrNone m.airdropMintPrice <;> cases h3 : nativeOrNone m.shuffleFee <;> simp

theorem C18_nativeOrNone_some (c : Coin) : nativeOrNone (some c) = true ↔ c.denom = NATIVE := by
  simp [nativeOrNone]

/-- "an update that would move the minimum mint price to a non-native denom is refused" — on the three factories whose
params have a minimum mint price (token-merge has none), whatever else the message contains; and the stored params stay
as they were. -/
theorem C18_nonnative_refused (c : Coin) (hc : c.denom ≠ NATIVE) :
    (∀ (p : BaseParams) (m : BaseUpdate), m.minMintPrice = some c →
        (∃ e, sudoBase p m = .error e) ∧ applyUpd sudoBase p m = p) ∧
    (∀ (p : VendingParams) (m : VendingUpdate), m.minMintPrice = some c →
        (∃ e, sudoVending p m = .error e) ∧ applyUpd sudoVending p m = p) ∧
    (∀ (p : OeParams) (m : OeUpdate), m.minMintPrice = some c →
        (∃ e, sudoOe p m = .error e) ∧ applyUpd sudoOe p m = p) := by
  have hn : nativeOrNone (some c) = false := by
    cases h : nativeOrNone (some c)
    · rfl
    · exact absurd ((C18_nativeOrNone_some c).mp h) hc
  refine ⟨?_, ?_, ?_⟩ <;> intro p m hm
  · simp [applyUpd, sudoBase, updateParams, hm, hn]
  · simp [applyUpd, sudoVending, updateParams, hm, hn]
  · simp [applyUpd, sudoOe, updateParams, hm, hn]

/-- F-C18c, decided: open-edition's `extension.min_mint_price` is a dead message field — the outcome of the update does
not depend on it at all (the minimum mint price is set by the base field `min_mint_price`, see `C18_params_frame_oe`). -/
theorem C18_oe_dead_field (p : OeParams) (m : OeUpdate) (x : Option Coin) :
    sudoOe p { m with ext := { m.ext with minMintPrice := x } } = sudoOe p m := by
  unfold sudoOe updateParams; rfl

/-- base-factory: the message's unit `extension` is not read, the stored one is not written -/
theorem C18_base_ext_ignored (p : BaseParams) (m : BaseUpdate) (x : Bool) :
    sudoBase p { m with ext := x } = sudoBase p m := by
  unfold sudoBase updateParams; rfl

/-! ## 3. "Any factory": the same statement through the `Params` query of whichever factory it is -/

/-- the factory kind never changes -/
def sameKind : Params → Params → Prop
  | .v _, .v _ | .o _, .o _ | .t _, .t _ | .b _, .b _ => True
  | _, _ => False

/-- `C18_params_frame`: after an accepted update on ANY of the four factories, every field the factory's `Params` query
has is the supplied value if supplied, else the previous value (fields a factory does not have are `none` before and
after), and the code ids are `(old ∪ add) \ rm`. -/
theorem C18_params_frame (P P' : Params) (u : AnyUpd) (h : P.sudo u = .ok P') :
    sameKind P P' ∧
    P'.codeId = u.codeId.getD P.codeId ∧
    P'.frozen = u.frozen.getD P.frozen ∧
    P'.creationFee = u.creationFee.getD P.creationFee ∧
    P'.offset = u.maxTradingOffsetSecs.getD P.offset ∧
    P'.minMintPrice = P.minMintPrice.map (fun old => u.minMintPrice.getD old) ∧
    P'.mintFeeBps = P.mintFeeBps.map (fun old => u.mintFeeBps.getD old) ∧
    P'.maxTokenLimit = P.maxTokenLimit.map (fun old => u.maxTokenLimit.getD old) ∧
    P'.maxPal = P.maxPal.map (fun old => u.maxPerAddressLimit.getD old) ∧
    P'.airdropPrice = P.airdropPrice.map (fun old => u.airdropMintPrice.getD old) ∧
    P'.airdropBps = P.airdropBps.map (fun old => u.airdropMintFeeBps.getD old) ∧
    P'.shuffleFee = P.shuffleFee.map (fun old => u.shuffleFee.getD old) ∧
    P'.dev = P.dev.map (fun old => u.devFeeAddress.getD old) ∧
    (∀ x, x ∈ P'.allowed ↔ (x ∈ P.allowed ∨ x ∈ u.addIds.getD []) ∧ x ∉ u.rmIds.getD []) := by
  cases P with
  | v p =>
    simp only [Params.sudo] at h
    cases hq : sudoVending p u.toVending with
    | error e => simp [hq, Except.map] at h
    | ok q =>
      simp [hq, Except.map] at h; subst h
      have f := C18_params_frame_vending p q _ hq
      simp only [AnyUpd.toVending, AnyUpd.base] at f
      obtain ⟨h1, h2, h3, h4, h5, h6, h7, h8, h9, h10, h11, h12⟩ := f
      simp [sameKind, Params.codeId, Params.frozen, Params.creationFee, Params.offset, Params.minMintPrice,
        Params.mintFeeBps, Params.maxTokenLimit, Params.maxPal, Params.airdropPrice, Params.airdropBps,
        Params.shuffleFee, Params.dev, Params.allowed, *]
  | o p =>
    simp only [Params.sudo] at h
    cases hq : sudoOe p u.toOe with
    | error e => simp [hq, Except.map] at h
    | ok q =>
      simp [hq, Except.map] at h; subst h
      have f := C18_params_frame_oe p q _ hq
      simp only [AnyUpd.toOe, AnyUpd.base] at f
      obtain ⟨h1, h2, h3, h4, h5, h6, h7, h8, h9, h10, h11, h12⟩ := f
      simp [sameKind, Params.codeId, Params.frozen, Params.creationFee, Params.offset, Params.minMintPrice,
        Params.mintFeeBps, Params.maxTokenLimit, Params.maxPal, Params.airdropPrice, Params.airdropBps,
        Params.shuffleFee, Params.dev, Params.allowed, *]
  | t p =>
    simp only [Params.sudo] at h
    cases hq : sudoTm p u.toTm with
    | error e => simp [hq, Except.map] at h
    | ok q =>
      simp [hq, Except.map] at h; subst h
      have f := C18_params_frame_tm p q _ hq
      simp only [AnyUpd.toTm] at f
      obtain ⟨h1, h2, h3, h4, h5, h6, h7, h8, h9, h10⟩ := f
      simp [sameKind, Params.codeId, Params.frozen, Params.creationFee, Params.offset, Params.minMintPrice,
        Params.mintFeeBps, Params.maxTokenLimit, Params.maxPal, Params.airdropPrice, Params.airdropBps,
        Params.shuffleFee, Params.dev, Params.allowed, *]
  | b p =>
    simp only [Params.sudo] at h
    cases hq : sudoBase p u.toBase with
    | error e => simp [hq, Except.map] at h
    | ok q =>
      simp [hq, Except.map] at h; subst h
      have f := C18_params_frame_base p q _ hq
      simp only [AnyUpd.toBase, AnyUpd.base] at f
      obtain ⟨h1, h2, h3, h4, h5, h6, h7, h8⟩ := f
      simp [sameKind, Params.codeId, Params.frozen, Params.creationFee, Params.offset, Params.minMintPrice,
        Params.mintFeeBps, Params.maxTokenLimit, Params.maxPal, Params.airdropPrice, Params.airdropBps,
        Params.shuffleFee, Params.dev, Params.allowed, *]

/-- any factory with a minimum mint price refuses to move it to a non-native denom, and keeps its params -/
theorem C18_nonnative_refused_any (P : Params) (u : AnyUpd) (c : Coin) (hc : c.denom ≠ NATIVE)
    (hu : u.minMintPrice = some c) (hP : P.minMintPrice ≠ none) :
    (∃ e, P.sudo u = .error e) ∧ applyUpd Params.sudo P u = P := by
  obtain ⟨hb, hv, ho⟩ := C18_nonnative_refused c hc
  cases P with
  | v p =>
    obtain ⟨⟨e, he⟩, _⟩ := hv p u.toVending (by simp [AnyUpd.toVending, AnyUpd.base, hu])
    simp [applyUpd, Params.sudo, he, Except.map]
  | o p =>
    obtain ⟨⟨e, he⟩, _⟩ := ho p u.toOe (by simp [AnyUpd.toOe, AnyUpd.base, hu])
    simp [applyUpd, Params.sudo, he, Except.map]
  | t p => simp [Params.minMintPrice] at hP
  | b p =>
    obtain ⟨⟨e, he⟩, _⟩ := hb p u.toBase (by simp [AnyUpd.toBase, AnyUpd.base, hu])
    simp [applyUpd, Params.sudo, he, Except.map]

/-! ## 4. Sequences of updates: the params after a list of proposals -/

/-- fold law: the params after `us ++ [u]` are the params after `us` with `u` applied (or refused) -/
theorem C18_seq_fold {P U : Type} (upd : P → U → Except Err P) (p : P) (us : List U) (u : U) :
    runUpd upd p [] = p ∧ runUpd upd p (us ++ [u]) = applyUpd upd (runUpd upd p us) u := by
  simp [runUpd, List.foldl_append]

/-- the value a field ends up with: the value of the LAST update in `us` that supplies it, else `init` -/
def lastSup {U α : Type} (sup : U → Option α) (init : α) (us : List U) : α :=
  us.foldl (fun a u => (sup u).getD a) init

theorem lastSup_eq_findSome {U α : Type} (sup : U → Option α) (init : α) (us : List U) :
    lastSup sup init us = (us.reverse.findSome? sup).getD init := by
  induction us generalizing init with
  | nil => rfl
  | cons u t ih =>
    simp only [lastSup, List.foldl_cons, List.reverse_cons, List.findSome?_append] at ih ⊢
    rw [ih]
    cases h : List.findSome? sup t.reverse <;> cases h2 : sup u <;> simp [List.findSome?, h2]

/-- Generic history lemma: if acceptance depends on the message only (`acc`), an accepted update sets the field to
`(sup u).getD old`, and a refused one is an error, then after ANY list of updates the field holds the last value
supplied by an ACCEPTED update (or its initial value). -/
theorem runUpd_field {P U α : Type} (upd : P → U → Except Err P) (acc : U → Bool) (get : P → α) (sup : U → Option α)
    (hacc : ∀ p u, acc u = true → ∃ p', upd p u = .ok p' ∧ get p' = (sup u).getD (get p))
    (hrej : ∀ p u, acc u = false → ∃ e, upd p u = .error e) :
    ∀ (us : List U) (p : P), get (runUpd upd p us) = lastSup sup (get p) (us.filter acc) := by
  intro us
  induction us with
  | nil => intro p; rfl
  | cons u t ih =>
    intro p
    simp only [runUpd, List.foldl_cons] at ih ⊢
    cases ha : acc u with
    | true =>
      obtain ⟨p', hp, hg⟩ := hacc p u ha
      simp only [List.filter_cons, ha, if_true, lastSup, List.foldl_cons]
      have : applyUpd upd p u = p' := by simp [applyUpd, hp]
      rw [this, ih p', hg]; rfl
    | false =>
      obtain ⟨e, he⟩ := hrej p u ha
      have : applyUpd upd p u = p := by simp [applyUpd, he]
      simp only [List.filter_cons, ha]
      rw [this, ih p]; rfl

/-- membership of a code id after a list of updates: fold of `(b ∨ x ∈ add) ∧ x ∉ rm` over the accepted ones -/
def memAfter {U : Type} (adds rms : U → List Nat) (x : Nat) (b : Bool) (us : List U) : Bool :=
  us.foldl (fun b u => (b || decide (x ∈ adds u)) && !decide (x ∈ rms u)) b

theorem runUpd_ids {P U : Type} (upd : P → U → Except Err P) (acc : U → Bool) (ids : P → List Nat)
    (adds rms : U → List Nat)
    (hacc : ∀ p u, acc u = true → ∃ p', upd p u = .ok p' ∧ ∀ x, x ∈ ids p' ↔ (x ∈ ids p ∨ x ∈ adds u) ∧ x ∉ rms u)
    (hrej : ∀ p u, acc u = false → ∃ e, upd p u = .error e) (x : Nat) :
    ∀ (us : List U) (p : P), x ∈ ids (runUpd upd p us) ↔ memAfter adds rms x (decide (x ∈ ids p)) (us.filter acc) = true := by
  intro us
  induction us with
  | nil => intro p; simp [runUpd, memAfter]
  | cons u t ih =>
    intro p
    simp only [runUpd, List.foldl_cons] at ih ⊢
    cases ha : acc u with
    | true =>
      obtain ⟨p', hp, hg⟩ := hacc p u ha
      have : applyUpd upd p u = p' := by simp [applyUpd, hp]
      simp only [List.filter_cons, ha, if_true, memAfter, List.foldl_cons]
      rw [this, ih p']
      have e : decide (x ∈ ids p') = ((decide (x ∈ ids p) || decide (x ∈ adds u)) && !decide (x ∈ rms u)) := by
        rw [Bool.eq_iff_iff]; simp [hg x]
      rw [e]; rfl
    | false =>
      obtain ⟨e, he⟩ := hrej p u ha
      have : applyUpd upd p u = p := by simp [applyUpd, he]
      simp only [List.filter_cons, ha]
      rw [this, ih p]; rfl

/-! ### instantiated for the four factories -/

def vendingAccepts (m : VendingUpdate) : Bool :=
  nativeOrNone m.minMintPrice && nativeOrNone m.ext.airdropMintPrice && nativeOrNone m.ext.shuffleFee
def oeAccepts (m : OeUpdate) : Bool := nativeOrNone m.minMintPrice
def tmAccepts (m : TmUpdate) : Bool := nativeOrNone m.airdropMintPrice && nativeOrNone m.shuffleFee
def baseAccepts (m : BaseUpdate) : Bool := nativeOrNone m.minMintPrice

theorem vending_acc (p : VendingParams) (m : VendingUpdate) (h : vendingAccepts m = true) : ∃ p', sudoVending p m = .ok p' := by
  apply (C18_accept_iff_vending p m).mpr; simpa [vendingAccepts, Bool.and_eq_true, and_assoc] using h
theorem vending_rej (p : VendingParams) (m : VendingUpdate) (h : vendingAccepts m = false) : ∃ e, sudoVending p m = .error e := by
  cases hq : sudoVending p m with
  | error e => exact ⟨e, rfl⟩
  | ok q =>
    have := (C18_accept_iff_vending p m).mp ⟨q, hq⟩
    simp [vendingAccepts, this] at h
theorem oe_acc (p : OeParams) (m : OeUpdate) (h : oeAccepts m = true) : ∃ p', sudoOe p m = .ok p' :=
  (C18_accept_iff_oe p m).mpr h
theorem oe_rej (p : OeParams) (m : OeUpdate) (h : oeAccepts m = false) : ∃ e, sudoOe p m = .error e := by
  cases hq : sudoOe p m with
  | error e => exact ⟨e, rfl⟩
  | ok q => have := (C18_accept_iff_oe p m).mp ⟨q, hq⟩; simp [oeAccepts, this] at h
theorem tm_acc (p : TmParams) (m : TmUpdate) (h : tmAccepts m = true) : ∃ p', sudoTm p m = .ok p' := by
  apply (C18_accept_iff_tm p m).mpr; simpa [tmAccepts, Bool.and_eq_true] using h
theorem tm_rej (p : TmParams) (m : TmUpdate) (h : tmAccepts m = false) : ∃ e, sudoTm p m = .error e := by
  cases hq : sudoTm p m with
  | error e => exact ⟨e, rfl⟩
  | ok q => have := (C18_accept_iff_tm p m).mp ⟨q, hq⟩; simp [tmAccepts, this] at h
theorem base_acc (p : BaseParams) (m : BaseUpdate) (h : baseAccepts m = true) : ∃ p', sudoBase p m = .ok p' :=
  (C18_accept_iff_base p m).mpr h
theorem base_rej (p : BaseParams) (m : BaseUpdate) (h : baseAccepts m = false) : ∃ e, sudoBase p m = .error e := by
  cases hq : sudoBase p m with
  | error e => exact ⟨e, rfl⟩
  | ok q => have := (C18_accept_iff_base p m).mp ⟨q, hq⟩; simp [baseAccepts, this] at h

/-- vending-factory, all update sequences: each field = last value supplied by an accepted update, else the initial one;
code-id membership = the fold of the set operations. -/
theorem C18_seq_vending (p : VendingParams) (us : List VendingUpdate) (x : Nat) :
    let q := runUpd sudoVending p us
    let ok := us.filter vendingAccepts
    q.codeId = lastSup (·.codeId) p.codeId ok ∧
    q.frozen = lastSup (·.frozen) p.frozen ok ∧
    q.creationFee = lastSup (·.creationFee) p.creationFee ok ∧
    q.minMintPrice = lastSup (·.minMintPrice) p.minMintPrice ok ∧
    q.mintFeeBps = lastSup (·.mintFeeBps) p.mintFeeBps ok ∧
    q.maxTradingOffsetSecs = lastSup (·.maxTradingOffsetSecs) p.maxTradingOffsetSecs ok ∧
    q.ext.maxTokenLimit = lastSup (·.ext.maxTokenLimit) p.ext.maxTokenLimit ok ∧
    q.ext.maxPerAddressLimit = lastSup (·.ext.maxPerAddressLimit) p.ext.maxPerAddressLimit ok ∧
    q.ext.airdropMintPrice = lastSup (·.ext.airdropMintPrice) p.ext.airdropMintPrice ok ∧
    q.ext.airdropMintFeeBps = lastSup (·.ext.airdropMintFeeBps) p.ext.airdropMintFeeBps ok ∧
    q.ext.shuffleFee = lastSup (·.ext.shuffleFee) p.ext.shuffleFee ok ∧
    (x ∈ q.allowed ↔ memAfter (·.addIds.getD []) (·.rmIds.getD []) x (decide (x ∈ p.allowed)) ok = true) := by
  have F : ∀ p m, vendingAccepts m = true → ∃ p', sudoVending p m = .ok p' ∧ _ :=
    fun p m h => let ⟨p', hp⟩ := vending_acc p m h; ⟨p', hp, C18_params_frame_vending p p' m hp⟩
  refine ⟨?_, ?_, ?_, ?_, ?_, ?_, ?_, ?_, ?_, ?_, ?_, ?_⟩
  · exact runUpd_field sudoVending vendingAccepts (·.codeId) (·.codeId) (fun p m h => let ⟨p', hp, f⟩ := F p m h; ⟨p', hp, f.1⟩) vending_rej us p
  · exact runUpd_field sudoVending vendingAccepts (·.frozen) (·.frozen) (fun p m h => let ⟨p', hp, f⟩ := F p m h; ⟨p', hp, f.2.1⟩) vending_rej us p
  · exact runUpd_field sudoVending vendingAccepts (·.creationFee) (·.creationFee) (fun p m h => let ⟨p', hp, f⟩ := F p m h; ⟨p', hp, f.2.2.1⟩) vending_rej us p
  · exact runUpd_field sudoVending vendingAccepts (·.minMintPrice) (·.minMintPrice) (fun p m h => let ⟨p', hp, f⟩ := F p m h; ⟨p', hp, f.2.2.2.1⟩) vending_rej us p
  · exact runUpd_field sudoVending vendingAccepts (·.mintFeeBps) (·.mintFeeBps) (fun p m h => let ⟨p', hp, f⟩ := F p m h; ⟨p', hp, f.2.2.2.2.1⟩) vending_rej us p
  · exact runUpd_field sudoVending vendingAccepts (·.maxTradingOffsetSecs) (·.maxTradingOffsetSecs) (fun p m h => let ⟨p', hp, f⟩ := F p m h; ⟨p', hp, f.2.2.2.2.2.1⟩) vending_rej us p
  · exact runUpd_field sudoVending vendingAccepts (·.ext.maxTokenLimit) (·.ext.maxTokenLimit) (fun p m h => let ⟨p', hp, f⟩ := F p m h; ⟨p', hp, f.2.2.2.2.2.2.1⟩) vending_rej us p
  · exact runUpd_field sudoVending vendingAccepts (·.ext.maxPerAddressLimit) (·.ext.maxPerAddressLimit) (fun p m h => let ⟨p', hp, f⟩ := F p m h; ⟨p', hp, f.2.2.2.2.2.2.2.1⟩) vending_rej us p
  · exact runUpd_field sudoVending vendingAccepts (·.ext.airdropMintPrice) (·.ext.airdropMintPrice) (fun p m h => let ⟨p', hp, f⟩ := F p m h; ⟨p', hp, f.2.2.2.2.2.2.2.2.1⟩) vending_rej us p
  · exact runUpd_field sudoVending vendingAccepts (·.ext.airdropMintFeeBps) (·.ext.airdropMintFeeBps) (fun p m h => let ⟨p', hp, f⟩ := F p m h; ⟨p', hp, f.2.2.2.2.2.2.2.2.2.1⟩) vending_rej us p
  · exact runUpd_field sudoVending vendingAccepts (·.ext.shuffleFee) (·.ext.shuffleFee) (fun p m h => let ⟨p', hp, f⟩ := F p m h; ⟨p', hp, f.2.2.2.2.2.2.2.2.2.2.1⟩) vending_rej us p
  · exact runUpd_ids sudoVending vendingAccepts (·.allowed) _ _ (fun p m h => let ⟨p', hp, f⟩ := F p m h; ⟨p', hp, f.2.2.2.2.2.2.2.2.2.2.2⟩) vending_rej x us p

/-- oe, all update sequences -/
theorem C18_seq_oe (p : OeParams) (us : List OeUpdate) (x : Nat) :
    let q := runUpd sudoOe p us
    let ok := us.filter oeAccepts
    q.codeId = lastSup (·.codeId) p.codeId ok ∧
    q.frozen = lastSup (·.frozen) p.frozen ok ∧
    q.creationFee = lastSup (·.creationFee) p.creationFee ok ∧
    q.minMintPrice = lastSup (·.minMintPrice) p.minMintPrice ok ∧
    q.mintFeeBps = lastSup (·.mintFeeBps) p.mintFeeBps ok ∧
    q.maxTradingOffsetSecs = lastSup (·.maxTradingOffsetSecs) p.maxTradingOffsetSecs ok ∧
    q.ext.maxTokenLimit = lastSup (·.ext.maxTokenLimit) p.ext.maxTokenLimit ok ∧
    q.ext.maxPerAddressLimit = lastSup (·.ext.maxPerAddressLimit) p.ext.maxPerAddressLimit ok ∧
    q.ext.airdropMintFeeBps = lastSup (·.ext.airdropMintFeeBps) p.ext.airdropMintFeeBps ok ∧
    q.ext.airdropMintPrice = lastSup (·.ext.airdropMintPrice) p.ext.airdropMintPrice ok ∧
    q.ext.devFeeAddress = lastSup (·.ext.devFeeAddress) p.ext.devFeeAddress ok ∧
    (x ∈ q.allowed ↔ memAfter (·.addIds.getD []) (·.rmIds.getD []) x (decide (x ∈ p.allowed)) ok = true) := by
  have F : ∀ p m, oeAccepts m = true → ∃ p', sudoOe p m = .ok p' ∧ _ :=
    fun p m h => let ⟨p', hp⟩ := oe_acc p m h; ⟨p', hp, C18_params_frame_oe p p' m hp⟩
  refine ⟨?_, ?_, ?_, ?_, ?_, ?_, ?_, ?_, ?_, ?_, ?_, ?_⟩
  · exact runUpd_field sudoOe oeAccepts (·.codeId) (·.codeId) (fun p m h => let ⟨p', hp, f⟩ := F p m h; ⟨p', hp, f.1⟩) oe_rej us p
  · exact runUpd_field sudoOe oeAccepts (·.frozen) (·.frozen) (fun p m h => let ⟨p', hp, f⟩ := F p m h; ⟨p', hp, f.2.1⟩) oe_rej us p
  · exact runUpd_field sudoOe oeAccepts (·.creationFee) (·.creationFee) (fun p m h => let ⟨p', hp, f⟩ := F p m h; ⟨p', hp, f.2.2.1⟩) oe_rej us p
  · exact runUpd_field sudoOe oeAccepts (·.minMintPrice) (·.minMintPrice) (fun p m h => let ⟨p', hp, f⟩ := F p m h; ⟨p', hp, f.2.2.2.1⟩) oe_rej us p
  · exact runUpd_field sudoOe oeAccepts (·.mintFeeBps) (·.mintFeeBps) (fun p m h => let ⟨p', hp, f⟩ := F p m h; ⟨p', hp, f.2.2.2.2.1⟩) oe_rej us p
  · exact runUpd_field sudoOe oeAccepts (·.maxTradingOffsetSecs) (·.maxTradingOffsetSecs) (fun p m h => let ⟨p', hp, f⟩ := F p m h; ⟨p', hp, f.2.2.2.2.2.1⟩) oe_rej us p
  · exact runUpd_field sudoOe oeAccepts (·.ext.maxTokenLimit) (·.ext.maxTokenLimit) (fun p m h => let ⟨p', hp, f⟩ := F p m h; ⟨p', hp, f.2.2.2.2.2.2.1⟩) oe_rej us p
  · exact runUpd_field sudoOe oeAccepts (·.ext.maxPerAddressLimit) (·.ext.maxPerAddressLimit) (fun p m h => let ⟨p', hp, f⟩ := F p m h; ⟨p', hp, f.2.2.2.2.2.2.2.1⟩) oe_rej us p
  · exact runUpd_field sudoOe oeAccepts (·.ext.airdropMintFeeBps) (·.ext.airdropMintFeeBps) (fun p m h => let ⟨p', hp, f⟩ := F p m h; ⟨p', hp, f.2.2.2.2.2.2.2.2.1⟩) oe_rej us p
  · exact runUpd_field sudoOe oeAccepts (·.ext.airdropMintPrice) (·.ext.airdropMintPrice) (fun p m h => let ⟨p', hp, f⟩ := F p m h; ⟨p', hp, f.2.2.2.2.2.2.2.2.2.1⟩) oe_rej us p
  · exact runUpd_field sudoOe oeAccepts (·.ext.devFeeAddress) (·.ext.devFeeAddress) (fun p m h => let ⟨p', hp, f⟩ := F p m h; ⟨p', hp, f.2.2.2.2.2.2.2.2.2.2.1⟩) oe_rej us p
  · exact runUpd_ids sudoOe oeAccepts (·.allowed) _ _ (fun p m h => let ⟨p', hp, f⟩ := F p m h; ⟨p', hp, f.2.2.2.2.2.2.2.2.2.2.2⟩) oe_rej x us p

/-- tm, all update sequences -/
theorem C18_seq_tm (p : TmParams) (us : List TmUpdate) (x : Nat) :
    let q := runUpd sudoTm p us
    let ok := us.filter tmAccepts
    q.codeId = lastSup (·.codeId) p.codeId ok ∧
    q.frozen = lastSup (·.frozen) p.frozen ok ∧
    q.creationFee = lastSup (·.creationFee) p.creationFee ok ∧
    q.maxTradingOffsetSecs = lastSup (·.maxTradingOffsetSecs) p.maxTradingOffsetSecs ok ∧
    q.maxTokenLimit = lastSup (·.maxTokenLimit) p.maxTokenLimit ok ∧
    q.maxPerAddressLimit = lastSup (·.maxPerAddressLimit) p.maxPerAddressLimit ok ∧
    q.airdropMintPrice = lastSup (·.airdropMintPrice) p.airdropMintPrice ok ∧
    q.airdropMintFeeBps = lastSup (·.airdropMintFeeBps) p.airdropMintFeeBps ok ∧
    q.shuffleFee = lastSup (·.shuffleFee) p.shuffleFee ok ∧
    (x ∈ q.allowed ↔ memAfter (·.addIds.getD []) (·.rmIds.getD []) x (decide (x ∈ p.allowed)) ok = true) := by
  have F : ∀ p m, tmAccepts m = true → ∃ p', sudoTm p m = .ok p' ∧ _ :=
    fun p m h => let ⟨p', hp⟩ := tm_acc p m h; ⟨p', hp, C18_params_frame_tm p p' m hp⟩
  refine ⟨?_, ?_, ?_, ?_, ?_, ?_, ?_, ?_, ?_, ?_⟩
  · exact runUpd_field sudoTm tmAccepts (·.codeId) (·.codeId) (fun p m h => let ⟨p', hp, f⟩ := F p m h; ⟨p', hp, f.1⟩) tm_rej us p
  · exact runUpd_field sudoTm tmAccepts (·.frozen) (·.frozen) (fun p m h => let ⟨p', hp, f⟩ := F p m h; ⟨p', hp, f.2.1⟩) tm_rej us p
  · exact runUpd_field sudoTm tmAccepts (·.creationFee) (·.creationFee) (fun p m h => let ⟨p', hp, f⟩ := F p m h; ⟨p', hp, f.2.2.1⟩) tm_rej us p
  · exact runUpd_field sudoTm tmAccepts (·.maxTradingOffsetSecs) (·.maxTradingOffsetSecs) (fun p m h => let ⟨p', hp, f⟩ := F p m h; ⟨p', hp, f.2.2.2.1⟩) tm_rej us p
  · exact runUpd_field sudoTm tmAccepts (·.maxTokenLimit) (·.maxTokenLimit) (fun p m h => let ⟨p', hp, f⟩ := F p m h; ⟨p', hp, f.2.2.2.2.1⟩) tm_rej us p
  · exact runUpd_field sudoTm tmAccepts (·.maxPerAddressLimit) (·.maxPerAddressLimit) (fun p m h => let ⟨p', hp, f⟩ := F p m h; ⟨p', hp, f.2.2.2.2.2.1⟩) tm_rej us p
  · exact runUpd_field sudoTm tmAccepts (·.airdropMintPrice) (·.airdropMintPrice) (fun p m h => let ⟨p', hp, f⟩ := F p m h; ⟨p', hp, f.2.2.2.2.2.2.1⟩) tm_rej us p
  · exact runUpd_field sudoTm tmAccepts (·.airdropMintFeeBps) (·.airdropMintFeeBps) (fun p m h => let ⟨p', hp, f⟩ := F p m h; ⟨p', hp, f.2.2.2.2.2.2.2.1⟩) tm_rej us p
  · exact runUpd_field sudoTm tmAccepts (·.shuffleFee) (·.shuffleFee) (fun p m h => let ⟨p', hp, f⟩ := F p m h; ⟨p', hp, f.2.2.2.2.2.2.2.2.1⟩) tm_rej us p
  · exact runUpd_ids sudoTm tmAccepts (·.allowed) _ _ (fun p m h => let ⟨p', hp, f⟩ := F p m h; ⟨p', hp, f.2.2.2.2.2.2.2.2.2⟩) tm_rej x us p

/-- base, all update sequences -/
theorem C18_seq_base (p : BaseParams) (us : List BaseUpdate) (x : Nat) :
    let q := runUpd sudoBase p us
    let ok := us.filter baseAccepts
    q.codeId = lastSup (·.codeId) p.codeId ok ∧
    q.frozen = lastSup (·.frozen) p.frozen ok ∧
    q.creationFee = lastSup (·.creationFee) p.creationFee ok ∧
    q.minMintPrice = lastSup (·.minMintPrice) p.minMintPrice ok ∧
    q.mintFeeBps = lastSup (·.mintFeeBps) p.mintFeeBps ok ∧
    q.maxTradingOffsetSecs = lastSup (·.maxTradingOffsetSecs) p.maxTradingOffsetSecs ok ∧
    (x ∈ q.allowed ↔ memAfter (·.addIds.getD []) (·.rmIds.getD []) x (decide (x ∈ p.allowed)) ok = true) := by
  have F : ∀ p m, baseAccepts m = true → ∃ p', sudoBase p m = .ok p' ∧ _ :=
    fun p m h => let ⟨p', hp⟩ := base_acc p m h; ⟨p', hp, C18_params_frame_base p p' m hp⟩
  refine ⟨?_, ?_, ?_, ?_, ?_, ?_, ?_⟩
  · exact runUpd_field sudoBase baseAccepts (·.codeId) (·.codeId) (fun p m h => let ⟨p', hp, f⟩ := F p m h; ⟨p', hp, f.1⟩) base_rej us p
  · exact runUpd_field sudoBase baseAccepts (·.frozen) (·.frozen) (fun p m h => let ⟨p', hp, f⟩ := F p m h; ⟨p', hp, f.2.1⟩) base_rej us p
  · exact runUpd_field sudoBase baseAccepts (·.creationFee) (·.creationFee) (fun p m h => let ⟨p', hp, f⟩ := F p m h; ⟨p', hp, f.2.2.1⟩) base_rej us p
  · exact runUpd_field sudoBase baseAccepts (·.minMintPrice) (·.minMintPrice) (fun p m h => let ⟨p', hp, f⟩ := F p m h; ⟨p', hp, f.2.2.2.1⟩) base_rej us p
  · exact runUpd_field sudoBase baseAccepts (·.mintFeeBps) (·.mintFeeBps) (fun p m h => let ⟨p', hp, f⟩ := F p m h; ⟨p', hp, f.2.2.2.2.1⟩) base_rej us p
  · exact runUpd_field sudoBase baseAccepts (·.maxTradingOffsetSecs) (·.maxTradingOffsetSecs) (fun p m h => let ⟨p', hp, f⟩ := F p m h; ⟨p', hp, f.2.2.2.2.2.1⟩) base_rej us p
  · exact runUpd_ids sudoBase baseAccepts (·.allowed) _ _ (fun p m h => let ⟨p', hp, f⟩ := F p m h; ⟨p', hp, f.2.2.2.2.2.2.2⟩) base_rej x us p

/-- the base factory's stored unit extension survives every update sequence -/
theorem C18_seq_base_ext (p : BaseParams) (us : List BaseUpdate) : (runUpd sudoBase p us).ext = p.ext := by
  induction us generalizing p with
  | nil => rfl
  | cons u t ih =>
    simp only [runUpd, List.foldl_cons] at ih ⊢
    rw [ih]
    unfold applyUpd
    cases h : sudoBase p u with
    | error e => rfl
    | ok q => exact (C18_params_frame_base p q u h).2.2.2.2.2.2.1

/-- reading of `lastSup`: it is the value supplied by the last update that supplies one (`findSome?` from the end) -/
theorem C18_lastSup_reading {U α : Type} (sup : U → Option α) (init : α) (us : List U) :
    lastSup sup init us = (us.reverse.findSome? sup).getD init := lastSup_eq_findSome sup init us

/-- a code id no later update mentions keeps its membership; the last accepted update that mentions it decides it -/
theorem C18_memAfter_unmentioned {U : Type} (adds rms : U → List Nat) (x : Nat) (b : Bool) (us : List U)
    (h : ∀ u ∈ us, x ∉ adds u ∧ x ∉ rms u) : memAfter adds rms x b us = b := by
  induction us generalizing b with
  | nil => rfl
  | cons u t ih =>
    have hu := h u (by simp)
    simp only [memAfter, List.foldl_cons] at ih ⊢
    rw [ih _ (fun v hv => h v (by simp [hv]))]
    simp [hu.1, hu.2]

theorem C18_memAfter_last {U : Type} (adds rms : U → List Nat) (x : Nat) (b : Bool) (pre post : List U) (u : U)
    (h : ∀ v ∈ post, x ∉ adds v ∧ x ∉ rms v) :
    memAfter adds rms x b (pre ++ u :: post) = true ↔ (memAfter adds rms x b pre = true ∨ x ∈ adds u) ∧ x ∉ rms u := by
  have : memAfter adds rms x b (pre ++ u :: post)
      = memAfter adds rms x ((memAfter adds rms x b pre || decide (x ∈ adds u)) && !decide (x ∈ rms u)) post := by
    simp [memAfter, List.foldl_append]
  rw [this, C18_memAfter_unmentioned adds rms x _ post h]
  simp

/-! ## 5. Minter status -/

theorem find_filter_ne (l : List (Nat × MinterRec)) (slot s : Nat) (hs : s ≠ slot) :
    (l.filter (fun x => x.1 != slot)).find? (fun x => x.1 == s) = l.find? (fun x => x.1 == s) := by
  induction l with
  | nil => rfl
  | cons a t ih =>
    by_cases ha : a.1 = slot
    · have h2 : (slot == s) = false := by simp [Ne.symm hs]
      simp [ha, h2, ih]
    · by_cases hb : a.1 = s
      · have h3 : ¬ s = slot := hs
        simp [hb, h3]
      · simp [ha, hb, ih]

/-- writing minter `slot` leaves every other minter as it was, and reads back what was written -/
theorem minter_setMinter (w : World) (slot : Nat) (r : MinterRec) :
    (w.setMinter slot r).minter slot = some r ∧ (w.setMinter slot r).params = w.params ∧
    ∀ s, s ≠ slot → (w.setMinter slot r).minter s = w.minter s := by
  refine ⟨by simp [World.minter, World.setMinter], rfl, ?_⟩
  intro s hs
  have h2 : (slot == s) = false := by simp [Ne.symm hs]
  simp only [World.minter, World.setMinter, List.find?_cons, h2]
  rw [find_filter_ne _ _ _ hs]



/-- "After a governance status update on any minter, the status query returns exactly the supplied
verified/blocked/explicit flags". RESTATES THE DEFINITION: the model's `updateStatus` ignores the minter kind and the
old status (`.ok ⟨v, b, e⟩`), so this is one `rfl`, not 11 obligations — a minter that forgets to save the status
(the repaired defect F-C18a) would leave it "proved". The status clause is carried by the harness (Status monitors,
8 flag combinations × 11 minters); proved content about status: `C18_status_world`, `C18_status_frame`,
`C18_status_history`. -/
theorem C18_status (k : MinterKind) (old : Status) (v b e : Bool) :
    updateStatus k old v b e = .ok ⟨v, b, e⟩ := rfl

/-- a freshly created minter reports all three flags false -/
theorem C18_status_default : Status.default = ⟨false, false, false⟩ := rfl

/-- in the world: after `UpdateStatus` on minter `slot` its Status is the supplied triple, nothing else about that minter
changes, no other minter changes, and the factory params do not change -/
theorem C18_status_world (e : Env) (w w' : World) (slot : Nat) (v b x : Bool) (ms : List Msg)
    (h : step e w (.status slot v b x) = .ok (w', ms)) :
    ∃ r, w.minter slot = some r ∧ w'.minter slot = some { r with status := ⟨v, b, x⟩ } ∧
      w'.params = w.params ∧ (∀ s, s ≠ slot → w'.minter s = w.minter s) := by
  simp only [step, bind, Except.bind, pure, Except.pure] at h
  cases hr : w.minter slot with
  | none => simp [hr, throw, throwThe, MonadExceptOf.throw] at h
  | some r =>
    simp [hr, updateStatus] at h
    obtain ⟨hw, _⟩ := h
    subst hw
    obtain ⟨h1, h2, h3⟩ := minter_setMinter w slot { r with status := ⟨v, b, x⟩ }
    exact ⟨r, rfl, h1, h2, h3⟩

/-- status over histories: after any list of status updates the flags are those of the last one. Like `C18_status` this
restates the model's definition of `updateStatus` (kind and old status ignored); the world-level history statement is
`C18_status_history`. -/
theorem C18_status_seq (k : MinterKind) (s0 : Status) (l : List (Bool × Bool × Bool)) :
    l.foldl (fun s f => match updateStatus k s f.1 f.2.1 f.2.2 with | .ok s' => s' | .error _ => s) s0
      = match l.getLast? with | some f => ⟨f.1, f.2.1, f.2.2⟩ | none => s0 := by
  induction l generalizing s0 with
  | nil => rfl
  | cons f t ih =>
    simp only [List.foldl_cons, updateStatus]
    simp only [updateStatus] at ih
    rw [ih]
    cases t with
    | nil => rfl
    | cons g t' =>
      rw [List.getLast?_cons_cons]
      cases h : (g :: t').getLast? with
      | none => simp at h
      | some z => rfl

/-! ## 6. "Subsequent minter creations and mints observe the new parameters"

`step e w op` computes every creation, mint, airdrop, shuffle and admin call from `w.params`, the factory's CURRENT
params. First: what `w.params` is after an arbitrary history; then, per operation, which current parameter decides. -/

theorem step_params_other (e : Env) (w w' : World) (op : Op) (ms : List Msg) (h : step e w op = .ok (w', ms))
    (hop : ∀ u, op ≠ .upd u) (hmig : ∀ u, op ≠ .mig (some u)) : w'.params = w.params := by
  cases op with
  | upd u => exact absurd rfl (hop u)
  | mig ou =>
    cases ou with
    | none => simp only [step, pure, Except.pure] at h; cases h; rfl
    | some u => exact absurd rfl (hmig u)
  | _ =>
    simp only [step, bind, Except.bind, pure, Except.pure, throw, throwThe, MonadExceptOf.throw] at h
    repeat' split at h
    all_goals first | cases h | skip
    all_goals simp_all [World.setMinter]

theorem step'_params (e : Env) (w : World) (op : Op) :
    (step' e w op).params = match op with
      | .upd u => applyUpd Params.sudo w.params u
      | .mig (some u) => applyUpd Params.sudo w.params u
      | _ => w.params := by
  cases op
  case upd u =>
    simp only [step', step, applyUpd, bind, Except.bind, pure, Except.pure]
    cases h : w.params.sudo u <;> simp
  case mig ou =>
    cases ou with
    | none => simp [step', step, pure, Except.pure]
    | some u =>
      simp only [step', step, applyUpd, bind, Except.bind, pure, Except.pure]
      cases h : w.params.sudo u <;> simp
  all_goals
    simp only [step']
    split
    · rename_i w' ms h; exact step_params_other e w w' _ ms h (by intro u; simp) (by intro u; simp)
    · rfl

/-- Over ALL operation histories (any interleaving of updates — by `sudo` or through `migrate` —, creations, mints,
airdrops, shuffles, admin calls and status updates, accepted or refused): the factory params are exactly the fold of the
governance updates in the history — nothing else writes them. -/
theorem C18_observed_params_history (e : Env) (ops : List Op) (w : World) :
    (run e w ops).params = runUpd Params.sudo w.params (updatesOf ops) := by
  induction ops generalizing w with
  | nil => rfl
  | cons op t ih =>
    simp only [run, List.foldl_cons] at ih ⊢
    rw [ih (step' e w op), step'_params]
    cases op with
    | mig ou => cases ou <;> simp [updatesOf, runUpd]
    | _ => simp [updatesOf, runUpd]

/-- `C18_observed_later`: whatever happened before (`ops`), the next operation `op` is decided by the params obtained
by folding all governance updates submitted so far — i.e. it observes every accepted update, immediately. -/
theorem C18_observed_later (e : Env) (w : World) (ops : List Op) (op : Op) :
    step e (run e w ops) op
      = step e { params := runUpd Params.sudo w.params (updatesOf ops), minters := (run e w ops).minters } op := by
  rw [← C18_observed_params_history]

/-- an update never touches an existing minter: what a minter captured at creation (base-minter's price, the
open-edition cap, its kind, `num_tokens`, `start_time`, its status) is not changed by governance -/
theorem C18_captured (e : Env) (w w' : World) (u : AnyUpd) (ms : List Msg) (h : step e w (.upd u) = .ok (w', ms)) :
    w'.minters = w.minters ∧ w.params.sudo u = .ok w'.params := by
  simp only [step, bind, Except.bind, pure, Except.pure] at h
  cases hp : w.params.sudo u with
  | error x => simp [hp] at h
  | ok p => simp [hp] at h; obtain ⟨h1, _⟩ := h; subst h1; exact ⟨rfl, rfl⟩

/-! ### creation -/

theorem mustPay_ok (funds : List Coin) (d : Denom) (pay : Nat) (h : mustPay funds d = .ok pay) :
    funds = [⟨d, pay⟩] ∧ pay ≠ 0 := by
  unfold mustPay at h
  split at h
  · rename_i c
    split at h
    · cases h
    · split at h
      · cases h; rename_i h1 h2; subst h2; exact ⟨rfl, h1⟩
      · cases h
  · cases h

theorem payCreationFee_ok (funds : List Coin) (fee : Coin) (exact : Bool) (ms : List Msg)
    (h : payCreationFee funds fee exact = .ok ms) :
    ∃ pay, funds = [⟨fee.denom, pay⟩] ∧ pay ≠ 0 ∧ fee.amount ≤ pay ∧ (exact = true → pay = fee.amount) := by
  simp only [payCreationFee, bind, Except.bind, pure, Except.pure, throw, throwThe, MonadExceptOf.throw] at h
  cases hm : mustPay funds fee.denom with
  | error x => simp [hm] at h
  | ok pay =>
    obtain ⟨hf, hp⟩ := mustPay_ok _ _ _ hm
    refine ⟨pay, hf, hp, ?_, ?_⟩
    · simp only [hm] at h
      split at h
      · cases h
      · split at h
        · rename_i hn
          subst hf
          simp only [Sg1.checkedFairBurn, mayPay, hn, bind, Except.bind, pure, Except.pure, throw, throwThe, MonadExceptOf.throw] at h
          by_cases hlt : pay < fee.amount
          · simp [hlt] at h
          · omega
        · subst hf
          simp only [Sg1.transferFundsToLaunchpadDao, hm, bind, Except.bind, pure, Except.pure, throw, throwThe, MonadExceptOf.throw] at h
          by_cases hlt : pay < fee.amount
          · simp [hlt] at h
          · omega
    · intro he
      simp only [hm, he] at h
      split at h
      · cases h
      · rename_i hne; simpa using hne

theorem createCommon_ok (e : Env) (P : Params) (a : CreateArgs) (exact : Bool) (ms : List Msg)
    (h : createCommon e P a exact = .ok ms) :
    P.frozen = false ∧ a.sg721 ∈ P.allowed ∧ a.sg721 ∈ e.colls ∧ payCreationFee a.funds P.creationFee exact = .ok ms := by
  simp only [createCommon, bind, Except.bind, pure, Except.pure, throw, throwThe, MonadExceptOf.throw] at h
  cases hp : payCreationFee a.funds P.creationFee exact with
  | error x => simp [hp] at h
  | ok m =>
    simp only [hp] at h
    repeat' split at h
    all_goals first | cases h | skip
    simp_all


theorem obs_create_v (e : Env) (q : VendingParams) (a : CreateArgs) (r : MinterRec) (ms : List Msg)
    (h : create e (.v q) a = .ok (r, ms)) :
    createCommon e (.v q) a false = .ok ms ∧
    e.kindOf q.codeId = some r.kind ∧ r.kind.isVending = true ∧
    a.numTokens.getD 0 ≤ q.ext.maxTokenLimit ∧
    a.pal ≤ q.ext.maxPerAddressLimit ∧
    q.minMintPrice.amount ≤ a.price.amount ∧ q.minMintPrice.denom = a.price.denom ∧
    sttOk a q.maxTradingOffsetSecs = true := by
  simp only [create, bind, Except.bind, pure, Except.pure, throw, throwThe, MonadExceptOf.throw] at h
  cases hc : createCommon e (.v q) a false with
  | error x => simp [hc] at h
  | ok m =>
    simp only [hc] at h
    repeat' split at h
    all_goals first | cases h | skip
    all_goals simp_all

theorem obs_create_o (e : Env) (q : OeParams) (a : CreateArgs) (r : MinterRec) (ms : List Msg)
    (h : create e (.o q) a = .ok (r, ms)) :
    createCommon e (.o q) a true = .ok ms ∧
    e.kindOf q.codeId = some r.kind ∧ r.kind.isOe = true ∧
    (∀ n, a.numTokens = some n → n ≤ q.ext.maxTokenLimit) ∧
    a.pal ≤ q.ext.maxPerAddressLimit ∧
    q.minMintPrice.amount ≤ a.price.amount ∧ q.minMintPrice.denom = a.price.denom ∧
    sttOk a q.maxTradingOffsetSecs = true := by
  simp only [create, bind, Except.bind, pure, Except.pure, throw, throwThe, MonadExceptOf.throw] at h
  cases hc : createCommon e (.o q) a true with
  | error x => simp [hc] at h
  | ok m =>
    simp only [hc] at h
    cases hn : a.numTokens with
    | none =>
      simp only [hn] at h
      repeat' split at h
      all_goals first | cases h | skip
      all_goals simp_all
      all_goals omega
    | some n =>
      simp only [hn] at h
      repeat' split at h
      all_goals first | cases h | skip
      all_goals simp_all
      all_goals omega

theorem obs_create_t (e : Env) (q : TmParams) (a : CreateArgs) (r : MinterRec) (ms : List Msg)
    (h : create e (.t q) a = .ok (r, ms)) :
    createCommon e (.t q) a false = .ok ms ∧
    e.kindOf q.codeId = some r.kind ∧ r.kind = .tokenMerge ∧
    a.numTokens.getD 0 ≤ q.maxTokenLimit ∧
    a.pal ≤ q.maxPerAddressLimit ∧
    sttOk a q.maxTradingOffsetSecs = true := by
  simp only [create, bind, Except.bind, pure, Except.pure, throw, throwThe, MonadExceptOf.throw] at h
  cases hc : createCommon e (.t q) a false with
  | error x => simp [hc] at h
  | ok m =>
    simp only [hc] at h
    repeat' split at h
    all_goals first | cases h | skip
    all_goals simp_all

/-- base-minter CAPTURES the factory's current minimum price as its mint price -/
theorem obs_create_b (e : Env) (q : BaseParams) (a : CreateArgs) (r : MinterRec) (ms : List Msg)
    (h : create e (.b q) a = .ok (r, ms)) :
    createCommon e (.b q) a false = .ok ms ∧
    e.kindOf q.codeId = some r.kind ∧ r.kind = .base ∧ r.price = q.minMintPrice := by
  simp only [create, bind, Except.bind, pure, Except.pure, throw, throwThe, MonadExceptOf.throw] at h
  cases hc : createCommon e (.b q) a false with
  | error x => simp [hc] at h
  | ok m =>
    simp only [hc] at h
    repeat' split at h
    all_goals first | cases h | skip
    all_goals simp_all

/-- A creation that succeeds satisfies the factory's CURRENT parameters: not frozen, collection code currently allowed,
the current creation fee paid in its current denom, at most the current token / per-address maxima, at least the current
minimum price in its denom (vending, open edition), trading start within the current offset, and the minter instantiated
is the one stored under the current `code_id`. -/
theorem C18_observed_create (e : Env) (P : Params) (a : CreateArgs) (r : MinterRec) (ms : List Msg)
    (h : create e P a = .ok (r, ms)) :
    P.frozen = false ∧ a.sg721 ∈ P.allowed ∧
    (∃ pay, a.funds = [⟨P.creationFee.denom, pay⟩] ∧ P.creationFee.amount ≤ pay) ∧
    e.kindOf P.codeId = some r.kind ∧
    (∀ m n, P.maxTokenLimit = some m → a.numTokens = some n → n ≤ m) ∧
    (∀ m, P.maxPal = some m → a.pal ≤ m) ∧
    (∀ c, P.minMintPrice = some c → r.kind ≠ .base → c.amount ≤ a.price.amount ∧ c.denom = a.price.denom) ∧
    (r.kind ≠ .base → sttOk a P.offset = true) := by
  have common : ∀ exact, createCommon e P a exact = .ok ms →
      P.frozen = false ∧ a.sg721 ∈ P.allowed ∧ (∃ pay, a.funds = [⟨P.creationFee.denom, pay⟩] ∧ P.creationFee.amount ≤ pay) := by
    intro exact hc
    obtain ⟨h1, h2, _, h4⟩ := createCommon_ok _ _ _ _ _ hc
    obtain ⟨pay, hf, _, hle, _⟩ := payCreationFee_ok _ _ _ _ h4
    exact ⟨h1, h2, pay, hf, hle⟩
  cases P with
  | v q =>
    obtain ⟨hc, hk, _, hn, hp, hm1, hm2, hs⟩ := obs_create_v e q a r ms h
    obtain ⟨c1, c2, c3⟩ := common false hc
    refine ⟨c1, c2, c3, hk, ?_, ?_, ?_, fun _ => hs⟩
    · intro m n hm hnn; simp only [Params.maxTokenLimit, Option.some.injEq] at hm; subst hm; simpa [hnn] using hn
    · intro m hm; simp only [Params.maxPal, Option.some.injEq] at hm; subst hm; exact hp
    · intro c hc' _; simp only [Params.minMintPrice, Option.some.injEq] at hc'; subst hc'; exact ⟨hm1, hm2⟩
  | o q =>
    obtain ⟨hc, hk, _, hn, hp, hm1, hm2, hs⟩ := obs_create_o e q a r ms h
    obtain ⟨c1, c2, c3⟩ := common true hc
    refine ⟨c1, c2, c3, hk, ?_, ?_, ?_, fun _ => hs⟩
    · intro m n hm hnn; simp only [Params.maxTokenLimit, Option.some.injEq] at hm; subst hm; exact hn n hnn
    · intro m hm; simp only [Params.maxPal, Option.some.injEq] at hm; subst hm; exact hp
    · intro c hc' _; simp only [Params.minMintPrice, Option.some.injEq] at hc'; subst hc'; exact ⟨hm1, hm2⟩
  | t q =>
    obtain ⟨hc, hk, _, hn, hp, hs⟩ := obs_create_t e q a r ms h
    obtain ⟨c1, c2, c3⟩ := common false hc
    refine ⟨c1, c2, c3, hk, ?_, ?_, ?_, fun _ => hs⟩
    · intro m n hm hnn; simp only [Params.maxTokenLimit, Option.some.injEq] at hm; subst hm; simpa [hnn] using hn
    · intro m hm; simp only [Params.maxPal, Option.some.injEq] at hm; subst hm; exact hp
    · intro c hc'; simp [Params.minMintPrice] at hc'
  | b q =>
    obtain ⟨hc, hk, hb, _⟩ := obs_create_b e q a r ms h
    obtain ⟨c1, c2, c3⟩ := common false hc
    refine ⟨c1, c2, c3, hk, ?_, ?_, ?_, fun hne => absurd hb hne⟩
    · intro m n hm; simp [Params.maxTokenLimit] at hm
    · intro m hm; simp [Params.maxPal] at hm
    · intro c _ hne; exact absurd hb hne

/-- "frozen stops creation": once an accepted update supplies `frozen = true`, every creation on that factory is
refused, whatever it was before; (un-freezing is `C18_params_frame` with `frozen = some false`). -/
theorem C18_observed_frozen (e : Env) (P P' : Params) (u : AnyUpd) (a : CreateArgs)
    (hu : P.sudo u = .ok P') (hf : u.frozen = some true) : ∃ x, create e P' a = .error x := by
  have hfr : P'.frozen = true := by rw [(C18_params_frame P P' u hu).2.2.1, hf]; rfl
  cases hc : create e P' a with
  | error x => exact ⟨x, rfl⟩
  | ok rm =>
    have := (C18_observed_create e P' a rm.1 rm.2 hc).1
    rw [hfr] at this; cases this

/-- a collection code id removed by an accepted update can no longer be used; one added (and not removed) can pass the
allowed-list gate -/
theorem C18_observed_removed_code (e : Env) (P P' : Params) (u : AnyUpd) (a : CreateArgs)
    (hu : P.sudo u = .ok P') (hr : a.sg721 ∈ u.rmIds.getD []) : ∃ x, create e P' a = .error x := by
  have hnot : a.sg721 ∉ P'.allowed := fun hin => (((C18_params_frame P P' u hu).2.2.2.2.2.2.2.2.2.2.2.2.2 a.sg721).mp hin).2 hr
  cases hc : create e P' a with
  | error x => exact ⟨x, rfl⟩
  | ok rm => exact absurd (C18_observed_create e P' a rm.1 rm.2 hc).2.1 hnot

/-! ### mints, airdrops, shuffles, admin calls -/

/-- `Uint128 * Decimal::bps(b)` is `floor(amount · b / 10 000)` -/
theorem C18_bps_bridge (x b : Nat) : mulFloor x (bps b) = x * b / 10000 := by
  unfold mulFloor bps
  have : x * (b * 10 ^ 14) = (x * b) * 10 ^ 14 := by rw [Nat.mul_assoc]
  rw [this]
  have h18 : (10 : Nat) ^ 18 = 10000 * 10 ^ 14 := by omega
  rw [h18]
  exact Nat.mul_div_mul_right (x * b) 10000 (by omega)

/-- what a fee split pays out: everything adds up to the price, the seller gets `price − floor(price·bps/10000)` -/
theorem C18_mintMsgs (price : Coin) (b : Nat) (featured : Bool) (dev : Option Addr) (ms : List Msg)
    (h : mintMsgs price b featured dev = .ok ms) :
    let fee := price.amount * b / 10000
    fee ≤ price.amount ∧
    ms = (if fee = 0 then [] else Sg1.distributeMintFees ⟨price.denom, fee⟩ featured dev)
          ++ (if price.amount - fee = 0 then [] else [Msg.send ADMIN ⟨price.denom, price.amount - fee⟩]) := by
  simp only [mintMsgs, C18_bps_bridge] at h
  split at h
  · cases h
  · cases h; exact ⟨by omega, rfl⟩

/-- (proof engineering) the kernel must never be asked to put `mintMsgs …` / `mulFloor …` in weak head normal form
(symbolic division by 10^18 explodes), so the proofs about `mint` / `airdrop` walk the `do` block with these generic
lemmas instead of unfolding `bind` into a `match`. -/
theorem bind_ok {ε α β : Type} {x : Except ε α} {f : α → Except ε β} {y : β} (h : (x >>= f) = .ok y) :
    ∃ a, x = .ok a ∧ f a = .ok y := by
  cases x with
  | error e => cases h
  | ok a => exact ⟨a, rfl, h⟩

theorem throw_bind_ne {ε α β : Type} {e : ε} {f : α → Except ε β} {y : β} : ((throw e : Except ε α) >>= f) ≠ .ok y := by
  intro h; cases h

theorem bne_false_eq {a b : Nat} (h : ¬ (a != b) = true) : a = b := by
  cases hd : decide (a = b) with
  | true => exact of_decide_eq_true hd
  | false => exact absurd (by simp [bne, of_decide_eq_false hd]) h

/-- a public mint on a vending / open-edition minter splits the minter's price by the factory's CURRENT `mint_fee_bps`
(and, open edition, pays the developer share to the CURRENT `dev_fee_address`) -/
theorem C18_observed_mint (P : Params) (r r' : MinterRec) (now : Nat) (funds : List Coin) (ms : List Msg)
    (h : mint P r now funds = .ok (r', ms)) (hk : r.kind ≠ .base) :
    ∃ b, P.mintFeeBps = some b ∧ mintMsgs r.price b r.kind.isFeatured P.dev = .ok ms ∧
      mayPay funds r.price.denom = .ok r.price.amount := by
  unfold mint at h
  rw [if_neg hk] at h
  by_cases htm : r.kind = .tokenMerge
  · rw [if_pos htm] at h; cases h
  rw [if_neg htm] at h
  cases hb : P.mintFeeBps with
  | none => rw [hb] at h; cases h
  | some b =>
    rw [hb] at h
    dsimp only at h
    by_cases h1 : now < r.start
    · rw [if_pos h1] at h; exact absurd h throw_bind_ne
    rw [if_neg h1] at h
    by_cases h2 : r.mintable = some 0
    · rw [if_pos h2] at h; exact absurd h throw_bind_ne
    rw [if_neg h2] at h
    obtain ⟨pay, hpay, h⟩ := bind_ok h
    by_cases h3 : (pay != r.price.amount) = true
    · rw [if_pos h3] at h; exact absurd h throw_bind_ne
    rw [if_neg h3] at h
    obtain ⟨m, hm, h⟩ := bind_ok h
    have hms : m = ms := by
      have := (Except.ok.inj h); exact (Prod.mk.inj this).2
    have hp : pay = r.price.amount := by
      cases hd : decide (pay = r.price.amount) with
      | true => exact of_decide_eq_true hd
      | false => exact absurd (by simp [bne, of_decide_eq_false hd]) h3
    exact ⟨b, rfl, hms ▸ hm, hp ▸ hpay⟩

/-- base minter: the payment must equal the CAPTURED price times the factory's CURRENT `mint_fee_bps` -/
theorem C18_observed_mint_base (P : Params) (r r' : MinterRec) (now : Nat) (funds : List Coin) (ms : List Msg)
    (h : mint P r now funds = .ok (r', ms)) (hk : r.kind = .base) :
    ∃ b, P.mintFeeBps = some b ∧ mustPay funds NATIVE = .ok (r.price.amount * b / 10000) ∧ r' = r := by
  unfold mint at h
  rw [if_pos hk] at h
  cases hb : P.mintFeeBps with
  | none => rw [hb] at h; cases h
  | some b =>
    rw [hb] at h
    try dsimp only at h
    obtain ⟨sent, hsent, h⟩ := bind_ok h
    try dsimp only at h
    by_cases h3 : (mulFloor r.price.amount (bps b) != sent) = true
    · rw [if_pos h3] at h; exact absurd h throw_bind_ne
    rw [if_neg h3] at h
    obtain ⟨m, hm, h⟩ := bind_ok h
    have hr : r = r' := (Prod.mk.inj (Except.ok.inj h)).1
    have hs := bne_false_eq h3
    rw [C18_bps_bridge] at hs
    exact ⟨b, rfl, hs ▸ hsent, hr.symm⟩

/-- an airdrop (`MintTo`) charges the factory's CURRENT airdrop price and splits it by the CURRENT airdrop fee bps -/
theorem C18_observed_airdrop (P : Params) (r r' : MinterRec) (funds : List Coin) (ms : List Msg)
    (h : airdrop P r funds = .ok (r', ms)) :
    ∃ price b, P.airdropPrice = some price ∧ P.airdropBps = some b ∧
      mayPay funds price.denom = .ok price.amount ∧ mintMsgs price b r.kind.isFeatured P.dev = .ok ms := by
  unfold airdrop at h
  by_cases hk : r.kind = .base
  · rw [if_pos hk] at h; exact absurd h throw_bind_ne
  rw [if_neg hk] at h
  try dsimp only at h
  cases hp : P.airdropPrice with
  | none => rw [hp] at h; cases h
  | some price =>
    rw [hp] at h
    try dsimp only at h
    cases hb : P.airdropBps with
    | none => rw [hb] at h; cases h
    | some b =>
      rw [hb] at h
      try dsimp only at h
      by_cases h2 : r.mintable = some 0
      · rw [if_pos h2] at h; exact absurd h throw_bind_ne
      rw [if_neg h2] at h
      by_cases h4 : (r.kind.isOe && decide (price.amount = 0) && r.numTokens.isNone) = true
      · rw [if_pos h4] at h; exact absurd h throw_bind_ne
      rw [if_neg h4] at h
      obtain ⟨pay, hpay, h⟩ := bind_ok h
      by_cases h3 : (pay != price.amount) = true
      · rw [if_pos h3] at h; exact absurd h throw_bind_ne
      rw [if_neg h3] at h
      obtain ⟨m, hm, h⟩ := bind_ok h
      have hms : m = ms := (Prod.mk.inj (Except.ok.inj h)).2
      have hpe := bne_false_eq h3
      exact ⟨price, b, rfl, rfl, hpe ▸ hpay, hms ▸ hm⟩

/-- `UpdatePerAddressLimit` is accepted only within the factory's CURRENT `max_per_address_limit` -/
theorem C18_observed_pal (P : Params) (r r' : MinterRec) (limit : Nat) (h : setPal P r limit = .ok r') :
    ∃ m, P.maxPal = some m ∧ 0 < limit ∧ limit ≤ m ∧ r'.pal = limit := by
  simp only [setPal, bind, Except.bind, pure, Except.pure, throw, throwThe, MonadExceptOf.throw] at h
  repeat' split at h
  all_goals first | cases h | skip
  all_goals simp_all
  all_goals omega

/-- `Shuffle` needs at least the factory's CURRENT shuffle fee -/
theorem C18_observed_shuffle (P : Params) (r : MinterRec) (funds : List Coin) (ms : List Msg)
    (h : shuffle P r funds = .ok ms) :
    ∃ fee pay, P.shuffleFee = some fee ∧ mayPay funds NATIVE = .ok pay ∧ fee.amount ≤ pay := by
  simp only [shuffle, Sg1.checkedFairBurn, bind, Except.bind, pure, Except.pure, throw, throwThe, MonadExceptOf.throw] at h
  cases hs : P.shuffleFee with
  | none => simp [hs] at h; repeat' split at h
            all_goals first | cases h | skip
  | some fee =>
    cases hm : mayPay funds NATIVE with
    | error x => simp [hs, hm] at h; repeat' split at h
                 all_goals first | cases h | skip
    | ok pay =>
      refine ⟨fee, pay, rfl, rfl, ?_⟩
      by_cases hlt : pay < fee.amount
      · simp [hs, hm, hlt] at h; repeat' split at h
        all_goals first | cases h | skip
      · omega

/-- `UpdateMintPrice` is accepted only at or above the factory's CURRENT minimum mint price -/
theorem C18_observed_min_price (P : Params) (r r' : MinterRec) (now price : Nat) (h : setPrice P r now price = .ok r') :
    ∃ m, P.minMintPrice = some m ∧ m.amount ≤ price ∧ r'.price.amount = price := by
  simp only [setPrice, bind, Except.bind, pure, Except.pure, throw, throwThe, MonadExceptOf.throw] at h
  repeat' split at h
  all_goals first | cases h | skip
  all_goals simp_all
  all_goals omega

/-- `UpdateStartTradingTime(Some t)` is accepted only within the factory's CURRENT `max_trading_offset_secs` after the
minter's start time (the base minter has no such bound) -/
theorem C18_observed_offset (P : Params) (r : MinterRec) (now t : Nat)
    (h : updateStartTradingTime P r now (some t) = .ok ()) (hk : r.kind ≠ .base) :
    now ≤ t ∧ t ≤ r.start + P.offset * 1000000000 := by
  simp only [updateStartTradingTime, nanos] at h
  repeat' split at h
  all_goals first | cases h | skip
  all_goals simp_all
  all_goals omega

/-! ### values captured at creation stay -/

/-- ONE STEP only: `setPrice` never succeeds on a base minter (so the price a base minter captured from its factory's
`min_mint_price` at creation is not rewritten by that operation); governance updates leave minters untouched by
`C18_captured`. The history-level statement ("after ANY history the price is still the creation-time one") would follow
by induction over the op list but is NOT proved here. -/
theorem C18_captured_base_price (P : Params) (r r' : MinterRec) (now price : Nat) (hk : r.kind = .base) :
    setPrice P r now price ≠ .ok r' := by
  simp [setPrice, hk, MinterKind.isVending, MinterKind.isOe, MinterKind.idx, bind, Except.bind, throw, throwThe,
    MonadExceptOf.throw]

/-- the open-edition cap: a minter created without `num_tokens` stores the factory's `max_token_limit` of that moment
(the wl-flex variant stores nothing: unlimited) -/
theorem C18_captured_oe_cap (e : Env) (q : OeParams) (a : CreateArgs) (r : MinterRec) (ms : List Msg)
    (h : create e (.o q) a = .ok (r, ms)) (hn : a.numTokens = none) :
    r.mintable = if r.kind = .openEditionFlex then none else some q.ext.maxTokenLimit := by
  simp only [create, bind, Except.bind, pure, Except.pure, throw, throwThe, MonadExceptOf.throw, hn] at h
  repeat' split at h
  all_goals first | cases h | skip
  all_goals simp_all

/-! ## 6b. Round 3: migrate path, witnessed updates, history-level observation, status frame, whitelist -/

/-- every factory's `migrate(Some(msg))` is the same function of the params as `sudo UpdateParams(msg)`; `migrate(None)`
changes nothing -/
theorem C18_mig_same_as_sudo (e : Env) (w : World) (u : AnyUpd) :
    step e w (.mig (some u)) = step e w (.upd u) ∧ step e w (.mig none) = .ok (w, []) := ⟨rfl, rfl⟩

/-- the witnessed update the driver runs (`updW`): when the update is applied it is an accepted `sudo` (so
`C18_params_frame` describes the new params); in every other case the params are exactly the old ones. -/
theorem C18_updW_frame (P : Params) (u : AnyUpd) (acc : Bool) :
    ((updW P u acc).2 = .applied → P.sudo u = .ok (updW P u acc).1 ∧ acc = true) ∧
    ((updW P u acc).2 ≠ .applied → (updW P u acc).1 = P) := by
  unfold updW
  cases h : P.sudo u <;> cases acc <;> simp

/-- the witness is CHECKED: when the implementation's verdict is the model's, `updW` is the plain transactional update -/
theorem C18_updW_agrees (P : Params) (u : AnyUpd) :
    (updW P u (P.sudo u).toBool).1 = applyUpd Params.sudo P u ∧
    (updW P u (P.sudo u).toBool).2 = (if (P.sudo u).toBool then .applied else .refused) := by
  unfold updW applyUpd
  cases h : P.sudo u <;> simp [Except.toBool]

/-- "an update that would move the minimum mint price to a non-native denom is refused", for the witnessed update: if the
implementation ACCEPTS such an update the driver answers `err` against its `ok` (verdict `acceptedByCodeOnly`), it is never
`applied` and never waved through as drift; the model's params stay as they were. -/
theorem C18_updW_nonnative (P : Params) (u : AnyUpd) (c : Coin) (hc : c.denom ≠ NATIVE)
    (hu : u.minMintPrice = some c) (hP : P.minMintPrice ≠ none) (acc : Bool) :
    updW P u acc = (P, if acc then .acceptedByCodeOnly else .refused) := by
  obtain ⟨⟨e, he⟩, _⟩ := C18_nonnative_refused_any P u c hc hu hP
  simp [updW, he]

/-- a refusal that only the implementation has (hardening outside this property) is never counted as agreement on a
non-native minimum price: `refusedByCodeOnly` only arises when the model accepts the message -/
theorem C18_updW_drift_only_when_model_accepts (P : Params) (u : AnyUpd) (acc : Bool)
    (h : (updW P u acc).2 = .refusedByCodeOnly) : acc = false ∧ ∃ P', P.sudo u = .ok P' := by
  unfold updW at h
  cases hs : P.sudo u with
  | error x => cases acc <;> simp [hs] at h
  | ok P' => cases acc <;> simp [hs] at h; exact ⟨rfl, P', rfl⟩

/-- Literal reading "the allowed code ids are a SET (no duplicates)": does not hold for the stored LIST (`Vec::dedup` removes
only consecutive repeats) — recorded as an observation (DESIGN 13.3), not a finding: the set semantics hold. Full statement that does NOT hold: `∀ allowed add rm, allowed.Nodup → (applyIds allowed add rm).Nodup`.
What holds is the set-level meaning, `C18_ids_set` (membership). Replayed on the real factories by the directed harness
scenario `upd add=<sg0>,<sg0>` / `qids` (answer `ids=…,sg1,sg0` after `rm=sg0`, `add=sg0,sg0`) and corpus case
`corpus/C18/ids-duplicate.txt`. -/
theorem C18_ids_nodup_counterexample :
    ¬ (∀ (allowed : List Nat) (add rm : Option (List Nat)), allowed.Nodup → (applyIds allowed add rm).Nodup) := by
  intro h
  have := h [1, 2] (some [1]) none (by decide)
  revert this
  decide

/-! ### history-level "observe": an operation that succeeds after ANY history succeeds against the folded params -/

theorem step_create_ok (e : Env) (w w' : World) (slot : Nat) (a : CreateArgs) (ms : List Msg)
    (h : step e w (.create slot a) = .ok (w', ms)) : ∃ r ms0, create e w.params a = .ok (r, ms0) ∧ w' = w.setMinter slot r := by
  simp only [step] at h
  obtain ⟨⟨r, ms0⟩, hc, h⟩ := bind_ok h
  obtain ⟨ms1, _, h⟩ := bind_ok h
  exact ⟨r, ms0, hc, ((Prod.mk.inj (Except.ok.inj h)).1).symm⟩

/-- after ANY history `ops` (updates by sudo or migrate, accepted or refused, interleaved with anything else), a creation
that succeeds is a successful creation against the fold of the governance updates submitted so far — so
`C18_observed_create` applies to exactly those params (frozen, allowed ids, fee, maxima, minimum price, offset, code id). -/
theorem C18_observed_create_history (e : Env) (w w' : World) (ops : List Op) (slot : Nat) (a : CreateArgs) (ms : List Msg)
    (h : step e (run e w ops) (.create slot a) = .ok (w', ms)) :
    ∃ r ms0, create e (runUpd Params.sudo w.params (updatesOf ops)) a = .ok (r, ms0) := by
  obtain ⟨r, ms0, hc, _⟩ := step_create_ok _ _ _ _ _ _ h
  rw [C18_observed_params_history] at hc
  exact ⟨r, ms0, hc⟩

theorem step_mint_ok (e : Env) (w w' : World) (slot now : Nat) (funds : List Coin) (ms : List Msg)
    (h : step e w (.mint slot now funds) = .ok (w', ms)) :
    ∃ r r' ms0, w.minter slot = some r ∧ mint w.params r now funds = .ok (r', ms0) := by
  simp only [step] at h
  cases hr : w.minter slot with
  | none => rw [hr] at h; cases h
  | some r =>
    rw [hr] at h
    obtain ⟨⟨r', ms0⟩, hc, _⟩ := bind_ok h
    exact ⟨r, r', ms0, rfl, hc⟩

/-- after ANY history, a mint that succeeds is a successful mint against the fold of the governance updates so far — so
`C18_observed_mint` / `_mint_base` name the CURRENT `mint_fee_bps` (and developer address) of exactly those params -/
theorem C18_observed_mint_history (e : Env) (w w' : World) (ops : List Op) (slot now : Nat) (funds : List Coin) (ms : List Msg)
    (h : step e (run e w ops) (.mint slot now funds) = .ok (w', ms)) :
    ∃ r r' ms0, (run e w ops).minter slot = some r ∧
      mint (runUpd Params.sudo w.params (updatesOf ops)) r now funds = .ok (r', ms0) := by
  obtain ⟨r, r', ms0, hm, hc⟩ := step_mint_ok _ _ _ _ _ _ _ h
  rw [C18_observed_params_history] at hc
  exact ⟨r, r', ms0, hm, hc⟩

/-- `SetWhitelist` is accepted only when the whitelist's price is at least the factory's CURRENT minimum mint price, in its
denom -/
theorem C18_observed_whitelist (P : Params) (r : MinterRec) (now : Nat) (wlp : Coin) (h : setWl P r now wlp = .ok ()) :
    ∃ m, P.minMintPrice = some m ∧ m.amount ≤ wlp.amount ∧ m.denom = wlp.denom := by
  simp only [setWl, bind, Except.bind, pure, Except.pure, throw, throwThe, MonadExceptOf.throw] at h
  repeat' split at h
  all_goals first | cases h | skip
  all_goals simp_all
  all_goals omega

/-! ### status: nothing but `UpdateStatus` on that minter (and its creation) touches a minter's flags -/

def statusOf (w : World) (s : Nat) : Option Status := (w.minter s).map (·.status)

theorem mint_status (P : Params) (r r' : MinterRec) (now : Nat) (funds : List Coin) (ms : List Msg)
    (h : mint P r now funds = .ok (r', ms)) : r'.status = r.status ∧ r'.kind = r.kind := by
  by_cases hk : r.kind = .base
  · obtain ⟨_, _, _, hr⟩ := C18_observed_mint_base P r r' now funds ms h hk
    rw [hr]; exact ⟨rfl, rfl⟩
  · unfold mint at h
    rw [if_neg hk] at h
    by_cases htm : r.kind = .tokenMerge
    · rw [if_pos htm] at h; cases h
    rw [if_neg htm] at h
    cases hb : P.mintFeeBps with
    | none => rw [hb] at h; cases h
    | some b =>
      rw [hb] at h
      dsimp only at h
      by_cases h1 : now < r.start
      · rw [if_pos h1] at h; exact absurd h throw_bind_ne
      rw [if_neg h1] at h
      by_cases h2 : r.mintable = some 0
      · rw [if_pos h2] at h; exact absurd h throw_bind_ne
      rw [if_neg h2] at h
      obtain ⟨pay, _, h⟩ := bind_ok h
      by_cases h3 : (pay != r.price.amount) = true
      · rw [if_pos h3] at h; exact absurd h throw_bind_ne
      rw [if_neg h3] at h
      obtain ⟨m, _, h⟩ := bind_ok h
      have := (Prod.mk.inj (Except.ok.inj h)).1
      rw [← this]; exact ⟨rfl, rfl⟩

theorem airdrop_status (P : Params) (r r' : MinterRec) (funds : List Coin) (ms : List Msg)
    (h : airdrop P r funds = .ok (r', ms)) : r'.status = r.status ∧ r'.kind = r.kind := by
  unfold airdrop at h
  by_cases hk : r.kind = .base
  · rw [if_pos hk] at h; exact absurd h throw_bind_ne
  rw [if_neg hk] at h
  try dsimp only at h
  cases hp : P.airdropPrice with
  | none => rw [hp] at h; cases h
  | some price =>
    rw [hp] at h
    try dsimp only at h
    cases hb : P.airdropBps with
    | none => rw [hb] at h; cases h
    | some b =>
      rw [hb] at h
      try dsimp only at h
      by_cases h2 : r.mintable = some 0
      · rw [if_pos h2] at h; exact absurd h throw_bind_ne
      rw [if_neg h2] at h
      by_cases h4 : (r.kind.isOe && decide (price.amount = 0) && r.numTokens.isNone) = true
      · rw [if_pos h4] at h; exact absurd h throw_bind_ne
      rw [if_neg h4] at h
      obtain ⟨pay, _, h⟩ := bind_ok h
      by_cases h3 : (pay != price.amount) = true
      · rw [if_pos h3] at h; exact absurd h throw_bind_ne
      rw [if_neg h3] at h
      obtain ⟨m, _, h⟩ := bind_ok h
      have := (Prod.mk.inj (Except.ok.inj h)).1
      rw [← this]; exact ⟨rfl, rfl⟩

theorem setPal_status (P : Params) (r r' : MinterRec) (limit : Nat) (h : setPal P r limit = .ok r') :
    r'.status = r.status := by
  simp only [setPal, bind, Except.bind, pure, Except.pure, throw, throwThe, MonadExceptOf.throw] at h
  repeat' split at h
  all_goals first | cases h | skip
  all_goals rfl

theorem setPrice_status (P : Params) (r r' : MinterRec) (now price : Nat) (h : setPrice P r now price = .ok r') :
    r'.status = r.status := by
  simp only [setPrice, bind, Except.bind, pure, Except.pure, throw, throwThe, MonadExceptOf.throw] at h
  repeat' split at h
  all_goals first | cases h | skip
  all_goals rfl

/-- writing minter `slot` with a record of unchanged status does not change anybody's status -/
theorem statusOf_setMinter_same (w : World) (slot s : Nat) (r r' : MinterRec) (hr : w.minter slot = some r)
    (hs : r'.status = r.status) : statusOf (w.setMinter slot r') s = statusOf w s := by
  obtain ⟨h1, _, h3⟩ := minter_setMinter w slot r'
  by_cases h : s = slot
  · subst h; simp [statusOf, h1, hr, hs]
  · simp [statusOf, h3 s h]

/-- Frame: every operation other than `UpdateStatus` on minter `s` and a creation into slot `s` — updates (sudo or migrate),
mints, airdrops, shuffles, admin calls, operations on OTHER minters, accepted or refused — leaves the status of minter `s`
exactly as it was. -/
theorem C18_status_frame (e : Env) (w : World) (op : Op) (s : Nat)
    (h1 : ∀ v b x, op ≠ .status s v b x) (h2 : ∀ a, op ≠ .create s a) :
    statusOf (step' e w op) s = statusOf w s := by
  unfold step'
  split
  · rename_i w' ms h
    cases op with
    | upd u => simp [statusOf, World.minter, (C18_captured e w w' u ms h).1]
    | mig ou =>
      cases ou with
      | none => simp only [step, pure, Except.pure] at h; cases h; rfl
      | some u =>
        have h' : step e w (.upd u) = .ok (w', ms) := h
        simp [statusOf, World.minter, (C18_captured e w w' u ms h').1]
    | create slot a =>
      obtain ⟨r, ms0, _, hw⟩ := step_create_ok _ _ _ _ _ _ h
      have hne : s ≠ slot := fun hs => h2 a (by rw [hs])
      rw [hw]; simp [statusOf, (minter_setMinter w slot r).2.2 s hne]
    | mint slot now funds =>
      simp only [step] at h
      cases hr : w.minter slot with
      | none => rw [hr] at h; cases h
      | some r =>
        rw [hr] at h
        obtain ⟨⟨r', ms0⟩, hc, h⟩ := bind_ok h
        obtain ⟨ms1, _, h⟩ := bind_ok h
        have hw := (Prod.mk.inj (Except.ok.inj h)).1
        rw [← hw]; exact statusOf_setMinter_same w slot s r r' hr (mint_status _ _ _ _ _ _ hc).1
    | airdrop slot funds =>
      simp only [step] at h
      cases hr : w.minter slot with
      | none => rw [hr] at h; cases h
      | some r =>
        rw [hr] at h
        obtain ⟨⟨r', ms0⟩, hc, h⟩ := bind_ok h
        obtain ⟨ms1, _, h⟩ := bind_ok h
        have hw := (Prod.mk.inj (Except.ok.inj h)).1
        rw [← hw]; exact statusOf_setMinter_same w slot s r r' hr (airdrop_status _ _ _ _ _ hc).1
    | setPal slot limit =>
      simp only [step] at h
      cases hr : w.minter slot with
      | none => rw [hr] at h; cases h
      | some r =>
        rw [hr] at h
        obtain ⟨r', hc, h⟩ := bind_ok h
        have hw := (Prod.mk.inj (Except.ok.inj h)).1
        rw [← hw]; exact statusOf_setMinter_same w slot s r r' hr (setPal_status _ _ _ _ hc)
    | shuffle slot funds =>
      simp only [step] at h
      cases hr : w.minter slot with
      | none => rw [hr] at h; cases h
      | some r =>
        rw [hr] at h
        obtain ⟨m0, _, h⟩ := bind_ok h
        obtain ⟨ms1, _, h⟩ := bind_ok h
        have hw := (Prod.mk.inj (Except.ok.inj h)).1
        rw [← hw]
    | ustt slot now t =>
      simp only [step] at h
      cases hr : w.minter slot with
      | none => rw [hr] at h; cases h
      | some r =>
        rw [hr] at h
        obtain ⟨_, _, h⟩ := bind_ok h
        have hw := (Prod.mk.inj (Except.ok.inj h)).1
        rw [← hw]
    | setPrice slot now price =>
      simp only [step] at h
      cases hr : w.minter slot with
      | none => rw [hr] at h; cases h
      | some r =>
        rw [hr] at h
        obtain ⟨r', hc, h⟩ := bind_ok h
        have hw := (Prod.mk.inj (Except.ok.inj h)).1
        rw [← hw]; exact statusOf_setMinter_same w slot s r r' hr (setPrice_status _ _ _ _ _ hc)
    | status slot v b x =>
      obtain ⟨r, hr, hw', _, hoth⟩ := C18_status_world e w w' slot v b x ms h
      have hne : s ≠ slot := fun hs => h1 v b x (by rw [hs])
      simp [statusOf, hoth s hne]
    | setWl slot now wlp =>
      simp only [step] at h
      cases hr : w.minter slot with
      | none => rw [hr] at h; cases h
      | some r =>
        rw [hr] at h
        obtain ⟨_, _, h⟩ := bind_ok h
        have hw := (Prod.mk.inj (Except.ok.inj h)).1
        rw [← hw]
  · rfl

/-- the flags of the last `UpdateStatus` on minter `s` in a history, if any -/
def lastFlags (s : Nat) : List Op → Option Status
  | [] => none
  | .status s' v b x :: t => (lastFlags s t).orElse (fun _ => if s' = s then some ⟨v, b, x⟩ else none)
  | _ :: t => lastFlags s t

/-- History-level status clause: once minter `s` exists, after ANY history that does not re-create slot `s` its `Status`
is the triple of the LAST `UpdateStatus` addressed to it, or still what it was if there was none — whatever else happened
in between (governance updates, mints, airdrops, admin calls, other minters' status updates, refused operations). -/
theorem C18_status_history (e : Env) (s : Nat) (ops : List Op) (w : World) (r : MinterRec)
    (hr : w.minter s = some r) (hc : ∀ a, Op.create s a ∉ ops) :
    statusOf (run e w ops) s = some ((lastFlags s ops).getD r.status) := by
  induction ops generalizing w r with
  | nil => simp [run, statusOf, hr, lastFlags]
  | cons op t ih =>
    have hct : ∀ a, Op.create s a ∉ t := fun a hm => hc a (List.mem_cons_of_mem _ hm)
    have hop : ∀ a, op ≠ .create s a := fun a hm => hc a (by rw [hm]; exact List.mem_cons_self)
    simp only [run, List.foldl_cons]
    by_cases hst : ∃ v b x, op = .status s v b x
    · obtain ⟨v, b, x, rfl⟩ := hst
      have hstep : step e w (.status s v b x) = .ok (w.setMinter s { r with status := ⟨v, b, x⟩ }, []) := by
        simp [step, hr, updateStatus, bind, Except.bind, pure, Except.pure]
      have hw : step' e w (.status s v b x) = w.setMinter s { r with status := ⟨v, b, x⟩ } := by
        simp [step', hstep]
      have hm := (minter_setMinter w s { r with status := ⟨v, b, x⟩ }).1
      have := ih (step' e w (.status s v b x)) { r with status := ⟨v, b, x⟩ } (by rw [hw]; exact hm) hct
      simp only [run] at this
      rw [this]
      simp only [lastFlags, if_true]
      cases lastFlags s t <;> simp [Option.orElse]
    · have hns : ∀ v b x, op ≠ .status s v b x := fun v b x h => hst ⟨v, b, x, h⟩
      have hf := C18_status_frame e w op s hns hop
      have hsome : ∃ r', (step' e w op).minter s = some r' ∧ r'.status = r.status := by
        simp only [statusOf, hr, Option.map_some] at hf
        cases hm : (step' e w op).minter s with
        | none => simp [hm] at hf
        | some r' => simp [hm] at hf; exact ⟨r', rfl, hf⟩
      obtain ⟨r', hr', hs'⟩ := hsome
      have := ih (step' e w op) r' hr' hct
      simp only [run] at this
      rw [this, hs']
      have hl : lastFlags s (op :: t) = lastFlags s t := by
        cases op with
        | status s' v b x =>
          have hne : s' ≠ s := fun h => hns v b x (by rw [h])
          simp only [lastFlags, if_neg hne]
          cases lastFlags s t <;> simp [Option.orElse]
        | _ => rfl
      rw [hl]

/-! ## 7. Non-vacuity: the hypotheses of the implication-shaped theorems are satisfiable, on concrete data
(the `mint` / `create` hypotheses are exercised on the real contracts by the harness: thousands of accepted mints) -/

def exV : VendingParams :=
  { codeId := 1, allowed := [16, 17], frozen := false, creationFee := ⟨0, 1000⟩, minMintPrice := ⟨0, 1000⟩,
    mintFeeBps := 1000, maxTradingOffsetSecs := 10,
    ext := { maxTokenLimit := 100, maxPerAddressLimit := 3, airdropMintPrice := ⟨0, 500⟩, airdropMintFeeBps := 5000,
             shuffleFee := ⟨0, 100⟩ } }

def exU : AnyUpd := { mintFeeBps := some 250, addIds := some [5, 5, 16], rmIds := some [17] }

/-- a partial update is accepted and changes exactly the supplied fields (`C18_params_frame` is not vacuous) -/
example : ((Params.v exV).sudo exU).toOption = some (.v { exV with mintFeeBps := 250, allowed := [16, 5, 16] }) := by decide

/-- a non-native minimum price is refused (`C18_nonnative_refused_any` is not vacuous) -/
example : ((Params.v exV).sudo { minMintPrice := some ⟨1, 5⟩ }).toOption = none := by decide

/-- a sequence: the second update is refused (non-native shuffle fee), the third wins for `mint_fee_bps` -/
example : (runUpd Params.sudo (.v exV) [exU, { shuffleFee := some ⟨2, 1⟩, mintFeeBps := some 7 }, { mintFeeBps := some 9 }]).mintFeeBps
    = some 9 := by decide

/-- the fee of a 10000 mint at 1000 bps and at 250 bps (what the directed harness scenario observes: 1000 → 250) -/
example : mulFloor 10000 (bps 1000) = 1000 ∧ mulFloor 10000 (bps 250) = 250 := by
  rw [C18_bps_bridge, C18_bps_bridge]; decide

end LP
