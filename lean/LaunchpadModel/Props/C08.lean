import LaunchpadModel.Model.FactoryCreate
/-!
# C08 — Factories create minters only within governance limits and for the fee

Model: `LP.FC` (Model/FactoryCreate.lean) — the same definitions the driver `drv_c08` executes against the real
contracts. Everything below is quantified over **all** worlds, all governance parameter settings (whatever history of
`UpdateParams` / freeze / unfreeze produced them), all create messages, all four factories and all eleven minter codes.

Sections: helper lemmas (`fc_*`), the readable predicates, then the property theorems `C08_*`.
-/
namespace LP
open LP.FC LP.Sg1

/-! ## helper lemmas -/

theorem fc_three (n : Nat) : threePercentOfTokens n = (3 * n + 99) / 100 := by
  unfold threePercentOfTokens; simp only []; split <;> omega

/-- the part of a native fee that `fair_burn` burns: `fee * Decimal::percent(FEE_BURN_PERCENT)`, rounded down; the rest goes to
the fair-burn pool. The VALUE of the percentage is C06's business: everything C08 proves holds for whatever value
`packages/sg1` has (only `burnPart F ≤ F`, i.e. a percentage ≤ 100, is used), so a legitimate change of the split does not
break this property's proofs. -/
def burnPart (F : Nat) : Nat := mulFloor F (percent Gen.sg1_FEE_BURN_PERCENT)

theorem fc_burnPart_le (F : Nat) : burnPart F ≤ F := by
  unfold burnPart mulFloor percent Gen.sg1_FEE_BURN_PERCENT; omega

/-- total debit (meaningful when the balance suffices) -/
def debit (b : Bank) (a : Addr) (c : Coin) : Bank :=
  fun x d => if x = a ∧ d = c.denom then b x d - c.amount else b x d

theorem fc_debit?_eq (b : Bank) (a : Addr) (c : Coin) :
    debit? b a c = if c.amount ≠ 0 ∧ c.amount ≤ b a c.denom then some (debit b a c) else none := by
  unfold debit? debit
  by_cases h0 : c.amount = 0
  · simp [h0]
  · by_cases h1 : b a c.denom < c.amount
    · have : ¬ c.amount ≤ b a c.denom := by omega
      simp [h0, h1, this]
    · have : c.amount ≤ b a c.denom := by omega
      simp [h0, h1, this]

@[simp] theorem fc_credit_self (b : Bank) (a : Addr) (c : Coin) : credit b a c a c.denom = b a c.denom + c.amount := by
  simp [credit]
@[simp] theorem fc_debit_self (b : Bank) (a : Addr) (c : Coin) : debit b a c a c.denom = b a c.denom - c.amount := by
  simp [debit]

/-- (`B` stands for `burnPart p.fee.amount`; it is a VARIABLE tied by `hB` so that no proof below ever has to compute with the
128-bit decimal arithmetic inside `burnPart`) -/
theorem fc_feeMsgs_native (self : Addr) (p : Params) (a : Nat) (hd : p.fee.denom = NATIVE) (ha : a ≠ 0)
    (hfee : p.fee.amount ≤ a) (B : Nat) (hB : B = burnPart p.fee.amount) :
    feeMsgs self p [⟨NATIVE, a⟩] =
      .ok [Msg.burn ⟨NATIVE, B⟩, Msg.fundPool self ⟨NATIVE, p.fee.amount - B⟩] := by
  have : ¬ a < p.fee.amount := by omega
  subst hB
  simp [feeMsgs, hd, checkedFairBurn, mayPay, fairBurn, burnPart, this, ha, bind, Except.bind, pure, Except.pure]

theorem fc_feeMsgs_other (self : Addr) (p : Params) (a : Nat) (hd : p.fee.denom ≠ NATIVE) (ha : a ≠ 0)
    (hfee : p.fee.amount ≤ a) :
    feeMsgs self p [⟨p.fee.denom, a⟩] = .ok [Msg.send LAUNCHPAD_DAO ⟨p.fee.denom, a⟩] := by
  have : ¬ a < p.fee.amount := by omega
  simp [feeMsgs, hd, transferFundsToLaunchpadDao, mustPay, this, ha, bind, Except.bind, pure, Except.pure]

/-- bank after a native-fee create with burned part `B`: payment to the factory, `B` burned, the rest of the fee to the pool -/
def bankNativeB (b : Bank) (s : Supply) (sender self : Addr) (a fee B : Nat) : Bank × Supply :=
  (credit (debit (debit (credit (debit b sender ⟨NATIVE, a⟩) self ⟨NATIVE, a⟩) self ⟨NATIVE, B⟩)
      self ⟨NATIVE, fee - B⟩) FAIRBURN_POOL ⟨NATIVE, fee - B⟩,
   fun d => if d = NATIVE then s d - B else s d)

/-- bank after a non-native-fee create: the whole payment passes through the factory to the launchpad DAO -/
def bankOther (b : Bank) (s : Supply) (sender self : Addr) (d : Denom) (a : Nat) : Bank × Supply :=
  (credit (debit (credit (debit b sender ⟨d, a⟩) self ⟨d, a⟩) self ⟨d, a⟩) LAUNCHPAD_DAO ⟨d, a⟩, s)

/-- the bank executing "payment in, burn `B`, pool `fee − B`" for ANY split `B ≤ fee` -/
theorem fc_exec_native (b : Bank) (s : Supply) (sender self : Addr) (a fee B : Nat) (ha : a ≠ 0) (hfee : fee ≤ a)
    (hB : B ≤ fee) :
    ((transfer? b sender self ⟨NATIVE, a⟩).bind fun b1 =>
        execMsgs self (b1, s) [Msg.burn ⟨NATIVE, B⟩, Msg.fundPool self ⟨NATIVE, fee - B⟩]) =
      if a ≤ b sender NATIVE ∧ (B ≠ 0 ∧ B ≠ fee) then some (bankNativeB b s sender self a fee B) else none := by
  unfold bankNativeB
  simp only [transfer?, fc_debit?_eq, execMsgs, execMsg]
  by_cases h1 : a ≤ b sender NATIVE
  · by_cases e1 : B = 0
    · simp [ha, h1, e1]
    · have k1 : B ≤ credit (debit b sender ⟨NATIVE, a⟩) self ⟨NATIVE, a⟩ self NATIVE := by
        have := fc_credit_self (debit b sender ⟨NATIVE, a⟩) self ⟨NATIVE, a⟩
        simp only [] at this
        rw [this]; omega
      by_cases e3 : B = fee
      · simp [ha, h1, e3]
      · have e2 : fee - B ≠ 0 := by omega
        have k2 : fee - B ≤ debit (credit (debit b sender ⟨NATIVE, a⟩) self ⟨NATIVE, a⟩) self ⟨NATIVE, B⟩ self NATIVE := by
          have h := fc_debit_self (credit (debit b sender ⟨NATIVE, a⟩) self ⟨NATIVE, a⟩) self ⟨NATIVE, B⟩
          have h' := fc_credit_self (debit b sender ⟨NATIVE, a⟩) self ⟨NATIVE, a⟩
          simp only [] at h h'
          rw [h, h']; omega
        simp [ha, h1, e1, e2, e3, k1]
        omega
  · simp [ha, h1]

theorem fc_bankStep_native (b : Bank) (s : Supply) (self : Addr) (p : Params) (m : CreateMsg) (a : Nat)
    (hd : p.fee.denom = NATIVE) (hf : m.funds = [⟨NATIVE, a⟩]) (ha : a ≠ 0) (hfee : p.fee.amount ≤ a)
    (B : Nat) (hB : B = burnPart p.fee.amount) :
    bankStep b s self p m =
      if a ≤ b m.sender NATIVE ∧ (B ≠ 0 ∧ B ≠ p.fee.amount)
      then some (bankNativeB b s m.sender self a p.fee.amount B) else none := by
  unfold bankStep
  rw [hf, fc_feeMsgs_native self p a hd ha hfee B hB]
  exact fc_exec_native b s m.sender self a p.fee.amount B ha hfee (by rw [hB]; exact fc_burnPart_le _)

theorem fc_bankStep_other (b : Bank) (s : Supply) (self : Addr) (p : Params) (m : CreateMsg) (a : Nat)
    (hd : p.fee.denom ≠ NATIVE) (hf : m.funds = [⟨p.fee.denom, a⟩]) (ha : a ≠ 0) (hfee : p.fee.amount ≤ a) :
    bankStep b s self p m =
      if a ≤ b m.sender p.fee.denom then some (bankOther b s m.sender self p.fee.denom a) else none := by
  unfold bankStep bankOther
  rw [hf, fc_feeMsgs_other self p a hd ha hfee]
  simp only [transfer?, fc_debit?_eq, execMsgs, execMsg]
  by_cases h1 : a ≤ b m.sender p.fee.denom
  · simp [ha, h1]
  · simp [ha, h1]

/-! ## The readable predicates (what the property text lists) -/

/-- "the creation fee is attached in the fee denom (at least the fee; exactly the fee for the open-edition factory)":
exactly one coin, of the fee denom, non-zero. -/
def Paid (p : Params) (funds : List Coin) (a : Nat) : Prop :=
  funds = [⟨p.fee.denom, a⟩] ∧ a ≠ 0 ∧ p.fee.amount ≤ a ∧ (p.kind = .openEdition → a = p.fee.amount)

/-- the 3 %-of-supply rule in closed form -/
def ThreePct (l n : Nat) : Prop := (n < 100 → l ≤ 3) ∧ (100 ≤ n → l ≤ (3 * n + 99) / 100)

/-- "the requested sale parameters are within governance bounds" — per factory -/
def SaleWithin (p : Params) (now : Nat) (m : CreateMsg) : Prop :=
  match p.kind with
  | .vending =>
    (1 ≤ m.numTokens.getD 0 ∧ m.numTokens.getD 0 ≤ p.maxTokens) ∧ (1 ≤ m.perAddr ∧ m.perAddr ≤ p.maxPerAddr)
    ∧ (p.minPrice.denom = m.price.denom ∧ p.minPrice.amount ≤ m.price.amount)
  | .tokenMerge =>
    (1 ≤ m.numTokens.getD 0 ∧ m.numTokens.getD 0 ≤ p.maxTokens) ∧ (1 ≤ m.perAddr ∧ m.perAddr ≤ p.maxPerAddr)
  | .openEdition =>
    m.nftOk = true
    ∧ (∀ n, m.numTokens = some n → 1 ≤ n ∧ n ≤ p.maxTokens)
    ∧ (1 ≤ m.perAddr ∧ m.perAddr ≤ p.maxPerAddr)
    ∧ now < m.start
    ∧ (∀ e, m.endTime = some e → m.start < e)
    ∧ (m.endTime ≠ none ∨ m.numTokens ≠ none)
    ∧ (p.minPrice.denom = m.price.denom ∧ p.minPrice.amount ≤ m.price.amount)
    ∧ (m.numTokens ≠ none ∨ m.price.amount ≠ 0)
    ∧ (p.airdropPrice.amount ≠ 0 ∨ m.numTokens ≠ none)
  | .base => True

/-- whitelist check of the minter's `instantiate` -/
def WlFine (w : World) (flex : Bool) : WlRef → Prop
  | .none => True
  | .bad => True
  | .addr a => ∃ wl, w.whitelist? a = some wl ∧ wl.flex = flex ∧ ¬ (wl.start ≤ w.now ∧ w.now < wl.end_)

def TradeFine (p : Params) (m : CreateMsg) : Prop := ∀ t, m.trade = some t → t ≤ m.start + p.offset * 10^9

/-- what the minter code `mk` checks in `instantiate` -/
def MinterAccepts (mk : MKind) (p : Params) (w : World) (m : CreateMsg) : Prop :=
  match mk.family with
  | .vending =>
    (mk.threePct = true → m.perAddr ≤ p.maxPerAddr ∧ ThreePct m.perAddr (m.numTokens.getD 0))
    ∧ m.uriOk = true ∧ GENESIS ≤ m.start ∧ w.now ≤ m.start
    ∧ WlFine w mk.flexWl m.wl ∧ TradeFine p m ∧ m.creator ≠ none ∧ m.payAddr ≠ some none
  | .tokenMerge =>
    (m.perAddr ≤ p.maxPerAddr ∧ ThreePct m.perAddr (m.numTokens.getD 0))
    ∧ m.uriOk = true ∧ GENESIS ≤ m.start ∧ w.now ≤ m.start ∧ TradeFine p m ∧ m.creator ≠ none
  | .openEdition =>
    m.uriOk = true ∧ WlFine w mk.flexWl m.wl ∧ TradeFine p m ∧ m.creator ≠ none ∧ m.payAddr ≠ some none
  | .base => m.creator ≠ none

/-- what the sg721 `instantiate` checks -/
def CollectionAccepts (m : CreateMsg) : Prop :=
  (16 ≤ m.sg721Code ∧ m.sg721Code ≤ 19) ∧ m.descLen ≤ Gen.sg721_base_MAX_DESCRIPTION_LENGTH ∧ m.imageOk = true
  ∧ m.linkOk ≠ some false
  ∧ (∀ s pay, m.royalty = some (s, pay) → pay ≠ none ∧ s ≤ DEC_ONE) ∧ m.creator ≠ none

/-- the bank can execute the transfer and the fee messages: the payer owns the coin, and for a native fee both parts of the
fair burn — the burned part and the pool part — are non-zero (the bank rejects a zero-amount burn / send). With the 50 % split
in force that is `2 ≤ fee` (`C08_native_fee_split_at_50`). -/
def Funded (w : World) (p : Params) (m : CreateMsg) (a : Nat) : Prop :=
  a ≤ w.bal m.sender p.fee.denom
  ∧ (p.fee.denom = NATIVE → burnPart p.fee.amount ≠ 0 ∧ burnPart p.fee.amount ≠ p.fee.amount)

/-! ## Bool ↔ Prop bridges -/

theorem fc_checkDynamic (l n m : Nat) : checkDynamic l n m = true ↔ l ≤ m ∧ ThreePct l n := by
  unfold checkDynamic ThreePct
  rw [fc_three]
  split
  · simp; omega
  · split <;> simp <;> omega

theorem fc_pay (self : Addr) (p : Params) (funds : List Coin) :
    (payOk p funds = true ∧ (feeMsgs self p funds).isOk = true) ↔ ∃ a, Paid p funds a := by
  unfold Paid
  constructor
  · rintro ⟨hp, hm⟩
    match funds, hp, hm with
    | [], hp, _ => simp [payOk, mustPay] at hp
    | c :: d :: t, hp, _ => simp [payOk, mustPay] at hp
    | [c], hp, hm =>
      by_cases h0 : c.amount = 0
      · simp [payOk, mustPay, h0] at hp
      · by_cases hd : c.denom = p.fee.denom
        · have hc : c = ⟨p.fee.denom, c.amount⟩ := by cases c; simp_all
          have hge : p.fee.amount ≤ c.amount := by
            by_cases hlt : c.amount < p.fee.amount
            · exfalso
              rw [hc] at hm
              by_cases hn : p.fee.denom = NATIVE
              · simp [feeMsgs, hn, checkedFairBurn, mayPay, hlt, bind, Except.bind, throw, throwThe,
                  MonadExceptOf.throw, Except.isOk, Except.toBool] at hm
              · simp [feeMsgs, hn, transferFundsToLaunchpadDao, mustPay, h0, hlt, bind, Except.bind, throw, throwThe,
                  MonadExceptOf.throw, Except.isOk, Except.toBool] at hm
            · omega
          refine ⟨c.amount, by rw [← hc], h0, hge, ?_⟩
          intro hk
          simpa [payOk, mustPay, h0, hd, hk] using hp
        · simp [payOk, mustPay, h0, hd] at hp
  · rintro ⟨a, rfl, ha, hfee, hoe⟩
    constructor
    · by_cases hk : p.kind = .openEdition
      · have e := hoe hk
        subst e
        simp [payOk, mustPay, ha, hk]
      · simp [payOk, mustPay, ha, hk]
    · by_cases hn : p.fee.denom = NATIVE
      · rw [hn, fc_feeMsgs_native self p a hn ha hfee _ rfl]; rfl
      · rw [fc_feeMsgs_other self p a hn ha hfee]; rfl

theorem fc_sale (p : Params) (now : Nat) (m : CreateMsg) : saleOk p now m = true ↔ SaleWithin p now m := by
  unfold saleOk SaleWithin
  cases hk : p.kind with
  | vending => simp [tokensOk, perAddrOk, priceOk, and_assoc]
  | tokenMerge => simp [tokensOk, perAddrOk, and_assoc]
  | base => simp
  | openEdition =>
    cases hn : m.numTokens <;> cases he : m.endTime <;>
      simp [tokensOk, perAddrOk, priceOk, and_assoc]

theorem fc_wl (w : World) (flex : Bool) (r : WlRef) : wlOk w flex r = true ↔ WlFine w flex r := by
  cases r with
  | none => simp [wlOk, WlFine]
  | bad => simp [wlOk, WlFine]
  | addr a =>
    cases h : w.whitelist? a with
    | none => simp [wlOk, WlFine, h]
    | some wl =>
      simp [wlOk, WlFine, h]
      intro _; omega

theorem fc_trade (p : Params) (m : CreateMsg) : tradeOk p m = true ↔ TradeFine p m := by
  unfold tradeOk TradeFine
  cases h : m.trade <;> simp

theorem fc_payAddr (m : CreateMsg) : payAddrOk m = true ↔ m.payAddr ≠ some none := by
  unfold payAddrOk
  match h : m.payAddr with
  | none => simp
  | some none => simp
  | some (some a) => simp

theorem fc_minter (mk : MKind) (p : Params) (w : World) (m : CreateMsg) :
    minterOk mk p w m = true ↔ MinterAccepts mk p w m := by
  unfold minterOk MinterAccepts
  cases hf : mk.family with
  | vending =>
    cases ht : mk.threePct <;>
      simp [fc_checkDynamic, fc_wl, fc_trade, fc_payAddr, Option.isSome_iff_ne_none, and_assoc]
  | tokenMerge => simp [fc_checkDynamic, fc_trade, Option.isSome_iff_ne_none, and_assoc]
  | openEdition => simp [fc_wl, fc_trade, fc_payAddr, Option.isSome_iff_ne_none, and_assoc]
  | base => simp [Option.isSome_iff_ne_none]

theorem fc_collection (m : CreateMsg) : collectionOk m = true ↔ CollectionAccepts m := by
  unfold collectionOk CollectionAccepts isSg721Code royaltyOk
  generalize Gen.sg721_base_MAX_DESCRIPTION_LENGTH = D
  generalize DEC_ONE = ONE
  cases hr : m.royalty with
  | none => simp [Option.isSome_iff_ne_none, and_assoc]
  | some sp =>
    obtain ⟨s, pay⟩ := sp
    simp [Option.isSome_iff_ne_none, and_assoc]

theorem fc_bank (w : World) (self : Addr) (p : Params) (m : CreateMsg) (a : Nat) (hp : Paid p m.funds a) :
    (bankStep w.bal w.supply self p m).isSome = true ↔ Funded w p m a := by
  obtain ⟨hf, ha, hfee, _⟩ := hp
  unfold Funded
  by_cases hn : p.fee.denom = NATIVE
  · rw [hn] at hf
    rw [fc_bankStep_native w.bal w.supply self p m a hn hf ha hfee _ rfl, hn]
    by_cases h : a ≤ w.bal m.sender NATIVE ∧ (burnPart p.fee.amount ≠ 0 ∧ burnPart p.fee.amount ≠ p.fee.amount)
    · rw [if_pos h]
      exact ⟨fun _ => ⟨h.1, fun _ => h.2⟩, fun _ => rfl⟩
    · rw [if_neg h]
      constructor
      · intro hh; simp at hh
      · rintro ⟨h1, h2⟩; exact absurd ⟨h1, h2 rfl⟩ h
  · rw [fc_bankStep_other w.bal w.supply self p m a hn hf ha hfee]
    by_cases h : a ≤ w.bal m.sender p.fee.denom
    · simp [h, hn]
    · simp [h]


theorem fc_createOk (self : Addr) (p : Params) (w : World) (m : CreateMsg) :
    createOk self p w m = true ↔
      ∃ mk a, MKind.ofCode p.codeId = some mk ∧ compat p.kind mk = true ∧ p.frozen = false ∧ m.sg721Code ∈ p.allowed
        ∧ Paid p m.funds a ∧ SaleWithin p w.now m ∧ MinterAccepts mk p w m ∧ CollectionAccepts m ∧ Funded w p m a := by
  unfold createOk
  cases hmk : MKind.ofCode p.codeId with
  | none => simp
  | some mk =>
    simp only [factoryOk, Bool.and_eq_true, Bool.not_eq_true', decide_eq_true_eq]
    constructor
    · rintro ⟨⟨⟨⟨hc, ⟨⟨⟨⟨hpay, hal⟩, hfr⟩, hfee⟩, hsale⟩⟩, hmin⟩, hcol⟩, hbank⟩
      obtain ⟨a, hp⟩ := (fc_pay self p m.funds).1 ⟨hpay, hfee⟩
      exact ⟨mk, a, rfl, hc, hfr, hal, hp, (fc_sale _ _ _).1 hsale, (fc_minter _ _ _ _).1 hmin,
        (fc_collection _).1 hcol, (fc_bank w self p m a hp).1 hbank⟩
    · rintro ⟨mk', a, hmk', hc, hfr, hal, hp, hsale, hmin, hcol, hfund⟩
      cases hmk'
      obtain ⟨hpay, hfee⟩ := (fc_pay self p m.funds).2 ⟨a, hp⟩
      exact ⟨⟨⟨⟨hc, ⟨⟨⟨⟨hpay, hal⟩, hfr⟩, hfee⟩, (fc_sale _ _ _).2 hsale⟩⟩, (fc_minter _ _ _ _).2 hmin⟩,
        (fc_collection _).2 hcol⟩, (fc_bank w self p m a hp).2 hfund⟩

/-- shape of a successful create -/
theorem fc_create_ok (w : World) (self : Addr) (f : Factory) (m : CreateMsg) (w' : World)
    (hf : w.factory? self = some f) (h : create w self m = .ok w') :
    createOk self f.p w m = true ∧
    ∃ mk creator bs, MKind.ofCode f.p.codeId = some mk ∧ m.creator = some creator
      ∧ bankStep w.bal w.supply self f.p m = some bs ∧ w' = post w self f.p mk m creator bs := by
  unfold create at h
  rw [hf] at h
  simp only [] at h
  by_cases hc : createOk self f.p w m = true
  · rw [if_pos hc] at h
    refine ⟨hc, ?_⟩
    cases hmk : MKind.ofCode f.p.codeId with
    | none => simp [hmk] at h
    | some mk =>
      cases hcr : m.creator with
      | none => simp [hmk, hcr] at h
      | some creator =>
        cases hb : bankStep w.bal w.supply self f.p m with
        | none => simp [hmk, hcr, hb] at h
        | some bs =>
          simp only [hmk, hcr, hb, Except.ok.injEq] at h
          exact ⟨mk, creator, bs, rfl, rfl, rfl, h.symm⟩
  · rw [if_neg hc] at h
    cases h

/-! ## The property -/

/-- **3 % rule, closed form.** `check_dynamic_per_address_limit(l, n, max)` accepts exactly when `l ≤ max`, and `l ≤ 3`
for collections below 100 tokens, and `l ≤ ⌈3n/100⌉` from 100 tokens on. -/
theorem C08_three_percent (l n m : Nat) :
    checkDynamic l n m = true ↔ l ≤ m ∧ (n < 100 → l ≤ 3) ∧ (100 ≤ n → l ≤ (3 * n + 99) / 100) :=
  fc_checkDynamic l n m

/-- the minters that enforce the 3 % rule: vending, -featured, -merkle-wl, -merkle-wl-featured, token-merge;
the two wl-flex vending variants, the open-edition family and the base minter do not. -/
theorem C08_three_percent_enforced_by (mk : MKind) :
    mk.threePct = true ↔
      mk = .vending ∨ mk = .vendingFeatured ∨ mk = .vendingMerkle ∨ mk = .vendingMerkleFeatured ∨ mk = .tokenMerge := by
  cases mk <;> simp [MKind.threePct]

/-- **"A factory creates a minter only if … / iff".** For every world, every factory `f` (any of the four, with whatever
parameters governance has left it with), every message: `CreateMinter` succeeds **iff** the minter code id is a minter the
factory can instantiate, the factory is not frozen, the collection code id is allow-listed, the fee is attached
(`Paid`), the sale parameters are within the governance bounds (`SaleWithin`), the minter's and the collection's own
`instantiate` checks pass, and the bank can move the coins. -/
theorem C08_create_ok_iff (w : World) (self : Addr) (f : Factory) (m : CreateMsg) (hf : w.factory? self = some f) :
    (∃ w', create w self m = .ok w') ↔
      ∃ mk a, MKind.ofCode f.p.codeId = some mk ∧ compat f.p.kind mk = true ∧ f.p.frozen = false
        ∧ m.sg721Code ∈ f.p.allowed ∧ Paid f.p m.funds a ∧ SaleWithin f.p w.now m
        ∧ MinterAccepts mk f.p w m ∧ CollectionAccepts m ∧ Funded w f.p m a := by
  constructor
  · rintro ⟨w', h⟩
    exact (fc_createOk self f.p w m).1 (fc_create_ok w self f m w' hf h).1
  · intro h
    have hc := (fc_createOk self f.p w m).2 h
    obtain ⟨mk, a, hmk, _, _, _, hp, _, _, hcol, hfund⟩ := h
    have hb := (fc_bank w self f.p m a hp).2 hfund
    obtain ⟨bs, hbs⟩ := Option.isSome_iff_exists.1 hb
    obtain ⟨creator, hcr⟩ := Option.ne_none_iff_exists'.1 hcol.2.2.2.2.2
    refine ⟨post w self f.p mk m creator bs, ?_⟩
    unfold create
    rw [hf]
    simp only [hc, if_true, hmk, hcr, hbs]

/-- a message to something that is not a factory creates nothing -/
theorem C08_no_factory (w : World) (self : Addr) (m : CreateMsg) (hf : w.factory? self = none) :
    ¬ ∃ w', create w self m = .ok w' := by
  rintro ⟨w', h⟩
  unfold create at h
  rw [hf] at h
  cases h

/-- **The property's list as necessary conditions**, flat: not frozen, allow-listed collection code, the fee attached in
the fee denom (at least the fee; exactly the fee for the open-edition factory), sale parameters within governance bounds,
and the 3 % rule where the created minter enforces it. -/
theorem C08_create_only_if (w : World) (self : Addr) (f : Factory) (m : CreateMsg) (w' : World)
    (hf : w.factory? self = some f) (h : create w self m = .ok w') :
    f.p.frozen = false ∧ m.sg721Code ∈ f.p.allowed
    ∧ (∃ a, m.funds = [⟨f.p.fee.denom, a⟩] ∧ f.p.fee.amount ≤ a ∧ (f.p.kind = .openEdition → a = f.p.fee.amount))
    ∧ SaleWithin f.p w.now m
    ∧ (∀ mk, MKind.ofCode f.p.codeId = some mk → mk.threePct = true →
        m.perAddr ≤ f.p.maxPerAddr ∧ ThreePct m.perAddr (m.numTokens.getD 0)) := by
  obtain ⟨mk, a, hmk, hc, hfr, hal, hp, hs, hmin, _, _⟩ := (C08_create_ok_iff w self f m hf).1 ⟨w', h⟩
  refine ⟨hfr, hal, ⟨a, hp.1, hp.2.2.1, hp.2.2.2⟩, hs, ?_⟩
  intro mk' hmk' h3
  rw [hmk] at hmk'; cases hmk'
  unfold MinterAccepts at hmin
  cases mk <;> simp [MKind.threePct] at h3 <;> simp [MKind.family, MKind.threePct] at hmin <;> exact hmin.1

/-- `SaleWithin` spelled out per factory (the clauses of the property text) -/
theorem C08_sale_vending (p : Params) (now : Nat) (m : CreateMsg) (hk : p.kind = .vending) :
    SaleWithin p now m ↔
      (1 ≤ m.numTokens.getD 0 ∧ m.numTokens.getD 0 ≤ p.maxTokens) ∧ (1 ≤ m.perAddr ∧ m.perAddr ≤ p.maxPerAddr)
      ∧ (p.minPrice.denom = m.price.denom ∧ p.minPrice.amount ≤ m.price.amount) := by
  simp [SaleWithin, hk]

theorem C08_sale_token_merge (p : Params) (now : Nat) (m : CreateMsg) (hk : p.kind = .tokenMerge) :
    SaleWithin p now m ↔
      (1 ≤ m.numTokens.getD 0 ∧ m.numTokens.getD 0 ≤ p.maxTokens) ∧ (1 ≤ m.perAddr ∧ m.perAddr ≤ p.maxPerAddr) := by
  simp [SaleWithin, hk]

/-- open editions: token cap (when given) in 1..=max, per-address limit in 1..=max, "a future start, an end after the
start, at least one of end time or token cap, and no zero price without a cap" (+ the airdrop-price rule) -/
theorem C08_sale_open_edition (p : Params) (now : Nat) (m : CreateMsg) (hk : p.kind = .openEdition) :
    SaleWithin p now m ↔
      m.nftOk = true ∧ (∀ n, m.numTokens = some n → 1 ≤ n ∧ n ≤ p.maxTokens)
      ∧ (1 ≤ m.perAddr ∧ m.perAddr ≤ p.maxPerAddr) ∧ now < m.start ∧ (∀ e, m.endTime = some e → m.start < e)
      ∧ (m.endTime ≠ none ∨ m.numTokens ≠ none)
      ∧ (p.minPrice.denom = m.price.denom ∧ p.minPrice.amount ≤ m.price.amount)
      ∧ (m.numTokens ≠ none ∨ m.price.amount ≠ 0) ∧ (p.airdropPrice.amount ≠ 0 ∨ m.numTokens ≠ none) := by
  simp [SaleWithin, hk]

/-- the base factory has no sale parameters -/
theorem C08_sale_base (p : Params) (now : Nat) (m : CreateMsg) (hk : p.kind = .base) : SaleWithin p now m := by
  simp [SaleWithin, hk]


/-! ### Post-state: "exactly one new minter and one new collection, wired to each other and to this factory and
administered by the creator named in the request" -/

/-- the whole post-state, explicitly -/
theorem C08_post (w : World) (self : Addr) (f : Factory) (m : CreateMsg) (w' : World)
    (hf : w.factory? self = some f) (h : create w self m = .ok w') :
    ∃ mk creator bs, MKind.ofCode f.p.codeId = some mk ∧ m.creator = some creator
      ∧ bankStep w.bal w.supply self f.p m = some bs ∧ w' = post w self f.p mk m creator bs :=
  (fc_create_ok w self f m w' hf h).2

/-- Exactly two registry entries are appended — the minter (instantiated by **this factory** from the governance-set
minter code, wasm admin = the sender) and the collection (instantiated by **that minter** from the requested code, wasm
admin = the creator named in the request); exactly one minter record and one collection record are appended, pointing at
each other (`minter.sg721 = collection`, `collection.owner = minter`), `minter.factory = this factory`,
`minter.admin = collection.creator = the creator named in the request`; factories, whitelists and the clock are untouched. -/
theorem C08_post_wiring (w : World) (self : Addr) (f : Factory) (m : CreateMsg) (w' : World)
    (hf : w.factory? self = some f) (h : create w self m = .ok w') :
    ∃ (mi ci : ContractInfo) (mt : Minter) (cl : Collection) (creator : Addr),
      m.creator = some creator
      ∧ w'.contracts = w.contracts ++ [mi, ci] ∧ w'.minters = w.minters ++ [mt] ∧ w'.collections = w.collections ++ [cl]
      ∧ w'.factories = w.factories ∧ w'.whitelists = w.whitelists ∧ w'.next = w.next + 2 ∧ w'.now = w.now
      ∧ mi.addr = minterAddr w ∧ ci.addr = collectionAddr w ∧ mi.addr ≠ ci.addr
      ∧ mi.instantiator = self ∧ mi.code = f.p.codeId ∧ mi.admin = some m.sender
      ∧ ci.instantiator = mi.addr ∧ ci.code = m.sg721Code ∧ ci.admin = some creator
      ∧ mt.addr = mi.addr ∧ mt.factory = self ∧ mt.sg721 = ci.addr ∧ mt.sg721Code = m.sg721Code
      ∧ (mt.kind.family ≠ .base → mt.admin = some creator)
      ∧ cl.addr = ci.addr ∧ cl.owner = mt.addr ∧ cl.creator = creator := by
  obtain ⟨mk, creator, bs, _, hcr, _, rfl⟩ := C08_post w self f m w' hf h
  refine ⟨⟨minterAddr w, f.p.codeId, self, some m.sender⟩, ⟨collectionAddr w, m.sg721Code, minterAddr w, some creator⟩,
    minterRec mk self f.p m creator (minterAddr w) (collectionAddr w),
    ⟨collectionAddr w, minterAddr w, creator, some (tradeStored mk f.p w.now m), royaltyStored m⟩, creator, hcr, ?_⟩
  have hne : minterAddr w ≠ collectionAddr w := by
    intro e
    have e' : (1000 + w.next : Nat) = 1000 + w.next + 1 := e
    omega
  have hrec : (minterRec mk self f.p m creator (minterAddr w) (collectionAddr w)).addr = minterAddr w
      ∧ (minterRec mk self f.p m creator (minterAddr w) (collectionAddr w)).factory = self
      ∧ (minterRec mk self f.p m creator (minterAddr w) (collectionAddr w)).sg721 = collectionAddr w
      ∧ (minterRec mk self f.p m creator (minterAddr w) (collectionAddr w)).sg721Code = m.sg721Code
      ∧ (minterRec mk self f.p m creator (minterAddr w) (collectionAddr w)).kind = mk
      ∧ (mk.family ≠ .base → (minterRec mk self f.p m creator (minterAddr w) (collectionAddr w)).admin = some creator) := by
    unfold minterRec
    cases hfam : mk.family <;> simp
  obtain ⟨r1, r2, r3, r4, r5, r6⟩ := hrec
  refine ⟨rfl, rfl, rfl, rfl, rfl, rfl, rfl, rfl, rfl, hne, rfl, rfl, rfl, rfl, rfl, rfl, r1, r2, r3, r4, ?_, rfl,
    r1.symm, rfl⟩
  rw [r5]; exact r6

/-- registry addresses are fresh: under the (inductive, see `C08_run_inv`) invariant that every registered address is
below `1000 + next`, the two new addresses were not in the registry before -/
theorem C08_post_fresh (w : World) (hw : ∀ c ∈ w.contracts, c.addr < 1000 + w.next) :
    ∀ c ∈ w.contracts, c.addr ≠ minterAddr w ∧ c.addr ≠ collectionAddr w := by
  intro c hc
  have h := hw c hc
  unfold minterAddr collectionAddr
  constructor
  · intro e; rw [e] at h; exact Nat.lt_irrefl _ h
  · intro e; rw [e] at h; exact absurd h (Nat.not_lt.mpr (Nat.le_succ _))

/-! ### Fee disposal: "the creation fee has been burned/forwarded in full (never less than the fee, never more than was
paid)" -/

/-- On success the factory emitted fee messages `msgs` (and nothing else that moves coins) with
`fee ≤ Σ msgs ≤ paid`. Native fee: `msgs` = burn `B` + fund the fair-burn pool with `fee − B`, where `B = burnPart fee`
(whatever split `packages/sg1` prescribes), **sum = fee exactly** (`checked_fair_burn` burns `fee`, not the payment) — an
overpayment `paid − fee` stays on the factory's account. Non-native fee: `msgs` = one send of the **whole payment** to the
launchpad DAO. Open-edition: `paid = fee`. The bank and supply of the post-state are exactly `bankNativeB` / `bankOther`. -/
theorem C08_fee_disposed (w : World) (self : Addr) (f : Factory) (m : CreateMsg) (w' : World)
    (hf : w.factory? self = some f) (h : create w self m = .ok w') (B : Nat) (hB : B = burnPart f.p.fee.amount) :
    ∃ a msgs, Paid f.p m.funds a ∧ feeMsgs self f.p m.funds = .ok msgs
      ∧ f.p.fee.amount ≤ sumAmounts msgs ∧ sumAmounts msgs ≤ a
      ∧ (f.p.fee.denom = NATIVE →
          msgs = [Msg.burn ⟨NATIVE, B⟩, Msg.fundPool self ⟨NATIVE, f.p.fee.amount - B⟩]
          ∧ sumAmounts msgs = f.p.fee.amount
          ∧ (w'.bal, w'.supply) = bankNativeB w.bal w.supply m.sender self a f.p.fee.amount B)
      ∧ (f.p.fee.denom ≠ NATIVE →
          msgs = [Msg.send LAUNCHPAD_DAO ⟨f.p.fee.denom, a⟩] ∧ sumAmounts msgs = a
          ∧ (w'.bal, w'.supply) = bankOther w.bal w.supply m.sender self f.p.fee.denom a) := by
  obtain ⟨mk, a, _, _, _, _, hp, _, _, _, hfund⟩ := (C08_create_ok_iff w self f m hf).1 ⟨w', h⟩
  obtain ⟨mk', creator, bs, _, _, hbs, rfl⟩ := C08_post w self f m w' hf h
  obtain ⟨hfu, ha, hfee, hoe⟩ := hp
  by_cases hn : f.p.fee.denom = NATIVE
  · have hfu' : m.funds = [⟨NATIVE, a⟩] := by rw [← hn]; exact hfu
    have hb := fc_bankStep_native w.bal w.supply self f.p m a hn hfu' ha hfee B hB
    rw [hbs] at hb
    have hparts : B ≠ 0 ∧ B ≠ f.p.fee.amount := by rw [hB]; exact hfund.2 hn
    have hcond : a ≤ w.bal m.sender NATIVE ∧ (B ≠ 0 ∧ B ≠ f.p.fee.amount) := ⟨by rw [← hn]; exact hfund.1, hparts⟩
    have hble : B ≤ f.p.fee.amount := by rw [hB]; exact fc_burnPart_le _
    rw [if_pos hcond] at hb
    have hbs' : bs = bankNativeB w.bal w.supply m.sender self a f.p.fee.amount B := Option.some.inj hb
    refine ⟨a, _, ⟨hfu, ha, hfee, hoe⟩, by rw [hfu', fc_feeMsgs_native self f.p a hn ha hfee B hB], ?_, ?_, ?_, ?_⟩
    · simp [sumAmounts, Msg.amount]; omega
    · simp [sumAmounts, Msg.amount]; omega
    · intro _
      refine ⟨rfl, by simp [sumAmounts, Msg.amount]; omega, ?_⟩
      simp [post, hbs']
    · intro h'; exact absurd hn h'
  · have hb := fc_bankStep_other w.bal w.supply self f.p m a hn hfu ha hfee
    rw [hbs] at hb
    rw [if_pos hfund.1] at hb
    have hbs' : bs = bankOther w.bal w.supply m.sender self f.p.fee.denom a := Option.some.inj hb
    refine ⟨a, _, ⟨hfu, ha, hfee, hoe⟩, by rw [hfu, fc_feeMsgs_other self f.p a hn ha hfee], ?_, ?_, ?_, ?_⟩
    · simp [sumAmounts, Msg.amount]; omega
    · simp [sumAmounts, Msg.amount]
    · intro h'; exact absurd h' hn
    · intro _
      refine ⟨rfl, by simp [sumAmounts, Msg.amount], ?_⟩
      simp [post, hbs']

/-- balances after a **native-fee** create (payer, factory and pool pairwise distinct accounts), with `B = burnPart fee` the
burned part: the payer loses exactly what it attached, the factory keeps the overpayment `paid − fee` (zero for the
open-edition factory), the pool gains `fee − B`, the supply shrinks by `B` — so `supply − pool` falls by exactly the fee,
whatever the split (`C08_fee_net_native`) —, nothing else moves. -/
theorem C08_fee_balances_native (w : World) (self : Addr) (f : Factory) (m : CreateMsg) (w' : World)
    (hf : w.factory? self = some f) (h : create w self m = .ok w') (hn : f.p.fee.denom = NATIVE)
    (h1 : m.sender ≠ self) (h2 : m.sender ≠ FAIRBURN_POOL) (h3 : self ≠ FAIRBURN_POOL)
    (B : Nat) (hB : B = burnPart f.p.fee.amount) :
    ∃ a, m.funds = [⟨NATIVE, a⟩] ∧ f.p.fee.amount ≤ a ∧ B ≤ f.p.fee.amount
      ∧ w'.bal m.sender NATIVE = w.bal m.sender NATIVE - a ∧ a ≤ w.bal m.sender NATIVE
      ∧ w'.bal self NATIVE = w.bal self NATIVE + (a - f.p.fee.amount)
      ∧ w'.bal FAIRBURN_POOL NATIVE = w.bal FAIRBURN_POOL NATIVE + (f.p.fee.amount - B)
      ∧ w'.supply NATIVE = w.supply NATIVE - B
      ∧ (∀ x d, ¬ (d = NATIVE ∧ (x = m.sender ∨ x = self ∨ x = FAIRBURN_POOL)) → w'.bal x d = w.bal x d)
      ∧ (∀ d, d ≠ NATIVE → w'.supply d = w.supply d) := by
  obtain ⟨a, msgs, hp, _, _, _, hnat, _⟩ := C08_fee_disposed w self f m w' hf h B hB
  obtain ⟨_, _, hb⟩ := hnat hn
  obtain ⟨hfu, ha, hfee, _⟩ := hp
  have hble : B ≤ f.p.fee.amount := by rw [hB]; exact fc_burnPart_le _
  have hbal : w'.bal = (bankNativeB w.bal w.supply m.sender self a f.p.fee.amount B).1 := by rw [← hb]
  have hsup : w'.supply = (bankNativeB w.bal w.supply m.sender self a f.p.fee.amount B).2 := by rw [← hb]
  have hle : a ≤ w.bal m.sender NATIVE := by
    obtain ⟨mk, a', _, _, _, _, hp', _, _, _, hf'⟩ := (C08_create_ok_iff w self f m hf).1 ⟨w', h⟩
    have : a' = a := by
      have e := hp'.1; rw [hfu] at e; simp at e; exact e.symm
    subst this
    rw [← hn]; exact hf'.1
  refine ⟨a, by rw [← hn]; exact hfu, hfee, hble, ?_, hle, ?_, ?_, ?_, ?_, ?_⟩
  · rw [hbal]; simp [bankNativeB, credit, debit, h1, h2]
  · rw [hbal]; simp [bankNativeB, credit, debit, h3, Ne.symm h1]; omega
  · rw [hbal]; simp [bankNativeB, credit, debit, Ne.symm h2, Ne.symm h3]
  · rw [hsup]; simp [bankNativeB]
  · intro x d hx
    rw [hbal]
    simp only [bankNativeB, credit, debit]
    by_cases hd : d = NATIVE
    · have hx' : x ≠ m.sender ∧ x ≠ self ∧ x ≠ FAIRBURN_POOL := by
        refine ⟨fun e => hx ⟨hd, Or.inl e⟩, fun e => hx ⟨hd, Or.inr (Or.inl e)⟩, fun e => hx ⟨hd, Or.inr (Or.inr e)⟩⟩
      simp [hx'.1, hx'.2.1, hx'.2.2]
    · simp [hd]
  · intro d hd
    rw [hsup]; simp [bankNativeB, hd]

/-- **split-independent form** (what the harness compares): after a native-fee create, `supply − pool` has fallen by exactly
the fee — the burned part leaves the supply, the rest enters the pool — provided the pool held no more than the supply before
(it is part of it). Whatever `FEE_BURN_PERCENT` is. -/
theorem C08_fee_net_native (w : World) (self : Addr) (f : Factory) (m : CreateMsg) (w' : World)
    (hf : w.factory? self = some f) (h : create w self m = .ok w') (hn : f.p.fee.denom = NATIVE)
    (h1 : m.sender ≠ self) (h2 : m.sender ≠ FAIRBURN_POOL) (h3 : self ≠ FAIRBURN_POOL)
    (hinv : w.bal FAIRBURN_POOL NATIVE + f.p.fee.amount ≤ w.supply NATIVE) :
    w'.supply NATIVE - w'.bal FAIRBURN_POOL NATIVE + f.p.fee.amount = w.supply NATIVE - w.bal FAIRBURN_POOL NATIVE := by
  obtain ⟨a, _, _, hble, _, _, _, hpool, hsup, _, _⟩ :=
    C08_fee_balances_native w self f m w' hf h hn h1 h2 h3 (burnPart f.p.fee.amount) rfl
  rw [hpool, hsup]
  generalize burnPart f.p.fee.amount = B at hble ⊢
  omega

/-- balances after a **non-native-fee** create (payer, factory, DAO pairwise distinct): the payer loses what it attached,
all of it arrives at the launchpad DAO, the factory keeps nothing, no supply changes. -/
theorem C08_fee_balances_other (w : World) (self : Addr) (f : Factory) (m : CreateMsg) (w' : World)
    (hf : w.factory? self = some f) (h : create w self m = .ok w') (hn : f.p.fee.denom ≠ NATIVE)
    (h1 : m.sender ≠ self) (h2 : m.sender ≠ LAUNCHPAD_DAO) (h3 : self ≠ LAUNCHPAD_DAO) :
    ∃ a, m.funds = [⟨f.p.fee.denom, a⟩] ∧ f.p.fee.amount ≤ a
      ∧ w'.bal m.sender f.p.fee.denom = w.bal m.sender f.p.fee.denom - a
      ∧ w'.bal self f.p.fee.denom = w.bal self f.p.fee.denom
      ∧ w'.bal LAUNCHPAD_DAO f.p.fee.denom = w.bal LAUNCHPAD_DAO f.p.fee.denom + a
      ∧ w'.supply = w.supply
      ∧ (∀ x d, ¬ (d = f.p.fee.denom ∧ (x = m.sender ∨ x = LAUNCHPAD_DAO)) → w'.bal x d = w.bal x d) := by
  obtain ⟨a, msgs, hp, _, _, _, _, hoth⟩ := C08_fee_disposed w self f m w' hf h _ rfl
  obtain ⟨_, _, hb⟩ := hoth hn
  obtain ⟨hfu, ha, hfee, _⟩ := hp
  have hbal : w'.bal = (bankOther w.bal w.supply m.sender self f.p.fee.denom a).1 := by rw [← hb]
  have hsup : w'.supply = (bankOther w.bal w.supply m.sender self f.p.fee.denom a).2 := by rw [← hb]
  refine ⟨a, hfu, hfee, ?_, ?_, ?_, ?_, ?_⟩
  · rw [hbal]; simp [bankOther, credit, debit, h1, h2]
  · rw [hbal]; simp [bankOther, credit, debit, h3, Ne.symm h1]
  · rw [hbal]; simp [bankOther, credit, debit, Ne.symm h2, Ne.symm h3]
  · rw [hsup]; simp [bankOther]
  · intro x d hx
    rw [hbal]
    simp only [bankOther, credit, debit]
    by_cases hd : d = f.p.fee.denom
    · have hx' : x ≠ m.sender ∧ x ≠ LAUNCHPAD_DAO := ⟨fun e => hx ⟨hd, Or.inl e⟩, fun e => hx ⟨hd, Or.inr e⟩⟩
      by_cases hs : x = self
      · subst hs; simp [hd, hx'.1, hx'.2]
      · simp [hx'.1, hx'.2, hs]
    · simp [hd]

/-! ### Rejection: "on rejection nothing is created and no funds move" -/

/-- a rejected `CreateMinter` leaves the whole world — registry, minters, collections, every balance, the supply —
exactly as it was (transaction atomicity; the harness checks the same on the real chain state after every rejected create) -/
theorem C08_reject_nothing (w : World) (self : Addr) (m : CreateMsg) (e : Err) (h : create w self m = .error e) :
    step' w (.create self m) = w := by
  simp [step', step, h]

/-- and conversely an accepted one is exactly the post-state of `C08_post` -/
theorem C08_accept_is_post (w : World) (self : Addr) (m : CreateMsg) (w' : World) (h : create w self m = .ok w') :
    step' w (.create self m) = w' := by
  simp [step', step, h]


/-! ### "a later per-address-limit update on the minter is held to the same bounds" -/

/-- the bound a per-address limit `l` is held to for a minter of kind `mk` with `n` tokens under factory parameters `p` -/
def LimitWithin (mk : MKind) (p : Params) (n l : Nat) : Prop :=
  1 ≤ l ∧ l ≤ p.maxPerAddr ∧ (mk.threePct = true → ThreePct l n)

/-- at creation (every factory that has a per-address limit, i.e. all but the base factory) -/
theorem C08_create_limit_within (w : World) (self : Addr) (f : Factory) (m : CreateMsg) (w' : World) (mk : MKind)
    (hf : w.factory? self = some f) (h : create w self m = .ok w') (hmk : MKind.ofCode f.p.codeId = some mk)
    (hk : f.p.kind ≠ .base) :
    LimitWithin mk f.p (m.numTokens.getD 0) m.perAddr := by
  obtain ⟨mk', a, hmk', _, _, _, _, hs, hmin, _, _⟩ := (C08_create_ok_iff w self f m hf).1 ⟨w', h⟩
  rw [hmk] at hmk'; cases hmk'
  have hper : 1 ≤ m.perAddr ∧ m.perAddr ≤ f.p.maxPerAddr := by
    unfold SaleWithin at hs
    cases hkk : f.p.kind with
    | vending => rw [hkk] at hs; exact hs.2.1
    | tokenMerge => rw [hkk] at hs; exact hs.2
    | openEdition => rw [hkk] at hs; exact hs.2.2.1
    | base => exact absurd hkk hk
  refine ⟨hper.1, hper.2, ?_⟩
  intro h3
  unfold MinterAccepts at hmin
  cases mk <;> simp [MKind.threePct] at h3 <;> simp [MKind.family, MKind.threePct] at hmin <;> exact hmin.1.2

/-- `UpdatePerAddressLimit` succeeds **iff** the minter has such a message (not the base minter), no funds are attached,
the sender is the minter's admin, and the new limit is within the *same* `LimitWithin` bound — evaluated against the
factory's parameters **as they are now** and the minter's stored token count. -/
theorem C08_update_limit_ok_iff (w : World) (ma sender : Addr) (funds : List Coin) (l : Nat) (mt : Minter) (f : Factory)
    (hm : w.minter? ma = some mt) (hf : w.factory? mt.factory = some f) :
    (∃ w', setLimit w ma sender funds l = .ok w') ↔
      mt.kind.family ≠ .base ∧ funds = [] ∧ mt.admin = some sender
      ∧ LimitWithin mt.kind f.p (mt.numTokens.getD 0) l := by
  unfold setLimit LimitWithin
  rw [hm]; simp only []; rw [hf]; simp only []
  have hiff : limitOk mt f.p sender funds l = true ↔
      mt.kind.family ≠ .base ∧ funds = [] ∧ mt.admin = some sender
      ∧ 1 ≤ l ∧ l ≤ f.p.maxPerAddr ∧ (mt.kind.threePct = true → ThreePct l (mt.numTokens.getD 0)) := by
    unfold limitOk perAddrOk
    cases h3 : mt.kind.threePct <;> simp [fc_checkDynamic, and_assoc]
  by_cases hc : limitOk mt f.p sender funds l = true
  · rw [if_pos hc]
    exact ⟨fun _ => hiff.1 hc, fun _ => ⟨_, rfl⟩⟩
  · rw [if_neg hc]
    constructor
    · rintro ⟨w', h⟩; cases h
    · intro h; exact absurd (hiff.2 h) hc

theorem C08_update_limit_same_bounds (w : World) (ma sender : Addr) (funds : List Coin) (l : Nat) (w' : World)
    (mt : Minter) (f : Factory) (hm : w.minter? ma = some mt) (hf : w.factory? mt.factory = some f)
    (h : setLimit w ma sender funds l = .ok w') :
    LimitWithin mt.kind f.p (mt.numTokens.getD 0) l ∧ mt.admin = some sender :=
  let r := (C08_update_limit_ok_iff w ma sender funds l mt f hm hf).1 ⟨w', h⟩
  ⟨r.2.2.2, r.2.2.1⟩

/-- an accepted update changes that minter's limit and nothing else; a rejected one changes nothing -/
theorem C08_update_limit_post (w : World) (ma sender : Addr) (funds : List Coin) (l : Nat) (w' : World)
    (h : setLimit w ma sender funds l = .ok w') :
    w' = { w with minters := w.minters.map (fun x => if x.addr = ma then { x with perAddr := some l } else x) } := by
  unfold setLimit at h
  cases hm : w.minter? ma with
  | none => simp [hm] at h
  | some mt =>
    cases hf : w.factory? mt.factory with
    | none => simp [hm, hf] at h
    | some f =>
      simp only [hm, hf] at h
      split at h
      · cases h; rfl
      · cases h


/-! ### Histories: what holds after **every** finite sequence of operations (clock moves, funding, factory
instantiations, governance `UpdateParams` incl. freeze/unfreeze, whitelist creation, creates — accepted or rejected —
and per-address-limit updates), from the empty world -/

/-- `omega` after exposing that `Addr` is `Nat` -/
macro "addr_omega" : tactic => `(tactic| (simp only [Addr] at *; omega))

structure SInv (w : World) : Prop where
  /-- registry addresses are below the next address: new contracts are new -/
  fresh : ∀ c ∈ w.contracts, (c.addr : Nat) < 1000 + w.next
  /-- every minter points at a collection that points back -/
  wiredM : ∀ mt ∈ w.minters, ∃ cl ∈ w.collections, cl.addr = mt.sg721 ∧ cl.owner = mt.addr
  /-- every collection is owned by a minter that points at it -/
  wiredC : ∀ cl ∈ w.collections, ∃ mt ∈ w.minters, mt.addr = cl.owner ∧ mt.sg721 = cl.addr
  /-- every minter's factory is a registered factory -/
  fromFactory : ∀ mt ∈ w.minters, ∃ f ∈ w.factories, f.addr = mt.factory
  /-- every minter with a per-address limit has one ≥ 1, within the 3 % rule where the minter enforces it — whatever
  governance did to `max_per_address_limit` in between -/
  limits : ∀ mt ∈ w.minters, mt.kind.family ≠ .base →
    ∃ l, mt.perAddr = some l ∧ 1 ≤ l ∧ (mt.kind.threePct = true → ThreePct l (mt.numTokens.getD 0))
  /-- minter addresses are below the next address … -/
  mfresh : ∀ mt ∈ w.minters, (mt.addr : Nat) < 1000 + w.next
  /-- … and pairwise distinct -/
  munique : w.minters.Pairwise (fun a b => a.addr ≠ b.addr)

theorem fc_pairwise_unique {α : Type} (key : α → Nat) :
    ∀ (l : List α), l.Pairwise (fun a b => key a ≠ key b) → ∀ x ∈ l, ∀ y ∈ l, key x = key y → x = y := by
  intro l
  induction l with
  | nil => intro _ x hx; cases hx
  | cons a t ih =>
    intro hp x hx y hy hxy
    rw [List.pairwise_cons] at hp
    rcases List.mem_cons.1 hx with rfl | hx'
    · rcases List.mem_cons.1 hy with rfl | hy'
      · rfl
      · exact absurd hxy (hp.1 y hy')
    · rcases List.mem_cons.1 hy with rfl | hy'
      · exact absurd hxy.symm (hp.1 x hx')
      · exact ih hp.2 x hx' y hy' hxy

theorem fc_find_mem {α : Type} (l : List α) (p : α → Bool) (x : α) (h : l.find? p = some x) : x ∈ l ∧ p x = true :=
  ⟨List.mem_of_find?_eq_some h, List.find?_some h⟩

theorem fc_minterRec_limits (self : Addr) (p : Params) (w : World) (m : CreateMsg) (mk : MKind) (creator ma ca : Addr)
    (hmk : MKind.ofCode p.codeId = some mk) (hc : createOk self p w m = true) :
    let mt := minterRec mk self p m creator ma ca
    mt.kind.family ≠ .base →
      ∃ l, mt.perAddr = some l ∧ 1 ≤ l ∧ (mt.kind.threePct = true → ThreePct l (mt.numTokens.getD 0)) := by
  obtain ⟨mk', a, hmk', hcompat, _, _, _, hs, hmin, _, _⟩ := (fc_createOk self p w m).1 hc
  rw [hmk] at hmk'; cases hmk'
  intro mt hfam
  have hkind : mt.kind = mk := by
    show (minterRec mk self p m creator ma ca).kind = mk
    unfold minterRec; cases mk.family <;> rfl
  rw [hkind] at hfam ⊢
  have hk : p.kind = mk.family := by
    unfold compat at hcompat
    have hnb : mk ≠ .base := by intro e; rw [e] at hfam; exact hfam rfl
    simp [hnb] at hcompat
    exact hcompat.symm
  unfold SaleWithin at hs
  unfold MinterAccepts at hmin
  cases hfm : mk.family with
  | base => exact absurd hfm hfam
  | vending =>
    rw [hk, hfm] at hs; rw [hfm] at hmin
    refine ⟨m.perAddr, ?_, hs.2.1.1, ?_⟩
    · show (minterRec mk self p m creator ma ca).perAddr = _
      simp [minterRec, hfm]
    · intro h3
      have : (minterRec mk self p m creator ma ca).numTokens = some (m.numTokens.getD 0) := by simp [minterRec, hfm]
      show ThreePct _ ((minterRec mk self p m creator ma ca).numTokens.getD 0)
      rw [this]; exact (hmin.1 h3).2
  | tokenMerge =>
    rw [hk, hfm] at hs; rw [hfm] at hmin
    refine ⟨m.perAddr, ?_, hs.2.1, ?_⟩
    · show (minterRec mk self p m creator ma ca).perAddr = _
      simp [minterRec, hfm]
    · intro _
      have : (minterRec mk self p m creator ma ca).numTokens = some (m.numTokens.getD 0) := by simp [minterRec, hfm]
      show ThreePct _ ((minterRec mk self p m creator ma ca).numTokens.getD 0)
      rw [this]; exact hmin.1.2
  | openEdition =>
    rw [hk, hfm] at hs
    refine ⟨m.perAddr, ?_, hs.2.2.1.1, ?_⟩
    · show (minterRec mk self p m creator ma ca).perAddr = _
      simp [minterRec, hfm]
    · intro h3
      cases mk <;> simp [MKind.family] at hfm <;> simp [MKind.threePct] at h3

theorem fc_inv_step (w : World) (op : Op) (h : SInv w) : SInv (step' w op) := by
  cases op with
  | time t => exact ⟨h.fresh, h.wiredM, h.wiredC, h.fromFactory, h.limits, h.mfresh, h.munique⟩
  | fund who d amt => exact ⟨h.fresh, h.wiredM, h.wiredC, h.fromFactory, h.limits, h.mfresh, h.munique⟩
  | mkFactory p =>
    refine ⟨?_, h.wiredM, h.wiredC, ?_, h.limits, ?_, h.munique⟩
    · intro c hc
      simp only [step', step, List.mem_append, List.mem_singleton] at hc ⊢
      rcases hc with hc | rfl
      · have := h.fresh c hc; addr_omega
      · addr_omega
    · intro mt hmt
      obtain ⟨f, hf, e⟩ := h.fromFactory mt hmt
      exact ⟨f, List.mem_append_left _ hf, e⟩
    · intro mt hmt
      have := h.mfresh mt hmt
      show (mt.addr : Nat) < 1000 + (w.next + 1); addr_omega
  | updateParams fa u =>
    unfold step'
    simp only [step]
    cases hf : w.factory? fa with
    | none => exact h
    | some f =>
      cases hu : applyUpdate f.p u with
      | error e => simpa [hu] using h
      | ok p' =>
        simp only [hu]
        refine ⟨h.fresh, h.wiredM, h.wiredC, ?_, h.limits, h.mfresh, h.munique⟩
        intro mt hmt
        obtain ⟨g, hg, e⟩ := h.fromFactory mt hmt
        refine ⟨if g.addr = fa then { g with p := p' } else g, List.mem_map.2 ⟨g, hg, rfl⟩, ?_⟩
        split <;> exact e
  | mkWl flex s e ok poolD supD =>
    unfold step'
    simp only [step]
    cases ok with
    | false => exact h
    | true =>
      refine ⟨?_, h.wiredM, h.wiredC, h.fromFactory, h.limits, ?_, h.munique⟩
      · intro c hc
        simp only [if_true, List.mem_append, List.mem_singleton] at hc ⊢
        rcases hc with hc | rfl
        · have := h.fresh c hc; addr_omega
        · addr_omega
      · intro mt hmt
        have := h.mfresh mt hmt
        show (mt.addr : Nat) < 1000 + (w.next + 1); addr_omega
  | create self m =>
    unfold step'
    simp only [step]
    cases hcr : create w self m with
    | error e => exact h
    | ok w' =>
      cases hf : w.factory? self with
      | none => exact absurd ⟨w', hcr⟩ (C08_no_factory w self m hf)
      | some f =>
        obtain ⟨hcok, mk, creator, bs, hmk, _, _, rfl⟩ := fc_create_ok w self f m w' hf hcr
        have hfm := fc_find_mem _ _ _ hf
        have hnewaddr : (minterRec mk self f.p m creator (minterAddr w) (collectionAddr w)).addr = minterAddr w := by
          unfold minterRec; cases mk.family <;> rfl
        refine ⟨?_, ?_, ?_, ?_, ?_, ?_, ?_⟩
        · intro c hc
          simp only [post, List.mem_append, List.mem_cons, List.not_mem_nil, or_false] at hc ⊢
          rcases hc with hc | rfl | rfl
          · have := h.fresh c hc; addr_omega
          · simp only [minterAddr]; addr_omega
          · simp only [collectionAddr]; addr_omega
        · intro mt hmt
          simp only [post, List.mem_append, List.mem_singleton] at hmt ⊢
          rcases hmt with hmt | rfl
          · obtain ⟨cl, hcl, e⟩ := h.wiredM mt hmt
            exact ⟨cl, Or.inl hcl, e⟩
          · refine ⟨_, Or.inr rfl, ?_⟩
            unfold minterRec; cases mk.family <;> exact ⟨rfl, rfl⟩
        · intro cl hcl
          simp only [post, List.mem_append, List.mem_singleton] at hcl ⊢
          rcases hcl with hcl | rfl
          · obtain ⟨mt, hmt, e⟩ := h.wiredC cl hcl
            exact ⟨mt, Or.inl hmt, e⟩
          · refine ⟨_, Or.inr rfl, ?_⟩
            unfold minterRec; cases mk.family <;> exact ⟨rfl, rfl⟩
        · intro mt hmt
          simp only [post, List.mem_append, List.mem_singleton] at hmt ⊢
          rcases hmt with hmt | rfl
          · exact h.fromFactory mt hmt
          · refine ⟨f, hfm.1, ?_⟩
            have : f.addr = self := by simpa using hfm.2
            rw [this]
            unfold minterRec; cases mk.family <;> rfl
        · intro mt hmt
          simp only [post, List.mem_append, List.mem_singleton] at hmt
          rcases hmt with hmt | rfl
          · exact h.limits mt hmt
          · exact fc_minterRec_limits self f.p w m mk creator _ _ hmk hcok
        · intro mt hmt
          simp only [post, List.mem_append, List.mem_singleton] at hmt ⊢
          rcases hmt with hmt | rfl
          · have := h.mfresh mt hmt
            show (mt.addr : Nat) < 1000 + (w.next + 2); addr_omega
          · rw [hnewaddr]
            show (1000 + w.next : Nat) < 1000 + (w.next + 2); addr_omega
        · show (w.minters ++ [_]).Pairwise _
          rw [List.pairwise_append]
          refine ⟨h.munique, List.pairwise_singleton _ _, ?_⟩
          intro a ha b hb
          rw [List.mem_singleton] at hb
          subst hb
          rw [hnewaddr]
          have := h.mfresh a ha
          intro e
          unfold minterAddr at e
          addr_omega
  | setLimit ma sender funds l =>
    unfold step'
    simp only [step]
    cases hs : setLimit w ma sender funds l with
    | error e => exact h
    | ok w' =>
      have hpost := C08_update_limit_post w ma sender funds l w' hs
      cases hm : w.minter? ma with
      | none => simp [setLimit, hm] at hs
      | some mt0 =>
        cases hf : w.factory? mt0.factory with
        | none => simp [setLimit, hm, hf] at hs
        | some f =>
          obtain ⟨hlw, _⟩ := C08_update_limit_same_bounds w ma sender funds l w' mt0 f hm hf hs
          have hm0 := fc_find_mem _ _ _ hm
          have ha0 : mt0.addr = ma := by simpa using hm0.2
          subst hpost
          refine ⟨h.fresh, ?_, ?_, ?_, ?_, ?_, ?_⟩
          · intro mt hmt
            obtain ⟨x, hx, rfl⟩ := List.mem_map.1 hmt
            obtain ⟨cl, hcl, e⟩ := h.wiredM x hx
            refine ⟨cl, hcl, ?_⟩
            split <;> exact e
          · intro cl hcl
            obtain ⟨x, hx, e⟩ := h.wiredC cl hcl
            refine ⟨if x.addr = ma then { x with perAddr := some l } else x, List.mem_map.2 ⟨x, hx, rfl⟩, ?_⟩
            split <;> exact e
          · intro mt hmt
            obtain ⟨x, hx, rfl⟩ := List.mem_map.1 hmt
            obtain ⟨g, hg, e⟩ := h.fromFactory x hx
            refine ⟨g, hg, ?_⟩
            split <;> exact e
          · intro mt hmt
            obtain ⟨x, hx, rfl⟩ := List.mem_map.1 hmt
            by_cases hxa : x.addr = ma
            · have hx0 : x = mt0 :=
                fc_pairwise_unique (fun (a : Minter) => a.addr) w.minters h.munique x hx mt0 hm0.1 (hxa.trans ha0.symm)
              subst hx0
              simp only [hxa, if_true]
              intro _
              exact ⟨l, rfl, hlw.1, hlw.2.2⟩
            · simp only [hxa, if_false]
              exact h.limits x hx
          · intro mt hmt
            obtain ⟨x, hx, rfl⟩ := List.mem_map.1 hmt
            have := h.mfresh x hx
            split <;> exact this
          · show (w.minters.map _).Pairwise _
            rw [List.pairwise_map]
            refine h.munique.imp ?_
            intro a b hab
            split <;> split <;> exact hab

/-- the empty world satisfies the invariant -/
theorem fc_inv_init : SInv ({} : World) :=
  ⟨(by intro c hc; cases hc), (by intro c hc; cases hc), (by intro c hc; cases hc), (by intro c hc; cases hc),
   (by intro c hc; cases hc), (by intro c hc; cases hc), List.Pairwise.nil⟩

/-- **All histories.** After every finite sequence of operations from the empty world: registry addresses are fresh,
every minter and its collection point at each other, every minter was created by (and still points at) a registered
factory, minter addresses are unique, and every per-address limit is ≥ 1 and within the 3 % rule where the minter
enforces it — no matter how governance moved the bounds, froze or unfroze in between. -/
theorem C08_run_inv (ops : List Op) : SInv (run {} ops) := by
  have gen : ∀ (ops : List Op) (w : World), SInv w → SInv (run w ops) := by
    intro ops
    induction ops with
    | nil => intro w h; exact h
    | cons op t ih => intro w h; exact ih _ (fc_inv_step w op h)
  exact gen ops _ fc_inv_init

/-- the per-address-limit clause over histories, stated on its own -/
theorem C08_history_limits (ops : List Op) :
    ∀ mt ∈ (run {} ops).minters, mt.kind.family ≠ .base →
      ∃ l, mt.perAddr = some l ∧ 1 ≤ l ∧ (mt.kind.threePct = true → ThreePct l (mt.numTokens.getD 0)) :=
  (C08_run_inv ops).limits

/-- the wiring clause over histories -/
theorem C08_history_wiring (ops : List Op) :
    (∀ mt ∈ (run {} ops).minters, (∃ cl ∈ (run {} ops).collections, cl.addr = mt.sg721 ∧ cl.owner = mt.addr)
        ∧ ∃ f ∈ (run {} ops).factories, f.addr = mt.factory)
    ∧ ∀ cl ∈ (run {} ops).collections, ∃ mt ∈ (run {} ops).minters, mt.addr = cl.owner ∧ mt.sg721 = cl.addr :=
  ⟨fun mt h => ⟨(C08_run_inv ops).wiredM mt h, (C08_run_inv ops).fromFactory mt h⟩, (C08_run_inv ops).wiredC⟩

/-- governance can only ever change a factory's parameters, never its registry entry, its minters or any balance -/
theorem C08_governance_frame (w : World) (fa : Addr) (u : Update) :
    (step' w (.updateParams fa u)).contracts = w.contracts ∧ (step' w (.updateParams fa u)).minters = w.minters
    ∧ (step' w (.updateParams fa u)).collections = w.collections ∧ (step' w (.updateParams fa u)).bal = w.bal
    ∧ (step' w (.updateParams fa u)).supply = w.supply ∧ (step' w (.updateParams fa u)).next = w.next := by
  unfold step'
  simp only [step]
  cases hf : w.factory? fa with
  | none => simp
  | some f =>
    cases hu : applyUpdate f.p u with
    | error e => simp [hu]
    | ok p' => simp [hu]


/-- a consequence worth knowing: with a **native** creation fee below 2 no minter can be created at all (`fair_burn` would
emit a zero-amount burn or a zero-amount pool payment, which the bank rejects) — nothing is created and nothing moves, so the
property is not violated, but governance must not set such a fee. Holds for EVERY burn percentage (a fee of 0 or 1 cannot be
split into two non-zero parts). (Reproduced on the real contracts: fee 0 and 1.) -/
theorem C08_native_fee_below_two_blocks (w : World) (self : Addr) (f : Factory) (m : CreateMsg)
    (hf : w.factory? self = some f) (hn : f.p.fee.denom = NATIVE) (h2 : f.p.fee.amount < 2) :
    ¬ ∃ w', create w self m = .ok w' := by
  intro h
  obtain ⟨_, _, _, _, _, _, _, _, _, _, hfund⟩ := (C08_create_ok_iff w self f m hf).1 h
  have := hfund.2 hn
  have hle := fc_burnPart_le f.p.fee.amount
  omega

/-- with the 50 % split currently in `packages/sg1` (stated as a hypothesis, so that a change of the split — C06's business —
does not break C08): both parts of the fair burn are non-zero exactly when the fee is at least 2. -/
theorem C08_native_fee_split_at_50 (F : Nat) (h50 : Gen.sg1_FEE_BURN_PERCENT = 50) :
    (burnPart F ≠ 0 ∧ burnPart F ≠ F) ↔ 2 ≤ F := by
  unfold burnPart mulFloor percent
  rw [h50]
  omega

/-! ### Round 3: history-level statements with content of their own

`C08_create_ok_iff` is an iff between the Boolean conjunction the model executes and its readable `Prop` form, and
`C08_reject_nothing` holds by construction of `step'` (transaction atomicity is an assumption about the chain, validated by the
harness, not proved). The theorems below are inductions over arbitrary operation lists and say things no single definition
says: the registry is exact, only `CreateMinter` creates, only `UpdatePerAddressLimit` moves a limit, and every minter that
exists in any reachable world came from a `CreateMinter` that was ACCEPTED in the world of that moment (hence satisfied every
necessary condition of `C08_create_only_if` against the governance parameters in force THEN). -/

/-- the registry is exact: as many registry entries as addresses handed out; every minter has exactly one collection; the
registry consists of the factories, the whitelists, and one minter + one collection per creation — nothing else -/
structure RInv (w : World) : Prop where
  count : w.contracts.length = w.next
  pairs : w.minters.length = w.collections.length
  total : w.contracts.length = w.factories.length + w.whitelists.length + 2 * w.minters.length

theorem fc_rinv_step (w : World) (op : Op) (h : RInv w) : RInv (step' w op) := by
  obtain ⟨h1, h2, h3⟩ := h
  cases op with
  | time t => exact ⟨h1, h2, h3⟩
  | fund who d amt => exact ⟨h1, h2, h3⟩
  | mkFactory p =>
    refine ⟨?_, h2, ?_⟩ <;> simp only [step', step, List.length_append, List.length_cons, List.length_nil] <;> omega
  | updateParams fa u =>
    unfold step'
    simp only [step]
    cases hf : w.factory? fa with
    | none => exact ⟨h1, h2, h3⟩
    | some f =>
      cases hu : applyUpdate f.p u with
      | error e => simp only [hu]; exact ⟨h1, h2, h3⟩
      | ok p' => simp only [hu]; exact ⟨h1, h2, by simp only [List.length_map]; exact h3⟩
  | mkWl flex s e ok poolD supD =>
    unfold step'
    simp only [step]
    cases ok with
    | false => exact ⟨h1, h2, h3⟩
    | true =>
      refine ⟨?_, h2, ?_⟩ <;> simp only [if_true, List.length_append, List.length_cons, List.length_nil] <;> omega
  | create self m =>
    unfold step'
    simp only [step]
    cases hcr : create w self m with
    | error e => exact ⟨h1, h2, h3⟩
    | ok w' =>
      cases hf : w.factory? self with
      | none => exact absurd ⟨w', hcr⟩ (C08_no_factory w self m hf)
      | some f =>
        obtain ⟨_, mk, creator, bs, _, _, _, rfl⟩ := fc_create_ok w self f m w' hf hcr
        refine ⟨?_, ?_, ?_⟩ <;>
          simp only [post, List.length_append, List.length_cons, List.length_nil] <;> omega
  | setLimit ma sender funds l =>
    unfold step'
    simp only [step]
    cases hs : setLimit w ma sender funds l with
    | error e => exact ⟨h1, h2, h3⟩
    | ok w' =>
      have hpost := C08_update_limit_post w ma sender funds l w' hs
      subst hpost
      exact ⟨h1, by simp only [List.length_map]; exact h2, by simp only [List.length_map]; exact h3⟩

/-- **"exactly one new minter and one new collection", over all histories**: after every finite sequence of operations the
registry holds exactly `next` contracts, there are as many collections as minters, and
`#contracts = #factories + #whitelists + 2·#minters` — no operation ever leaves a stray contract behind. -/
theorem C08_history_registry_exact (ops : List Op) : RInv (run {} ops) := by
  have gen : ∀ (ops : List Op) (w : World), RInv w → RInv (run w ops) := by
    intro ops
    induction ops with
    | nil => intro w h; exact h
    | cons op t ih => intro w h; exact ih _ (fc_rinv_step w op h)
  exact gen ops _ ⟨rfl, rfl, rfl⟩

/-- **only `CreateMinter` creates**: every operation other than a create leaves the set of minter addresses and the collections
exactly as they were (governance, clock, funding, whitelist creation, limit updates, rejected creates included — a rejected
create is `step'` = identity) -/
theorem C08_only_create_creates (w : World) (op : Op) (h : ∀ f m, op ≠ .create f m) :
    (step' w op).minters.map (·.addr) = w.minters.map (·.addr) ∧ (step' w op).collections = w.collections := by
  cases op with
  | time t => exact ⟨rfl, rfl⟩
  | fund who d amt => exact ⟨rfl, rfl⟩
  | mkFactory p => exact ⟨rfl, rfl⟩
  | updateParams fa u =>
    have := C08_governance_frame w fa u
    exact ⟨by rw [this.2.1], this.2.2.1⟩
  | mkWl flex s e ok poolD supD =>
    unfold step'
    simp only [step]
    cases ok <;> exact ⟨rfl, rfl⟩
  | create self m => exact absurd rfl (h self m)
  | setLimit ma sender funds l =>
    unfold step'
    simp only [step]
    cases hs : setLimit w ma sender funds l with
    | error e => exact ⟨rfl, rfl⟩
    | ok w' =>
      have hpost := C08_update_limit_post w ma sender funds l w' hs
      subst hpost
      refine ⟨?_, rfl⟩
      simp only [List.map_map]
      apply List.map_congr_left
      intro x _
      simp only [Function.comp]
      split <;> rfl

/-- **only `UpdatePerAddressLimit` moves a limit**: under every other operation every existing minter record — its limit, admin,
factory, collection, token count — is still there unchanged -/
theorem C08_limit_only_by_update (w : World) (op : Op) (h : ∀ ma s fu l, op ≠ .setLimit ma s fu l) :
    ∀ mt ∈ w.minters, mt ∈ (step' w op).minters := by
  intro mt hmt
  cases op with
  | time t => exact hmt
  | fund who d amt => exact hmt
  | mkFactory p => exact hmt
  | updateParams fa u => rw [(C08_governance_frame w fa u).2.1]; exact hmt
  | mkWl flex s e ok poolD supD =>
    unfold step'
    simp only [step]
    cases ok <;> exact hmt
  | create self m =>
    unfold step'
    simp only [step]
    cases hcr : create w self m with
    | error e => exact hmt
    | ok w' =>
      cases hf : w.factory? self with
      | none => exact absurd ⟨w', hcr⟩ (C08_no_factory w self m hf)
      | some f =>
        obtain ⟨_, mk, creator, bs, _, _, _, rfl⟩ := fc_create_ok w self f m w' hf hcr
        exact List.mem_append_left _ hmt
  | setLimit ma sender funds l => exact absurd rfl (h ma sender funds l)

/-- an accepted limit update moves nothing but that limit: registry, factories, whitelists, collections, every balance, the
supply and the clock are untouched; a rejected one is the identity -/
theorem C08_update_limit_frame (w : World) (ma sender : Addr) (funds : List Coin) (l : Nat) :
    let w' := step' w (.setLimit ma sender funds l)
    w'.contracts = w.contracts ∧ w'.factories = w.factories ∧ w'.whitelists = w.whitelists
    ∧ w'.collections = w.collections ∧ w'.bal = w.bal ∧ w'.supply = w.supply ∧ w'.next = w.next ∧ w'.now = w.now := by
  simp only [step', step]
  cases hs : setLimit w ma sender funds l with
  | error e => exact ⟨rfl, rfl, rfl, rfl, rfl, rfl, rfl, rfl⟩
  | ok w' =>
    have hpost := C08_update_limit_post w ma sender funds l w' hs
    subst hpost
    exact ⟨rfl, rfl, rfl, rfl, rfl, rfl, rfl, rfl⟩

/-- where does a minter of the next world come from: it was there before (same address, same factory), or this very operation
is a `CreateMinter` that was accepted in `w` and made it -/
theorem fc_minter_origin (w : World) (op : Op) :
    ∀ mt ∈ (step' w op).minters,
      (∃ mt0 ∈ w.minters, mt0.addr = mt.addr ∧ mt0.factory = mt.factory)
      ∨ (∃ f m w', op = .create f m ∧ create w f m = .ok w' ∧ mt.addr = minterAddr w ∧ mt.factory = f) := by
  intro mt hmt
  cases op with
  | time t => exact Or.inl ⟨mt, hmt, rfl, rfl⟩
  | fund who d amt => exact Or.inl ⟨mt, hmt, rfl, rfl⟩
  | mkFactory p => exact Or.inl ⟨mt, hmt, rfl, rfl⟩
  | updateParams fa u => rw [(C08_governance_frame w fa u).2.1] at hmt; exact Or.inl ⟨mt, hmt, rfl, rfl⟩
  | mkWl flex s e ok poolD supD =>
    unfold step' at hmt
    simp only [step] at hmt
    cases ok <;> exact Or.inl ⟨mt, hmt, rfl, rfl⟩
  | create self m =>
    unfold step' at hmt
    simp only [step] at hmt
    cases hcr : create w self m with
    | error e => rw [hcr] at hmt; exact Or.inl ⟨mt, hmt, rfl, rfl⟩
    | ok w' =>
      rw [hcr] at hmt
      cases hf : w.factory? self with
      | none => exact absurd ⟨w', hcr⟩ (C08_no_factory w self m hf)
      | some f =>
        obtain ⟨_, mk, creator, bs, _, _, _, hw'⟩ := fc_create_ok w self f m w' hf hcr
        subst hw'
        simp only [post, List.mem_append, List.mem_singleton] at hmt
        rcases hmt with hmt | rfl
        · exact Or.inl ⟨mt, hmt, rfl, rfl⟩
        · refine Or.inr ⟨self, m, _, rfl, hcr, ?_, ?_⟩ <;> (unfold minterRec; cases mk.family <;> rfl)
  | setLimit ma sender funds l =>
    unfold step' at hmt
    simp only [step] at hmt
    cases hs : setLimit w ma sender funds l with
    | error e => rw [hs] at hmt; exact Or.inl ⟨mt, hmt, rfl, rfl⟩
    | ok w' =>
      rw [hs] at hmt
      have hpost := C08_update_limit_post w ma sender funds l w' hs
      subst hpost
      obtain ⟨x, hx, rfl⟩ := List.mem_map.1 hmt
      refine Or.inl ⟨x, hx, ?_, ?_⟩ <;> (split <;> rfl)

theorem fc_run_append (w : World) (a b : List Op) : run w (a ++ b) = run (run w a) b := by
  simp [run, List.foldl_append]

/-- **Provenance, over all histories ("a factory creates a minter ONLY IF …").** Every minter that exists after any finite
sequence of operations was made by a `CreateMinter` op of that sequence which was ACCEPTED in the world reached by the
operations before it, sent to the factory the minter points at, and the minter's address is the one allocated then. Together
with `C08_create_only_if` / `C08_create_ok_iff` applied to that prefix world: not frozen THEN, collection code allow-listed
THEN, fee attached, sale parameters within the governance bounds in force THEN — whatever governance did before or after. -/
theorem C08_history_provenance (ops : List Op) :
    ∀ mt ∈ (run {} ops).minters, ∃ pre post f m w',
      ops = pre ++ Op.create f m :: post ∧ create (run {} pre) f m = .ok w'
      ∧ mt.addr = minterAddr (run {} pre) ∧ mt.factory = f := by
  have gen : ∀ (n : Nat) (ops : List Op), ops.length = n →
      ∀ mt ∈ (run {} ops).minters, ∃ pre post f m w',
        ops = pre ++ Op.create f m :: post ∧ create (run {} pre) f m = .ok w'
        ∧ mt.addr = minterAddr (run {} pre) ∧ mt.factory = f := by
    intro n
    induction n with
    | zero =>
      intro ops hl mt hmt
      have : ops = [] := List.eq_nil_of_length_eq_zero hl
      subst this
      cases hmt
    | succ k ih =>
      intro ops hl mt hmt
      rcases List.eq_nil_or_concat ops with h0 | ⟨L, b, hLb⟩
      · subst h0; cases hmt
      · have hLb' : ops = L ++ [b] := by simpa using hLb
        subst hLb'
        have hlen : L.length = k := by simp at hl; omega
        rw [fc_run_append] at hmt
        have hstep : run (run {} L) [b] = step' (run {} L) b := rfl
        rw [hstep] at hmt
        rcases fc_minter_origin (run {} L) b mt hmt with ⟨mt0, hmt0, ha, hfa⟩ | ⟨f, m, w', hb, hc, ha, hfa⟩
        · obtain ⟨pre, post, f, m, w', hops, hc, ha0, hf0⟩ := ih L hlen mt0 hmt0
          refine ⟨pre, post ++ [b], f, m, w', ?_, hc, ?_, ?_⟩
          · rw [hops]; simp
          · rw [← ha]; exact ha0
          · rw [← hfa]; exact hf0
        · subst hb
          exact ⟨L, [], f, m, w', rfl, hc, ha, hfa⟩
  exact gen ops.length ops rfl

/-- the same, spelled out: the factory that made any minter of any reachable world was not frozen at that moment, had the
collection's code on its allow-list, and was paid at least its fee in its fee denom (exactly, for the open-edition factory) -/
theorem C08_history_created_within_rules (ops : List Op) :
    ∀ mt ∈ (run {} ops).minters, ∃ pre post m fac,
      ops = pre ++ Op.create mt.factory m :: post ∧ (run {} pre).factory? mt.factory = some fac
      ∧ fac.p.frozen = false ∧ m.sg721Code ∈ fac.p.allowed
      ∧ (∃ a, m.funds = [⟨fac.p.fee.denom, a⟩] ∧ fac.p.fee.amount ≤ a ∧ (fac.p.kind = .openEdition → a = fac.p.fee.amount))
      ∧ SaleWithin fac.p (run {} pre).now m := by
  intro mt hmt
  obtain ⟨pre, post, f, m, w', hops, hc, _, hf⟩ := C08_history_provenance ops mt hmt
  subst hf
  cases hfac : (run {} pre).factory? mt.factory with
  | none => exact absurd ⟨w', hc⟩ (C08_no_factory _ _ m hfac)
  | some fac =>
    obtain ⟨h1, h2, h3, h4, _⟩ := C08_create_only_if (run {} pre) mt.factory fac m w' hfac hc
    exact ⟨pre, post, m, fac, hops, hfac, h1, h2, h3, h4⟩

/-! ### Round 3: "administered by the creator named in the request" — the literal clause and what is true

FULL literal clause (NOT provable — the unchanged code contradicts it, see `C08_post_admin_counterexample`):

    every administrator of the new minter is the creator named in the request, i.e. for a successful create
    `mt.admin = some creator ∧ mi.admin = some creator ∧ ci.admin = some creator ∧ cl.creator = creator`
    (minter `Config.admin`, minter wasm/migration admin, collection wasm admin, collection creator).

All four factories build `WasmMsg::Instantiate { admin: Some(info.sender.to_string()), … }`: the minter's wasm (migration)
admin is the SENDER of `CreateMinter`. It is the creator only when the creator sends the message himself. -/

/-- what holds: the creator named in the request is the minter's `Config.admin` (every family but the base minter, which has
none), the collection's creator and the collection's wasm admin; the minter's wasm admin is the sender — hence the creator
exactly when `sender = creator`. -/
theorem C08_post_admin_partial (w : World) (self : Addr) (f : Factory) (m : CreateMsg) (w' : World)
    (hf : w.factory? self = some f) (h : create w self m = .ok w') :
    ∃ (mi ci : ContractInfo) (mt : Minter) (cl : Collection) (creator : Addr),
      m.creator = some creator
      ∧ w'.contracts = w.contracts ++ [mi, ci] ∧ w'.minters = w.minters ++ [mt] ∧ w'.collections = w.collections ++ [cl]
      ∧ (mt.kind.family ≠ .base → mt.admin = some creator) ∧ ci.admin = some creator ∧ cl.creator = creator
      ∧ mi.admin = some m.sender ∧ (mi.admin = some creator ↔ m.sender = creator) := by
  obtain ⟨mi, ci, mt, cl, creator, h1, h2, h3, h4, _, _, _, _, _, _, _, _, _, h14, _, _, h17, _, _, _, _, h22, _, _, h25⟩ :=
    C08_post_wiring w self f m w' hf h
  refine ⟨mi, ci, mt, cl, creator, h1, h2, h3, h4, h22, h17, h25, h14, ?_⟩
  rw [h14]
  constructor
  · intro e; exact Option.some.inj e
  · intro e; rw [e]

/-! ## Non-vacuity: concrete worlds in which the hypotheses above hold -/

def exParams : Params :=
  { kind := .vending, codeId := 1, allowed := [16], frozen := false, fee := ⟨0, 10⟩, minPrice := ⟨0, 5⟩, offset := 100,
    maxTokens := 200, maxPerAddr := 5, airdropPrice := ⟨0, 0⟩ }
def exWorld : World := run {} [.time (GENESIS + 5), .fund 10 0 1000, .mkFactory exParams]
/-- 134 tokens, limit 5 = ⌈402/100⌉ (the 3 % bound exactly), overpays the fee by 2, starts now -/
def exMsg : CreateMsg :=
  { sender := 10, funds := [⟨0, 12⟩], sg721Code := 16, creator := some 13, numTokens := some 134, perAddr := 5,
    start := GENESIS + 5, endTime := none, price := ⟨0, 5⟩, payAddr := none, wl := .none, trade := none, royalty := none,
    descLen := 512, imageOk := true, linkOk := none, uriOk := true, nftOk := true }

example : (exWorld.factory? 1000).isSome = true := by decide
example : (create exWorld 1000 exMsg).isOk = true := by decide
/-- one more than the 3 % bound is rejected, one more token limit by governance does not help (the 3 % rule is the
binding one), a frozen factory rejects the valid message -/
example : (create exWorld 1000 { exMsg with perAddr := 6 }).isOk = false := by decide
example : (create (step' exWorld (.updateParams 1000 { maxPerAddr := some 6 })) 1000 { exMsg with perAddr := 6 }).isOk = false := by
  decide
example : (create (step' exWorld (.updateParams 1000 { frozen := some true })) 1000 exMsg).isOk = false := by decide
/-- balances of the example: payer −12, factory keeps the overpayment 2, `supply − pool` falls by the fee 10 (1000 → 990) —
stated without the burn/pool split, which is C06's -/
example : ((run exWorld [.create 1000 exMsg]).bal 10 0, (run exWorld [.create 1000 exMsg]).bal 1000 0,
    (run exWorld [.create 1000 exMsg]).supply 0 - (run exWorld [.create 1000 exMsg]).bal FAIRBURN_POOL 0)
    = (988, 2, 990) := by decide
/-- the created minter (address 1001) accepts limit 5 from its admin 13, rejects 6, and rejects a stranger -/
example : (setLimit (run exWorld [.create 1000 exMsg]) 1001 13 [] 5).isOk = true := by decide
example : (setLimit (run exWorld [.create 1000 exMsg]) 1001 13 [] 6).isOk = false := by decide
example : (setLimit (run exWorld [.create 1000 exMsg]) 1001 10 [] 1).isOk = false := by decide

/-- **Counter-example to the literal clause** (replayed on the real contracts: corpus/C08/minter-wasm-admin-is-payer.json):
account 10 pays `CreateMinter` naming creator 13. The create is accepted; the new minter (address 1001) has `Config.admin` 13
but wasm admin 10 ≠ 13: the payer may migrate the creator's minter, the creator may not. -/
theorem C08_post_admin_counterexample :
    exMsg.sender = 10 ∧ exMsg.creator = some 13
    ∧ (create exWorld 1000 exMsg).isOk = true
    ∧ ((run exWorld [.create 1000 exMsg]).minter? 1001).map (·.admin) = some (some 13)
    ∧ ((run exWorld [.create 1000 exMsg]).contract? 1001).map (·.admin) = some (some 10)
    ∧ mayMigrate (run exWorld [.create 1000 exMsg]) 1001 10 = true
    ∧ mayMigrate (run exWorld [.create 1000 exMsg]) 1001 13 = false := by
  decide

end LP
