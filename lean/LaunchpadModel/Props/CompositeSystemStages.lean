import LaunchpadModel.Lemmas.LaunchpadSystemRefine
import LaunchpadModel.Lemmas.LaunchpadSystemOERefine
import LaunchpadModel.Props.CompositeWhitelistStages

/-!
# C13 in the SYSTEM composites (`LP.Sys`, `LP.SysOE`)

`Props/CompositeSystem.lean` and `Props/CompositeSystemOE.lean` import `Props/C11.lean`, which cannot be imported together with
`Props/C13.lean` (both define `LP.exInst`); hence this separate module. It transfers the C13 block of the whitelist composite
(`C13_full_*`, Props/CompositeWhitelistStages.lean) to EVERY whitelist contract of EVERY system history: in a system history a
whitelist contract at address `k` evolves by its own `WF` steps interleaved with bank movements of other contracts
(`Sys.WFReach`, `Sys.wf_run`); `WF.Reach13` (the stage skeleton is a state of a C13 aspect run) is preserved by both.
-/

namespace LP
open WF

/-- `Reach13` does not read the bank -/
theorem WF.reach13_bank {c : WF.State} (b : MintPay.Bank) (h : WF.Reach13 c) : WF.Reach13 { c with bank := b } := h

/-- **C13 in every vending-system history**: the stage skeleton of the whitelist contract at ANY address `k` stays a state of a C13
aspect run, whatever the factory, the minter, the buyers, the other whitelists and their admins do in between -/
theorem C13_sys_refines (s : Sys.State) (ops : List Sys.Op) (k : Addr) (h0 : WF.Reach13 (Sys.wfOf s k)) :
    WF.Reach13 (Sys.wfOf (Sys.run s ops) k) :=
  Sys.wfReach_inv WF.Reach13 (fun _ op h => WF.reach13_step h op) (fun _ b h => WF.reach13_bank b h) h0 (Sys.wf_run s ops k)

/-- … in particular from a fresh chain (no whitelist contract exists yet) -/
theorem C13_sys_reachable (now : Nat) (codes : VF.Codes) (fa : Addr) (p : VF.Params) (ops : List Sys.Op) (k : Addr) :
    WF.Reach13 (Sys.wfOf (Sys.run (Sys.init now codes fa p) ops) k) :=
  C13_sys_refines _ ops k (fun w hw => by simp [Sys.wfOf, Sys.init, Sys.find] at hw)

/-- "never has more than three stages, each with start before end and ordered so that a stage never starts before the previous one
ends" — for every tiered whitelist contract stored anywhere in the system, after every system history -/
theorem C13_sys_chain (now : Nat) (codes : VF.Codes) (fa : Addr) (p : VF.Params) (ops : List Sys.Op) (k : Addr) (w : Wl)
    (hw : Sys.find (Sys.run (Sys.init now codes fa p) ops).wls k = some w) (ht : Tier w.v) :
    w.stages.length ≤ 3 ∧ (∀ st ∈ w.stages, st.start < st.stop) ∧ w.stages.Pairwise (fun a b => a.stop ≤ b.start) :=
  C13_full_chain (C13_sys_reachable now codes fa p ops k) (s := Sys.wfOf _ k) hw ht

/-- "at most two windows contain any instant" — every tiered whitelist of every system history, every instant -/
theorem C13_sys_at_most_two (now : Nat) (codes : VF.Codes) (fa : Addr) (p : VF.Params) (ops : List Sys.Op) (k : Addr) (w : Wl)
    (hw : Sys.find (Sys.run (Sys.init now codes fa p) ops).wls k = some w) (ht : Tier w.v) (t : Nat) :
    (w.stages.filter (fun st => st.contains t)).length ≤ 2 :=
  C13_full_at_most_two (C13_sys_reachable now codes fa p ops k) (s := Sys.wfOf _ k) hw ht t

/-- **C13 in every open-edition-system history** -/
theorem C13_sysoe_refines (s : SysOE.State) (ops : List SysOE.Op) (k : Addr) (h0 : WF.Reach13 (SysOE.wfOf s k)) :
    WF.Reach13 (SysOE.wfOf (SysOE.run s ops) k) :=
  SysOE.wfReach_inv WF.Reach13 (fun _ op h => WF.reach13_step h op) (fun _ b h => WF.reach13_bank b h) h0 (SysOE.wf_run s ops k)

theorem C13_sysoe_reachable (now : Nat) (codes : VF.Codes) (fa : Addr) (p : OE.Params) (ops : List SysOE.Op) (k : Addr) :
    WF.Reach13 (SysOE.wfOf (SysOE.run (SysOE.init now codes fa p) ops) k) :=
  C13_sysoe_refines _ ops k (fun w hw => by simp [SysOE.wfOf, SysOE.init, Sys.find] at hw)

theorem C13_sysoe_chain (now : Nat) (codes : VF.Codes) (fa : Addr) (p : OE.Params) (ops : List SysOE.Op) (k : Addr) (w : Wl)
    (hw : Sys.find (SysOE.run (SysOE.init now codes fa p) ops).wls k = some w) (ht : Tier w.v) :
    w.stages.length ≤ 3 ∧ (∀ st ∈ w.stages, st.start < st.stop) ∧ w.stages.Pairwise (fun a b => a.stop ≤ b.start) :=
  C13_full_chain (C13_sysoe_reachable now codes fa p ops k) (s := SysOE.wfOf _ k) hw ht

theorem C13_sysoe_at_most_two (now : Nat) (codes : VF.Codes) (fa : Addr) (p : OE.Params) (ops : List SysOE.Op) (k : Addr) (w : Wl)
    (hw : Sys.find (SysOE.run (SysOE.init now codes fa p) ops).wls k = some w) (ht : Tier w.v) (t : Nat) :
    (w.stages.filter (fun st => st.contains t)).length ≤ 2 :=
  C13_full_at_most_two (C13_sysoe_reachable now codes fa p ops k) (s := SysOE.wfOf _ k) hw ht t

end LP
