import LaunchpadModel.Props.C03
import LaunchpadModel.Model.MintLimitsX
/-!
# C03, round 3 — theorems about `LP.MintLimits.stepX` / `runX` (what the driver executes)

* the Merkle leaf is a model object: `C03_leaf_binds`, `C03_wl_step_leaf`, `C03_leaf_not_transferable`;
* tiered whitelists: the entitlement is the one of the stage the mint is booked under (`C03_wl_step_stage`);
* the limit clauses WITHOUT the "since the last purge" reset (`C03_public_total`, `C03_wl_total`), from the ghost
  `closed` (`C03_closed_*`);
* frame theorems (`C03_frame_*`).
-/
namespace LP
open LP.MintLimits

/-! ## Decimal strings and leaves -/

def decodeRev : List Nat → Nat
  | [] => 0
  | d :: ds => (d - 48) + 10 * decodeRev ds

theorem decodeRev_digitsRev (n : Nat) : decodeRev (digitsRev n) = n := by
  fun_induction digitsRev n with
  | case1 n h => simp [decodeRev]
  | case2 n h ih => simp [decodeRev, ih]; omega

theorem digitsRev_ne_nil (n : Nat) : digitsRev n ≠ [] := by
  unfold digitsRev; split <;> simp

theorem digitsRev_digits (n : Nat) : ∀ c ∈ digitsRev n, isDigit c = true := by
  fun_induction digitsRev n with
  | case1 n h => intro c hc; simp at hc; subst hc; simp [isDigit]; omega
  | case2 n h ih =>
    intro c hc
    simp at hc
    rcases hc with hc | hc
    · subst hc; simp [isDigit]; omega
    · exact ih c hc

theorem decimal_inj {n m : Nat} (h : decimal n = decimal m) : n = m := by
  have : digitsRev n = digitsRev m := by simpa [decimal] using h
  rw [← decodeRev_digitsRev n, ← decodeRev_digitsRev m, this]

theorem decimal_ne_nil (n : Nat) : decimal n ≠ [] := by
  simp [decimal, digitsRev_ne_nil]

theorem decimal_digits (n : Nat) : ∀ c ∈ decimal n, isDigit c = true := by
  intro c hc; exact digitsRev_digits n c (by simpa [decimal] using hc)

theorem optDecimal_inj {x y : Option Nat} (h : optDecimal x = optDecimal y) : x = y := by
  cases x <;> cases y <;> simp [optDecimal] at h ⊢
  · exact absurd h (decimal_ne_nil _)
  · exact absurd h (decimal_ne_nil _)
  · exact decimal_inj h

theorem optDecimal_digits (x : Option Nat) : ∀ c ∈ optDecimal x, isDigit c = true := by
  cases x with
  | none => intro c hc; simp [optDecimal] at hc
  | some n => exact decimal_digits n

/-- a run of digits followed by something that starts with a non-digit splits uniquely -/
theorem digit_prefix_unique : ∀ (p p' r r' : List Nat),
    (∀ c ∈ p, isDigit c = true) → (∀ c ∈ p', isDigit c = true) → addrLike r = true → addrLike r' = true →
    p ++ r = p' ++ r' → p = p' ∧ r = r' := by
  intro p
  induction p with
  | nil =>
    intro p' r r' _ hp' hr _ h
    cases p' with
    | nil => exact ⟨rfl, by simpa using h⟩
    | cons c cs =>
      -- r starts with the digit c: impossible
      simp at h
      subst h
      have := hp' c (by simp)
      simp [addrLike, this] at hr
  | cons c cs ih =>
    intro p' r r' hp hp' hr hr' h
    cases p' with
    | nil =>
      simp at h
      subst h
      have := hp c (by simp)
      simp [addrLike, this] at hr'
    | cons c' cs' =>
      simp at h
      obtain ⟨hc, ht⟩ := h
      have := ih cs' r r' (fun x hx => hp x (by simp [hx])) (fun x hx => hp' x (by simp [hx])) hr hr' ht
      exact ⟨by rw [hc, this.1], this.2⟩

/-- **The leaf binds the sender and the allocation** (and the stage): two address strings of the same length (bech32
addresses of one account type; the harness' `acctNNNNN`) that do not start with a digit can only produce the same leaf
`stage ‖ sender ‖ allocation` if sender, allocation and stage are all the same. So a proof that verifies for one
sender's leaf says nothing about any other sender or any other allocation. -/
theorem C03_leaf_binds (f f' : Fields) (a a' : List Nat) (ha : addrLike a = true) (ha' : addrLike a' = true)
    (hlen : a.length = a'.length) (h : leafOf f a = leafOf f' a') :
    a = a' ∧ f.alloc = f'.alloc ∧ f.stage = f'.stage := by
  unfold leafOf at h
  rw [List.append_assoc, List.append_assoc] at h
  have hr : addrLike (a ++ optDecimal f.alloc) = true := by
    cases a with
    | nil => simp [addrLike] at ha
    | cons c cs => simpa [addrLike] using ha
  have hr' : addrLike (a' ++ optDecimal f'.alloc) = true := by
    cases a' with
    | nil => simp [addrLike] at ha'
    | cons c cs => simpa [addrLike] using ha'
  obtain ⟨h1, h2⟩ := digit_prefix_unique _ _ _ _ (optDecimal_digits f.stage) (optDecimal_digits f'.stage) hr hr' h
  obtain ⟨h3, h4⟩ := List.append_inj h2 hlen
  exact ⟨h3, optDecimal_inj h4, optDecimal_inj h1⟩

/-- the format is the Rust one: `format!("{}{}{}", 1, "ab", 25)` -/
example : leafOf { stage := some 1, alloc := some 25 } [97, 98] = [49, 97, 98, 50, 53] := by
  simp [leafOf, optDecimal, decimal, digitsRev]

example : leafOf { stage := none, alloc := some 307 } [97] = [97, 51, 48, 55] := by
  simp [leafOf, optDecimal, decimal, digitsRev]

example : leafOf {} [97, 49] = [97, 49] := by simp [leafOf, optDecimal]

/-! ## `stepX` in terms of `step` -/

def isMintEvent : Event → Bool
  | .publicMint .. => true
  | .airdrop .. => true
  | .wlMint .. => true
  | _ => false

theorem stepX_ok {x x' : XState} {op : XOp} {e : Event} (h : stepX x op = .ok (x', e)) :
    step x.base op.toOp = .ok (x'.base, e) ∧ x'.closed = (x.closed || op.isPurge) ∧
    (x.closed = true → op.mints = false) := by
  unfold stepX at h
  split at h
  · cases h
  · next hc =>
    split at h
    · cases h
    · next s' e' hs =>
      cases h
      refine ⟨hs, rfl, ?_⟩
      intro hcl
      cases hm : op.mints
      · rfl
      · exact absurd ⟨hcl, hm⟩ hc

/-- which events an operation can produce -/
theorem event_of_op {s s' : State} {op : XOp} {e : Event} (h : step s op.toOp = .ok (s', e)) :
    isMintEvent e = op.mints ∧ isPurge e = op.isPurge := by
  cases op with
  | mint a sb f o st pre =>
    rcases step_mint h with ⟨_, _, _, _, _, he⟩ | ⟨_, _, _, _, _, _, _, he, _⟩ <;> subst he <;>
      simp [isMintEvent, isPurge, XOp.mints, XOp.isPurge]
  | mintTo sender r forId pre =>
    have := C03_airdrop_step s s' sender r forId pre e h
    rw [this.2.1]; simp [isMintEvent, isPurge, XOp.mints, XOp.isPurge]
  | setLimit sender n funds =>
    simp only [XOp.toOp, step] at h
    repeat (first | cases h | split at h)
    simp [isMintEvent, isPurge, XOp.mints, XOp.isPurge]
  | setWhitelist sender id wk funds started oa na pre =>
    simp only [XOp.toOp, step] at h
    repeat (first | cases h | split at h)
    simp [isMintEvent, isPurge, XOp.mints, XOp.isPurge]
  | purge funds pre =>
    simp only [XOp.toOp, step] at h
    repeat (first | cases h | split at h)
    simp [isMintEvent, isPurge, XOp.mints, XOp.isPurge]
  | env =>
    simp only [XOp.toOp, step] at h
    cases h
    simp [isMintEvent, isPurge, XOp.mints, XOp.isPurge]
  | govern mp =>
    simp only [XOp.toOp, step] at h
    cases h
    simp [isMintEvent, isPurge, XOp.mints, XOp.isPurge]

/-- an operation that neither mints nor purges produces the event `other` -/
theorem event_other {s s' : State} {op : XOp} {e : Event} (h : step s op.toOp = .ok (s', e))
    (hm : op.mints = false) (hp : op.isPurge = false) : e = .other := by
  obtain ⟨h1, h2⟩ := event_of_op h
  rw [hm] at h1; rw [hp] at h2
  cases e <;> simp_all [isMintEvent, isPurge]

theorem runX_inv (P : XState → List Event → Prop) (x : XState) (h0 : P x [])
    (hstep : ∀ st es op x' e, P st es → stepX st op = .ok (x', e) → P x' (es ++ [e])) :
    ∀ ops, P (runX x ops).1 (runX x ops).2 := by
  intro ops
  unfold runX
  suffices h : ∀ (p : XState × List Event), P p.1 p.2 → P (ops.foldl stepAccX p).1 (ops.foldl stepAccX p).2 from h (x, []) h0
  induction ops with
  | nil => intro p hp; simpa using hp
  | cons op ops ih =>
    intro p hp
    simp only [List.foldl_cons]
    apply ih
    unfold stepAccX
    split
    · next x' e hs => exact hstep p.1 p.2 op x' e hp hs
    · exact hp

/-! ## The ghost `closed` -/

/-- once a purge has succeeded, every `Mint` / `MintTo` / `MintFor` fails — IN THE MODEL: this restates the first line of
`stepX` (the ghost `closed`). That a successful Purge is final on the real minters is validated by the harness only
(claims note (b): purge-then-mint directed cases + monitor). -/
theorem C03_closed_step (x : XState) (op : XOp) (hc : x.closed = true) (hm : op.mints = true) :
    stepX x op = .error .soldOut := by
  unfold stepX; simp [hc, hm]

/-- `closed` is exactly "a purge event has happened", it never resets, and no mint event follows a purge event -/
theorem C03_closed_iff_purged (x0 : XState) (hc : x0.closed = false) (ops : List XOp) :
    ((runX x0 ops).1.closed = true ↔ ∃ e ∈ (runX x0 ops).2, isPurge e = true) ∧
    (∀ pre post, (runX x0 ops).2 = pre ++ Event.purge :: post → ∀ e ∈ post, isMintEvent e = false) := by
  have := runX_inv (fun x es => (x.closed = true ↔ ∃ e ∈ es, isPurge e = true) ∧
      (∀ pre post, es = pre ++ Event.purge :: post → ∀ e ∈ post, isMintEvent e = false)) x0
    ⟨by simp [hc], by intro pre post h; simp at h⟩
    (by
      intro st es op x' e ⟨hiff, hseal⟩ hs
      obtain ⟨hb, hcl, hnm⟩ := stepX_ok hs
      obtain ⟨hme, hpe⟩ := event_of_op hb
      refine ⟨?_, ?_⟩
      · rw [hcl]
        constructor
        · intro h
          rcases Bool.or_eq_true _ _ |>.mp h with h1 | h1
          · obtain ⟨e', he', hp'⟩ := hiff.mp h1
            exact ⟨e', by simp [he'], hp'⟩
          · exact ⟨e, by simp, by rw [hpe]; exact h1⟩
        · rintro ⟨e', he', hp'⟩
          simp only [List.mem_append, List.mem_singleton] at he'
          rcases he' with he' | he'
          · simp [hiff.mpr ⟨e', he', hp'⟩]
          · subst he'; rw [hpe] at hp'; simp [hp']
      · intro pre post hdec e' he'
        rcases List.eq_nil_or_concat post with hnil | ⟨L, b, hL⟩
        · subst hnil; simp at he'
        · subst hL
          have hdec' : es ++ [e] = (pre ++ Event.purge :: L) ++ [b] := by simpa using hdec
          obtain ⟨h1, h2⟩ := List.append_inj' hdec' rfl
          have hb' : b = e := by simpa using h2.symm
          subst hb'
          have he'' : e' ∈ L ∨ e' = b := by simpa using he'
          rcases he'' with he' | he'
          · exact hseal pre L h1 e' he'
          · subst he'
            have hclosed : st.closed = true := hiff.mpr ⟨Event.purge, by rw [h1]; simp, rfl⟩
            rw [hme]; exact hnm hclosed) ops
  exact this

/-! ## Totals over whole traces, no reset -/

/-- Like `tally_bound`, for `runX`: a counter that successful steps bump by one on `hit` events (all of them mint events)
and that only a purge may reset; every `sub ⊆ hit` event happens while the counter is below the limit it carries.  Then
the number of `sub` events IN THE WHOLE TRACE is at most any bound on those limits — because nothing mints after a purge. -/
theorem total_bound (I : State → Prop) (m : State → Nat) (sub hit reset : Event → Bool) (lim : Event → Option Nat)
    (x0 : XState) (hI0 : I x0.base) (hm0 : m x0.base = 0) (_hc0 : x0.closed = false)
    (hsub : ∀ e, sub e = true → hit e = true)
    (hmint : ∀ e, hit e = true → isMintEvent e = true)
    (hreset : ∀ e, reset e = true → isPurge e = true)
    (hI : ∀ s op s' e, I s → step s op = .ok (s', e) → I s')
    (hstep : ∀ s op s' e, I s → step s op = .ok (s', e) →
      m s' = if reset e then 0 else if hit e then m s + 1 else m s)
    (hlt : ∀ s op s' e, I s → step s op = .ok (s', e) → sub e = true → ∀ B, lim e = some B → m s < B) :
    ∀ ops L, (∀ e ∈ (runX x0 ops).2, sub e = true → ∃ B, lim e = some B ∧ B ≤ L) →
      (runX x0 ops).2.countP sub ≤ L := by
  intro ops L
  have := runX_inv (fun x es => I x.base ∧ (x.closed = false → m x.base = es.countP hit) ∧
      es.countP sub ≤ es.countP hit ∧
      ((∀ e ∈ es, sub e = true → ∃ B, lim e = some B ∧ B ≤ L) → es.countP sub ≤ L)) x0
    ⟨hI0, by intro _; simp [hm0], by simp, by intro _; simp⟩
    (by
      intro st es op x' e ⟨hi, hm, hle, hb⟩ hs
      obtain ⟨hbs, hcl, hnm⟩ := stepX_ok hs
      obtain ⟨hme, hpe⟩ := event_of_op hbs
      have hsubhit : sub e = true → hit e = true := hsub e
      refine ⟨hI _ _ _ _ hi hbs, ?_, ?_, ?_⟩
      · intro hc'
        rw [hcl] at hc'
        have hc1 : st.closed = false := by cases h : st.closed <;> simp_all
        have hp1 : op.isPurge = false := by cases h : op.isPurge <;> simp_all
        have hr : reset e = false := by
          cases h : reset e
          · rfl
          · have := hreset e h; rw [hpe, hp1] at this; cases this
        rw [hstep _ _ _ _ hi hbs, hm hc1, List.countP_append]
        by_cases hh : hit e = true <;> simp [hr, hh]
      · rw [List.countP_append, List.countP_append]
        by_cases hsb : sub e = true
        · simp [hsb, hsubhit hsb]; omega
        · by_cases hh : hit e = true <;> simp [hsb, hh] <;> omega
      · intro hall
        have hprev := hb (fun y hy => hall y (by simp [hy]))
        rw [List.countP_append]
        by_cases hsb : sub e = true
        · obtain ⟨B, hB, hBL⟩ := hall e (by simp) hsb
          have hlt' := hlt _ _ _ _ hi hbs hsb B hB
          -- a `sub` event is a mint event, so the trace was not closed, so the counter is exact
          have hmt : isMintEvent e = true := hmint e (hsubhit hsb)
          have hc1 : st.closed = false := by
            cases h : st.closed
            · rfl
            · have := hnm h; rw [← hme, hmt] at this; cases this
          have := hm hc1
          simp [hsb]; omega
        · simp [hsb]; exact hprev) ops
  exact this.2.2.2

/-- **Clause 1 at full strength** — "No address ever completes more public mints than the per-address limit in force at
the time of each mint", over every trace, WITHOUT a purge exception: if `L` bounds the per-address limits that were in force
at `a`'s public mints, `a` completed at most `L` public mints in the whole trace. (Uses the ghost `closed`: nothing mints
after a successful purge — validated on the real minters by the harness, see `MintLimitsX.lean`.) -/
theorem C03_public_total (x0 : XState) (h0 : Fresh x0.base) (hc : x0.closed = false) (a : Addr) (ops : List XOp) (L : Nat)
    (hL : ∀ e ∈ (runX x0 ops).2, publicMintBy a e = true → ∃ B, publicLimitOf e = some B ∧ B ≤ L) :
    (runX x0 ops).2.countP (publicMintBy a) ≤ L :=
  total_bound (fun _ => True) (fun s => s.pub a) (publicMintBy a) (publicInitiatedBy a) isPurge publicLimitOf x0
    trivial (h0.1 a) hc
    (by intro e he; cases e <;> simp_all [publicMintBy, publicInitiatedBy])
    (by intro e he; cases e <;> simp_all [publicInitiatedBy, isMintEvent])
    (fun _ h => h)
    (fun _ _ _ _ _ _ => trivial) (fun s op s' e _ h => pub_step a s op s' e h)
    (by
      intro s op s' e _ h hsub B hB
      cases e with
      | publicMint b c L' =>
        have hb : b = a := by simpa [publicMintBy] using hsub
        obtain ⟨hc', hl, hlt, _⟩ := (step_effect h).1
        simp [publicLimitOf] at hB
        subst hb; omega
      | _ => simp [publicMintBy] at hsub)
    ops L hL

/-- with a constant limit `L`: at most `L` public mints per address, ever -/
theorem C03_public_total_const (x0 : XState) (h0 : Fresh x0.base) (hc : x0.closed = false) (a : Addr) (ops : List XOp)
    (L : Nat) (hL : ∀ e ∈ (runX x0 ops).2, ∀ c B, e = .publicMint a c B → B ≤ L) :
    (runX x0 ops).2.countP (publicMintBy a) ≤ L := by
  apply C03_public_total x0 h0 hc a ops L
  intro e he hp
  cases e with
  | publicMint b c B =>
    have hb : b = a := by simpa [publicMintBy] using hp
    subst hb
    exact ⟨B, rfl, hL _ he c B rfl⟩
  | _ => simp [publicMintBy] at hp

/-- **Clause 2 at full strength**, non-tiered whitelists (plain / flex / Merkle), every minter incl. the flex ones whose
`Purge` clears `WHITELIST_MINTER_ADDRS`: if `L` bounds the entitlements in force at `a`'s whitelist mints, `a` completed at
most `L` whitelist mints in the whole trace. (Like `C03_public_total` this uses the ghost `closed`: nothing mints after a
successful purge — a property of the model's `stepX`, validated on the real minters by the harness only.) -/
theorem C03_wl_total (x0 : XState) (h0 : Fresh x0.base) (hc : x0.closed = false) (a : Addr) (ops : List XOp) (L : Nat)
    (hL : ∀ e ∈ (runX x0 ops).2, wlMintBy a 0 e = true → ∃ B, entitlementOf e = some B ∧ B ≤ L) :
    (runX x0 ops).2.countP (wlMintBy a 0) ≤ L :=
  total_bound (fun s => s.kind = x0.base.kind) (fun s => s.wlc a) (wlMintBy a 0) (wlMintBy a 0)
    (fun e => isPurge e && decide (x0.base.kind.flavor = .flex)) entitlementOf x0 rfl (h0.2.1 a) hc
    (fun _ h => h)
    (by intro e he; cases e <;> simp_all [wlMintBy, isMintEvent])
    (by intro e he; simp at he; exact he.1)
    (fun s op s' e hk h => kind_inv x0.base.kind s op s' e hk h)
    (fun s op s' e hk h => wlc_step x0.base.kind a s op s' e hk h)
    (by
      intro s op s' e _ h hsub B hB
      cases e with
      | wlMint b sid cnt ent tot slim =>
        simp only [wlMintBy, Bool.and_eq_true, decide_eq_true_eq] at hsub
        obtain ⟨hlt, _, h0', _⟩ := (step_effect h).1
        obtain ⟨hc', _⟩ := h0' hsub.2
        simp [entitlementOf] at hB
        rw [← hsub.1, ← hc']; omega
      | _ => simp [wlMintBy] at hsub)
    ops L hL

/-- the trace-level theorems of `Props/C03.lean` about `run` carry over to `runX`: the events of `runX` are the events
of a `run` of the underlying operations that succeeded (so `C03_wl_history_stage`, `C03_stage_total_bound`,
`C03_counter_exact_*`, `C03_report_exact` apply verbatim to the driver's traces) -/
theorem C03_runX_refines (x0 : XState) (ops : List XOp) :
    ∃ ops' : List Op, run x0.base ops' = ((runX x0 ops).1.base, (runX x0 ops).2) := by
  have := runX_inv (fun x es => ∃ ops' : List Op, run x0.base ops' = (x.base, es)) x0 ⟨[], rfl⟩
    (by
      intro st es op x' e ⟨ops', hr⟩ hs
      obtain ⟨hb, _, _⟩ := stepX_ok hs
      refine ⟨ops' ++ [op.toOp], ?_⟩
      unfold run at hr ⊢
      rw [List.foldl_append, hr]
      simp [stepAcc, hb]) ops
  exact this

/-! ## Merkle: the entitlement is the allocation only for the verified leaf of THIS sender -/

/-- Clause 2, Merkle minters, with the leaf inside the model: a successful mint while the whitelist is active was checked
against the whitelist's own `per_address_limit`, or against the message's `allocation` — and then ONLY IF the whitelist
verified exactly the leaf `stage ‖ sender ‖ allocation` built from this sender's address and this allocation. -/
theorem C03_wl_step_leaf (x x' : XState) (a : Addr) (sb : List Nat) (f : Fields) (o : Oracle) (st pre : Bool) (e : Event)
    (h : stepX x (.mint a sb f o st pre) = .ok (x', e)) (hwl : x.base.wl ≠ none) (hact : o.view.active = true)
    (hk : x.base.kind.flavor = .merkle) :
    ∃ sid cnt ent tot slim, e = .wlMint a sid cnt ent tot slim ∧ cnt < ent ∧
      (ent = o.view.limit ∨ (o.verify (leafOf f sb) = true ∧ f.proof = true ∧ f.alloc = some ent)) := by
  obtain ⟨hb, _, _⟩ := stepX_ok h
  obtain ⟨sid, cnt, ent, tot, slim, he, hlt, _, _, _, _, hm⟩ :=
    C03_wl_step x.base x'.base a f (o.viewFor f sb) st pre e hb hwl hact
  exact ⟨sid, cnt, ent, tot, slim, he, hlt, hm hk⟩

/-- … hence, if the whitelist only verifies leaves of a tree whose entries were built for `(address, allocation)` pairs
(all addresses of one length, none starting with a digit), a mint whose entitlement was taken from the message was made by
an address IN the tree, with exactly the allocation the tree records for it: nobody can use somebody else's leaf, and
nobody can claim another allocation than its own. -/
theorem C03_leaf_not_transferable (x x' : XState) (a : Addr) (sb : List Nat) (f : Fields) (o : Oracle) (st pre : Bool)
    (sid cnt ent tot : Nat) (slim : Option Nat) (tree : List (Fields × List Nat))
    (h : stepX x (.mint a sb f o st pre) = .ok (x', .wlMint a sid cnt ent tot slim))
    (hwl : x.base.wl ≠ none) (hact : o.view.active = true) (hk : x.base.kind.flavor = .merkle)
    (hne : ent ≠ o.view.limit)
    (htree : ∀ l, o.verify l = true → ∃ t ∈ tree, l = leafOf t.1 t.2)
    (hshape : ∀ t ∈ tree, addrLike t.2 = true ∧ t.2.length = sb.length) (hsb : addrLike sb = true) :
    ∃ t ∈ tree, t.2 = sb ∧ t.1.alloc = some ent := by
  obtain ⟨sid', cnt', ent', tot', slim', he, _, hor⟩ := C03_wl_step_leaf x x' a sb f o st pre _ h hwl hact hk
  cases he
  rcases hor with h1 | ⟨hv, _, hal⟩
  · exact absurd h1 hne
  · obtain ⟨t, ht, hl⟩ := htree _ hv
    obtain ⟨h1, h2⟩ := hshape t ht
    obtain ⟨hs, halloc, _⟩ := C03_leaf_binds f t.1 sb t.2 hsb h1 h2.symm hl
    exact ⟨t, ht, hs.symm, by rw [← halloc, hal]⟩

/-! ## Tiered: the entitlement is the booked stage's own -/

/-- Clause 2, tiered whitelists on the plain and flex minters: the mint is booked under stage `sid = ActiveStageId`, the
sender's stored count for THAT stage is below `ent`, and — when the whitelist is coherent (its active-stage answers agree
with the record of stage `sid` itself; checked by the driver on every successful tiered mint, `coh=`) — `ent` is exactly
what stage `sid`'s own record grants the sender (`StageMemberInfo {stage_id: sid-1}`: its limit / flex `mint_count`, 0 for a
non-member). -/
theorem C03_wl_step_stage (x x' : XState) (a : Addr) (sb : List Nat) (f : Fields) (o : Oracle) (st pre : Bool) (e : Event)
    (h : stepX x (.mint a sb f o st pre) = .ok (x', e)) (hwl : x.base.wl ≠ none) (hact : o.view.active = true)
    (hk : x.base.kind.flavor ≠ .merkle) (r : Nat) (hr : o.stageEnt = some r)
    (hcoh : o.coherent x.base.kind.flavor = true) :
    ∃ sid cnt ent tot slim, e = .wlMint a sid cnt ent tot slim ∧ cnt < ent ∧ ent = r ∧
      (sid ≠ 0 → sid = o.view.stageId ∧ cnt = x.base.stg sid a ∧ x'.base.stg sid a = cnt + 1) := by
  obtain ⟨hb, _, _⟩ := stepX_ok h
  obtain ⟨sid, cnt, ent, tot, slim, he, hlt, _, hs, hp, hfl, _⟩ :=
    C03_wl_step x.base x'.base a f (o.viewFor f sb) st pre e hb hwl hact
  -- the gate let the sender through, so `HasMember` answered true
  have hmem : o.view.memberPlain = true := by
    subst he
    rcases step_mint hb with ⟨_, _, _, _, _, he'⟩ | ⟨_, _, _, _, _, hg, _, _, _⟩
    · cases he'
    · obtain ⟨id, wk, leaf, _, _, hm, _⟩ := gate_wl hg
      unfold membership at hm
      cases hfk : x.base.kind.flavor
      · simp [hfk] at hm; simpa [Oracle.viewFor] using hm.2.1
      · simp [hfk] at hm; simpa [Oracle.viewFor] using hm.2.1
      · exact absurd hfk hk
  refine ⟨sid, cnt, ent, tot, slim, he, hlt, ?_, ?_⟩
  · have hc : r = activeEnt x.base.kind.flavor o.view := by
      simpa [Oracle.coherent, hr] using hcoh
    rw [hc]
    cases hfk : x.base.kind.flavor
    · rw [hp hfk]; simp [activeEnt, hmem, Oracle.viewFor]
    · rw [hfl hfk]; simp [activeEnt, hmem, Oracle.viewFor]
    · exact absurd hfk hk
  · intro hne
    obtain ⟨h1, _, _, h4, h5⟩ := hs hne
    exact ⟨by simpa [Oracle.viewFor] using h1, h4, h5⟩

/-! ## Frame -/

/-- a mint only touches the SENDER's counters (and the stage total): every other address keeps all its counters -/
theorem C03_frame_mint (x x' : XState) (a : Addr) (sb : List Nat) (f : Fields) (o : Oracle) (st pre : Bool) (e : Event)
    (h : stepX x (.mint a sb f o st pre) = .ok (x', e)) (b : Addr) (hb : b ≠ a) :
    x'.base.pub b = x.base.pub b ∧ x'.base.wlc b = x.base.wlc b ∧ (∀ k, x'.base.stg k b = x.base.stg k b) ∧
    x'.base.limit = x.base.limit ∧ x'.base.wl = x.base.wl := by
  obtain ⟨hs, _, _⟩ := stepX_ok h
  rcases step_mint hs with ⟨_, _, _, _, hs', _⟩ | ⟨sid, cnt, _, _, _, _, _, _, hs'⟩
  · rw [hs']; simp [upd, hb]
  · rcases hs' with ⟨_, hs'⟩ | ⟨_, hs'⟩
    · rw [hs']; simp [upd, hb]
    · rw [hs']
      refine ⟨rfl, rfl, ?_, rfl, rfl⟩
      intro k
      by_cases hk : k = sid <;> simp [upd2, upd, hk, hb]

/-- every operation other than a mint (`hm`) and a Purge (`hp`): an airdrop only touches the ADMIN's public counter (hence
`b ≠ admin` for `pub`); `UpdatePerAddressLimit`, `SetWhitelist`, clock steps, whitelist-side edits, governance and every
other message leave every counter alone. Purge is NOT covered: it clears `pub` (and `wlc` on flex minters) for everyone. -/
theorem C03_frame_other (x x' : XState) (op : XOp) (e : Event) (h : stepX x op = .ok (x', e))
    (hm : ∀ a sb f o st pre, op ≠ .mint a sb f o st pre) (hp : op.isPurge = false) (b : Addr)
    (hb : b ≠ x.base.admin) :
    x'.base.pub b = x.base.pub b ∧ x'.base.wlc = x.base.wlc ∧ x'.base.stg = x.base.stg ∧ x'.base.tot = x.base.tot := by
  obtain ⟨hs, _, _⟩ := stepX_ok h
  cases op with
  | mint a sb f o st pre => exact absurd rfl (hm a sb f o st pre)
  | mintTo sender r forId pre =>
    obtain ⟨_, he, _, hfr, _⟩ := C03_airdrop_step x.base x'.base sender r forId pre e hs
    have heff := (step_effect hs).1
    rw [he] at heff
    obtain ⟨_, _, hw, hst, ht⟩ := heff
    exact ⟨hfr b hb, hw, hst, ht⟩
  | purge funds pre => simp [XOp.isPurge] at hp
  | setLimit sender n funds =>
    have heff := (step_effect hs).1
    rw [event_other hs rfl rfl] at heff
    exact ⟨by rw [heff.1], heff.2.1, heff.2.2.1, heff.2.2.2⟩
  | setWhitelist sender id wk funds started oa na pre =>
    have heff := (step_effect hs).1
    rw [event_other hs rfl rfl] at heff
    exact ⟨by rw [heff.1], heff.2.1, heff.2.2.1, heff.2.2.2⟩
  | env =>
    have heff := (step_effect hs).1
    rw [event_other hs rfl rfl] at heff
    exact ⟨by rw [heff.1], heff.2.1, heff.2.2.1, heff.2.2.2⟩
  | govern mp =>
    have heff := (step_effect hs).1
    rw [event_other hs rfl rfl] at heff
    exact ⟨by rw [heff.1], heff.2.1, heff.2.2.1, heff.2.2.2⟩

/-! ## Governance: the factory maximum is read live (round 3 follow-up)

`Op.govern maxPer` / `XOp.govern maxPer` = factory sudo `UpdateParams` (or factory `migrate` with params) replacing
`max_per_address_limit`. `C03_public_history`, `C03_wl_history*`, `C03_stage_total_*`, `C03_counter_exact_*`, `C03_report_exact`
(over `run`) and `C03_public_total`, `C03_wl_total`, `C03_closed_iff_purged` (over `runX`) quantify over ALL operation lists, so
they now hold for histories containing governance steps; `C03_limits_only_admin` bounds `n` by `s.maxPerAddr` of the state the
`UpdatePerAddressLimit` executes in, i.e. by the maximum in force at that moment. -/

/-- frame: governance replaces the factory maximum and touches NOTHING else — not the limit in force, not the attached
whitelist, no counter, not the admin; it always succeeds and is no mint / purge event -/
theorem C03_govern_frame (s s' : State) (mp : Nat) (e : Event) (h : step s (.govern mp) = .ok (s', e)) :
    s' = { s with maxPerAddr := mp } ∧ e = .other ∧ s'.limit = s.limit ∧ s'.wl = s.wl ∧ s'.pub = s.pub ∧ s'.wlc = s.wlc ∧
    s'.stg = s.stg ∧ s'.tot = s.tot ∧ s'.admin = s.admin ∧ s'.kind = s.kind := by
  simp only [step] at h
  cases h
  exact ⟨rfl, rfl, rfl, rfl, rfl, rfl, rfl, rfl, rfl, rfl⟩

theorem C03_govern_frame_X (x x' : XState) (mp : Nat) (e : Event) (h : stepX x (.govern mp) = .ok (x', e)) :
    x'.base = { x.base with maxPerAddr := mp } ∧ x'.closed = x.closed ∧ e = .other := by
  obtain ⟨hs, hc, _⟩ := stepX_ok h
  obtain ⟨h1, h2, _⟩ := C03_govern_frame x.base x'.base mp e hs
  exact ⟨h1, by simpa [XOp.isPurge] using hc, h2⟩

/-- state after the first operation (failed operations change nothing) -/
def step' (s : State) (op : Op) : State := (stepAcc (s, []) op).1

theorem run_fst_acc (ops : List Op) (a : State) (evs : List Event) :
    (ops.foldl stepAcc (a, evs)).1 = (ops.foldl stepAcc (a, [])).1 := by
  induction ops generalizing a evs with
  | nil => rfl
  | cons op ops ih =>
    simp only [List.foldl_cons]
    cases h : step a op with
    | error e => simp only [stepAcc, h]; exact ih a evs
    | ok p =>
      obtain ⟨a', e⟩ := p
      simp only [stepAcc, h]
      rw [ih a' (evs ++ [e]), ih a' ([] ++ [e])]

theorem run_cons_fst (s : State) (op : Op) (ops : List Op) : (run s (op :: ops)).1 = (run (step' s op) ops).1 := by
  simp only [run, List.foldl_cons]
  have : stepAcc (s, []) op = (step' s op, (stepAcc (s, []) op).2) := rfl
  rw [this, run_fst_acc]

theorem run_append_fst (s : State) (pre post : List Op) : (run s (pre ++ post)).1 = (run (run s pre).1 post).1 := by
  induction pre generalizing s with
  | nil => rfl
  | cons op pre ih => rw [List.cons_append, run_cons_fst, run_cons_fst, ih]

/-- **The limit in force moves only by the admin's UpdatePerAddressLimit within 1..=the factory maximum IN FORCE AT THAT
MOMENT** — over every history, including governance steps that raise or lower that maximum: the limit in force at the end is
the initial one, or there is a point of the history where the admin sent `UpdatePerAddressLimit n` with
`1 ≤ n ≤` the maximum the factory held right then (after all governance steps before it), and `n` is the final limit. -/
theorem C03_limit_in_force_history (s0 : State) (ops : List Op) :
    (run s0 ops).1.limit = s0.limit ∨
    ∃ pre n fu post, ops = pre ++ Op.setLimit (run s0 pre).1.admin n fu :: post ∧
      1 ≤ n ∧ n ≤ (run s0 pre).1.maxPerAddr ∧ (run s0 ops).1.limit = n := by
  induction ops generalizing s0 with
  | nil => left; rfl
  | cons op ops ih =>
    rw [run_cons_fst]
    rcases ih (step' s0 op) with h | ⟨pre, n, fu, post, hops, h1, h2, h3⟩
    · -- nothing after `op` moved it: did `op`?
      rw [h]
      cases hs : step s0 op with
      | error e => left; simp [step', stepAcc, hs]
      | ok p =>
        obtain ⟨s1, e⟩ := p
        have hs1 : step' s0 op = s1 := by simp [step', stepAcc, hs]
        rw [hs1]
        by_cases hne : s1.limit = s0.limit
        · left; exact hne
        · right
          obtain ⟨n, fu, hop, hn, hge, hle⟩ := (C03_limits_only_admin s0 s1 op e hs).1 hne
          refine ⟨[], n, fu, ops, ?_, hge, hle, hn⟩
          simp [run, hop]
    · right
      refine ⟨op :: pre, n, fu, post, ?_, h1, ?_, h3⟩
      · rw [run_cons_fst, List.cons_append, hops]
      · rw [run_cons_fst]; exact h2

/-- non-vacuity: maximum 3, limit 1. `UpdatePerAddressLimit 4` is refused; governance raises the maximum to 5 and the same
message is accepted; governance lowers it to 2 — the limit in force stays 4 — and now both 4 and 3 (the OLD maximum) are
refused while 2 is accepted. (open edition: no dynamic 3 % rule) -/
example :
    let s0 : State := { exMerkle with maxPerAddr := 3, limit := 1, wl := none }
    let ops := [Op.setLimit 10 4 false, Op.govern 5, Op.setLimit 10 4 false, Op.govern 2, Op.setLimit 10 4 false,
                Op.setLimit 10 3 false]
    (run s0 ops).1.limit = 4 ∧ (run s0 ops).1.maxPerAddr = 2 ∧ (run s0 ops).2.length = 3 ∧
    (run s0 (ops ++ [Op.setLimit 10 2 false])).1.limit = 2 := by
  decide

/-! ## Non-vacuity -/

def exX : XState := { base := { exTiered with wl := none } }

/-- limit 1: one public mint, the second is refused; a purge; then neither the buyer nor the admin can mint again, and
the per-address total over the whole trace is 1 although the counter was cleared -/
example :
    let o : Oracle := { view := {}, verify := fun _ => false }
    let ops := [XOp.mint 21 [97] {} o true true, XOp.mint 21 [97] {} o true true, XOp.purge false true,
                XOp.mint 21 [97] {} o true true, XOp.mintTo 10 22 false true, XOp.mint 22 [98] {} o true true]
    (runX exX ops).2 = [.publicMint 21 0 1, .purge] ∧ (runX exX ops).1.closed = true ∧
    (runX exX ops).1.base.pub 21 = 0 := by
  decide

/-- a verifying leaf for somebody else's address string does not verify for this sender -/
example :
    let tree : List Nat → Bool := fun l => l == leafOf { alloc := some 3 } [97, 98]
    let o : Oracle := { view := { active := true, limit := 1, merkleCfg := true }, verify := tree }
    let x : XState := { base := exMerkle }
    let ops := [XOp.mint 21 [97, 99] { proof := true, alloc := some 3 } o false true,
                XOp.mint 22 [97, 98] { proof := true, alloc := some 3 } o false true,
                XOp.mint 22 [97, 98] { proof := true, alloc := some 4 } o false true]
    (runX x ops).2.length = 1 ∧ (runX x ops).1.base.wlc 22 = 1 ∧ (runX x ops).1.base.wlc 21 = 0 := by
  simp [runX, stepAccX, stepX, XOp.toOp, XOp.mints, XOp.isPurge, step, gate, membership, entitlement, wlCount,
    Oracle.viewFor, leafOf, optDecimal, decimal, digitsRev, exMerkle, configOk, Fields.empty, MinterKind.flavor,
    MinterKind.isOE, Flavor.cfgShape, WlKind.cfgShape, WlKind.answersHasMemberProof, WlKind.tieredName, upd, zero]

end LP
