import LaunchpadModel.Lemmas.LaunchpadSystemOERefine
import LaunchpadModel.Lemmas.LaunchpadSystemOEGate
import LaunchpadModel.Lemmas.LaunchpadSystemOECounters
import LaunchpadModel.Lemmas.LaunchpadSystemOEEnd
import LaunchpadModel.Props.CompositeSystem
import LaunchpadModel.Props.CompositeOpenEdition
/-!
# The open-edition SYSTEM composite `LP.SysOE` (open-edition factory + open-edition minter + whitelist contracts, NO whitelist witness)

`LP.SysOE` (Model/LaunchpadSystemOE.lean) joins `LP.OE` and `LP.WF` exactly as `LP.Sys` joins `LP.VF` and `LP.WF`: one clock, one
bank, the minter-side state and a table of whitelist contracts; the `WlInfo` / `SenderView` the minter model expects are COMPUTED
from the whitelist states by `Sys.wlInfoOf` / `Sys.senderViewOf` (the open-edition minters ask the same questions as the vending
ones, so the two functions and every lemma about them are reused).

## (a) `SysOE` refines both halves

* minter side — `C03_sysoe_refines_minter_step`, `…_foreign_step`, `…_run`, `C03_sysoe_refresh_inputs`, `C03_sysoe_mint_inputs`,
  `C03_sysoe_minter_invariant`;
* whitelist side — `C04_sysoe_refines_whitelist_own`, `…_other`, `…_run`, `C04_sysoe_whitelist_invariant`.

## (b) end-to-end theorems, for every accepted buyer's mint of every system state (hence of every history — `C04_sysoe_history`)

* **entitlement** `C04_sysoe_entitlement_list`, `C14_sysoe_entitlement_merkle` (+ `C14_sysoe_entitlement_sound_plain / _tiered`;
  the leaf binds the sender: `C14_sys_leaf_binds_sender` is about `Sys.leafOf` and applies as it stands);
* **limit** `C03_sysoe_limit_step`, `C03_sysoe_limit_history`;
* **price** `C07_sysoe_price`;
* **schedule** `C04_sysoe_schedule`, `C04_sysoe_window_iff`;
* **end time** (open-edition specific) `C04_sysoe_no_mint_at_or_after_end`, `C04_sysoe_history_before_end`,
  `C04_sysoe_ended_is_final`, `C04_sysoe_closed_forever`: no `Mint` (whitelist
  or public) and no `MintTo` is accepted at or after `end_time`, in any state of any system history — also while the attached
  whitelist is still active.

Whitelist-side vocabulary (`Sys.InWindow`, `Sys.stagePrice`, `Sys.stagePal`, `Sys.storedLimit`, `Sys.activeMap`, `Sys.activeRoot`)
reads ONLY the whitelist's stored fields and is the one of `Props/CompositeSystem.lean`.
-/
namespace LP

/-! ## (a) minter side -/

/-- **`SysOE` refines `OE`, one step.** Every clock / `fund` / factory / minter / collection op and every buyer's mint of the system
is, on the minter-side projection `oeOf`, the `OE` run of `oeOps`: the `OE` op itself — a mint with its `SenderView` computed by
`senderViewOf` from the attached whitelist's state — then the interface refresh. -/
theorem C03_sysoe_refines_minter_step (s : SysOE.State) (op : SysOE.Op) (h : SysOE.isWlOp op = false) :
    SysOE.oeOf (SysOE.step' s op) = OE.run (SysOE.oeOf s) (SysOE.oeOps s op) :=
  SysOE.oe_step_minter s op h

/-- a whitelist transaction is, for the minter side, a bank movement outside the `OE` family followed by the interface refresh -/
theorem C03_sysoe_refines_minter_foreign_step (s : SysOE.State) (op : SysOE.Op) (h : SysOE.isWlOp op = true) :
    SysOE.oeOf (SysOE.step' s op) = OE.run { SysOE.oeOf s with bank := (SysOE.step' s op).bank } (SysOE.oeOps s op) :=
  SysOE.oe_step_wl s op h

/-- the interface inputs of the projected `OE` run are exactly `wlInfoOf` of the whitelist states: every refresh op is
`wlEnv k (some (wlInfoOf now w))` for a contract `(k, w)` of the table -/
theorem C03_sysoe_refresh_inputs (now : Nat) (tbl : List (Addr × WF.Wl)) :
    ∀ o ∈ SysOE.refreshOps now tbl, ∃ k w, (k, w) ∈ tbl ∧ o = OE.Op.wlEnv k (some (Sys.wlInfoOf now w)) := by
  induction tbl with
  | nil => intro o ho; simp [SysOE.refreshOps] at ho
  | cons x rest ih =>
    obtain ⟨k, w⟩ := x
    intro o ho
    simp only [SysOE.refreshOps, List.mem_append, List.mem_singleton] at ho
    rcases ho with ho | rfl
    · obtain ⟨k', w', hm, rfl⟩ := ih o ho
      exact ⟨k', w', List.mem_cons_of_mem _ hm, rfl⟩
    · exact ⟨k, w, List.mem_cons_self, rfl⟩

/-- … and the `SenderView` of a projected mint is `senderViewOf` of the state of the contract at the attached address -/
theorem C03_sysoe_mint_inputs (s : SysOE.State) (m : OE.Minter) (a : Addr) (w : WF.Wl) (hm : s.minter = some m)
    (ha : m.whitelist = some a) (hf : Sys.find s.wls a = some w) (sender : Addr) (funds : List Coin) (stage alloc : Option Nat)
    (proof : Option (List (List Nat))) :
    SysOE.mintOp s sender funds stage alloc proof =
      .mint sender funds (Sys.fieldsOf stage alloc proof) (Sys.senderViewOf s.now w sender stage alloc proof) := by
  simp [SysOE.mintOp, Sys.fieldsOf, SysOE.mintView_eq hm ha hf]

/-- **`SysOE` refines `OE`, runs.** -/
theorem C03_sysoe_refines_minter_run (s : SysOE.State) (ops : List SysOE.Op) :
    SysOE.OEReach (SysOE.oeOf s) (SysOE.oeOf (SysOE.run s ops)) :=
  SysOE.oe_run s ops

/-- every property of `OE` states that every `OE` step preserves and that does not read balances holds along every system run -/
theorem C03_sysoe_minter_invariant (P : OE.State → Prop) (hstep : ∀ c op, P c → P (OE.step' c op))
    (hbank : ∀ (c : OE.State) (b : MintPay.Bank), P c → P { c with bank := b }) (s : SysOE.State) (h0 : P (SysOE.oeOf s))
    (ops : List SysOE.Op) : P (SysOE.oeOf (SysOE.run s ops)) :=
  SysOE.oeReach_inv P hstep hbank h0 (SysOE.oe_run s ops)

/-! ## (a) whitelist side -/

/-- **`SysOE` refines `WF`, own steps**: the clock, `fund`, and every `instantiate` / `execute` addressed to the contract at `k`
is exactly that `WF.step'` on the projection `wfOf · k` -/
theorem C04_sysoe_refines_whitelist_own (s : SysOE.State) (op : SysOE.Op) (k : Addr) (wop : WF.Op) (h : SysOE.wfOps k s op = [wop]) :
    SysOE.wfOf (SysOE.step' s op) k = WF.step' (SysOE.wfOf s k) wop :=
  SysOE.wf_step_own s op k wop h

/-- … and every other system op changes at most the bank component -/
theorem C04_sysoe_refines_whitelist_other (s : SysOE.State) (op : SysOE.Op) (k : Addr) (h : SysOE.wfOps k s op = []) :
    SysOE.wfOf (SysOE.step' s op) k = { SysOE.wfOf s k with bank := (SysOE.step' s op).bank } :=
  SysOE.wf_step_other s op k h

theorem C04_sysoe_refines_whitelist_run (s : SysOE.State) (ops : List SysOE.Op) (k : Addr) :
    SysOE.WFReach (SysOE.wfOf s k) (SysOE.wfOf (SysOE.run s ops) k) :=
  SysOE.wf_run s ops k

theorem C04_sysoe_whitelist_invariant (P : WF.State → Prop) (hstep : ∀ c op, P c → P (WF.step' c op))
    (hbank : ∀ (c : WF.State) (b : MintPay.Bank), P c → P { c with bank := b }) (s : SysOE.State) (k : Addr)
    (h0 : P (SysOE.wfOf s k)) (ops : List SysOE.Op) : P (SysOE.wfOf (SysOE.run s ops) k) :=
  SysOE.wfReach_inv P hstep hbank h0 (SysOE.wf_run s ops k)

/-! ## (b) vocabulary -/

namespace SysOE
open LP.Sys (find fieldsOf)

/-- An accepted buyer's mint that the minter booked on a WHITELIST counter: `m` = the minter before the mint, `a` = the attached
whitelist address, `w` = the state of the contract stored there, `sid` = 0 (`WHITELIST_MINTER_ADDRS`) or the tiered stage id
1..3 (`WHITELIST_{FS,SS,TS}_MINTER_ADDRS`), `cnt` = the sender's stored count on that counter before the mint. -/
structure WlMint (s s' : State) (sender : Addr) (funds : List Coin) (stage alloc : Option Nat)
    (proof : Option (List (List Nat))) (m : OE.Minter) (a : Addr) (w : WF.Wl) (sid cnt : Nat) : Prop where
  ok : step s (.mint sender funds stage alloc proof) = .ok s'
  minter : s.minter = some m
  attached : m.whitelist = some a
  contract : find s.wls a = some w
  booked : OE.isPublicMint (oeOf s) m sender (fieldsOf stage alloc proof) (mintView s sender stage alloc proof) = .ok (.wl sid cnt)

/-- every accepted buyer's mint is a whitelist mint or a public one -/
theorem mint_classify {s s' : State} {sender : Addr} {funds : List Coin} {stage alloc : Option Nat}
    {proof : Option (List (List Nat))} (h : step s (.mint sender funds stage alloc proof) = .ok s') :
    (∃ m a w sid cnt, WlMint s s' sender funds stage alloc proof m a w sid cnt) ∨
    (∃ m, s.minter = some m ∧
      OE.isPublicMint (oeOf s) m sender (fieldsOf stage alloc proof) (mintView s sender stage alloc proof) = .ok .pub) := by
  obtain ⟨m, g, _, _, hm, hg, _⟩ := mint_ok h
  cases g with
  | pub => exact Or.inr ⟨m, hm, hg⟩
  | wl sid cnt =>
    obtain ⟨a, w, ha, hf, _⟩ := wl_branch hm hg
    exact Or.inl ⟨m, a, w, sid, cnt, ⟨h, hm, ha, hf, hg⟩⟩

end SysOE

/-! ## (b) entitlement -/

/-- **Entitlement, list kinds.** Every whitelist mint accepted by the system through a list-based whitelist was sent by an
address that IS STORED as a member in the whitelist's own state at that block: in the only member map (single-stage crates), in
the slice of the stage that is active at that block (tiered crates) — by C11's membership-iff theorems applied to the query
the minter made, not by the minter's word. -/
theorem C04_sysoe_entitlement_list {s s' : SysOE.State} {sender : Addr} {funds : List Coin} {stage alloc : Option Nat}
    {proof : Option (List (List Nat))} {m : OE.Minter} {a : Addr} {w : WF.Wl} {sid cnt : Nat}
    (h : SysOE.WlMint s s' sender funds stage alloc proof m a w sid cnt) (hl : w.v.store = .list) :
    (w.v.tiered = false → sender ∈ WlMembers.keys w.members) ∧
    (w.v.tiered = true → ∃ i, WF.activeIdx w s.now = some i ∧ sender ∈ WlMembers.keys (WF.mapOf w i)) := by
  obtain ⟨a', w', ha', hf', _, _, hchk⟩ := SysOE.wl_branch h.minter h.booked
  rw [h.attached] at ha'; cases ha'
  rw [h.contract] at hf'; cases hf'
  obtain ⟨leaf, _, _, _, hmem, _⟩ := OE.wlMintChecks_ok hchk
  have hq : WF.qHasMember w s.now sender = some true := by
    rcases SysOE.hasMember_inv hmem with ⟨_, _, _, hk, _⟩ | ⟨_, _, _, hsv⟩
    · rw [Sys.info_kind, Sys.kind_answersHasMemberProof, hl] at hk; cases hk
    · exact Sys.sv_memberPlain hsv
  constructor
  · intro ht; exact (C11_full_has_member_iff_flat hl ht s.now sender true hq).1 rfl
  · intro ht; exact (C11_full_has_member_iff_tiered hl ht s.now sender true hq).1 rfl

/-- **Entitlement, Merkle kinds.** Every whitelist mint accepted through a Merkle whitelist presented a proof that verifies —
with the crate's hash — against the root STORED for the stage active at that block, for the leaf
`stage ‖ <the SENDER's address> ‖ allocation` built from the message fields. -/
theorem C14_sysoe_entitlement_merkle {s s' : SysOE.State} {sender : Addr} {funds : List Coin} {stage alloc : Option Nat}
    {proof : Option (List (List Nat))} {m : OE.Minter} {a : Addr} {w : WF.Wl} {sid cnt : Nat}
    (h : SysOE.WlMint s s' sender funds stage alloc proof m a w sid cnt) (hk : w.v.store = .merkle) :
    ∃ p r, proof = some p ∧ Sys.activeRoot w s.now = some r ∧
      Merkle.hasMember w.v.hash w.v.digest r (Sys.leafOf sender stage alloc) p = some true ∧
      (w.v.tiered = false → w.roots = [r] ∧ Merkle.hasMember Sha256.sha256 32 r (Sys.leafOf sender stage alloc) p = some true) ∧
      (w.v.tiered = true → ∃ i, WF.activeIdx w s.now = some i ∧ w.roots[i]? = some r ∧
        Merkle.hasMember Blake3.blake3_16 16 r (Sys.leafOf sender stage alloc) p = some true) := by
  obtain ⟨a', w', ha', hf', _, _, hchk⟩ := SysOE.wl_branch h.minter h.booked
  rw [h.attached] at ha'; cases ha'
  rw [h.contract] at hf'; cases hf'
  obtain ⟨leaf, _, _, _, hmem, _⟩ := OE.wlMintChecks_ok hchk
  rcases SysOE.hasMember_inv hmem with ⟨_, _, _, _, hsv⟩ | ⟨_, _, hk', _⟩
  · obtain ⟨p, hp, hq⟩ := Sys.sv_leafOk hsv
    obtain ⟨_, r, hr, hv⟩ := Sys.qHasMemberMerkle_root hq
    refine ⟨p, r, hp, hr, hv, ?_, ?_⟩
    · intro ht
      have hroots : w.roots = [r] := by
        simp only [Sys.activeRoot, ht, Bool.false_eq_true, if_false] at hr
        split at hr
        · rename_i r' hr'; cases hr; exact hr'
        · cases hr
      refine ⟨hroots, ?_⟩
      rw [← C14_full_plain_query hk ht hroots s.now]; exact hq
    · intro ht
      simp only [Sys.activeRoot, ht, if_true] at hr
      cases hi : WF.activeIdx w s.now with
      | none => simp [hi] at hr
      | some i =>
        simp only [hi, Option.bind_some] at hr
        refine ⟨i, rfl, hr, ?_⟩
        rw [← C14_full_tiered_active_root hk ht s.now i r _ p hi hr]; exact hq
  · rw [Sys.info_kind, Sys.kind_answersHasMember, hk] at hk'; cases hk'

/-- soundness down to the member list the root was built from (single-stage, SHA-256): the SENDER's own leaf is listed, or a
SHA-256 collision among the strings of this tree and this proof is exhibited (C14's `_full_sound_plain`) -/
theorem C14_sysoe_entitlement_sound_plain {s s' : SysOE.State} {sender : Addr} {funds : List Coin} {stage alloc : Option Nat}
    {proof : Option (List (List Nat))} {m : OE.Minter} {a : Addr} {w : WF.Wl} {sid cnt : Nat}
    (h : SysOE.WlMint s s' sender funds stage alloc proof m a w sid cnt) (hk : w.v.store = .merkle)
    (ht : w.v.tiered = false) (members : List Merkle.Bytes) (r : Merkle.Bytes)
    (hr : Merkle.layeredRoot Sha256.sha256 members = some r) (hroot : w.roots = [Merkle.hexEncode r])
    (hleaf : ∀ x ∈ members, x.length ≠ 64) (hml : (Sys.leafOf sender stage alloc).length ≠ 64) :
    ∃ p, proof = some p ∧ (Sys.leafOf sender stage alloc ∈ members ∨
      QueryCollision Sha256.sha256 32 members (Sys.leafOf sender stage alloc) p) := by
  obtain ⟨p, r', hp, _, _, h1, _⟩ := C14_sysoe_entitlement_merkle h hk
  obtain ⟨hroots, hv⟩ := h1 ht
  rw [hroot] at hroots
  simp only [List.cons.injEq, and_true] at hroots
  subst hroots
  refine ⟨p, hp, ?_⟩
  have hq : WF.qHasMemberMerkle w s.now (Sys.leafOf sender stage alloc) p = some true := by
    rw [C14_full_plain_query hk ht hroot s.now]; exact hv
  exact C14_full_sound_plain hk ht members r hr hroot hleaf _ hml p s.now hq

/-- … and for the tiered Merkle crate (BLAKE3-16): the ACTIVE stage's list -/
theorem C14_sysoe_entitlement_sound_tiered {s s' : SysOE.State} {sender : Addr} {funds : List Coin} {stage alloc : Option Nat}
    {proof : Option (List (List Nat))} {m : OE.Minter} {a : Addr} {w : WF.Wl} {sid cnt : Nat}
    (h : SysOE.WlMint s s' sender funds stage alloc proof m a w sid cnt) (hk : w.v.store = .merkle)
    (ht : w.v.tiered = true) (i : Nat) (hi : WF.activeIdx w s.now = some i) (members : List Merkle.Bytes) (r : Merkle.Bytes)
    (hr : Merkle.layeredRoot Blake3.blake3_16 members = some r) (hroot : w.roots[i]? = some (Merkle.hexEncode r))
    (hleaf : ∀ x ∈ members, x.length ≠ 32) (hml : (Sys.leafOf sender stage alloc).length ≠ 32) :
    ∃ p, proof = some p ∧ (Sys.leafOf sender stage alloc ∈ members ∨
      QueryCollision Blake3.blake3_16 16 members (Sys.leafOf sender stage alloc) p) := by
  obtain ⟨p, r', hp, _, _, _, h2⟩ := C14_sysoe_entitlement_merkle h hk
  obtain ⟨i', hi', hr', hv⟩ := h2 ht
  rw [hi] at hi'; cases hi'
  rw [hroot] at hr'; cases hr'
  refine ⟨p, hp, ?_⟩
  have hq : WF.qHasMemberMerkle w s.now (Sys.leafOf sender stage alloc) p = some true := by
    rw [C14_full_tiered_active_root hk ht s.now i _ _ p hi hroot]; exact hv
  exact C14_full_sound_tiered hk ht s.now i members r hi hr hroot hleaf _ hml p hq

/-! ## (b) limit -/

/-- **Limit, one mint.** At every accepted whitelist mint the sender's stored count on the counter the mint is booked under
(`WHITELIST_MINTER_ADDRS`, or the FS/SS/TS map of the ACTIVE stage `i`, booked as `sid = i + 1`) is strictly below what the
whitelist's own state grants the sender in that stage at that block (`Sys.storedLimit`: the stage's stored `per_address_limit`;
-wl-flex: the `mint_count` stored with the member; -merkle-wl: the allocation of the proved leaf, else the stored per-address
limit), and the mint raises exactly that count by one. Open-edition specific: an UNCAPPED -wl-flex edition additionally keeps
that count below the minter's own `per_address_limit`. -/
theorem C03_sysoe_limit_step {s s' : SysOE.State} {sender : Addr} {funds : List Coin} {stage alloc : Option Nat}
    {proof : Option (List (List Nat))} {m : OE.Minter} {a : Addr} {w : WF.Wl} {sid cnt : Nat}
    (h : SysOE.WlMint s s' sender funds stage alloc proof m a w sid cnt) :
    ∃ L, Sys.storedLimit w s.now sender alloc = some L ∧ cnt < L ∧
      cnt = (if w.v.tiered then m.stg sid sender else m.wlc sender) ∧
      (w.v.tiered = true → ∃ i, WF.activeIdx w s.now = some i ∧ sid = i + 1) ∧
      (w.v.tiered = false → sid = 0) ∧
      (m.v.flavor = .flex → m.numTokens = none → cnt < m.perAddressLimit) ∧
      ∃ m', s'.minter = some m' ∧ (if w.v.tiered then m'.stg sid sender else m'.wlc sender) = cnt + 1 := by
  obtain ⟨a', w', ha', hf', hok, hact, hchk⟩ := SysOE.wl_branch h.minter h.booked
  rw [h.attached] at ha'; cases ha'
  rw [h.contract] at hf'; cases hf'
  obtain ⟨leaf, cnt', sid', ent, hmem, hcnt, hoe, hent, hlt, hg, _⟩ := OE.wlMintChecks_ok hchk
  simp only [VF.MintKind.wl.injEq] at hg
  obtain ⟨rfl, rfl⟩ := hg
  have hni := Sys.configOk_not_immutable _ _ hok
  obtain ⟨_, hpal, hflex0⟩ := Sys.active_stored hact
  have hflex := Sys.configOk_flex _ _ hok
  -- the counter the mint is booked under
  have hctr : (w.v.tiered = true → ∃ i, WF.activeIdx w s.now = some i ∧ sid = i + 1 ∧ cnt = m.stg sid sender) ∧
      (w.v.tiered = false → sid = 0 ∧ cnt = m.wlc sender) := by
    rcases SysOE.wmc_inv hcnt with ⟨htn, h1, _, hc, hs⟩ | ⟨htn, hc, hs⟩
    · rw [Sys.info_kind, Sys.kind_tieredName] at htn
      rw [Sys.info_stageId_tiered hni htn.2] at h1 hs hc
      refine ⟨fun _ => ?_, fun hf => by rw [htn.2] at hf; cases hf⟩
      cases hi : WF.activeIdx w s.now with
      | none => simp [hi] at h1
      | some i =>
        simp only [hi] at hs hc
        exact ⟨i, rfl, hs, by rw [hs]; exact hc⟩
    · have htf : w.v.tiered = false := by
        cases hq : w.v.tiered with
        | false => rfl
        | true =>
          have : (Sys.wlKindOf w.v).tieredName = true := (Sys.kind_tieredName w.v).2 ⟨hni, hq⟩
          rw [Sys.info_kind] at htn; rw [htn] at this; cases this
      exact ⟨fun hx => (by rw [htf] at hx; cases hx), fun _ => ⟨hs, hc⟩⟩
  -- what the whitelist's state grants
  have hL : ∃ L, Sys.storedLimit w s.now sender alloc = some L ∧ cnt < L := by
    rcases SysOE.hasMember_inv hmem with ⟨hleaf, hfl, _, hk, _⟩ | ⟨hleaf, hnm, hk, _⟩
    · rw [Sys.info_kind, Sys.kind_answersHasMemberProof] at hk
      rcases SysOE.ent_inv hent with ⟨hp, _⟩ | ⟨hfx, _, _⟩ | ⟨_, he⟩
      · rw [hfl] at hp; cases hp
      · rw [hfl] at hfx; cases hfx
      · simp only [Sys.fieldsOf] at he
        cases alloc with
        | some n =>
          simp only [Option.getD_some] at he
          exact ⟨n, by simp [Sys.storedLimit, hk], by rw [← he]; exact hlt⟩
        | none =>
          simp only [Option.getD_none] at he
          cases hq : w.v.flex with
          | true => rw [he, hflex0 hq] at hlt; omega
          | false => exact ⟨(Sys.wlInfoOf s.now w).limit, by simp [Sys.storedLimit, hk, hpal hq], by rw [← he]; exact hlt⟩
    · rw [Sys.info_kind, Sys.kind_answersHasMember] at hk
      rcases SysOE.ent_inv hent with ⟨hp, he⟩ | ⟨hfx, _, he⟩ | ⟨hmk, _⟩
      · have hq : w.v.flex = false := by
          cases hq : w.v.flex with
          | false => rfl
          | true => have := hflex.2 ⟨hq, hk⟩; rw [hp] at this; cases this
        exact ⟨(Sys.wlInfoOf s.now w).limit, by simp [Sys.storedLimit, hk, hq, hpal hq], by rw [← he]; exact hlt⟩
      · have hq : w.v.flex = true := (hflex.1 hfx).1
        have hpos : 0 < (Sys.senderViewOf s.now w sender stage alloc proof).memberCount := by omega
        obtain ⟨_, _, mp, hmp, hget⟩ := Sys.qMember_stored (Sys.sv_memberCount hpos)
        exact ⟨ent, by simp [Sys.storedLimit, hk, hq, hmp, hget, he], hlt⟩
      · exact absurd hmk hnm
  -- what the mint writes
  obtain ⟨m0, g, _, m', hm0, hg0, _, _, _, _, hm', _, hwlc, hstg, _⟩ := SysOE.mint_ok h.ok
  rw [h.minter] at hm0; cases hm0
  rw [h.booked] at hg0; cases hg0
  obtain ⟨L, hL1, hL2⟩ := hL
  refine ⟨L, hL1, hL2, ?_, fun ht => ?_, fun ht => (hctr.2 ht).1, hoe, m', hm', ?_⟩
  · cases ht : w.v.tiered with
    | true => obtain ⟨_, _, _, hc⟩ := hctr.1 ht; simp [hc]
    | false => simp [(hctr.2 ht).2]
  · obtain ⟨i, hi, hs, _⟩ := hctr.1 ht; exact ⟨i, hi, hs⟩
  · cases ht : w.v.tiered with
    | true =>
      obtain ⟨i, _, hs, _⟩ := hctr.1 ht
      have hne : sid ≠ 0 := by omega
      simp only [if_true, hstg, OE.bookCount, hne, if_false, MintLimits.upd2, MintLimits.upd]
    | false =>
      have hs := (hctr.2 ht).1
      simp [hwlc, OE.bookCount, hs, MintLimits.upd]

namespace SysOE
open LP.Sys (find fieldsOf storedLimit)

/-- the sender's stored count on whitelist counter `sid` (0 = `WHITELIST_MINTER_ADDRS`, 1..3 = the stage maps) -/
def ctr (s : State) (sid : Nat) (a : Addr) : Nat :=
  match s.minter with
  | some m => if sid = 0 then m.wlc a else m.stg sid a
  | none => 0

/-- along the history `ops` from `s`: whenever `a` gets a whitelist mint booked under counter `sid` accepted, what the
whitelist's state grants `a` at that block is at most `L` -/
def LimitsBelow (a : Addr) (sid L : Nat) : State → List Op → Prop
  | _, [] => True
  | s, op :: ops =>
    (∀ s' funds stage alloc proof m wa w cnt, op = .mint a funds stage alloc proof →
      WlMint s s' a funds stage alloc proof m wa w sid cnt →
      ∀ L', storedLimit w s.now a alloc = some L' → L' ≤ L) ∧
    LimitsBelow a sid L (step' s op) ops

theorem ctr_step (s : State) (op : Op) (a : Addr) (sid L : Nat) (hb : LimitsBelow a sid L s [op]) :
    ctr (step' s op) sid a ≤ max (ctr s sid a) L := by
  by_cases hacc : ∃ e, step s op = .error e
  · obtain ⟨e, he⟩ := hacc
    rw [step'_err he]; exact Nat.le_max_left _ _
  obtain ⟨s', hs⟩ : ∃ s', step s op = .ok s' := by
    cases hx : step s op with
    | ok s' => exact ⟨s', rfl⟩
    | error e => exact absurd ⟨e, hx⟩ hacc
  rw [step'_ok hs]
  cases op with
  | minter o =>
    obtain ⟨hw, c, hc, rfl⟩ := step_minter_ok hs
    have hnm : ∀ sender funds f sv, o ≠ .mint sender funds f sv := by
      intro sender funds f sv ho; subst ho; simp [witnessed] at hw
    cases hm : s.minter with
    | none =>
      cases hm' : c.minter with
      | none => simp [ctr, hm']
      | some m' =>
        obtain ⟨h1, h2⟩ := oe_counters_fresh hc (by simpa using hm) hm'
        simp [ctr, hm', h1, h2, MintLimits.zero]
    | some m =>
      obtain ⟨m', hm'⟩ := oe_minter_stays hc (by simpa using hm)
      obtain ⟨h1, h2⟩ := oe_counters_frame hc (by simpa using hm) hm' hnm
      simp only [ctr, setOe_minter, hm', hm]
      by_cases h0 : sid = 0
      · simp only [h0, if_true]
        rcases h2 with h2 | h2
        · rw [h2]; exact Nat.le_max_left _ _
        · rw [h2]; simp [MintLimits.zero]
      · simp only [h0, if_false, h1]; exact Nat.le_max_left _ _
  | mint sender funds stage alloc proof =>
    obtain ⟨m, g, _, m', hm, hg, _, _, _, _, hm', _, hwlc, hstg, _⟩ := mint_ok hs
    simp only [ctr, hm, hm']
    cases g with
    | pub =>
      simp only [hwlc, hstg, OE.bookCount]; exact Nat.le_max_left _ _
    | wl sid' cnt =>
      obtain ⟨wa, w, ha, hf, _⟩ := wl_branch hm hg
      have hwm : WlMint s s' sender funds stage alloc proof m wa w sid' cnt := ⟨hs, hm, ha, hf, hg⟩
      obtain ⟨L', hL1, hL2, hcnt, _, hflat, _, m'', hm'', hpost⟩ := C03_sysoe_limit_step hwm
      rw [hm'] at hm''; cases hm''
      by_cases hsame : sender = a ∧ sid' = sid
      · obtain ⟨rfl, rfl⟩ := hsame
        have hle : L' ≤ L := hb.1 s' funds stage alloc proof m wa w cnt rfl hwm L' hL1
        have hnew : (if sid' = 0 then m'.wlc sender else m'.stg sid' sender) = cnt + 1 := by
          cases ht : w.v.tiered with
          | false =>
            have h0 := hflat ht
            simp only [ht, Bool.false_eq_true, if_false] at hpost
            simp [h0, hpost]
          | true =>
            simp only [ht, if_true] at hpost
            have hne : sid' ≠ 0 := by
              intro h0
              simp only [hstg, OE.bookCount, h0, if_true] at hpost
              simp only [ht, if_true, h0] at hcnt
              omega
            simp [hne, hpost]
        rw [hnew]
        have : cnt + 1 ≤ L := by omega
        exact Nat.le_trans this (Nat.le_max_right _ _)
      · -- another address or another counter: this entry is untouched
        have hun : (if sid = 0 then m'.wlc a else m'.stg sid a) = (if sid = 0 then m.wlc a else m.stg sid a) := by
          simp only [hwlc, hstg, OE.bookCount]
          by_cases h0 : sid' = 0
          · simp only [h0, if_true]
            by_cases hs0 : sid = 0
            · simp only [hs0, if_true, MintLimits.upd]
              have : ¬ a = sender := fun hx => hsame ⟨hx.symm, by omega⟩
              simp [this]
            · simp [hs0]
          · simp only [h0, if_false]
            by_cases hs0 : sid = 0
            · simp [hs0]
            · simp only [hs0, if_false, MintLimits.upd2]
              by_cases hk : sid = sid'
              · subst hk
                have : ¬ a = sender := fun hx => hsame ⟨hx.symm, rfl⟩
                simp [MintLimits.upd, this]
              · simp [hk]
        rw [hun]; exact Nat.le_max_left _ _
  | wlInst v sender funds self m =>
    obtain ⟨_, r, w, _, _, _, rfl⟩ := step_wlInst_ok hs
    exact Nat.le_max_left _ _
  | wlExec k sender funds m =>
    obtain ⟨w, r, w', _, _, _, _, rfl⟩ := step_wlExec_ok hs
    exact Nat.le_max_left _ _

end SysOE

/-- **Limit, all histories.** Over every system history (any interleaving of clock moves, factory / minter / collection messages,
whitelist instantiates and whitelist-admin edits, mints by anybody): the number stored for address `a` on whitelist counter `sid`
never exceeds `max(its initial value, L)` for any bound `L` on what the whitelist's own state granted `a` at the blocks of `a`'s
accepted whitelist mints under `sid` — from a fresh chain (`SysOE.init`, counter 0) it never exceeds that grant. -/
theorem C03_sysoe_limit_history (a : Addr) (sid L : Nat) (s : SysOE.State) (ops : List SysOE.Op)
    (hb : SysOE.LimitsBelow a sid L s ops) : SysOE.ctr (SysOE.run s ops) sid a ≤ max (SysOE.ctr s sid a) L := by
  induction ops generalizing s with
  | nil => exact Nat.le_max_left _ _
  | cons op ops ih =>
    rw [SysOE.run_cons]
    have h1 := SysOE.ctr_step s op a sid L ⟨hb.1, trivial⟩
    have h2 := ih _ hb.2
    have : max (SysOE.ctr (SysOE.step' s op) sid a) L ≤ max (SysOE.ctr s sid a) L := by
      rcases Nat.le_total (SysOE.ctr (SysOE.step' s op) sid a) L with hx | hx
      · rw [Nat.max_eq_right hx]; exact Nat.le_max_right _ _
      · rw [Nat.max_eq_left hx]; exact h1
    exact Nat.le_trans h2 this

/-! ## (b) price -/

/-- **Price.** The amount charged for an accepted whitelist mint is the `mint_price` STORED for the stage in force in the
whitelist's own state: the attached funds are exactly that coin (nothing when it is zero). -/
theorem C07_sysoe_price {s s' : SysOE.State} {sender : Addr} {funds : List Coin} {stage alloc : Option Nat}
    {proof : Option (List (List Nat))} {m : OE.Minter} {a : Addr} {w : WF.Wl} {sid cnt : Nat}
    (h : SysOE.WlMint s s' sender funds stage alloc proof m a w sid cnt) :
    ∃ P, Sys.stagePrice w s.now = some P ∧ OE.mintPrice (SysOE.oeOf s) m false = .ok P ∧ funds = exactFunds P ∧
      mayPay funds P.denom = .ok P.amount := by
  obtain ⟨a', w', ha', hf', hok, hact, _⟩ := SysOE.wl_branch h.minter h.booked
  rw [h.attached] at ha'; cases ha'
  rw [h.contract] at hf'; cases hf'
  obtain ⟨hprice, _, _⟩ := Sys.active_stored hact
  have hcfg : OE.wlConfig (SysOE.oeOf s) m.v a = .ok (Sys.wlInfoOf s.now w) := by
    unfold OE.wlConfig
    simp only [SysOE.oeOf_wls, h.contract, Option.map_some, Sys.info_kind, hok, if_true]
  have hmp : OE.mintPrice (SysOE.oeOf s) m false = .ok (Sys.wlInfoOf s.now w).price := by
    unfold OE.mintPrice
    simp only [Bool.false_eq_true, if_false, h.attached, hcfg, hact, if_true]
  obtain ⟨c, hc, _⟩ := SysOE.step_mint_ok h.ok
  obtain ⟨price, hp, hfunds⟩ := C02_fulloe_exact_payment (SysOE.oeOf s) c m _ (by simpa using h.minter) hc sender funds false
    (Or.inl ⟨_, _, rfl, rfl⟩)
  rw [hmp] at hp; cases hp
  obtain ⟨_, _, _, _, hm0, _, _, _, hp0, hpay, _⟩ := SysOE.mint_ok h.ok
  rw [h.minter] at hm0; cases hm0
  rw [hmp] at hp0; cases hp0
  exact ⟨_, hprice, hmp, hfunds, hpay⟩

/-! ## (b) schedule -/

/-- `Config.is_active`, as the minter reads it, says exactly: the block time lies in a window stored in the whitelist -/
theorem C04_sysoe_window_iff (w : WF.Wl) (now : Nat) : (Sys.wlInfoOf now w).active = true ↔ Sys.InWindow w now :=
  Sys.inWindow_iff w now

/-- **Schedule.** An accepted buyer's mint is booked as a WHITELIST mint exactly when a whitelist contract is attached and the
block time lies in one of ITS stored windows — no whitelist mint is accepted at a block outside every stored stage window — and
in every other case the PUBLIC rules applied: the sale has started, the sender's public count is below the per-address limit and
is raised by one, and the public price (`mint_price`; the family has no discount) was charged. In BOTH cases the edition's end
time, if any, lies strictly ahead. -/
theorem C04_sysoe_schedule {s s' : SysOE.State} {sender : Addr} {funds : List Coin} {stage alloc : Option Nat}
    {proof : Option (List (List Nat))} (h : SysOE.step s (.mint sender funds stage alloc proof) = .ok s') :
    ∃ m g, s.minter = some m ∧
      OE.isPublicMint (SysOE.oeOf s) m sender (Sys.fieldsOf stage alloc proof) (SysOE.mintView s sender stage alloc proof) = .ok g ∧
      ((∃ sid cnt, g = .wl sid cnt) ↔ ∃ a w, m.whitelist = some a ∧ Sys.find s.wls a = some w ∧ Sys.InWindow w s.now) ∧
      (∀ e, m.endTime = some e → s.now < e) ∧
      (g = .pub → m.startTime ≤ s.now ∧ m.pub sender < m.perAddressLimit ∧
        funds = exactFunds m.mintPrice ∧
        ∃ m', s'.minter = some m' ∧ m'.pub sender = m.pub sender + 1) := by
  obtain ⟨m, g, price, m', hm, hg, hpub, hend, hp, _, hm', hpubc, _⟩ := SysOE.mint_ok h
  refine ⟨m, g, hm, hg, ⟨?_, ?_⟩, hend, ?_⟩
  · rintro ⟨sid, cnt, rfl⟩
    obtain ⟨a, w, ha, hf, _, hact, _⟩ := SysOE.wl_branch hm hg
    exact ⟨a, w, ha, hf, (Sys.inWindow_iff w s.now).1 hact⟩
  · rintro ⟨a, w, ha, hf, hin⟩
    cases g with
    | wl sid cnt => exact ⟨sid, cnt, rfl⟩
    | pub =>
      exfalso
      rcases SysOE.pub_branch hg with hn | ⟨a', w', ha', hf', hina⟩
      · rw [ha] at hn; cases hn
      · rw [ha] at ha'; cases ha'
        rw [hf] at hf'; cases hf'
        rw [(Sys.inWindow_iff w s.now).2 hin] at hina; cases hina
  · intro hgp
    subst hgp
    obtain ⟨h1, h2⟩ := hpub rfl
    have hmp : OE.mintPrice (SysOE.oeOf s) m false = .ok m.mintPrice := by
      rcases SysOE.isPublicMint_cases hg with ⟨_, hn | ⟨a, i, ha, hi, hina⟩⟩ | ⟨a, i, ha, hi, hact, hchk⟩
      · unfold OE.mintPrice; simp [hn]
      · unfold OE.mintPrice; simp [ha, hi, hina]
      · obtain ⟨_, _, _, _, _, _, _, _, _, hgg, _⟩ := OE.wlMintChecks_ok hchk
        cases hgg
    obtain ⟨c, hc, _⟩ := SysOE.step_mint_ok h
    obtain ⟨price', hp', hfunds⟩ := C02_fulloe_exact_payment (SysOE.oeOf s) c m _ (by simpa using hm) hc sender funds false
      (Or.inl ⟨_, _, rfl, rfl⟩)
    rw [hmp] at hp'; cases hp'
    refine ⟨h1, h2, hfunds, m', hm', ?_⟩
    simp [hpubc, OE.bookCount, MintLimits.upd]

/-! ## (b) the end time (open-edition specific) -/

/-- **No mint at or after the end time.** In EVERY system state whose edition has an end time `e ≤ now`, every buyer's `Mint`
(whatever whitelist is attached, whatever that whitelist's own state says — also when it is still active —, whatever proof,
stage, allocation and payment the message carries) and every `MintTo` is refused. The family has no other minting message. -/
theorem C04_sysoe_no_mint_at_or_after_end (s : SysOE.State) (m : OE.Minter) (hm : s.minter = some m) (e : Nat)
    (he : m.endTime = some e) (hlate : e ≤ s.now) :
    (∀ sender funds stage alloc proof, ∃ err, SysOE.step s (.mint sender funds stage alloc proof) = .error err) ∧
    (∀ sender funds rcpt, ∃ err, SysOE.step s (.minter (.mintTo sender funds rcpt)) = .error err) := by
  constructor
  · intro sender funds stage alloc proof
    cases h : SysOE.step s (.mint sender funds stage alloc proof) with
    | error err => exact ⟨err, rfl⟩
    | ok s' =>
      obtain ⟨m0, _, _, _, hm0, _, _, hend, _⟩ := SysOE.mint_ok h
      rw [hm] at hm0; cases hm0
      have := hend e he; omega
  · intro sender funds rcpt
    cases h : SysOE.step s (.minter (.mintTo sender funds rcpt)) with
    | error err => exact ⟨err, rfl⟩
    | ok s' =>
      obtain ⟨m0, hm0, _, hend⟩ := SysOE.mintTo_ok h
      rw [hm] at hm0; cases hm0
      have := hend e he; omega

/-! ## (b) over all histories -/

namespace SysOE

/-- the accepted steps of a history: the state each was sent in, the op, the state it produced -/
def accSteps : State → List Op → List (State × Op × State)
  | _, [] => []
  | s, op :: ops =>
    (match step s op with
     | .ok s' => [(s, op, s')]
     | .error _ => []) ++ accSteps (step' s op) ops

theorem accSteps_ok (s : State) (ops : List Op) : ∀ x ∈ accSteps s ops, step x.1 x.2.1 = .ok x.2.2 := by
  induction ops generalizing s with
  | nil => intro x hx; simp [accSteps] at hx
  | cons op ops ih =>
    intro x hx
    simp only [accSteps, List.mem_append] at hx
    rcases hx with hx | hx
    · cases hs : step s op with
      | ok s' => simp only [hs, List.mem_singleton] at hx; subst hx; exact hs
      | error e => simp [hs] at hx
    · exact ih _ x hx

/-- … and every recorded state is the state reached by a prefix of the history -/
theorem accSteps_prefix (s : State) (ops : List Op) :
    ∀ x ∈ accSteps s ops, ∃ pre post, ops = pre ++ x.2.1 :: post ∧ x.1 = run s pre ∧ x.2.2 = run s (pre ++ [x.2.1]) := by
  induction ops generalizing s with
  | nil => intro x hx; simp [accSteps] at hx
  | cons op ops ih =>
    intro x hx
    simp only [accSteps, List.mem_append] at hx
    rcases hx with hx | hx
    · cases hs : step s op with
      | ok s' =>
        simp only [hs, List.mem_singleton] at hx; subst hx
        exact ⟨[], ops, rfl, rfl, by simp [run, step', hs]⟩
      | error e => simp [hs] at hx
    · obtain ⟨pre, post, h1, h2, h3⟩ := ih _ x hx
      exact ⟨op :: pre, post, by rw [h1]; rfl, by rw [h2]; rfl, by rw [h3]; rfl⟩

end SysOE

/-- **No mint at or after the end time, all histories.** In every system history from every state — any interleaving of clock
moves, factory / minter / collection messages (`UpdateEndTime` included), whitelist instantiates and whitelist-admin edits —
every accepted `Mint` and every accepted `MintTo` was sent at a block strictly before the end time the edition had at that block. -/
theorem C04_sysoe_history_before_end (s0 : SysOE.State) (ops : List SysOE.Op) :
    ∀ x ∈ SysOE.accSteps s0 ops,
      ((∃ sender funds stage alloc proof, x.2.1 = .mint sender funds stage alloc proof) ∨
       (∃ sender funds rcpt, x.2.1 = .minter (.mintTo sender funds rcpt))) →
      ∃ m, x.1.minter = some m ∧ ∀ e, m.endTime = some e → x.1.now < e := by
  intro x hx hop
  have hok := SysOE.accSteps_ok s0 ops x hx
  rcases hop with ⟨sender, funds, stage, alloc, proof, hop⟩ | ⟨sender, funds, rcpt, hop⟩
  · rw [hop] at hok
    obtain ⟨m, _, _, _, hm, _, _, hend, _⟩ := SysOE.mint_ok hok
    exact ⟨m, hm, hend⟩
  · rw [hop] at hok
    obtain ⟨m, hm, _, hend⟩ := SysOE.mintTo_ok hok
    exact ⟨m, hm, hend⟩

/-- **Ended is final.** Once `now ≥ end_time` has held in a system state, then after EVERY system continuation — clock moves,
factory / minter / collection messages (`UpdateEndTime` included: it is refused from then on), whitelist instantiates, whitelist
admin edits, mints by anybody — the edition still exists, its end time is the same and still lies in the past. -/
theorem C04_sysoe_ended_is_final (s : SysOE.State) (m : OE.Minter) (hm : s.minter = some m) (e : Nat)
    (he : m.endTime = some e) (hended : e ≤ s.now) (ops : List SysOE.Op) :
    ∃ m', (SysOE.run s ops).minter = some m' ∧ m'.endTime = some e ∧ e ≤ (SysOE.run s ops).now := by
  refine SysOE.run_inv (fun x => ∃ m', x.minter = some m' ∧ m'.endTime = some e ∧ e ≤ x.now) ?_ s ⟨m, hm, he, hended⟩ ops
  intro x op ⟨m0, hm0, he0, hn0⟩
  rcases SysOE.step'_cases x op with ⟨x', hs, hs'⟩ | ⟨_, hs'⟩
  · rw [hs']
    have hoe : ∀ (o : OE.Op) (c : OE.State), OE.step (SysOE.oeOf x) o = .ok c →
        ∃ m', c.minter = some m' ∧ m'.endTime = some e ∧ e ≤ c.now := by
      intro o c hc
      obtain ⟨m1, hm1⟩ := SysOE.oe_minter_stays hc (by simpa using hm0)
      obtain ⟨hnow, hend⟩ := SysOE.oe_end_frame hc (by simpa using hm0) hm1
      simp only [SysOE.oeOf_now] at hnow
      refine ⟨m1, hm1, ?_, by omega⟩
      rcases hend with hend | hend
      · rw [hend]; exact he0
      · have := hend e he0
        simp only [SysOE.oeOf_now] at this
        omega
    cases op with
    | minter o =>
      obtain ⟨_, c, hc, rfl⟩ := SysOE.step_minter_ok hs
      exact hoe o c hc
    | mint sender funds stage alloc proof =>
      obtain ⟨c, hc, rfl⟩ := SysOE.step_mint_ok hs
      exact hoe _ c hc
    | wlInst v sender funds self mm =>
      obtain ⟨_, r, w, _, _, _, rfl⟩ := SysOE.step_wlInst_ok hs
      exact ⟨m0, hm0, he0, hn0⟩
    | wlExec k sender funds mm =>
      obtain ⟨w, r, w', _, _, _, _, rfl⟩ := SysOE.step_wlExec_ok hs
      exact ⟨m0, hm0, he0, hn0⟩
  · rw [hs']; exact ⟨m0, hm0, he0, hn0⟩

/-- **Closed for ever.** Once the end time has been reached, no `Mint` (whitelist or public) and no `MintTo` is accepted in ANY
state of ANY system continuation — whatever whitelist is instantiated, edited, attached or active later on. -/
theorem C04_sysoe_closed_forever (s : SysOE.State) (m : OE.Minter) (hm : s.minter = some m) (e : Nat)
    (he : m.endTime = some e) (hended : e ≤ s.now) (ops : List SysOE.Op) :
    (∀ sender funds stage alloc proof, ∃ err, SysOE.step (SysOE.run s ops) (.mint sender funds stage alloc proof) = .error err) ∧
    (∀ sender funds rcpt, ∃ err, SysOE.step (SysOE.run s ops) (.minter (.mintTo sender funds rcpt)) = .error err) := by
  obtain ⟨m', hm', he', hn'⟩ := C04_sysoe_ended_is_final s m hm e he hended ops
  exact C04_sysoe_no_mint_at_or_after_end _ m' hm' e he' hn'

/-- **All histories.** In every system history from every state (in particular from a fresh chain), every accepted buyer's mint
happened strictly before the edition's end time and is either a public mint under the public rules or a whitelist mint for
which, in the whitelist's OWN state at that block: the block time lies in a stored window, the sender is a stored member of the
stage in force (list kinds) resp. proved a leaf binding her address against the stored root of the stage in force (Merkle kinds),
her stored count on the counter the mint is booked under is below what that state grants her, and she paid exactly the stored
price of the stage in force. -/
theorem C04_sysoe_history (s0 : SysOE.State) (ops : List SysOE.Op) :
    ∀ x ∈ SysOE.accSteps s0 ops, ∀ sender funds stage alloc proof,
      x.2.1 = .mint sender funds stage alloc proof →
      ((∃ m a w sid cnt, SysOE.WlMint x.1 x.2.2 sender funds stage alloc proof m a w sid cnt) ∨
       (∃ m, x.1.minter = some m ∧ m.startTime ≤ x.1.now ∧ m.pub sender < m.perAddressLimit ∧
          funds = exactFunds m.mintPrice)) ∧
      (∃ m, x.1.minter = some m ∧ ∀ e, m.endTime = some e → x.1.now < e) ∧
      (∀ m a w sid cnt, SysOE.WlMint x.1 x.2.2 sender funds stage alloc proof m a w sid cnt →
        Sys.InWindow w x.1.now ∧
        (w.v.store = .list →
          (w.v.tiered = false → sender ∈ WlMembers.keys w.members) ∧
          (w.v.tiered = true → ∃ i, WF.activeIdx w x.1.now = some i ∧ sender ∈ WlMembers.keys (WF.mapOf w i))) ∧
        (w.v.store = .merkle → ∃ p r, proof = some p ∧ Sys.activeRoot w x.1.now = some r ∧
          Merkle.hasMember w.v.hash w.v.digest r (Sys.leafOf sender stage alloc) p = some true) ∧
        (∃ L, Sys.storedLimit w x.1.now sender alloc = some L ∧ cnt < L) ∧
        (∃ P, Sys.stagePrice w x.1.now = some P ∧ funds = exactFunds P)) := by
  intro x hx sender funds stage alloc proof hop
  have hok := SysOE.accSteps_ok s0 ops x hx
  rw [hop] at hok
  refine ⟨?_, ?_, ?_⟩
  · rcases SysOE.mint_classify hok with h | ⟨m, hm, hg⟩
    · exact Or.inl h
    · obtain ⟨m0, g, hm0, hg0, _, _, hpub⟩ := C04_sysoe_schedule hok
      rw [hm] at hm0; cases hm0
      rw [hg] at hg0; cases hg0
      obtain ⟨h1, h2, h3, _⟩ := hpub rfl
      exact Or.inr ⟨m, hm, h1, h2, h3⟩
  · obtain ⟨m0, g, hm0, _, _, hend, _⟩ := C04_sysoe_schedule hok
    exact ⟨m0, hm0, hend⟩
  · intro m a w sid cnt hwm
    obtain ⟨m0, g, hm0, hg0, hiff, _⟩ := C04_sysoe_schedule hok
    rw [hwm.minter] at hm0; cases hm0
    rw [hwm.booked] at hg0; cases hg0
    obtain ⟨a', w', ha', hf', hin⟩ := hiff.1 ⟨sid, cnt, rfl⟩
    rw [hwm.attached] at ha'; cases ha'
    rw [hwm.contract] at hf'; cases hf'
    obtain ⟨L, hL1, hL2, _⟩ := C03_sysoe_limit_step hwm
    obtain ⟨P, hP1, _, hP2, _⟩ := C07_sysoe_price hwm
    refine ⟨hin, fun hl => C04_sysoe_entitlement_list hwm hl, fun hk => ?_, ⟨L, hL1, hL2⟩, ⟨P, hP1, hP2⟩⟩
    obtain ⟨p, r, h1, h2, h3, _⟩ := C14_sysoe_entitlement_merkle hwm hk
    exact ⟨p, r, h1, h2, h3⟩

/-! ## (a) run-level theorems of the halves, transferred to system runs -/

/-- a `WF` run-level theorem on system runs (`C14`'s "the root cannot be changed by any call"): along every system history the
roots committed by the Merkle whitelist at `k` stay those it holds now — minter traffic, other whitelists and its own admins'
messages included -/
theorem C14_sysoe_root_immutable (s : SysOE.State) (k : Addr) (w : WF.Wl) (hw : Sys.find s.wls k = some w)
    (hk : w.v.store = .merkle) (ops : List SysOE.Op) :
    ∃ w', Sys.find (SysOE.run s ops).wls k = some w' ∧ w'.roots = w.roots ∧ w'.v = w.v := by
  induction ops generalizing s w with
  | nil => exact ⟨w, hw, rfl, rfl⟩
  | cons op ops ih =>
    rw [SysOE.run_cons]
    have hstep : ∃ w1, Sys.find (SysOE.step' s op).wls k = some w1 ∧ w1.roots = w.roots ∧ w1.v = w.v := by
      rcases SysOE.wfOps_cases k s op with h0 | ⟨wop, h1⟩
      · have := SysOE.wf_step_other s op k h0
        have hx : (SysOE.wfOf (SysOE.step' s op) k).wl = (SysOE.wfOf s k).wl := by rw [this]
        simp only [SysOE.wfOf] at hx
        exact ⟨w, by rw [hx]; exact hw, rfl, rfl⟩
      · have hown := SysOE.wf_step_own s op k wop h1
        have hni : WF.NoInst14 [wop] := by
          intro o ho v sender funds self m heq
          simp only [List.mem_singleton] at ho
          subst ho; subst heq
          cases op with
          | minter o =>
            cases o <;> simp only [SysOE.wfOps] at h1 <;> first | (cases h1; done) | skip
            split at h1 <;> simp at h1
          | mint sender' funds' stage alloc proof => simp [SysOE.wfOps] at h1
          | wlInst v' sender' funds' self' m' =>
            simp only [SysOE.wfOps] at h1
            split at h1
            · rename_i hc
              obtain ⟨rfl, ht⟩ := hc
              have := SysOE.taken_find ht
              rw [hw] at this; cases this
            · cases h1
          | wlExec k' sender' funds' m' =>
            simp only [SysOE.wfOps] at h1
            split at h1 <;> simp at h1
        obtain ⟨w1, h1', hv, hr, _⟩ := WF.run_sim14 (fun x => x) [] [wop] (s := SysOE.wfOf s k) (w := w) (by simpa [SysOE.wfOf] using hw) hni
        have hx : (SysOE.wfOf (SysOE.step' s op) k).wl = some w1 := by
          rw [hown]; simpa [WF.run] using h1'
        exact ⟨w1, by simpa [SysOE.wfOf] using hx, hr, hv⟩
    obtain ⟨w1, hw1, hr1, hv1⟩ := hstep
    obtain ⟨w', hw', hr', hv'⟩ := ih (SysOE.step' s op) w1 hw1 (by rw [hv1]; exact hk)
    exact ⟨w', hw', by rw [hr', hr1], by rw [hv', hv1]⟩


/-! ## Non-vacuity: concrete system histories (kernel-evaluated) -/

namespace SysOE
/-- the system's verdict on every op of a history -/
def verdicts : State → List Op → List Bool
  | _, [] => []
  | s, op :: ops => accepted s op :: verdicts (step' s op) ops
end SysOE

/-- a fresh chain with an open-edition factory (as `coInit`): code ids 7, 8, 9 = open-edition-minter, -wl-flex, -merkle-wl -/
def sysoeInit : SysOE.State := SysOE.init coT0 ⟨[7, 8, 9], [16, 17, 18, 19]⟩ 1000 coParams

/-- `whitelist` (plain): window `[T0+40, T0+90)`, price 500, one mint per address, member 21 -/
def sysoeWlMsg : WF.InstMsg :=
  { admins := [11], adminsMutable := true, start := coT0 + 40, end_ := coT0 + 90, mintPrice := ⟨0, 500⟩, perAddr := 1,
    memberLimit := 10, whaleCap := none, members := [(21, 0)], stages := [], stageMembers := [], roots := [], uriOk := true,
    uris := none, discountBps := none }

/-- whitelist 1005 instantiated by 11 (fee 100 STARS), an UNCAPPED edition created by 10 with it attached (sale at T0+100, end at
T0+1000, price 1000); in the window: member 21 mints at 500, her second mint is over the stored limit, 22 is not stored; the
whitelist admin adds 22 between two mints of the same block, then 22's mint is accepted; after the window the whitelist price is
refused and the public price accepted; at the end time the public mint and the airdrop are refused -/
def sysoeOps : List SysOE.Op :=
  [.minter (.fund 10 ⟨0, 5000⟩), .minter (.fund 11 ⟨0, 100000000⟩), .minter (.fund 21 ⟨0, 5000⟩), .minter (.fund 22 ⟨0, 5000⟩),
   .wlInst WF.Variant.plain 11 [⟨0, 100000000⟩] 1005 sysoeWlMsg,
   .minter (coCreate (some 1005)),
   .minter (.setTime (coT0 + 50)),
   .mint 21 [⟨0, 500⟩] none none none,
   .mint 21 [⟨0, 500⟩] none none none,
   .mint 22 [⟨0, 500⟩] none none none,
   .wlExec 1005 11 [] (.addMembers 0 [(22, 0)]),
   .mint 22 [⟨0, 500⟩] none none none,
   .minter (.setTime (coT0 + 100)),
   .mint 22 [⟨0, 500⟩] none none none,
   .mint 22 [⟨0, 1000⟩] none none none,
   .minter (.setTime (coT0 + 1000)),
   .mint 22 [⟨0, 1000⟩] none none none,
   .minter (.mintTo 10 [⟨0, 100⟩] 30)]

example : SysOE.verdicts sysoeInit sysoeOps =
    [true, true, true, true, true, true, true, true, false, false, true, true, true, false, true, true, false, false] := by decide

/-- counters after the history: one whitelist mint each for 21 and 22 (`WHITELIST_MINTER_ADDRS`), one public mint for 22; ids 1..3 -/
example : (SysOE.run sysoeInit sysoeOps).minter.map (fun m => (m.wlc 21, m.wlc 22, m.pub 21, m.pub 22, m.seq.issued)) =
    some (1, 1, 0, 1, [3, 2, 1]) := by decide

/-- the hypothesis of the end-to-end theorems is satisfiable: the 8th op of `sysoeOps` IS a whitelist mint -/
example : ∃ m a w sid cnt, SysOE.WlMint (SysOE.run sysoeInit (sysoeOps.take 7)) (SysOE.run sysoeInit (sysoeOps.take 8)) 21 [⟨0, 500⟩]
    none none none m a w sid cnt := by
  have hok : SysOE.step (SysOE.run sysoeInit (sysoeOps.take 7)) (.mint 21 [⟨0, 500⟩] none none none) =
      .ok (SysOE.run sysoeInit (sysoeOps.take 8)) := by rfl
  rcases SysOE.mint_classify hok with h | ⟨m, hm, hg⟩
  · exact h
  · exfalso
    obtain ⟨m0, g, hm0, hg0, _, _, hpub⟩ := C04_sysoe_schedule hok
    rw [hm] at hm0; cases hm0
    rw [hg] at hg0; cases hg0
    obtain ⟨hstart, _⟩ := hpub rfl
    have h1 : (SysOE.run sysoeInit (sysoeOps.take 7)).minter.map (·.startTime) = some (coT0 + 100) := by decide
    have h2 : (SysOE.run sysoeInit (sysoeOps.take 7)).now = coT0 + 50 := by decide
    rw [hm] at h1
    simp only [Option.map_some, Option.some.injEq] at h1
    rw [h1, h2] at hstart
    simp [coT0] at hstart

/-- what the whitelist's own state says at that block: in its window, 21 stored, limit 1, price 500 -/
example : (Sys.find (SysOE.run sysoeInit (sysoeOps.take 7)).wls 1005).map (fun w =>
      (w.start - coT0, w.end_ - coT0, WlMembers.keys w.members, Sys.storedLimit w (coT0 + 50) 21 none, Sys.stagePrice w (coT0 + 50))) =
    some (40, 90, [21], some 1, some ⟨0, 500⟩) := by decide

/-- the end time INSIDE an open whitelist window: whitelist `[T0+40, T0+2000)`, three mints per address; edition end T0+1000 -/
def sysoeWlLong : WF.InstMsg := { sysoeWlMsg with end_ := coT0 + 2000, perAddr := 3 }

/-- one ns before the end the member's whitelist mint is accepted; at the end time it is refused although the whitelist's own
state still says: in the window, stored member, one of three used, price 500 -/
def sysoeOpsEnd : List SysOE.Op :=
  [.minter (.fund 10 ⟨0, 5000⟩), .minter (.fund 11 ⟨0, 100000000⟩), .minter (.fund 21 ⟨0, 5000⟩),
   .wlInst WF.Variant.plain 11 [⟨0, 100000000⟩] 1005 sysoeWlLong,
   .minter (coCreate (some 1005)),
   .minter (.setTime (coT0 + 999)),
   .mint 21 [⟨0, 500⟩] none none none,
   .minter (.setTime (coT0 + 1000)),
   .mint 21 [⟨0, 500⟩] none none none,
   .minter (.mintTo 10 [⟨0, 100⟩] 30)]

example : SysOE.verdicts sysoeInit sysoeOpsEnd = [true, true, true, true, true, true, true, true, false, false] := by decide

example : (Sys.find (SysOE.run sysoeInit sysoeOpsEnd).wls 1005).map (fun w =>
      ((Sys.wlInfoOf (coT0 + 1000) w).active, WlMembers.keys w.members, Sys.storedLimit w (coT0 + 1000) 21 none,
       Sys.stagePrice w (coT0 + 1000))) = some (true, [21], some 3, some ⟨0, 500⟩) ∧
    (SysOE.run sysoeInit sysoeOpsEnd).minter.map (fun m => (m.wlc 21, m.endTime.map (· - coT0))) = some (1, some 1000) := by
  decide

/-- an `open-edition-minter-wl-flex` factory (code id 8) and `tiered-whitelist-flex` with touching stages `[T0+40, T0+60]` (price 500,
21 may mint THREE times) and `[T0+60, T0+90]` (price 600, 21 and 22 once each, at most ONE mint in the stage) -/
def sysoeInitFlex : SysOE.State := SysOE.init coT0 ⟨[7, 8, 9], [16, 17, 18, 19]⟩ 1000 { coParams with codeId := 8 }

def sysoeTfMsg : WF.InstMsg :=
  { admins := [11], adminsMutable := true, start := 0, end_ := 0, mintPrice := ⟨0, 0⟩, perAddr := 0, memberLimit := 10,
    whaleCap := none, members := [],
    stages := [⟨1, coT0 + 40, coT0 + 60, 0, 500, 0, none⟩, ⟨2, coT0 + 60, coT0 + 90, 0, 600, 0, some 1⟩],
    stageMembers := [[(21, 3)], [(21, 1), (22, 1)]], roots := [], uriOk := true, uris := none, discountBps := none }

/-- the UNCAPPED -wl-flex edition keeps whitelist mints below its own `per_address_limit` (2) as well: 21's third stage-1 mint is
refused although the whitelist's own state grants three. The hand-over: at T0+60 (both closed windows contain it) mints are booked
under stage 1 at 500; one ns later stage 1's price is refused, 21 mints under stage 2 at 600, her second stage-2 mint exceeds the
stored `mint_count` 1, and 22 is refused because the stage's `mint_count_limit` 1 is used up -/
def sysoeOpsTf : List SysOE.Op :=
  [.minter (.fund 10 ⟨0, 5000⟩), .minter (.fund 11 ⟨0, 100000000⟩), .minter (.fund 21 ⟨0, 5000⟩), .minter (.fund 22 ⟨0, 5000⟩),
   .wlInst WF.Variant.tieredFlex 11 [⟨0, 100000000⟩] 1005 sysoeTfMsg,
   .minter (coCreate (some 1005)),
   .minter (.setTime (coT0 + 60)),
   .mint 21 [⟨0, 500⟩] none none none,
   .mint 21 [⟨0, 500⟩] none none none,
   .mint 21 [⟨0, 500⟩] none none none,
   .minter (.setTime (coT0 + 61)),
   .mint 21 [⟨0, 500⟩] none none none,
   .mint 21 [⟨0, 600⟩] none none none,
   .mint 21 [⟨0, 600⟩] none none none,
   .mint 22 [⟨0, 600⟩] none none none]

example : SysOE.verdicts sysoeInitFlex sysoeOpsTf =
    [true, true, true, true, true, true, true, true, true, false, true, false, true, false, false] := by decide

example : (SysOE.run sysoeInitFlex sysoeOpsTf).minter.map (fun m => (m.stg 1 21, m.stg 2 21, m.stg 2 22, m.tot 1, m.tot 2, m.wlc 21)) =
    some (2, 1, 0, 2, 1, 0) := by decide

/-- the stored grants at the two instants: stage 1's `mint_count` 3 for 21 (the minter's own limit 2 is the stricter one), then
stage 2's 1; 22 only in stage 2 -/
example : (Sys.find (SysOE.run sysoeInitFlex (sysoeOpsTf.take 6)).wls 1005).map (fun w =>
      (Sys.storedLimit w (coT0 + 60) 21 none, Sys.storedLimit w (coT0 + 61) 21 none, Sys.storedLimit w (coT0 + 60) 22 none,
       Sys.storedLimit w (coT0 + 61) 22 none, Sys.stagePrice w (coT0 + 60), Sys.stagePrice w (coT0 + 61))) =
    some (some 3, some 1, none, some 1, some ⟨0, 500⟩, some ⟨0, 600⟩) := by rfl

end LP
