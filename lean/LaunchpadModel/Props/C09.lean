import LaunchpadModel.Lemmas.Sg721
/-!
# C09 — Collection tokens: minted only by the minter, ids unique, freezes are final

"In every collection contract a token can be created only by the collection's minter, never with an id that
already exists, and the token count always equals the number of existing tokens. Once the creator freezes
collection info no later call changes any creator-editable field, and once token metadata is frozen on an
updatable collection no token URI changes again; metadata updates otherwise require the creator and an existing
token. In the non-transferable collection a token's owner never changes between mint and burn."

Model: `LP.Sg721` (`Model/Sg721.lean`) — one state machine for sg721-base / -nt / -updatable / -metadata-onchain
(`State.kind` selects the message surface). `run s ops` folds the transactional step `step'` (a failed message
leaves the state unchanged) over an arbitrary list of operations: every `ExecuteMsg` of the four collections
from arbitrary senders with arbitrary funds in arbitrary blocks, plus the chain-level migrations the four codes accept
among themselves (sg721-base or an OLDER sg721-updatable → sg721-updatable code; sg721-metadata-onchain and sg721-nt →
their own code) with the stored cw2 version as state (`Op.setVersion` = "instantiated by an older release").
All history theorems are inductions over `ops : List Op`. Every successful step is inverted into a relational
effect: `exec_eff` (messages) / `step_cases` + `AdminEff` (migrations, version), see `Lemmas/Sg721.lean`.
-/
namespace LP
open LP.Sg721

/-! ## Vocabulary -/

/-- the fields of the collection info the *creator* can edit (`start_trading_time` is edited by the minter) -/
def editable (i : Info) : Addr × Desc × Url × Option Url × Option Bool × Option Royalty :=
  (i.creator, i.description, i.image, i.externalLink, i.explicitContent, i.royalty)

def uriOf (s : State) (id : Nat) : Option (Option Nat) := (s.find? id).map (·.uri)
def ownerOf (s : State) (id : Nat) : Option Addr := (s.find? id).map (·.owner)

/-- token `id` exists in `s` and after every prefix of `ops` (it is never burned along the way) -/
def aliveThrough (s : State) (id : Nat) : List Op → Prop
  | [] => id ∈ s.ids
  | op :: ops => id ∈ s.ids ∧ aliveThrough (step' s op) id ops

theorem run_cons (s : State) (op : Op) (ops : List Op) : run s (op :: ops) = run (step' s op) ops := rfl

theorem run_append (s : State) (a b : List Op) : run s (a ++ b) = run (run s a) b := by
  unfold run; rw [List.foldl_append]

/-- `step'` either takes a successful step or stays -/
theorem step'_cases (s : State) (op : Op) : (∃ s', step s op = .ok s' ∧ step' s op = s') ∨ step' s op = s := by
  unfold step'
  cases h : step s op with
  | ok s' => exact .inl ⟨s', rfl, rfl⟩
  | error e => exact .inr rfl

/-- generic lifting of a one-step invariant to histories -/
theorem run_induction (P : State → Prop) (hstep : ∀ s s' op, P s → step s op = .ok s' → P s')
    (s : State) (h : P s) (ops : List Op) : P (run s ops) := by
  induction ops generalizing s with
  | nil => exact h
  | cons op ops ih =>
    rw [run_cons]
    apply ih
    rcases step'_cases s op with ⟨s', hs, he⟩ | he
    · rw [he]; exact hstep s s' op h hs
    · rw [he]; exact h

/-! ## One-step effect on the token table -/

/-- a token that exists before and after a successful message keeps id and extension; its URI changes only by
`UpdateTokenMetadata` of that id; its owner only by `TransferNft` / `SendNft` of that id -/
theorem eff_token {s s' : State} {b : Block} {sender : Addr} {funds : List Coin} {m : ExecMsg}
    (e : Eff s b sender funds m s') (id : Nat) (h1 : id ∈ s.ids) (h2 : id ∈ s'.ids) :
    ∃ t t', s.find? id = some t ∧ s'.find? id = some t' ∧ t'.id = t.id ∧ t'.ext = t.ext ∧
      (t'.uri = t.uri ∨ m = .updateTokenMetadata id t'.uri) ∧
      (t'.owner = t.owner ∨ m = .transferNft t'.owner id ∨ m = .sendNft t'.owner id true) := by
  obtain ⟨t, ht⟩ := Option.isSome_iff_exists.1 ((find?_isSome_iff s id).2 h1)
  have same : s'.find? id = s.find? id →
      ∃ t t', s.find? id = some t ∧ s'.find? id = some t' ∧ t'.id = t.id ∧ t'.ext = t.ext ∧
        (t'.uri = t.uri ∨ m = .updateTokenMetadata id t'.uri) ∧
        (t'.owner = t.owner ∨ m = .transferNft t'.owner id ∨ m = .sendNft t'.owner id true) := by
    intro hs
    exact ⟨t, t, ht, by rw [hs, ht], rfl, rfl, .inl rfl, .inl rfl⟩
  -- replacing token `j` (found as `tj`) by `t'`
  have set : ∀ (j : Nat) (tj t' : Token), s.find? j = some tj → t'.id = tj.id → s' = s.setToken t' →
      t'.ext = tj.ext →
      (t'.uri = tj.uri ∨ m = .updateTokenMetadata j t'.uri) →
      (t'.owner = tj.owner ∨ m = .transferNft t'.owner j ∨ m = .sendNft t'.owner j true) →
      ∃ t t', s.find? id = some t ∧ s'.find? id = some t' ∧ t'.id = t.id ∧ t'.ext = t.ext ∧
        (t'.uri = t.uri ∨ m = .updateTokenMetadata id t'.uri) ∧
        (t'.owner = t.owner ∨ m = .transferNft t'.owner id ∨ m = .sendNft t'.owner id true) := by
    intro j tj t' hj hid hs' hext huri hown
    have hjid : tj.id = j := (find?_some hj).2
    by_cases hij : id = j
    · subst hij
      refine ⟨tj, t', hj, ?_, hid, hext, huri, hown⟩
      rw [hs', find?_setToken, hid, hjid]; simp [hj]
    · apply same
      rw [hs', find?_setToken, hid, hjid]; simp [hij]
  cases e with
  | transfer r j tj hf _ _ =>
    exact set j tj { tj with owner := r, approvals := [] } hf rfl rfl rfl (.inl rfl) (.inr (.inl rfl))
  | send r j tj hf _ _ =>
    exact set j tj { tj with owner := r, approvals := [] } hf rfl rfl rfl (.inl rfl) (.inr (.inr rfl))
  | approve sp j ex tj hf _ _ _ =>
    exact set j tj { tj with approvals := tj.approvals.filter (fun a => !decide (a.spender = sp)) ++ [⟨sp, ex.getD .never⟩] }
      hf rfl rfl rfl (.inl rfl) (.inl rfl)
  | revoke sp j tj hf _ _ =>
    exact set j tj { tj with approvals := tj.approvals.filter (fun a => !decide (a.spender = sp)) }
      hf rfl rfl rfl (.inl rfl) (.inl rfl)
  | utm j uri tj _ _ _ _ hf => exact set j tj { tj with uri := uri } hf rfl rfl rfl (.inr rfl) (.inl rfl)
  | mint j owner uri ext _ _ _ => exact same (find?_append_of_mem s _ id h1)
  | burn j tj hf _ =>
    apply same
    rw [find?_removeToken]
    by_cases hij : id = j
    · subst hij
      have : (s.removeToken id).find? id = none := by rw [find?_removeToken]; simp
      exact absurd h2 ((find?_none_iff _ _).1 this)
    · simp [hij]
  | approveAll => exact same rfl
  | revokeAll => exact same rfl
  | updateInfo => exact same rfl
  | ustt => exact same rfl
  | freeze => exact same rfl
  | ownTransfer => exact same rfl
  | ownAccept => exact same rfl
  | ownRenounce => exact same rfl
  | freezeMeta => exact same rfl
  | enable => exact same rfl

/-- ids after a successful message: nothing new except the id of a mint -/
theorem eff_ids {s s' : State} {b : Block} {sender : Addr} {funds : List Coin} {m : ExecMsg}
    (e : Eff s b sender funds m s') (id : Nat) (h2 : id ∈ s'.ids) :
    id ∈ s.ids ∨ ∃ owner uri ext, m = .mint id owner uri ext := by
  cases e with
  | transfer => rw [ids_setToken] at h2; exact .inl h2
  | send => rw [ids_setToken] at h2; exact .inl h2
  | approve => rw [ids_setToken] at h2; exact .inl h2
  | revoke => rw [ids_setToken] at h2; exact .inl h2
  | utm => rw [ids_setToken] at h2; exact .inl h2
  | burn => rw [ids_removeToken] at h2; exact .inl (List.mem_filter.1 h2).1
  | mint j owner uri ext =>
    simp only [State.ids, List.map_append, List.map_cons, List.map_nil, List.mem_append, List.mem_singleton] at h2
    rcases h2 with h | h
    · exact .inl h
    · subst h; exact .inr ⟨owner, uri, ext, rfl⟩
  | approveAll => exact .inl h2
  | revokeAll => exact .inl h2
  | updateInfo => exact .inl h2
  | ustt => exact .inl h2
  | freeze => exact .inl h2
  | ownTransfer => exact .inl h2
  | ownAccept => exact .inl h2
  | ownRenounce => exact .inl h2
  | freezeMeta => exact .inl h2
  | enable => exact .inl h2

/-! ## 1. "a token can be created only by the collection's minter, never with an id that already exists" -/

/-- A successful `Mint` was sent by the current cw_ownable owner (the minter) and its id did not exist; it
appends exactly that token and increments `token_count`. (All four collections; `ext` is kept by
sg721-metadata-onchain only.) -/
theorem C09_mint_auth_unique (s s' : State) (c : Call) (id : Nat) (owner : Addr) (uri : Option Nat) (ext : Nat)
    (hm : c.msg = .mint id owner uri ext) (h : exec s c = .ok s') :
    s.ownership.owner = some c.sender ∧ id ∉ s.ids ∧
    s'.tokens = s.tokens ++ [⟨id, owner, [], uri, if s.kind = .onchain then ext else 0⟩] ∧
    s'.count = s.count + 1 := by
  obtain ⟨_, e⟩ := exec_eff h
  rw [hm] at e
  cases e with
  | mint _ _ _ _ ho _ hn => exact ⟨ho, (find?_none_iff s id).1 hn, rfl, rfl⟩

/-- No other operation creates a token: whenever an id exists after a successful step that did not exist
before, the step was a `Mint` of exactly that id sent by the then-current minter. -/
theorem C09_only_mint_creates (s s' : State) (op : Op) (h : step s op = .ok s') (id : Nat)
    (hid : id ∈ s'.ids) (hnew : id ∉ s.ids) :
    ∃ c owner uri ext, op = .exec c ∧ c.msg = .mint id owner uri ext ∧ s.ownership.owner = some c.sender := by
  rcases step_cases h with ⟨c, rfl, h⟩ | a
  · obtain ⟨_, e⟩ := exec_eff (s := s) (c := c) h
    rcases eff_ids e id hid with h1 | ⟨owner, uri, ext, hm⟩
    · exact absurd h1 hnew
    · exact ⟨c, owner, uri, ext, rfl, hm, (C09_mint_auth_unique s s' c id owner uri ext hm h).1⟩
  · rw [admin_ids a] at hid
    exact absurd hid hnew

/-- History form: every token that exists after an arbitrary history (and did not exist at its start) was created
by a successful `Mint` of that id whose sender was the minter at that moment (in particular: after an ownership
hand-over the old minter's mints no longer create anything) and whose id was absent at that moment. -/
theorem C09_tokens_minted_by_minter (s0 : State) (ops : List Op) (id : Nat)
    (hid : id ∈ (run s0 ops).ids) (hnew : id ∉ s0.ids) :
    ∃ pre c post owner uri ext, ops = pre ++ Op.exec c :: post ∧ c.msg = .mint id owner uri ext ∧
      (run s0 pre).ownership.owner = some c.sender ∧ id ∉ (run s0 pre).ids ∧
      ∃ s1, exec (run s0 pre) c = .ok s1 := by
  induction ops generalizing s0 with
  | nil => exact absurd hid hnew
  | cons op ops ih =>
    rw [run_cons] at hid
    by_cases h1 : id ∈ (step' s0 op).ids
    · rcases step'_cases s0 op with ⟨s', hs, he⟩ | he
      · rw [he] at h1
        obtain ⟨c, owner, uri, ext, rfl, hm, ho⟩ := C09_only_mint_creates s0 s' op hs id h1 hnew
        exact ⟨[], c, ops, owner, uri, ext, rfl, hm, ho, hnew, s', hs⟩
      · rw [he] at h1; exact absurd h1 hnew
    · obtain ⟨pre, c, post, owner, uri, ext, hops, hm, ho, hn, hs⟩ := ih (step' s0 op) hid h1
      refine ⟨op :: pre, c, post, owner, uri, ext, ?_, hm, ?_, ?_, ?_⟩
      · rw [hops]; rfl
      · rw [run_cons]; exact ho
      · rw [run_cons]; exact hn
      · rw [run_cons]; exact hs

/-! ## 2. "the token count always equals the number of existing tokens" (and ids are unique) -/

theorem SInv_step (s s' : State) (op : Op) (hi : SInv s) (h : step s op = .ok s') : SInv s' := by
  rcases step_cases h with ⟨c, rfl, h⟩ | a
  rotate_left
  · obtain ⟨ht, hc, _⟩ := admin_frame a
    unfold SInv
    rw [admin_ids a, hc, ht]
    exact hi
  · obtain ⟨b, sender, funds, msg⟩ := c
    obtain ⟨_, e⟩ := exec_eff' h
    have set : ∀ t, SInv (s.setToken t) := fun t =>
      ⟨by rw [length_setToken]; exact hi.1, by rw [ids_setToken]; exact hi.2⟩
    cases e with
    | transfer => exact set _
    | send => exact set _
    | approve => exact set _
    | revoke => exact set _
    | utm => exact set _
    | mint j owner uri ext _ _ hn =>
      refine ⟨?_, ?_⟩
      · show s.count + 1 = (s.tokens ++ [_]).length
        rw [List.length_append, hi.1]; rfl
      · show (List.map (fun t : Token => t.id) (s.tokens ++ [_])).Nodup
        rw [List.map_append, List.nodup_append]
        refine ⟨hi.2, by simp, ?_⟩
        intro a ha b hb
        simp only [List.map_cons, List.map_nil, List.mem_singleton] at hb
        subst hb
        intro hab; subst hab
        exact (find?_none_iff s a).1 hn ha
    | burn j tj hf _ =>
      have hm : j ∈ s.ids := mem_ids_of_find? hf
      have hl := length_remove s.tokens j hi.2 hm
      refine ⟨?_, ?_⟩
      · show s.count - 1 = (s.tokens.filter _).length
        rw [hi.1]; omega
      · rw [ids_removeToken]; exact List.Nodup.sublist List.filter_sublist hi.2
    | approveAll => exact hi
    | revokeAll => exact hi
    | updateInfo => exact hi
    | ustt => exact hi
    | freeze => exact hi
    | ownTransfer => exact hi
    | ownAccept => exact hi
    | ownRenounce => exact hi
    | freezeMeta => exact hi
    | enable => exact hi

theorem SInv_instantiate (k : Kind) (b : Block) (sender : Addr) (funds : List Coin) (m : InstMsg) (s0 : State)
    (h : instantiate k b sender funds m = .ok s0) : SInv s0 := by
  simp only [instantiate, ensure_ok, Except.ok.injEq] at h
  obtain ⟨_, _, _, _, _, _, _, _, rfl⟩ := h
  exact ⟨rfl, List.nodup_nil⟩

/-- After instantiation and any history whatsoever: `token_count` (what `NumTokens` returns) equals the number
of entries of the token table (what `AllTokens` enumerates), and no id occurs twice. -/
theorem C09_count (k : Kind) (b : Block) (sender : Addr) (funds : List Coin) (m : InstMsg) (s0 : State)
    (h : instantiate k b sender funds m = .ok s0) (ops : List Op) :
    (run s0 ops).count = (run s0 ops).tokens.length ∧ (run s0 ops).ids.Nodup :=
  run_induction SInv SInv_step s0 (SInv_instantiate k b sender funds m s0 h) ops

/-- the same from any state satisfying the invariant (e.g. mid-history) -/
theorem C09_count_from (s : State) (hi : s.count = s.tokens.length ∧ s.ids.Nodup) (ops : List Op) :
    (run s ops).count = (run s ops).tokens.length ∧ (run s ops).ids.Nodup :=
  run_induction SInv SInv_step s hi ops

/-! ## 3. "Once the creator freezes collection info no later call changes any creator-editable field" -/

/-- `FreezeCollectionInfo` succeeds only for the creator and sets the flag (nothing else changes). -/
theorem C09_freeze_sets (s s' : State) (c : Call) (hm : c.msg = .freezeCollectionInfo) (h : exec s c = .ok s') :
    s.info.creator = c.sender ∧ s' = { s with frozenInfo := true } := by
  obtain ⟨_, e⟩ := exec_eff h
  rw [hm] at e
  cases e with
  | freeze hc => exact ⟨hc, rfl⟩

theorem frozen_step (s s' : State) (op : Op)
    (hi : s.frozenInfo = true) (h : step s op = .ok s') :
    s'.frozenInfo = true ∧ editable s'.info = editable s.info := by
  rcases step_cases h with ⟨c, rfl, h⟩ | a
  rotate_left
  · obtain ⟨_, _, _, _, hinfo, hfz⟩ := admin_frame a
    rw [hfz, hinfo]; exact ⟨hi, rfl⟩
  · obtain ⟨b, sender, funds, msg⟩ := c
    obtain ⟨_, e⟩ := exec_eff' h
    cases e with
    | updateInfo u racc i r hfz => rw [hi] at hfz; cases hfz
    | transfer => exact ⟨hi, rfl⟩
    | send => exact ⟨hi, rfl⟩
    | approve => exact ⟨hi, rfl⟩
    | revoke => exact ⟨hi, rfl⟩
    | utm => exact ⟨hi, rfl⟩
    | mint => exact ⟨hi, rfl⟩
    | burn => exact ⟨hi, rfl⟩
    | approveAll => exact ⟨hi, rfl⟩
    | revokeAll => exact ⟨hi, rfl⟩
    | ustt => exact ⟨hi, rfl⟩
    | freeze => exact ⟨rfl, rfl⟩
    | ownTransfer => exact ⟨hi, rfl⟩
    | ownAccept => exact ⟨hi, rfl⟩
    | ownRenounce => exact ⟨hi, rfl⟩
    | freezeMeta => exact ⟨hi, rfl⟩
    | enable => exact ⟨hi, rfl⟩

/-- From a frozen state, over EVERY continuation (every message kind, every sender incl. creator and minter,
every migration IN SCOPE from every stored version): the flag stays set and creator, description, image, external
link, explicit-content flag and royalty info keep their values.

SCOPE: "migration in scope" = base / older updatable → updatable code, metadata-onchain → its own code, nt → its own code.
Migrations to the metadata-onchain / nt code from ANOTHER collection kind — which the real code does not refuse (no name
check; observation, DESIGN 13.3) — are excluded by a model guard (`ensure (s.kind = …)`), not covered by this theorem.

(`royalty_updated_at` is NOT a creator-editable field and is NOT constant: migrating a collection whose stored
version is below 3.1.0 to the sg721-updatable code rewinds it — `C09_royalty_timestamp_rewound_by_migration`. An earlier
version of this theorem claimed it constant because the model knew no such migration.) -/
theorem C09_freeze_final (s : State) (hf : s.frozenInfo = true) (ops : List Op) :
    (run s ops).frozenInfo = true ∧ editable (run s ops).info = editable s.info := by
  have := run_induction
    (fun x => x.frozenInfo = true ∧ editable x.info = editable s.info)
    (fun a a' op ha h => by
      obtain ⟨h1, h2⟩ := frozen_step a a' op ha.1 h
      exact ⟨h1, h2.trans ha.2⟩)
    s ⟨hf, rfl⟩ ops
  exact this

/-- History form: after a successful `FreezeCollectionInfo` at any point of any history, every later state has
the creator-editable fields the collection had at the moment of the freeze. -/
theorem C09_freeze_final_history (s0 : State) (pre post : List Op) (c : Call) (s1 : State)
    (hm : c.msg = .freezeCollectionInfo) (h : exec (run s0 pre) c = .ok s1) :
    editable (run s0 (pre ++ Op.exec c :: post)).info = editable (run s0 pre).info ∧
    (run s0 (pre ++ Op.exec c :: post)).frozenInfo = true := by
  obtain ⟨_, hs1⟩ := C09_freeze_sets _ _ c hm h
  have hstep : step' (run s0 pre) (Op.exec c) = s1 := by
    unfold step'; simp only [step]; rw [h]
  rw [run_append, run_cons, hstep]
  obtain ⟨h1, h2⟩ := C09_freeze_final s1 (by rw [hs1]) post
  refine ⟨?_, h1⟩
  rw [h2, hs1]

/-- While not frozen, a creator-editable field changes only through `UpdateCollectionInfo` sent by the creator
(in particular no migration and no version change touches the collection info). -/
theorem C09_info_change_guard (s s' : State) (op : Op) (h : step s op = .ok s')
    (hne : editable s'.info ≠ editable s.info) :
    ∃ c u racc, op = .exec c ∧ c.msg = .updateCollectionInfo u racc ∧ s.info.creator = c.sender ∧
      s.frozenInfo = false := by
  rcases step_cases h with ⟨c, rfl, h⟩ | a
  rotate_left
  · rw [(admin_frame a).2.2.2.2.1] at hne
    exact absurd rfl hne
  · obtain ⟨b, sender, funds, msg⟩ := c
    obtain ⟨_, e⟩ := exec_eff' h
    cases e with
    | updateInfo u racc i r hfz hc => exact ⟨_, u, racc, rfl, rfl, hc, hfz⟩
    | transfer => exact absurd rfl hne
    | send => exact absurd rfl hne
    | approve => exact absurd rfl hne
    | revoke => exact absurd rfl hne
    | utm => exact absurd rfl hne
    | mint => exact absurd rfl hne
    | burn => exact absurd rfl hne
    | approveAll => exact absurd rfl hne
    | revokeAll => exact absurd rfl hne
    | ustt => exact absurd rfl hne
    | freeze => exact absurd rfl hne
    | ownTransfer => exact absurd rfl hne
    | ownAccept => exact absurd rfl hne
    | ownRenounce => exact absurd rfl hne
    | freezeMeta => exact absurd rfl hne
    | enable => exact absurd rfl hne

/-- Frame for the info freeze flag itself: it is set by the creator's `FreezeCollectionInfo` and by nothing else, and
no step (message, migration, version change) ever clears it. -/
theorem C09_freeze_flag_guard (s s' : State) (op : Op) (h : step s op = .ok s')
    (hne : s'.frozenInfo ≠ s.frozenInfo) :
    s'.frozenInfo = true ∧ ∃ c, op = .exec c ∧ c.msg = .freezeCollectionInfo ∧ s.info.creator = c.sender := by
  rcases step_cases h with ⟨c, rfl, h⟩ | a
  rotate_left
  · rw [(admin_frame a).2.2.2.2.2] at hne
    exact absurd rfl hne
  · obtain ⟨b, sender, funds, msg⟩ := c
    obtain ⟨_, e⟩ := exec_eff' h
    cases e with
    | freeze hc => exact ⟨rfl, _, rfl, rfl, hc⟩
    | updateInfo => exact absurd rfl hne
    | transfer => exact absurd rfl hne
    | send => exact absurd rfl hne
    | approve => exact absurd rfl hne
    | revoke => exact absurd rfl hne
    | utm => exact absurd rfl hne
    | mint => exact absurd rfl hne
    | burn => exact absurd rfl hne
    | approveAll => exact absurd rfl hne
    | revokeAll => exact absurd rfl hne
    | ustt => exact absurd rfl hne
    | ownTransfer => exact absurd rfl hne
    | ownAccept => exact absurd rfl hne
    | ownRenounce => exact absurd rfl hne
    | freezeMeta => exact absurd rfl hne
    | enable => exact absurd rfl hne

/-- What CAN move `royalty_updated_at`: the creator's `UpdateCollectionInfo` while not frozen, or a migration to the
sg721-updatable code (from a stored version below 3.1.0 — see `migrateToUpdatable`). Nothing else. -/
theorem C09_royalty_timestamp_guard (s s' : State) (op : Op) (h : step s op = .ok s')
    (hne : s'.royaltyUpdatedAt ≠ s.royaltyUpdatedAt) :
    (∃ c u racc, op = .exec c ∧ c.msg = .updateCollectionInfo u racc ∧ s.info.creator = c.sender ∧
      s.frozenInfo = false) ∨
    (∃ now, op = .migrate .updatable now ∧ s.ver < V_3_1_0) := by
  rcases step_cases h with ⟨c, rfl, h⟩ | a
  · left
    obtain ⟨b, sender, funds, msg⟩ := c
    obtain ⟨_, e⟩ := exec_eff' h
    cases e with
    | updateInfo u racc i r hfz hc => exact ⟨_, u, racc, rfl, rfl, hc, hfz⟩
    | transfer => exact absurd rfl hne
    | send => exact absurd rfl hne
    | approve => exact absurd rfl hne
    | revoke => exact absurd rfl hne
    | utm => exact absurd rfl hne
    | mint => exact absurd rfl hne
    | burn => exact absurd rfl hne
    | approveAll => exact absurd rfl hne
    | revokeAll => exact absurd rfl hne
    | ustt => exact absurd rfl hne
    | freeze => exact absurd rfl hne
    | ownTransfer => exact absurd rfl hne
    | ownAccept => exact absurd rfl hne
    | ownRenounce => exact absurd rfl hne
    | freezeMeta => exact absurd rfl hne
    | enable => exact absurd rfl hne
  · cases op with
    | exec c => cases a
    | setVersion v => cases a; exact absurd rfl hne
    | migrate target now =>
      cases target with
      | base => cases a
      | nt => cases a; exact absurd rfl hne
      | onchain => cases a; exact absurd rfl hne
      | updatable =>
        right
        refine ⟨now, rfl, ?_⟩
        simp only [step, migrateTo, migrateToUpdatable, ensure_ok, Except.ok.injEq] at h
        obtain ⟨-, -, -, -, -, -, rfl⟩ := h
        apply Classical.byContradiction
        intro hlt
        simp only [hlt, if_false] at hne
        exact hne rfl

/-! ## 4. Token metadata: "metadata updates require the creator and an existing token"; "once token metadata is
frozen on an updatable collection no token URI changes again" -/

theorem supported_utm (k : Kind) (id : Nat) (uri : Option Nat) (h : supported k (.updateTokenMetadata id uri) = true) :
    k = .updatable := by
  cases k <;> simp [supported] at h ⊢

/-- `UpdateTokenMetadata` succeeds only on an updatable collection, for the creator, on an existing token, while
not frozen and while updates are enabled, without funds; it sets that token's URI and nothing else of the token. -/
theorem C09_update_meta_guard (s s' : State) (c : Call) (id : Nat) (uri : Option Nat)
    (hm : c.msg = .updateTokenMetadata id uri) (h : exec s c = .ok s') :
    s.kind = .updatable ∧ s.info.creator = c.sender ∧ id ∈ s.ids ∧ s.frozenMeta = false ∧ s.updEnabled = true ∧
    c.funds = [] ∧ ∃ t, s.find? id = some t ∧ s' = s.setToken { t with uri := uri } := by
  obtain ⟨hs, e⟩ := exec_eff h
  rw [hm] at e hs
  cases e with
  | utm _ _ t hfu hc hfm hue hf =>
    exact ⟨supported_utm _ _ _ hs, hc, mem_ids_of_find? hf, hfm, hue, hfu, t, hf, rfl⟩

/-- The URI of a token that exists before and after a successful step changes only through an
`UpdateTokenMetadata` of that token (hence only with all the guards of `C09_update_meta_guard`); in particular no
migration and no version change touches a URI. -/
theorem C09_uri_change_guard (s s' : State) (op : Op) (h : step s op = .ok s') (id : Nat)
    (h1 : id ∈ s.ids) (h2 : id ∈ s'.ids) (hne : uriOf s' id ≠ uriOf s id) :
    ∃ c uri, op = .exec c ∧ c.msg = .updateTokenMetadata id uri ∧ s.kind = .updatable ∧
      s.info.creator = c.sender ∧ s.frozenMeta = false ∧ s.updEnabled = true := by
  rcases step_cases h with ⟨c, rfl, h⟩ | a
  · obtain ⟨_, e⟩ := exec_eff (s := s) (c := c) h
    obtain ⟨t, t', ht, ht', _, _, hu, _⟩ := eff_token e id h1 h2
    rcases hu with hu | hu
    · exact absurd (by unfold uriOf; rw [ht, ht']; simp [hu]) hne
    · obtain ⟨hk, hc, _, hfm, hue, _⟩ := C09_update_meta_guard s s' c id t'.uri hu h
      exact ⟨c, t'.uri, rfl, hu, hk, hc, hfm, hue⟩
  · exact absurd (by unfold uriOf; rw [admin_find? a]) hne

/-- `FreezeTokenMetadata` exists only on the updatable collection, succeeds only for the creator (without funds)
and sets the flag. -/
theorem C09_freeze_meta_sets (s s' : State) (c : Call) (hm : c.msg = .freezeTokenMetadata) (h : exec s c = .ok s') :
    s.kind = .updatable ∧ s.info.creator = c.sender ∧ s' = { s with frozenMeta := true } := by
  obtain ⟨hs, e⟩ := exec_eff h
  rw [hm] at e hs
  cases e with
  | freezeMeta _ hc =>
    refine ⟨?_, hc, rfl⟩
    revert hs; cases s.kind <;> simp [supported]

/-- The migration part of the metadata freeze, proved from WHAT AN ACCEPTED MIGRATION DOES (not from a refusal): a
successful migration of an sg721-updatable collection — an upgrade from an older stored version is accepted — keeps
the collection updatable and leaves both flags as they were, because `_migrate` re-initialises them only when the
stored name is an sg721-base name. -/
theorem C09_meta_freeze_survives_migration (s s' : State) (target : Kind) (now : Nat) (hk : s.kind = .updatable)
    (h : step s (.migrate target now) = .ok s') :
    target = .updatable ∧ s'.kind = .updatable ∧ s'.frozenMeta = s.frozenMeta ∧ s'.updEnabled = s.updEnabled ∧
    s'.tokens = s.tokens ∧ s'.frozenInfo = s.frozenInfo ∧ s'.info = s.info := by
  rcases step_cases h with ⟨c, hc, _⟩ | a
  · cases hc
  · cases a with
    | toUpdatable _ _ _ => simp [hk]
    | onchainSelf _ _ hk' => rw [hk] at hk'; cases hk'
    | ntSelf _ hk' => rw [hk] at hk'; cases hk'

theorem metaFrozen_step (s s' : State) (op : Op) (hk : s.kind = .updatable) (hf : s.frozenMeta = true)
    (h : step s op = .ok s') :
    s'.kind = .updatable ∧ s'.frozenMeta = true ∧
    ∀ id, id ∈ s.ids → id ∈ s'.ids → uriOf s' id = uriOf s id := by
  refine ⟨?_, ?_, ?_⟩
  · rcases step_cases h with ⟨c, rfl, h⟩ | a
    · obtain ⟨b, sender, funds, msg⟩ := c
      obtain ⟨_, e⟩ := exec_eff' h
      cases e <;> exact hk
    · cases a with
      | setVersion => exact hk
      | toUpdatable => rfl
      | onchainSelf => exact hk
      | ntSelf => exact hk
  · rcases step_cases h with ⟨c, rfl, h⟩ | a
    · obtain ⟨b, sender, funds, msg⟩ := c
      obtain ⟨_, e⟩ := exec_eff' h
      cases e <;> first | exact hf | rfl
    · cases a with
      | setVersion => exact hf
      | toUpdatable => simp [hk, hf]
      | onchainSelf => exact hf
      | ntSelf => exact hf
  · intro id h1 h2
    apply Classical.byContradiction
    intro hne
    obtain ⟨_, _, _, _, _, _, hfm, _⟩ := C09_uri_change_guard s s' op h id h1 h2 hne
    rw [hf] at hfm; cases hfm

/-
FULL literal reading (NOT provable on the unchanged code, see `C09_meta_freeze_final_counterexample`; recorded as an
observation (DESIGN 13.3), not a finding — the property itself allows creating an id that does not exist, and the launchpad
minters never re-mint):

  theorem C09_meta_freeze_final (s : State) (hk : s.kind = .updatable) (hf : s.frozenMeta = true)
      (ops : List Op) (id : Nat) (h1 : id ∈ s.ids) (h2 : id ∈ (run s ops).ids) :
      uriOf (run s ops) id = uriOf s id

i.e. "what `NftInfo{token_id}` answers for an id never changes after the freeze". It fails because a token can be
burned (by its owner) and the id minted again (by the minter) with another URI; neither `burn` nor `mint` looks at
`FROZEN_TOKEN_METADATA`. The proved `_partial` statement below restricts the claim to tokens that are not burned along
the way (`aliveThrough`); everything else (flag stays, kind stays, no `UpdateTokenMetadata` is ever accepted again —
`C09_meta_freeze_blocks_updates`) is at full strength. The launchpad minters never re-mint a burned id, so the gap
needs a minter that does.
-/

/-- After token metadata is frozen on an updatable collection: over EVERY continuation (messages, upgrades from any
stored version) the flag stays set, the collection stays updatable, and the URI of every token that continues to exist
(is not burned along the way) never changes. -/
theorem C09_meta_freeze_final_partial (s : State) (hk : s.kind = .updatable) (hf : s.frozenMeta = true)
    (ops : List Op) (id : Nat) (alive : aliveThrough s id ops) :
    uriOf (run s ops) id = uriOf s id ∧ (run s ops).frozenMeta = true ∧ (run s ops).kind = .updatable := by
  induction ops generalizing s with
  | nil => exact ⟨rfl, hf, hk⟩
  | cons op ops ih =>
    rw [run_cons]
    obtain ⟨h1, hrest⟩ := alive
    rcases step'_cases s op with ⟨s', hs, he⟩ | he
    · rw [he] at hrest ⊢
      obtain ⟨hk', hf', huri⟩ := metaFrozen_step s s' op hk hf hs
      obtain ⟨a, b, c⟩ := ih s' hk' hf' hrest
      have h2 : id ∈ s'.ids := by cases ops <;> first | exact hrest | exact hrest.1
      exact ⟨a.trans (huri id h1 h2), b, c⟩
    · rw [he] at hrest ⊢
      exact ih s hk hf hrest

/-- History form: after a successful `FreezeTokenMetadata` at any point of any history, the URI of every token
that is not burned afterwards stays what it was at the moment of the freeze. -/
theorem C09_meta_freeze_final_history_partial (s0 : State) (pre post : List Op) (c : Call) (s1 : State) (id : Nat)
    (hm : c.msg = .freezeTokenMetadata) (h : exec (run s0 pre) c = .ok s1) (alive : aliveThrough s1 id post) :
    uriOf (run s0 (pre ++ Op.exec c :: post)) id = uriOf (run s0 pre) id := by
  obtain ⟨hk, _, hs1⟩ := C09_freeze_meta_sets _ _ c hm h
  have hstep : step' (run s0 pre) (Op.exec c) = s1 := by
    unfold step'; simp only [step]; rw [h]
  rw [run_append, run_cons, hstep]
  obtain ⟨h1, _, _⟩ := C09_meta_freeze_final_partial s1 (by rw [hs1]; exact hk) (by rw [hs1]) post id alive
  rw [h1, hs1]; rfl

/-- and no metadata update is accepted any more (full strength: all continuations, migrations included) -/
theorem C09_meta_freeze_blocks_updates (s : State) (hk : s.kind = .updatable) (hf : s.frozenMeta = true)
    (ops : List Op) (c : Call) (id : Nat) (uri : Option Nat) (hm : c.msg = .updateTokenMetadata id uri) :
    ∀ s', exec (run s ops) c ≠ .ok s' := by
  intro s' h
  have inv := run_induction (fun x => x.kind = .updatable ∧ x.frozenMeta = true)
    (fun a a' op ha hs => by
      obtain ⟨h1, h2, _⟩ := metaFrozen_step a a' op ha.1 ha.2 hs
      exact ⟨h1, h2⟩) s ⟨hk, hf⟩ ops
  obtain ⟨_, _, _, hfm, _⟩ := C09_update_meta_guard _ _ c id uri hm h
  rw [inv.2] at hfm; cases hfm

/-- outside the updatable collection the metadata flag is never set (it is only ever written by the sg721-updatable
code) — the invariant that makes "re-initialised when coming from sg721-base" harmless -/
def FlagInv (s : State) : Prop := s.kind ≠ .updatable → s.frozenMeta = false

theorem FlagInv_step (s s' : State) (op : Op) (hi : FlagInv s) (h : step s op = .ok s') : FlagInv s' := by
  rcases step_cases h with ⟨c, rfl, h⟩ | a
  · obtain ⟨b, sender, funds, msg⟩ := c
    obtain ⟨hs, e⟩ := exec_eff' h
    cases e with
    | freezeMeta =>
      intro hk; exfalso; apply hk
      revert hs; cases s.kind <;> simp [supported]
    | transfer => exact hi
    | send => exact hi
    | approve => exact hi
    | revoke => exact hi
    | utm => exact hi
    | mint => exact hi
    | burn => exact hi
    | approveAll => exact hi
    | revokeAll => exact hi
    | updateInfo => exact hi
    | ustt => exact hi
    | freeze => exact hi
    | ownTransfer => exact hi
    | ownAccept => exact hi
    | ownRenounce => exact hi
    | enable => exact hi
  · cases a with
    | setVersion => exact hi
    | toUpdatable => intro hk; exact absurd rfl hk
    | onchainSelf => exact hi
    | ntSelf => exact hi

/-- Instantiate + ANY history (no assumption on the kind): once `frozen_token_metadata` is true it is true in every
later state — no message, no migration (base → updatable, updatable → updatable from any stored version, …) and no
version change resets it. -/
theorem C09_meta_flag_never_resets (k : Kind) (b : Block) (sender : Addr) (funds : List Coin) (m : InstMsg)
    (s0 : State) (hinst : instantiate k b sender funds m = .ok s0) (pre post : List Op)
    (hf : (run s0 pre).frozenMeta = true) : (run s0 (pre ++ post)).frozenMeta = true := by
  have h0 : FlagInv s0 := by
    simp only [instantiate, ensure_ok, Except.ok.injEq] at hinst
    obtain ⟨_, _, _, _, _, _, _, _, rfl⟩ := hinst
    intro _; rfl
  have hpre : FlagInv (run s0 pre) := run_induction FlagInv FlagInv_step s0 h0 pre
  have hk : (run s0 pre).kind = .updatable := by
    apply Classical.byContradiction
    intro hne
    rw [hpre hne] at hf; cases hf
  rw [run_append]
  exact (run_induction (fun x => x.kind = .updatable ∧ x.frozenMeta = true)
    (fun a a' op ha hs => by
      obtain ⟨h1, h2, _⟩ := metaFrozen_step a a' op ha.1 ha.2 hs
      exact ⟨h1, h2⟩) (run s0 pre) ⟨hk, hf⟩ post).2

/-! ## 5. "In the non-transferable collection a token's owner never changes between mint and burn" -/

theorem supported_nt_transfer (r : Addr) (id : Nat) : supported .nt (.transferNft r id) = false := rfl
theorem supported_nt_send (r : Addr) (id : Nat) (ok : Bool) : supported .nt (.sendNft r id ok) = false := rfl

theorem nt_step (s s' : State) (op : Op) (hk : s.kind = .nt) (h : step s op = .ok s') :
    s'.kind = .nt ∧ ∀ id, id ∈ s.ids → id ∈ s'.ids → ownerOf s' id = ownerOf s id := by
  rcases step_cases h with ⟨c, rfl, h⟩ | a
  · obtain ⟨b, sender, funds, msg⟩ := c
    obtain ⟨hs, e⟩ := exec_eff' h
    refine ⟨by cases e <;> exact hk, ?_⟩
    intro id h1 h2
    obtain ⟨t, t', ht, ht', _, _, _, ho⟩ := eff_token e id h1 h2
    rw [hk] at hs
    rcases ho with ho | ho | ho
    · unfold ownerOf; rw [ht, ht']; simp [ho]
    · rw [ho, supported_nt_transfer] at hs; cases hs
    · rw [ho, supported_nt_send] at hs; cases hs
  · have hfind := admin_find? a
    refine ⟨?_, fun id _ _ => by unfold ownerOf; rw [hfind]⟩
    cases a with
    | setVersion => exact hk
    | toUpdatable _ _ hk' => rw [hk] at hk'; rcases hk' with h | h <;> cases h
    | onchainSelf => exact hk
    | ntSelf => exact hk

/-- sg721-nt: over EVERY history, a token that continues to exist keeps its owner (so between its mint and its
burn the owner is the address it was minted to); no IN-SCOPE migration changes the kind.

SCOPE of the conjunct `(run s ops).kind = .nt`: it holds because the MODEL refuses the foreign migrations —
`migrateOnchainSelf` starts with `ensure (s.kind = .onchain)`, `migrateToUpdatable` does not accept an nt name. The real
sg721-metadata-onchain `migrate` never looks at the stored contract name (and returns `Ok` at an equal version), so the
wasm admin can point an nt collection at the transferable metadata-onchain code; that migration is excluded by the model
guard, NOT proved impossible (and not executed by the harness). Recorded as an observation (DESIGN 13.3: "sg721-nt /
-metadata-onchain `migrate` have no name check"), not a finding. -/
theorem C09_nt_owner_constant (s : State) (hk : s.kind = .nt) (ops : List Op) (id : Nat)
    (alive : aliveThrough s id ops) :
    ownerOf (run s ops) id = ownerOf s id ∧ (run s ops).kind = .nt := by
  induction ops generalizing s with
  | nil => exact ⟨rfl, hk⟩
  | cons op ops ih =>
    rw [run_cons]
    obtain ⟨h1, hrest⟩ := alive
    rcases step'_cases s op with ⟨s', hs, he⟩ | he
    · rw [he] at hrest ⊢
      obtain ⟨hk', hown⟩ := nt_step s s' op hk hs
      obtain ⟨a, b⟩ := ih s' hk' hrest
      have h2 : id ∈ s'.ids := by cases ops <;> first | exact hrest | exact hrest.1
      exact ⟨a.trans (hown id h1 h2), b⟩
    · rw [he] at hrest ⊢
      exact ih s hk hrest

/-- … and that owner is the address the token was minted to: from the successful `Mint` of `id` to `owner`
onwards, as long as the token is not burned, `OwnerOf id` is `owner`. -/
theorem C09_nt_owner_is_mint_recipient (s s1 : State) (hk : s.kind = .nt) (c : Call) (id : Nat) (owner : Addr)
    (uri : Option Nat) (ext : Nat) (hm : c.msg = .mint id owner uri ext) (h : exec s c = .ok s1)
    (post : List Op) (alive : aliveThrough s1 id post) :
    ownerOf (run s1 post) id = some owner := by
  obtain ⟨_, hn, ht, _⟩ := C09_mint_auth_unique s s1 c id owner uri ext hm h
  have hk1 : s1.kind = .nt := (nt_step s s1 (.exec c) hk h).1
  have h0 : ownerOf s1 id = some owner := by
    unfold ownerOf State.find?
    rw [ht, List.find?_append]
    have : s.tokens.find? (fun t => decide (t.id = id)) = none := (find?_none_iff s id).2 hn
    rw [this]; simp
  rw [(C09_nt_owner_constant s1 hk1 post id alive).1, h0]

/-- in sg721-nt there are never approvals nor operators (no message can create them) … -/
def NtInv (s : State) : Prop := s.kind = .nt ∧ s.operators = [] ∧ ∀ t ∈ s.tokens, t.approvals = []

theorem NtInv_step (s s' : State) (op : Op) (hi : NtInv s) (h : step s op = .ok s') : NtInv s' := by
  obtain ⟨hk, ho, ha⟩ := hi
  rcases step_cases h with ⟨c, rfl, h⟩ | a
  rotate_left
  · obtain ⟨ht, _, hop, _⟩ := admin_frame a
    refine ⟨(nt_step s s' op hk h).1, by rw [hop]; exact ho, by rw [ht]; exact ha⟩
  · obtain ⟨b, sender, funds, msg⟩ := c
    obtain ⟨hs, e⟩ := exec_eff' h
    rw [hk] at hs
    cases e with
    | transfer => cases hs
    | send => cases hs
    | approve => cases hs
    | revoke => cases hs
    | utm => cases hs
    | approveAll => cases hs
    | revokeAll => cases hs
    | ustt => cases hs
    | ownTransfer => cases hs
    | ownAccept => cases hs
    | ownRenounce => cases hs
    | freezeMeta => cases hs
    | enable => cases hs
    | mint j owner uri ext =>
      refine ⟨hk, ho, ?_⟩
      intro t ht
      simp only [List.mem_append, List.mem_singleton] at ht
      rcases ht with ht | ht
      · exact ha t ht
      · subst ht; rfl
    | burn j tj =>
      refine ⟨hk, ho, ?_⟩
      intro t ht
      exact ha t (List.mem_filter.1 ht).1
    | updateInfo => exact ⟨hk, ho, ha⟩
    | freeze => exact ⟨hk, ho, ha⟩

/-- … hence only the owner can burn: in every history of an sg721-nt collection, a successful `Burn` was sent by
the token's owner (the address it was minted to). -/
theorem C09_nt_burn_only_owner (b : Block) (sender : Addr) (funds : List Coin) (m : InstMsg) (s0 : State)
    (hinst : instantiate .nt b sender funds m = .ok s0) (pre : List Op) (c : Call) (id : Nat) (s1 : State)
    (hm : c.msg = .burn id) (h : exec (run s0 pre) c = .ok s1) :
    ownerOf (run s0 pre) id = some c.sender := by
  have h0 : NtInv s0 := by
    simp only [instantiate, ensure_ok, Except.ok.injEq] at hinst
    obtain ⟨_, _, _, _, _, _, _, _, rfl⟩ := hinst
    exact ⟨rfl, rfl, by intro t ht; cases ht⟩
  obtain ⟨_, ho, ha⟩ := run_induction NtInv NtInv_step s0 h0 pre
  obtain ⟨_, e⟩ := exec_eff h
  rw [hm] at e
  cases e with
  | burn _ t hf hc =>
    have hap := ha t (find?_some hf).1
    unfold canSend State.isOperator State.operator? at hc
    rw [hap, ho] at hc
    simp at hc
    unfold ownerOf; rw [hf]; simp [hc]

/-! ## 6. Who is the minter: the cw_ownable owner changes only by accept (of a hand-over the minter proposed) or
renounce (by the minter) -/

theorem C09_minter_change_guard (s s' : State) (op : Op) (h : step s op = .ok s')
    (hne : s'.ownership.owner ≠ s.ownership.owner) :
    ∃ c, op = .exec c ∧
      ((c.msg = .updateOwnership .accept ∧ s.ownership.pending = some c.sender ∧ s'.ownership.owner = some c.sender) ∨
       (c.msg = .updateOwnership .renounce ∧ s.ownership.owner = some c.sender ∧ s'.ownership.owner = none)) := by
  rcases step_cases h with ⟨c, rfl, h⟩ | a
  rotate_left
  · rw [(admin_frame a).2.2.2.1] at hne
    exact absurd rfl hne
  · obtain ⟨b, sender, funds, msg⟩ := c
    obtain ⟨_, e⟩ := exec_eff' h
    cases e with
    | ownAccept hp _ => exact ⟨_, rfl, .inl ⟨rfl, hp, rfl⟩⟩
    | ownRenounce ho => exact ⟨_, rfl, .inr ⟨rfl, ho, rfl⟩⟩
    | ownTransfer => exact absurd rfl hne
    | transfer => exact absurd rfl hne
    | send => exact absurd rfl hne
    | approve => exact absurd rfl hne
    | revoke => exact absurd rfl hne
    | utm => exact absurd rfl hne
    | mint => exact absurd rfl hne
    | burn => exact absurd rfl hne
    | approveAll => exact absurd rfl hne
    | revokeAll => exact absurd rfl hne
    | updateInfo => exact absurd rfl hne
    | ustt => exact absurd rfl hne
    | freeze => exact absurd rfl hne
    | freezeMeta => exact absurd rfl hne
    | enable => exact absurd rfl hne

/-- … and the proposed new minter (`pending_owner`) is named only by the CURRENT minter's `TransferOwnership`; it is
cleared by accept / renounce; nothing else (no other message, no migration) touches it. Together with
`C09_minter_change_guard`: whoever becomes minter was named by the minter of that moment. (The harness keeps the same
bookkeeping on its own — monitors `…/ownership/minter-changed`, `…/mint/non-minter`.) -/
theorem C09_pending_change_guard (s s' : State) (op : Op) (h : step s op = .ok s')
    (hne : s'.ownership.pending ≠ s.ownership.pending) :
    ∃ c, op = .exec c ∧
      ((∃ n ex, c.msg = .updateOwnership (.transfer n ex) ∧ s.ownership.owner = some c.sender ∧
          s'.ownership.pending = some n ∧ s'.ownership.owner = s.ownership.owner) ∨
       (c.msg = .updateOwnership .accept ∧ s.ownership.pending = some c.sender ∧ s'.ownership.pending = none) ∨
       (c.msg = .updateOwnership .renounce ∧ s.ownership.owner = some c.sender ∧ s'.ownership.pending = none)) := by
  rcases step_cases h with ⟨c, rfl, h⟩ | a
  rotate_left
  · rw [(admin_frame a).2.2.2.1] at hne
    exact absurd rfl hne
  · obtain ⟨b, sender, funds, msg⟩ := c
    obtain ⟨_, e⟩ := exec_eff' h
    cases e with
    | ownTransfer n ex ho _ => exact ⟨_, rfl, .inl ⟨n, ex, rfl, ho, rfl, rfl⟩⟩
    | ownAccept hp _ => exact ⟨_, rfl, .inr (.inl ⟨rfl, hp, rfl⟩)⟩
    | ownRenounce ho => exact ⟨_, rfl, .inr (.inr ⟨rfl, ho, rfl⟩)⟩
    | transfer => exact absurd rfl hne
    | send => exact absurd rfl hne
    | approve => exact absurd rfl hne
    | revoke => exact absurd rfl hne
    | utm => exact absurd rfl hne
    | mint => exact absurd rfl hne
    | burn => exact absurd rfl hne
    | approveAll => exact absurd rfl hne
    | revokeAll => exact absurd rfl hne
    | updateInfo => exact absurd rfl hne
    | ustt => exact absurd rfl hne
    | freeze => exact absurd rfl hne
    | freezeMeta => exact absurd rfl hne
    | enable => exact absurd rfl hne

/-! ### history form -/

/-- address `a` was named as the new minter by a successful `TransferOwnership` sent by the minter of that moment,
somewhere in the history `ops` from `s0` -/
def NamedByMinter (s0 : State) (ops : List Op) (a : Addr) : Prop :=
  ∃ pre c post ex s1, ops = pre ++ Op.exec c :: post ∧ c.msg = .updateOwnership (.transfer a ex) ∧
    (run s0 pre).ownership.owner = some c.sender ∧ exec (run s0 pre) c = .ok s1

theorem NamedByMinter.snoc {s0 : State} {ops : List Op} {a : Addr} (h : NamedByMinter s0 ops a) (op : Op) :
    NamedByMinter s0 (ops ++ [op]) a := by
  obtain ⟨pre, c, post, ex, s1, h1, h2, h3, h4⟩ := h
  exact ⟨pre, c, post ++ [op], ex, s1, by rw [h1]; simp, h2, h3, h4⟩

/-- who can be minter / proposed minter after a history: the initial one, nobody, or somebody a minter named -/
def Entitled (s0 : State) (ops : List Op) (x : Option Addr) (init : Option Addr) : Prop :=
  x = init ∨ x = none ∨ ∃ a, x = some a ∧ NamedByMinter s0 ops a

theorem Entitled.snoc {s0 : State} {ops : List Op} {x init : Option Addr} (h : Entitled s0 ops x init) (op : Op) :
    Entitled s0 (ops ++ [op]) x init := by
  rcases h with h | h | ⟨a, h, hn⟩
  · exact .inl h
  · exact .inr (.inl h)
  · exact .inr (.inr ⟨a, h, hn.snoc op⟩)

theorem run_snoc (s : State) (ops : List Op) (op : Op) : run s (ops ++ [op]) = step' (run s ops) op := by
  rw [run_append]; rfl

def MinterInv (s0 : State) (ops : List Op) : Prop :=
  (Entitled s0 ops (run s0 ops).ownership.owner s0.ownership.owner ∨
    (run s0 ops).ownership.owner = s0.ownership.pending) ∧
  Entitled s0 ops (run s0 ops).ownership.pending s0.ownership.pending

theorem MinterInv_snoc (s0 : State) (ops : List Op) (op : Op) (ih : MinterInv s0 ops) : MinterInv s0 (ops ++ [op]) := by
  obtain ⟨ihO, ihP⟩ := ih
  have keepO : (Entitled s0 (ops ++ [op]) (run s0 ops).ownership.owner s0.ownership.owner ∨
      (run s0 ops).ownership.owner = s0.ownership.pending) := by
    rcases ihO with h | h
    · exact .inl (h.snoc op)
    · exact .inr h
  have keepP := ihP.snoc op
  unfold MinterInv
  rw [run_snoc]
  rcases step'_cases (run s0 ops) op with ⟨s', hs, he⟩ | he
  rotate_left
  · rw [he]; exact ⟨keepO, keepP⟩
  · rw [he]
    by_cases hO : s'.ownership.owner = (run s0 ops).ownership.owner
    · by_cases hP : s'.ownership.pending = (run s0 ops).ownership.pending
      · rw [hO, hP]; exact ⟨keepO, keepP⟩
      · rw [hO]
        refine ⟨keepO, ?_⟩
        obtain ⟨c, rfl, h⟩ := C09_pending_change_guard _ _ op hs hP
        rcases h with ⟨n, ex, hm, hown, hp, _⟩ | ⟨_, _, hp⟩ | ⟨_, _, hp⟩
        · rw [hp]
          have hex : exec (run s0 ops) c = .ok s' := hs
          exact .inr (.inr ⟨n, rfl, ops, c, [], ex, s', rfl, hm, hown, hex⟩)
        · rw [hp]; exact .inr (.inl rfl)
        · rw [hp]; exact .inr (.inl rfl)
    · obtain ⟨c, rfl, h⟩ := C09_minter_change_guard _ _ op hs hO
      have hex : exec (run s0 ops) c = .ok s' := hs
      rcases h with ⟨hm, hpend, hown⟩ | ⟨hm, _, hown⟩
      · -- accept: the new minter is the previously proposed one; the proposal is cleared
        have hp' : s'.ownership.pending = none := by
          obtain ⟨_, e⟩ := exec_eff hex
          rw [hm] at e
          cases e with
          | ownAccept => rfl
        refine ⟨?_, by rw [hp']; exact .inr (.inl rfl)⟩
        rw [hown, ← hpend]
        rcases keepP with h | h | ⟨a, h, hn⟩
        · exact .inr h
        · rw [hpend] at h; cases h
        · exact .inl (.inr (.inr ⟨a, h, hn⟩))
      · -- renounce
        have hp' : s'.ownership.pending = none := by
          obtain ⟨_, e⟩ := exec_eff hex
          rw [hm] at e
          cases e with
          | ownRenounce => rfl
        exact ⟨.inl (.inr (.inl hown)), by rw [hp']; exact .inr (.inl rfl)⟩

theorem MinterInv_append (s0 : State) (pre ops : List Op) (h : MinterInv s0 pre) : MinterInv s0 (pre ++ ops) := by
  induction ops generalizing pre with
  | nil => simpa using h
  | cons op rest ih =>
    have := ih (pre ++ [op]) (MinterInv_snoc s0 pre op h)
    simpa using this

/-- History form of "who is the minter": after ANY history the minter is the initial minter, or nobody (renounced), or
the address proposed at the start, or an address that the minter of some earlier moment named in a successful
`TransferOwnership`; likewise for the proposed minter. This is what the harness's ghost bookkeeping transcribes
(monitors `…/minter-changed`, `…/accept-not-proposed`, `…/mint/non-minter`). -/
theorem C09_minter_history (s0 : State) (ops : List Op) :
    (Entitled s0 ops (run s0 ops).ownership.owner s0.ownership.owner ∨
      (run s0 ops).ownership.owner = s0.ownership.pending) ∧
    Entitled s0 ops (run s0 ops).ownership.pending s0.ownership.pending := by
  have := MinterInv_append s0 [] ops ⟨.inl (.inl rfl), .inl rfl⟩
  rw [List.nil_append] at this
  exact this

/-! ## 7. The pre-3.1.0 storage layout (no `royalty_updated_at` item): the freezes survive the upgrade that creates it

`XState` / `xstep` (Model/Sg721.lean) track the absence of the item next to the state. Every `xstep` is either the
environment step (state untouched) or a `step` of the core, so every step theorem above transfers; the two freeze clauses
are restated over `xrun` histories because this is the path a faithful "old collection" takes:
freeze → (old layout) → migrate to the sg721-updatable code → messages. -/

theorem xstep_core {x x' : XState} {xo : XOp} (h : xstep x xo = .ok x') :
    x'.core = x.core ∨ ∃ o, xo = .op o ∧ step x.core o = .ok x'.core := by
  cases xo with
  | dropRoyaltyStamp =>
    simp only [xstep, Except.ok.injEq] at h
    subst h; exact .inl rfl
  | op o =>
    right
    refine ⟨o, rfl, ?_⟩
    simp only [xstep] at h
    split at h
    · cases h
    · cases hs : step x.core o with
      | ok s' => rw [hs] at h; simp only [Except.ok.injEq] at h; subst h; rfl
      | error e => rw [hs] at h; cases h

theorem xstep'_cases (x : XState) (xo : XOp) : (∃ x', xstep x xo = .ok x' ∧ xstep' x xo = x') ∨ xstep' x xo = x := by
  unfold xstep'
  cases h : xstep x xo with
  | ok x' => exact .inl ⟨x', rfl, rfl⟩
  | error e => exact .inr rfl

theorem xrun_induction (P : State → Prop) (hstep : ∀ s s' op, P s → step s op = .ok s' → P s')
    (x : XState) (h : P x.core) (ops : List XOp) : P (xrun x ops).core := by
  induction ops generalizing x with
  | nil => exact h
  | cons xo ops ih =>
    show P (xrun (xstep' x xo) ops).core
    apply ih
    rcases xstep'_cases x xo with ⟨x', hs, he⟩ | he
    · rw [he]
      rcases xstep_core hs with hc | ⟨o, _, ho⟩
      · rw [hc]; exact h
      · exact hstep _ _ o h ho
    · rw [he]; exact h

/-- Collection-info freeze over histories that include the old-layout environment step: still final. -/
theorem C09_freeze_final_old_layout (x : XState) (hf : x.core.frozenInfo = true) (ops : List XOp) :
    (xrun x ops).core.frozenInfo = true ∧ editable (xrun x ops).core.info = editable x.core.info :=
  xrun_induction (fun s => s.frozenInfo = true ∧ editable s.info = editable x.core.info)
    (fun a a' op ha h => by
      obtain ⟨h1, h2⟩ := frozen_step a a' op ha.1 h
      exact ⟨h1, h2.trans ha.2⟩) x ⟨hf, rfl⟩ ops

/-- Metadata freeze over such histories: flag and kind stay, no update is accepted. -/
theorem C09_meta_freeze_old_layout (x : XState) (hk : x.core.kind = .updatable) (hf : x.core.frozenMeta = true)
    (ops : List XOp) : (xrun x ops).core.kind = .updatable ∧ (xrun x ops).core.frozenMeta = true :=
  xrun_induction (fun s => s.kind = .updatable ∧ s.frozenMeta = true)
    (fun a a' op ha hs => by
      obtain ⟨h1, h2, _⟩ := metaFrozen_step a a' op ha.1 ha.2 hs
      exact ⟨h1, h2⟩) x ⟨hk, hf⟩ ops

/-- The upgrade re-creates the item exactly as `v3_1_0::upgrade` does (`now − 24 h`), and touches neither freeze flag,
nor the info, nor the tokens; a collection with the item absent and a stored version ≥ 3.1.0 keeps it absent. -/
theorem C09_royalty_stamp_recreated (x x' : XState) (now : Nat)
    (h : xstep x (.op (.migrate .updatable now)) = .ok x') :
    (x.core.ver < V_3_1_0 → x'.ruaAbsent = false ∧ x'.core.royaltyUpdatedAt = now - DAY_NS) ∧
    (¬ x.core.ver < V_3_1_0 → x'.ruaAbsent = x.ruaAbsent ∧ x'.core.royaltyUpdatedAt = x.core.royaltyUpdatedAt) ∧
    x'.core.frozenInfo = x.core.frozenInfo ∧ x'.core.info = x.core.info ∧ x'.core.tokens = x.core.tokens ∧
    (x.core.kind = .updatable → x'.core.frozenMeta = x.core.frozenMeta) := by
  simp only [xstep, royaltyAcceptRequested, Bool.and_false, Bool.false_eq_true, if_false] at h
  cases hs : step x.core (.migrate .updatable now) with
  | error e => rw [hs] at h; cases h
  | ok s' =>
    rw [hs] at h
    simp only [Except.ok.injEq] at h
    subst h
    simp only [step, migrateTo, migrateToUpdatable, ensure_ok, Except.ok.injEq] at hs
    obtain ⟨-, -, -, -, -, -, rfl⟩ := hs
    refine ⟨?_, ?_, rfl, rfl, rfl, ?_⟩
    · intro hv; simp [recreatesRoyaltyStamp, hv]
    · intro hv; simp [recreatesRoyaltyStamp, hv]
    · intro hk; simp [hk]

/-! ## Non-vacuity: concrete reachable states satisfying the hypotheses above; proved counter-examples -/

section Examples

def exInfo : Info := ⟨10, ⟨1, 30⟩, ⟨0, true⟩, none, none, none, some ⟨40, 5 * 10^16⟩⟩
def exBlock : Block := ⟨100, 1700000000000000000⟩
def exInit (k : Kind) : State :=
  { kind := k, tokens := [], count := 0, operators := [], ownership := ⟨some 1000, none, none⟩, info := exInfo,
    frozenInfo := false, royaltyUpdatedAt := exBlock.time, frozenMeta := false, updEnabled := decide (k = .updatable),
    ver := codeVersion k }

/-- instantiate succeeds (so `C09_count`'s hypothesis is satisfiable) -/
example (k : Kind) : instantiate k exBlock 1000 [] ⟨1000, exInfo⟩ = .ok (exInit k) := by
  cases k <;> rfl

def exCall (sender : Addr) (m : ExecMsg) : Op := .exec ⟨exBlock, sender, [], m⟩

/-- the minter mints, a stranger's mint and a duplicate id are rejected (state unchanged) -/
example : (run (exInit .base) [exCall 1000 (.mint 1 20 (some 5) 0), exCall 30 (.mint 2 20 none 0),
    exCall 1000 (.mint 1 21 none 0)]).tokens = [⟨1, 20, [], some 5, 0⟩] := by decide

/-- freeze, then the creator's own update is rejected: the hypotheses of `C09_freeze_final` are reachable -/
example : (run (exInit .base) [exCall 10 .freezeCollectionInfo]).frozenInfo = true := by decide
example : step (run (exInit .base) [exCall 10 .freezeCollectionInfo])
    (exCall 10 (.updateCollectionInfo ⟨some ⟨2, 10⟩, none, none, none, none, none⟩ true)) = .error .frozen := by
  rfl

/-- metadata update on the updatable collection by the creator works before the freeze and not after -/
example : uriOf (run (exInit .updatable) [exCall 1000 (.mint 1 20 (some 5) 0),
    exCall 10 (.updateTokenMetadata 1 (some 6))]) 1 = some (some 6) := by decide
example : uriOf (run (exInit .updatable) [exCall 1000 (.mint 1 20 (some 5) 0), exCall 10 .freezeTokenMetadata,
    exCall 10 (.updateTokenMetadata 1 (some 6))]) 1 = some (some 5) := by decide
example : aliveThrough (exInit .updatable |> fun s => run s [exCall 1000 (.mint 1 20 (some 5) 0), exCall 10 .freezeTokenMetadata])
    1 [exCall 10 (.updateTokenMetadata 1 (some 6)), exCall 1000 (.mint 2 21 none 0)] := by
  exact ⟨by decide, by decide, (by decide : (1 : Nat) ∈ State.ids _)⟩

/-- the history used by the counter-example: updatable collection, token 1 (URI 5) minted to 20, metadata frozen by
the creator, then the owner burns token 1 and the minter mints id 1 again with URI 7 -/
def exRemint : List Op :=
  [exCall 1000 (.mint 1 20 (some 5) 0), exCall 10 .freezeTokenMetadata, exCall 20 (.burn 1),
   exCall 1000 (.mint 1 20 (some 7) 0)]

/-- COUNTER-EXAMPLE to the literal reading "once token metadata is frozen on an updatable collection no token URI
changes again" (recorded as an observation, DESIGN 13.3, not a finding): after the freeze (flag true throughout), id 1 exists before and after the continuation
`[burn 1 by its owner, mint 1 by the minter]`, every step of which succeeds, and `NftInfo(1).token_uri` went from 5 to
7. Replayed on the real sg721-updatable: `corpus/C09/remint-after-freeze.json`. -/
theorem C09_meta_freeze_final_counterexample :
    let s := run (exInit .updatable) (exRemint.take 2)
    s.kind = .updatable ∧ s.frozenMeta = true ∧ (1 : Nat) ∈ s.ids ∧
    (1 : Nat) ∈ (run s (exRemint.drop 2)).ids ∧ (run s (exRemint.drop 2)).frozenMeta = true ∧
    uriOf s 1 = some (some 5) ∧ uriOf (run s (exRemint.drop 2)) 1 = some (some 7) := by
  decide

/-- sg721-nt: mint, then transfer is not part of the interface; only the owner burns -/
example : ownerOf (run (exInit .nt) [exCall 1000 (.mint 1 20 none 0), exCall 20 (.transferNft 21 1)]) 1 = some 20 := by
  decide
example : (run (exInit .nt) [exCall 1000 (.mint 1 20 none 0), exCall 30 (.burn 1), exCall 1000 (.burn 1)]).count = 1 := by
  decide
example : (run (exInit .nt) [exCall 1000 (.mint 1 20 none 0), exCall 20 (.burn 1)]).count = 0 := by decide

/-- hand-over: after transfer + accept the old minter cannot mint, the new one can -/
example : (run (exInit .base) [exCall 1000 (.updateOwnership (.transfer 1001 none)), exCall 1001 (.updateOwnership .accept),
    exCall 1000 (.mint 1 20 none 0), exCall 1001 (.mint 2 20 none 0)]).ids = [2] := by decide

/-! ### migrations -/

/-- the version constants the migration model reads from the regenerated Rust constants -/
example : UPD_EARLIEST = ⟨0, 16, 0⟩ ∧ ONCHAIN_EARLIEST = ⟨0, 16, 0⟩ ∧ ONCHAIN_TO = ⟨3, 0, 0⟩ ∧ NT_TO = ⟨3, 0, 0⟩ := by
  decide

/-- an sg721-updatable collection of the CURRENT version cannot be migrated to its own code (same name ∧ same
version) — the only path the first version of this check exercised -/
example : step (exInit .updatable) (.migrate .updatable exBlock.time) = .error .version := by rfl

/-- `C09_meta_freeze_survives_migration` is not vacuous: an sg721-updatable collection instantiated by release 3.15.0
with frozen metadata IS accepted by `_migrate`, ends at the code version, and keeps the flag; the creator's update is
still refused afterwards -/
def exOld : List Op :=
  [exCall 1000 (.mint 1 20 (some 5) 0), exCall 10 .freezeTokenMetadata, .setVersion ⟨3, 15, 0⟩,
   .migrate .updatable exBlock.time]
example : ∃ s', step (run (exInit .updatable) (exOld.take 3)) (.migrate .updatable exBlock.time) = .ok s' :=
  ⟨_, rfl⟩
example : (run (exInit .updatable) exOld).frozenMeta = true ∧ (run (exInit .updatable) exOld).ver = codeVersion .updatable
    ∧ uriOf (run (exInit .updatable) (exOld ++ [exCall 10 (.updateTokenMetadata 1 (some 6))])) 1 = some (some 5) := by
  decide

/-- sg721-base → sg721-updatable: both flags start false (updates need `EnableUpdatable` first); collection-info
freeze and tokens survive -/
example : let s := run (exInit .base) [exCall 1000 (.mint 1 20 (some 5) 0), exCall 10 .freezeCollectionInfo,
      .migrate .updatable exBlock.time]
    s.kind = .updatable ∧ s.frozenMeta = false ∧ s.updEnabled = false ∧ s.frozenInfo = true ∧ s.ids = [1] := by
  decide

/-- sg721-nt and sg721-metadata-onchain names are refused by the sg721-updatable code; sg721-base has no migrate -/
example : step (exInit .nt) (.migrate .updatable 5) = .error .invalid ∧
    step (exInit .onchain) (.migrate .updatable 5) = .error .invalid ∧
    step (exInit .updatable) (.migrate .base 5) = .error .invalid := ⟨rfl, rfl, rfl⟩

/-- sg721-metadata-onchain on its own code: no-op at the code version; from 3.15.0 the record becomes `TO_VERSION` -/
example : step (exInit .onchain) (.migrate .onchain 5) = .ok (exInit .onchain) := by rfl
example : (run (exInit .onchain) [.setVersion ⟨3, 15, 0⟩, .migrate .onchain 5]).ver = ⟨3, 0, 0⟩ := by decide

/-- The royalty timestamp is NOT frozen by `FreezeCollectionInfo`: an sg721-base collection instantiated by release
3.0.5 (stored version below 3.1.0), frozen, then migrated to the sg721-updatable code in a block 3 days later has its
`royalty_updated_at` rewound to `now − 24 h`. (Harmless for C09 — the timestamp is no creator-editable field — but it
refutes the earlier claim "constant, migration included".) -/
def exOldBase : State := run (exInit .base) [exCall 10 .freezeCollectionInfo, .setVersion ⟨3, 0, 5⟩]
theorem C09_royalty_timestamp_rewound_by_migration :
    exOldBase.frozenInfo = true ∧
    (run exOldBase [.migrate .updatable (exBlock.time + 3 * DAY_NS)]).frozenInfo = true ∧
    editable (run exOldBase [.migrate .updatable (exBlock.time + 3 * DAY_NS)]).info = editable exOldBase.info ∧
    exOldBase.royaltyUpdatedAt = exBlock.time ∧
    (run exOldBase [.migrate .updatable (exBlock.time + 3 * DAY_NS)]).royaltyUpdatedAt = exBlock.time + 2 * DAY_NS :=
  ⟨by decide, by decide, by rfl, by decide, by decide⟩

/-- the faithful old collection: frozen sg721-base, stored version 3.0.5, NO `royalty_updated_at` item; the migration is
accepted, re-creates the item, and the collection info is still frozen afterwards (the creator's update is refused) -/
def exOldLayout : List XOp :=
  [.op (exCall 10 .freezeCollectionInfo), .op (.setVersion ⟨3, 0, 5⟩), .dropRoyaltyStamp,
   .op (.migrate .updatable (exBlock.time + 3 * DAY_NS)),
   .op (exCall 10 (.updateCollectionInfo ⟨some ⟨2, 10⟩, none, none, none, none, none⟩ true))]
example : (xrun ⟨exInit .base, false⟩ (exOldLayout.take 3)).ruaAbsent = true ∧
    (xrun ⟨exInit .base, false⟩ (exOldLayout.take 4)).ruaAbsent = false ∧
    (xrun ⟨exInit .base, false⟩ (exOldLayout.take 4)).core.kind = .updatable ∧
    (xrun ⟨exInit .base, false⟩ (exOldLayout.take 4)).core.royaltyUpdatedAt = exBlock.time + 2 * DAY_NS ∧
    (xrun ⟨exInit .base, false⟩ exOldLayout).core.frozenInfo = true ∧
    (xrun ⟨exInit .base, false⟩ exOldLayout).core.info = exInfo :=
  ⟨by decide, by decide, by decide, by decide, by decide, by rfl⟩

end Examples

end LP
