import LaunchpadModel.Lemmas.Sg721
/-!
# C09 — Collection tokens: minted only by the minter, ids unique, freezes are final

"In every collection contract a token can be created only by the collection's minter, never with an id that
already exists, and the token count always equals the number of existing tokens. Once the creator freezes
collection info no later call changes any creator-editable field, and once token metadata is frozen on an
updatable collection no token URI changes again; metadata updates otherwise require the creator and an existing
token. In the non-transferable collection a token's owner never changes between mint and burn."

Model: `LP.Sg721` (`Model/Sg721.lean`) — one state machine for sg721-base / -nt / -updatable / -metadata-onchain
(`State.kind` selects the message surface). `run s ops` folds the transactional step `step'` (a failed message
leaves the state unchanged) over an arbitrary list of operations: every `ExecuteMsg` of the four collections
from arbitrary senders with arbitrary funds in arbitrary blocks, plus the chain-level migration of an sg721-base
contract to the sg721-updatable code. All history theorems are inductions over `ops : List Op`.
-/
namespace LP
open LP.Sg721

/-! ## Vocabulary -/

/-- the fields of the collection info the *creator* can edit (`start_trading_time` is edited by the minter) -/
def editable (i : Info) : Addr × Desc × Url × Option Url × Option Bool × Option Royalty :=
  (i.creator, i.description, i.image, i.externalLink, i.explicitContent, i.royalty)

def uriOf (s : State) (id : Nat) : Option (Option Nat) := (s.find? id).map (·.uri)
def ownerOf (s : State) (id : Nat) : Option Addr := (s.find? id).map (·.owner)

/-- token `id` exists in `s` and after every prefix of `ops` (it is never burned along the way) -/
def aliveThrough (s : State) (id : Nat) : List Op → Prop
  | [] => id ∈ s.ids
  | op :: ops => id ∈ s.ids ∧ aliveThrough (step' s op) id ops

theorem run_cons (s : State) (op : Op) (ops : List Op) : run s (op :: ops) = run (step' s op) ops := rfl

theorem run_append (s : State) (a b : List Op) : run s (a ++ b) = run (run s a) b := by
  unfold run; rw [List.foldl_append]

/-- `step'` either takes a successful step or stays -/
theorem step'_cases (s : State) (op : Op) : (∃ s', step s op = .ok s' ∧ step' s op = s') ∨ step' s op = s := by
  unfold step'
  cases h : step s op with
  | ok s' => exact .inl ⟨s', rfl, rfl⟩
  | error e => exact .inr rfl

/-- generic lifting of a one-step invariant to histories -/
theorem run_induction (P : State → Prop) (hstep : ∀ s s' op, P s → step s op = .ok s' → P s')
    (s : State) (h : P s) (ops : List Op) : P (run s ops) := by
  induction ops generalizing s with
  | nil => exact h
  | cons op ops ih =>
    rw [run_cons]
    apply ih
    rcases step'_cases s op with ⟨s', hs, he⟩ | he
    · rw [he]; exact hstep s s' op h hs
    · rw [he]; exact h

/-! ## One-step effect on the token table -/

/-- a token that exists before and after a successful message keeps id and extension; its URI changes only by
`UpdateTokenMetadata` of that id; its owner only by `TransferNft` / `SendNft` of that id -/
theorem eff_token {s s' : State} {b : Block} {sender : Addr} {funds : List Coin} {m : ExecMsg}
    (e : Eff s b sender funds m s') (id : Nat) (h1 : id ∈ s.ids) (h2 : id ∈ s'.ids) :
    ∃ t t', s.find? id = some t ∧ s'.find? id = some t' ∧ t'.id = t.id ∧ t'.ext = t.ext ∧
      (t'.uri = t.uri ∨ m = .updateTokenMetadata id t'.uri) ∧
      (t'.owner = t.owner ∨ m = .transferNft t'.owner id ∨ m = .sendNft t'.owner id true) := by
  obtain ⟨t, ht⟩ := Option.isSome_iff_exists.1 ((find?_isSome_iff s id).2 h1)
  have same : s'.find? id = s.find? id →
      ∃ t t', s.find? id = some t ∧ s'.find? id = some t' ∧ t'.id = t.id ∧ t'.ext = t.ext ∧
        (t'.uri = t.uri ∨ m = .updateTokenMetadata id t'.uri) ∧
        (t'.owner = t.owner ∨ m = .transferNft t'.owner id ∨ m = .sendNft t'.owner id true) := by
    intro hs
    exact ⟨t, t, ht, by rw [hs, ht], rfl, rfl, .inl rfl, .inl rfl⟩
  -- replacing token `j` (found as `tj`) by `t'`
  have set : ∀ (j : Nat) (tj t' : Token), s.find? j = some tj → t'.id = tj.id → s' = s.setToken t' →
      t'.ext = tj.ext →
      (t'.uri = tj.uri ∨ m = .updateTokenMetadata j t'.uri) →
      (t'.owner = tj.owner ∨ m = .transferNft t'.owner j ∨ m = .sendNft t'.owner j true) →
      ∃ t t', s.find? id = some t ∧ s'.find? id = some t' ∧ t'.id = t.id ∧ t'.ext = t.ext ∧
        (t'.uri = t.uri ∨ m = .updateTokenMetadata id t'.uri) ∧
        (t'.owner = t.owner ∨ m = .transferNft t'.owner id ∨ m = .sendNft t'.owner id true) := by
    intro j tj t' hj hid hs' hext huri hown
    have hjid : tj.id = j := (find?_some hj).2
    by_cases hij : id = j
    · subst hij
      refine ⟨tj, t', hj, ?_, hid, hext, huri, hown⟩
      rw [hs', find?_setToken, hid, hjid]; simp [hj]
    · apply same
      rw [hs', find?_setToken, hid, hjid]; simp [hij]
  cases e with
  | transfer r j tj hf _ _ =>
    exact set j tj { tj with owner := r, approvals := [] } hf rfl rfl rfl (.inl rfl) (.inr (.inl rfl))
  | send r j tj hf _ _ =>
    exact set j tj { tj with owner := r, approvals := [] } hf rfl rfl rfl (.inl rfl) (.inr (.inr rfl))
  | approve sp j ex tj hf _ _ _ =>
    exact set j tj { tj with approvals := tj.approvals.filter (fun a => !decide (a.spender = sp)) ++ [⟨sp, ex.getD .never⟩] }
      hf rfl rfl rfl (.inl rfl) (.inl rfl)
  | revoke sp j tj hf _ _ =>
    exact set j tj { tj with approvals := tj.approvals.filter (fun a => !decide (a.spender = sp)) }
      hf rfl rfl rfl (.inl rfl) (.inl rfl)
  | utm j uri tj _ _ _ _ hf => exact set j tj { tj with uri := uri } hf rfl rfl rfl (.inr rfl) (.inl rfl)
  | mint j owner uri ext _ _ _ => exact same (find?_append_of_mem s _ id h1)
  | burn j tj hf _ =>
    apply same
    rw [find?_removeToken]
    by_cases hij : id = j
    · subst hij
      have : (s.removeToken id).find? id = none := by rw [find?_removeToken]; simp
      exact absurd h2 ((find?_none_iff _ _).1 this)
    · simp [hij]
  | approveAll => exact same rfl
  | revokeAll => exact same rfl
  | updateInfo => exact same rfl
  | ustt => exact same rfl
  | freeze => exact same rfl
  | ownTransfer => exact same rfl
  | ownAccept => exact same rfl
  | ownRenounce => exact same rfl
  | freezeMeta => exact same rfl
  | enable => exact same rfl

/-- ids after a successful message: nothing new except the id of a mint -/
theorem eff_ids {s s' : State} {b : Block} {sender : Addr} {funds : List Coin} {m : ExecMsg}
    (e : Eff s b sender funds m s') (id : Nat) (h2 : id ∈ s'.ids) :
    id ∈ s.ids ∨ ∃ owner uri ext, m = .mint id owner uri ext := by
  cases e with
  | transfer => rw [ids_setToken] at h2; exact .inl h2
  | send => rw [ids_setToken] at h2; exact .inl h2
  | approve => rw [ids_setToken] at h2; exact .inl h2
  | revoke => rw [ids_setToken] at h2; exact .inl h2
  | utm => rw [ids_setToken] at h2; exact .inl h2
  | burn => rw [ids_removeToken] at h2; exact .inl (List.mem_filter.1 h2).1
  | mint j owner uri ext =>
    simp only [State.ids, List.map_append, List.map_cons, List.map_nil, List.mem_append, List.mem_singleton] at h2
    rcases h2 with h | h
    · exact .inl h
    · subst h; exact .inr ⟨owner, uri, ext, rfl⟩
  | approveAll => exact .inl h2
  | revokeAll => exact .inl h2
  | updateInfo => exact .inl h2
  | ustt => exact .inl h2
  | freeze => exact .inl h2
  | ownTransfer => exact .inl h2
  | ownAccept => exact .inl h2
  | ownRenounce => exact .inl h2
  | freezeMeta => exact .inl h2
  | enable => exact .inl h2

/-! ## 1. "a token can be created only by the collection's minter, never with an id that already exists" -/

/-- A successful `Mint` was sent by the current cw_ownable owner (the minter) and its id did not exist; it
appends exactly that token and increments `token_count`. (All four collections; `ext` is kept by
sg721-metadata-onchain only.) -/
theorem C09_mint_auth_unique (s s' : State) (c : Call) (id : Nat) (owner : Addr) (uri : Option Nat) (ext : Nat)
    (hm : c.msg = .mint id owner uri ext) (h : exec s c = .ok s') :
    s.ownership.owner = some c.sender ∧ id ∉ s.ids ∧
    s'.tokens = s.tokens ++ [⟨id, owner, [], uri, if s.kind = .onchain then ext else 0⟩] ∧
    s'.count = s.count + 1 := by
  obtain ⟨_, e⟩ := exec_eff h
  rw [hm] at e
  cases e with
  | mint _ _ _ _ ho _ hn => exact ⟨ho, (find?_none_iff s id).1 hn, rfl, rfl⟩

/-- No other operation creates a token: whenever an id exists after a successful step that did not exist
before, the step was a `Mint` of exactly that id sent by the then-current minter. -/
theorem C09_only_mint_creates (s s' : State) (op : Op) (h : step s op = .ok s') (id : Nat)
    (hid : id ∈ s'.ids) (hnew : id ∉ s.ids) :
    ∃ c owner uri ext, op = .exec c ∧ c.msg = .mint id owner uri ext ∧ s.ownership.owner = some c.sender := by
  cases op with
  | migrateToUpdatable =>
    simp only [step, migrateToUpdatable, ensure_ok, Except.ok.injEq] at h
    obtain ⟨_, rfl⟩ := h
    exact absurd hid hnew
  | exec c =>
    obtain ⟨_, e⟩ := exec_eff (s := s) (c := c) h
    rcases eff_ids e id hid with h1 | ⟨owner, uri, ext, hm⟩
    · exact absurd h1 hnew
    · exact ⟨c, owner, uri, ext, rfl, hm, (C09_mint_auth_unique s s' c id owner uri ext hm h).1⟩

/-- History form: every token that exists after an arbitrary history (and did not exist at its start) was created
by a successful `Mint` of that id whose sender was the minter at that moment (in particular: after an ownership
hand-over the old minter's mints no longer create anything) and whose id was absent at that moment. -/
theorem C09_tokens_minted_by_minter (s0 : State) (ops : List Op) (id : Nat)
    (hid : id ∈ (run s0 ops).ids) (hnew : id ∉ s0.ids) :
    ∃ pre c post owner uri ext, ops = pre ++ Op.exec c :: post ∧ c.msg = .mint id owner uri ext ∧
      (run s0 pre).ownership.owner = some c.sender ∧ id ∉ (run s0 pre).ids ∧
      ∃ s1, exec (run s0 pre) c = .ok s1 := by
  induction ops generalizing s0 with
  | nil => exact absurd hid hnew
  | cons op ops ih =>
    rw [run_cons] at hid
    by_cases h1 : id ∈ (step' s0 op).ids
    · rcases step'_cases s0 op with ⟨s', hs, he⟩ | he
      · rw [he] at h1
        obtain ⟨c, owner, uri, ext, rfl, hm, ho⟩ := C09_only_mint_creates s0 s' op hs id h1 hnew
        exact ⟨[], c, ops, owner, uri, ext, rfl, hm, ho, hnew, s', hs⟩
      · rw [he] at h1; exact absurd h1 hnew
    · obtain ⟨pre, c, post, owner, uri, ext, hops, hm, ho, hn, hs⟩ := ih (step' s0 op) hid h1
      refine ⟨op :: pre, c, post, owner, uri, ext, ?_, hm, ?_, ?_, ?_⟩
      · rw [hops]; rfl
      · rw [run_cons]; exact ho
      · rw [run_cons]; exact hn
      · rw [run_cons]; exact hs

/-! ## 2. "the token count always equals the number of existing tokens" (and ids are unique) -/

theorem SInv_step (s s' : State) (op : Op) (hi : SInv s) (h : step s op = .ok s') : SInv s' := by
  cases op with
  | migrateToUpdatable =>
    simp only [step, migrateToUpdatable, ensure_ok, Except.ok.injEq] at h
    obtain ⟨_, rfl⟩ := h
    exact hi
  | exec c =>
    obtain ⟨b, sender, funds, msg⟩ := c
    obtain ⟨_, e⟩ := exec_eff' h
    have set : ∀ t, SInv (s.setToken t) := fun t =>
      ⟨by rw [length_setToken]; exact hi.1, by rw [ids_setToken]; exact hi.2⟩
    cases e with
    | transfer => exact set _
    | send => exact set _
    | approve => exact set _
    | revoke => exact set _
    | utm => exact set _
    | mint j owner uri ext _ _ hn =>
      refine ⟨?_, ?_⟩
      · show s.count + 1 = (s.tokens ++ [_]).length
        rw [List.length_append, hi.1]; rfl
      · show (List.map (fun t : Token => t.id) (s.tokens ++ [_])).Nodup
        rw [List.map_append, List.nodup_append]
        refine ⟨hi.2, by simp, ?_⟩
        intro a ha b hb
        simp only [List.map_cons, List.map_nil, List.mem_singleton] at hb
        subst hb
        intro hab; subst hab
        exact (find?_none_iff s a).1 hn ha
    | burn j tj hf _ =>
      have hm : j ∈ s.ids := mem_ids_of_find? hf
      have hl := length_remove s.tokens j hi.2 hm
      refine ⟨?_, ?_⟩
      · show s.count - 1 = (s.tokens.filter _).length
        rw [hi.1]; omega
      · rw [ids_removeToken]; exact List.Nodup.sublist List.filter_sublist hi.2
    | approveAll => exact hi
    | revokeAll => exact hi
    | updateInfo => exact hi
    | ustt => exact hi
    | freeze => exact hi
    | ownTransfer => exact hi
    | ownAccept => exact hi
    | ownRenounce => exact hi
    | freezeMeta => exact hi
    | enable => exact hi

theorem SInv_instantiate (k : Kind) (b : Block) (sender : Addr) (funds : List Coin) (m : InstMsg) (s0 : State)
    (h : instantiate k b sender funds m = .ok s0) : SInv s0 := by
  simp only [instantiate, ensure_ok, Except.ok.injEq] at h
  obtain ⟨_, _, _, _, _, _, _, _, rfl⟩ := h
  exact ⟨rfl, List.nodup_nil⟩

/-- After instantiation and any history whatsoever: `token_count` (what `NumTokens` returns) equals the number
of entries of the token table (what `AllTokens` enumerates), and no id occurs twice. -/
theorem C09_count (k : Kind) (b : Block) (sender : Addr) (funds : List Coin) (m : InstMsg) (s0 : State)
    (h : instantiate k b sender funds m = .ok s0) (ops : List Op) :
    (run s0 ops).count = (run s0 ops).tokens.length ∧ (run s0 ops).ids.Nodup :=
  run_induction SInv SInv_step s0 (SInv_instantiate k b sender funds m s0 h) ops

/-- the same from any state satisfying the invariant (e.g. mid-history) -/
theorem C09_count_from (s : State) (hi : s.count = s.tokens.length ∧ s.ids.Nodup) (ops : List Op) :
    (run s ops).count = (run s ops).tokens.length ∧ (run s ops).ids.Nodup :=
  run_induction SInv SInv_step s hi ops

/-! ## 3. "Once the creator freezes collection info no later call changes any creator-editable field" -/

/-- `FreezeCollectionInfo` succeeds only for the creator and sets the flag (nothing else changes). -/
theorem C09_freeze_sets (s s' : State) (c : Call) (hm : c.msg = .freezeCollectionInfo) (h : exec s c = .ok s') :
    s.info.creator = c.sender ∧ s' = { s with frozenInfo := true } := by
  obtain ⟨_, e⟩ := exec_eff h
  rw [hm] at e
  cases e with
  | freeze hc => exact ⟨hc, rfl⟩

theorem frozen_step (s s' : State) (op : Op)
    (hi : s.frozenInfo = true) (h : step s op = .ok s') :
    s'.frozenInfo = true ∧ editable s'.info = editable s.info ∧ s'.royaltyUpdatedAt = s.royaltyUpdatedAt := by
  cases op with
  | migrateToUpdatable =>
    simp only [step, migrateToUpdatable, ensure_ok, Except.ok.injEq] at h
    obtain ⟨_, rfl⟩ := h
    exact ⟨hi, rfl, rfl⟩
  | exec c =>
    obtain ⟨b, sender, funds, msg⟩ := c
    obtain ⟨_, e⟩ := exec_eff' h
    cases e with
    | updateInfo u i r hfz => rw [hi] at hfz; cases hfz
    | transfer => exact ⟨hi, rfl, rfl⟩
    | send => exact ⟨hi, rfl, rfl⟩
    | approve => exact ⟨hi, rfl, rfl⟩
    | revoke => exact ⟨hi, rfl, rfl⟩
    | utm => exact ⟨hi, rfl, rfl⟩
    | mint => exact ⟨hi, rfl, rfl⟩
    | burn => exact ⟨hi, rfl, rfl⟩
    | approveAll => exact ⟨hi, rfl, rfl⟩
    | revokeAll => exact ⟨hi, rfl, rfl⟩
    | ustt => exact ⟨hi, rfl, rfl⟩
    | freeze => exact ⟨rfl, rfl, rfl⟩
    | ownTransfer => exact ⟨hi, rfl, rfl⟩
    | ownAccept => exact ⟨hi, rfl, rfl⟩
    | ownRenounce => exact ⟨hi, rfl, rfl⟩
    | freezeMeta => exact ⟨hi, rfl, rfl⟩
    | enable => exact ⟨hi, rfl, rfl⟩

/-- From a frozen state, over EVERY continuation (every message kind, every sender incl. creator and minter,
migration included): the flag stays set and creator, description, image, external link, explicit-content flag
and royalty info (and the royalty timestamp) keep their values. -/
theorem C09_freeze_final (s : State) (hf : s.frozenInfo = true) (ops : List Op) :
    (run s ops).frozenInfo = true ∧ editable (run s ops).info = editable s.info ∧
    (run s ops).royaltyUpdatedAt = s.royaltyUpdatedAt := by
  have := run_induction
    (fun x => x.frozenInfo = true ∧ editable x.info = editable s.info ∧ x.royaltyUpdatedAt = s.royaltyUpdatedAt)
    (fun a a' op ha h => by
      obtain ⟨h1, h2, h3⟩ := frozen_step a a' op ha.1 h
      exact ⟨h1, h2.trans ha.2.1, h3.trans ha.2.2⟩)
    s ⟨hf, rfl, rfl⟩ ops
  exact this

/-- History form: after a successful `FreezeCollectionInfo` at any point of any history, every later state has
the creator-editable fields the collection had at the moment of the freeze. -/
theorem C09_freeze_final_history (s0 : State) (pre post : List Op) (c : Call) (s1 : State)
    (hm : c.msg = .freezeCollectionInfo) (h : exec (run s0 pre) c = .ok s1) :
    editable (run s0 (pre ++ Op.exec c :: post)).info = editable (run s0 pre).info ∧
    (run s0 (pre ++ Op.exec c :: post)).frozenInfo = true := by
  obtain ⟨_, hs1⟩ := C09_freeze_sets _ _ c hm h
  have hstep : step' (run s0 pre) (Op.exec c) = s1 := by
    unfold step'; simp only [step]; rw [h]
  rw [run_append, run_cons, hstep]
  obtain ⟨h1, h2, _⟩ := C09_freeze_final s1 (by rw [hs1]) post
  refine ⟨?_, h1⟩
  rw [h2, hs1]

/-- While not frozen, a creator-editable field changes only through `UpdateCollectionInfo` sent by the creator. -/
theorem C09_info_change_guard (s s' : State) (op : Op) (h : step s op = .ok s')
    (hne : editable s'.info ≠ editable s.info) :
    ∃ c u, op = .exec c ∧ c.msg = .updateCollectionInfo u ∧ s.info.creator = c.sender ∧ s.frozenInfo = false := by
  cases op with
  | migrateToUpdatable =>
    simp only [step, migrateToUpdatable, ensure_ok, Except.ok.injEq] at h
    obtain ⟨_, rfl⟩ := h
    exact absurd rfl hne
  | exec c =>
    obtain ⟨b, sender, funds, msg⟩ := c
    obtain ⟨_, e⟩ := exec_eff' h
    cases e with
    | updateInfo u i r hfz hc => exact ⟨_, u, rfl, rfl, hc, hfz⟩
    | transfer => exact absurd rfl hne
    | send => exact absurd rfl hne
    | approve => exact absurd rfl hne
    | revoke => exact absurd rfl hne
    | utm => exact absurd rfl hne
    | mint => exact absurd rfl hne
    | burn => exact absurd rfl hne
    | approveAll => exact absurd rfl hne
    | revokeAll => exact absurd rfl hne
    | ustt => exact absurd rfl hne
    | freeze => exact absurd rfl hne
    | ownTransfer => exact absurd rfl hne
    | ownAccept => exact absurd rfl hne
    | ownRenounce => exact absurd rfl hne
    | freezeMeta => exact absurd rfl hne
    | enable => exact absurd rfl hne

/-! ## 4. Token metadata: "metadata updates require the creator and an existing token"; "once token metadata is
frozen on an updatable collection no token URI changes again" -/

theorem supported_utm (k : Kind) (id : Nat) (uri : Option Nat) (h : supported k (.updateTokenMetadata id uri) = true) :
    k = .updatable := by
  cases k <;> simp [supported] at h ⊢

/-- `UpdateTokenMetadata` succeeds only on an updatable collection, for the creator, on an existing token, while
not frozen and while updates are enabled, without funds; it sets that token's URI and nothing else of the token. -/
theorem C09_update_meta_guard (s s' : State) (c : Call) (id : Nat) (uri : Option Nat)
    (hm : c.msg = .updateTokenMetadata id uri) (h : exec s c = .ok s') :
    s.kind = .updatable ∧ s.info.creator = c.sender ∧ id ∈ s.ids ∧ s.frozenMeta = false ∧ s.updEnabled = true ∧
    c.funds = [] ∧ ∃ t, s.find? id = some t ∧ s' = s.setToken { t with uri := uri } := by
  obtain ⟨hs, e⟩ := exec_eff h
  rw [hm] at e hs
  cases e with
  | utm _ _ t hfu hc hfm hue hf =>
    exact ⟨supported_utm _ _ _ hs, hc, mem_ids_of_find? hf, hfm, hue, hfu, t, hf, rfl⟩

/-- The URI of a token that exists before and after a successful step changes only through an
`UpdateTokenMetadata` of that token (hence only with all the guards of `C09_update_meta_guard`). -/
theorem C09_uri_change_guard (s s' : State) (op : Op) (h : step s op = .ok s') (id : Nat)
    (h1 : id ∈ s.ids) (h2 : id ∈ s'.ids) (hne : uriOf s' id ≠ uriOf s id) :
    ∃ c uri, op = .exec c ∧ c.msg = .updateTokenMetadata id uri ∧ s.kind = .updatable ∧
      s.info.creator = c.sender ∧ s.frozenMeta = false ∧ s.updEnabled = true := by
  cases op with
  | migrateToUpdatable =>
    simp only [step, migrateToUpdatable, ensure_ok, Except.ok.injEq] at h
    obtain ⟨_, rfl⟩ := h
    exact absurd rfl hne
  | exec c =>
    obtain ⟨_, e⟩ := exec_eff (s := s) (c := c) h
    obtain ⟨t, t', ht, ht', _, _, hu, _⟩ := eff_token e id h1 h2
    rcases hu with hu | hu
    · exact absurd (by unfold uriOf; rw [ht, ht']; simp [hu]) hne
    · obtain ⟨hk, hc, _, hfm, hue, _⟩ := C09_update_meta_guard s s' c id t'.uri hu h
      exact ⟨c, t'.uri, rfl, hu, hk, hc, hfm, hue⟩

/-- `FreezeTokenMetadata` exists only on the updatable collection, succeeds only for the creator (without funds)
and sets the flag. -/
theorem C09_freeze_meta_sets (s s' : State) (c : Call) (hm : c.msg = .freezeTokenMetadata) (h : exec s c = .ok s') :
    s.kind = .updatable ∧ s.info.creator = c.sender ∧ s' = { s with frozenMeta := true } := by
  obtain ⟨hs, e⟩ := exec_eff h
  rw [hm] at e hs
  cases e with
  | freezeMeta _ hc =>
    refine ⟨?_, hc, rfl⟩
    revert hs; cases s.kind <;> simp [supported]

theorem metaFrozen_step (s s' : State) (op : Op) (hk : s.kind = .updatable) (hf : s.frozenMeta = true)
    (h : step s op = .ok s') :
    s'.kind = .updatable ∧ s'.frozenMeta = true ∧
    ∀ id, id ∈ s.ids → id ∈ s'.ids → uriOf s' id = uriOf s id := by
  refine ⟨?_, ?_, ?_⟩
  · cases op with
    | migrateToUpdatable =>
      simp only [step, migrateToUpdatable, ensure_ok, Except.ok.injEq, decide_eq_true_eq] at h
      rw [hk] at h; exact absurd h.1 (by simp)
    | exec c =>
      obtain ⟨b, sender, funds, msg⟩ := c
      obtain ⟨_, e⟩ := exec_eff' h
      cases e <;> exact hk
  · cases op with
    | migrateToUpdatable =>
      simp only [step, migrateToUpdatable, ensure_ok, Except.ok.injEq, decide_eq_true_eq] at h
      rw [hk] at h; exact absurd h.1 (by simp)
    | exec c =>
      obtain ⟨b, sender, funds, msg⟩ := c
      obtain ⟨_, e⟩ := exec_eff' h
      cases e <;> first | exact hf | rfl
  · intro id h1 h2
    apply Classical.byContradiction
    intro hne
    obtain ⟨_, _, _, _, _, _, hfm, _⟩ := C09_uri_change_guard s s' op h id h1 h2 hne
    rw [hf] at hfm; cases hfm

/-- After token metadata is frozen on an updatable collection: over EVERY continuation the flag stays set, the
collection stays updatable (it cannot be migrated again), no `UpdateTokenMetadata` succeeds, and the URI of every
token that continues to exist (is not burned along the way) never changes. A burn followed by a fresh mint of the
same id is a *new* token and may carry another URI (see the `example` below) — that is why `aliveThrough` is
assumed. -/
theorem C09_meta_freeze_final (s : State) (hk : s.kind = .updatable) (hf : s.frozenMeta = true)
    (ops : List Op) (id : Nat) (alive : aliveThrough s id ops) :
    uriOf (run s ops) id = uriOf s id ∧ (run s ops).frozenMeta = true ∧ (run s ops).kind = .updatable := by
  induction ops generalizing s with
  | nil => exact ⟨rfl, hf, hk⟩
  | cons op ops ih =>
    rw [run_cons]
    obtain ⟨h1, hrest⟩ := alive
    rcases step'_cases s op with ⟨s', hs, he⟩ | he
    · rw [he] at hrest ⊢
      obtain ⟨hk', hf', huri⟩ := metaFrozen_step s s' op hk hf hs
      obtain ⟨a, b, c⟩ := ih s' hk' hf' hrest
      have h2 : id ∈ s'.ids := by cases ops <;> first | exact hrest | exact hrest.1
      exact ⟨a.trans (huri id h1 h2), b, c⟩
    · rw [he] at hrest ⊢
      exact ih s hk hf hrest

/-- History form: after a successful `FreezeTokenMetadata` at any point of any history, the URI of every token
that is not burned afterwards stays what it was at the moment of the freeze. -/
theorem C09_meta_freeze_final_history (s0 : State) (pre post : List Op) (c : Call) (s1 : State) (id : Nat)
    (hm : c.msg = .freezeTokenMetadata) (h : exec (run s0 pre) c = .ok s1) (alive : aliveThrough s1 id post) :
    uriOf (run s0 (pre ++ Op.exec c :: post)) id = uriOf (run s0 pre) id := by
  obtain ⟨hk, _, hs1⟩ := C09_freeze_meta_sets _ _ c hm h
  have hstep : step' (run s0 pre) (Op.exec c) = s1 := by
    unfold step'; simp only [step]; rw [h]
  rw [run_append, run_cons, hstep]
  obtain ⟨h1, _, _⟩ := C09_meta_freeze_final s1 (by rw [hs1]; exact hk) (by rw [hs1]) post id alive
  rw [h1, hs1]; rfl

/-- and no metadata update is accepted any more -/
theorem C09_meta_freeze_blocks_updates (s : State) (hk : s.kind = .updatable) (hf : s.frozenMeta = true)
    (ops : List Op) (c : Call) (id : Nat) (uri : Option Nat) (hm : c.msg = .updateTokenMetadata id uri) :
    ∀ s', exec (run s ops) c ≠ .ok s' := by
  intro s' h
  have inv := run_induction (fun x => x.kind = .updatable ∧ x.frozenMeta = true)
    (fun a a' op ha hs => by
      obtain ⟨h1, h2, _⟩ := metaFrozen_step a a' op ha.1 ha.2 hs
      exact ⟨h1, h2⟩) s ⟨hk, hf⟩ ops
  obtain ⟨_, _, _, hfm, _⟩ := C09_update_meta_guard _ _ c id uri hm h
  rw [inv.2] at hfm; cases hfm

/-! ## 5. "In the non-transferable collection a token's owner never changes between mint and burn" -/

theorem supported_nt_transfer (r : Addr) (id : Nat) : supported .nt (.transferNft r id) = false := rfl
theorem supported_nt_send (r : Addr) (id : Nat) (ok : Bool) : supported .nt (.sendNft r id ok) = false := rfl

theorem nt_step (s s' : State) (op : Op) (hk : s.kind = .nt) (h : step s op = .ok s') :
    s'.kind = .nt ∧ ∀ id, id ∈ s.ids → id ∈ s'.ids → ownerOf s' id = ownerOf s id := by
  cases op with
  | migrateToUpdatable =>
    simp only [step, migrateToUpdatable, ensure_ok, Except.ok.injEq, decide_eq_true_eq] at h
    rw [hk] at h; exact absurd h.1 (by simp)
  | exec c =>
    obtain ⟨b, sender, funds, msg⟩ := c
    obtain ⟨hs, e⟩ := exec_eff' h
    refine ⟨by cases e <;> exact hk, ?_⟩
    intro id h1 h2
    obtain ⟨t, t', ht, ht', _, _, _, ho⟩ := eff_token e id h1 h2
    rw [hk] at hs
    rcases ho with ho | ho | ho
    · unfold ownerOf; rw [ht, ht']; simp [ho]
    · rw [ho, supported_nt_transfer] at hs; cases hs
    · rw [ho, supported_nt_send] at hs; cases hs

/-- sg721-nt: over EVERY history, a token that continues to exist keeps its owner (so between its mint and its
burn the owner is the address it was minted to). -/
theorem C09_nt_owner_constant (s : State) (hk : s.kind = .nt) (ops : List Op) (id : Nat)
    (alive : aliveThrough s id ops) :
    ownerOf (run s ops) id = ownerOf s id ∧ (run s ops).kind = .nt := by
  induction ops generalizing s with
  | nil => exact ⟨rfl, hk⟩
  | cons op ops ih =>
    rw [run_cons]
    obtain ⟨h1, hrest⟩ := alive
    rcases step'_cases s op with ⟨s', hs, he⟩ | he
    · rw [he] at hrest ⊢
      obtain ⟨hk', hown⟩ := nt_step s s' op hk hs
      obtain ⟨a, b⟩ := ih s' hk' hrest
      have h2 : id ∈ s'.ids := by cases ops <;> first | exact hrest | exact hrest.1
      exact ⟨a.trans (hown id h1 h2), b⟩
    · rw [he] at hrest ⊢
      exact ih s hk hrest

/-- … and that owner is the address the token was minted to: from the successful `Mint` of `id` to `owner`
onwards, as long as the token is not burned, `OwnerOf id` is `owner`. -/
theorem C09_nt_owner_is_mint_recipient (s s1 : State) (hk : s.kind = .nt) (c : Call) (id : Nat) (owner : Addr)
    (uri : Option Nat) (ext : Nat) (hm : c.msg = .mint id owner uri ext) (h : exec s c = .ok s1)
    (post : List Op) (alive : aliveThrough s1 id post) :
    ownerOf (run s1 post) id = some owner := by
  obtain ⟨_, hn, ht, _⟩ := C09_mint_auth_unique s s1 c id owner uri ext hm h
  have hk1 : s1.kind = .nt := (nt_step s s1 (.exec c) hk h).1
  have h0 : ownerOf s1 id = some owner := by
    unfold ownerOf State.find?
    rw [ht, List.find?_append]
    have : s.tokens.find? (fun t => decide (t.id = id)) = none := (find?_none_iff s id).2 hn
    rw [this]; simp
  rw [(C09_nt_owner_constant s1 hk1 post id alive).1, h0]

/-- in sg721-nt there are never approvals nor operators (no message can create them) … -/
def NtInv (s : State) : Prop := s.kind = .nt ∧ s.operators = [] ∧ ∀ t ∈ s.tokens, t.approvals = []

theorem NtInv_step (s s' : State) (op : Op) (hi : NtInv s) (h : step s op = .ok s') : NtInv s' := by
  obtain ⟨hk, ho, ha⟩ := hi
  cases op with
  | migrateToUpdatable =>
    simp only [step, migrateToUpdatable, ensure_ok, Except.ok.injEq, decide_eq_true_eq] at h
    rw [hk] at h; exact absurd h.1 (by simp)
  | exec c =>
    obtain ⟨b, sender, funds, msg⟩ := c
    obtain ⟨hs, e⟩ := exec_eff' h
    rw [hk] at hs
    cases e with
    | transfer => cases hs
    | send => cases hs
    | approve => cases hs
    | revoke => cases hs
    | utm => cases hs
    | approveAll => cases hs
    | revokeAll => cases hs
    | ustt => cases hs
    | ownTransfer => cases hs
    | ownAccept => cases hs
    | ownRenounce => cases hs
    | freezeMeta => cases hs
    | enable => cases hs
    | mint j owner uri ext =>
      refine ⟨hk, ho, ?_⟩
      intro t ht
      simp only [List.mem_append, List.mem_singleton] at ht
      rcases ht with ht | ht
      · exact ha t ht
      · subst ht; rfl
    | burn j tj =>
      refine ⟨hk, ho, ?_⟩
      intro t ht
      exact ha t (List.mem_filter.1 ht).1
    | updateInfo => exact ⟨hk, ho, ha⟩
    | freeze => exact ⟨hk, ho, ha⟩

/-- … hence only the owner can burn: in every history of an sg721-nt collection, a successful `Burn` was sent by
the token's owner (the address it was minted to). -/
theorem C09_nt_burn_only_owner (b : Block) (sender : Addr) (funds : List Coin) (m : InstMsg) (s0 : State)
    (hinst : instantiate .nt b sender funds m = .ok s0) (pre : List Op) (c : Call) (id : Nat) (s1 : State)
    (hm : c.msg = .burn id) (h : exec (run s0 pre) c = .ok s1) :
    ownerOf (run s0 pre) id = some c.sender := by
  have h0 : NtInv s0 := by
    simp only [instantiate, ensure_ok, Except.ok.injEq] at hinst
    obtain ⟨_, _, _, _, _, _, _, _, rfl⟩ := hinst
    exact ⟨rfl, rfl, by intro t ht; cases ht⟩
  obtain ⟨_, ho, ha⟩ := run_induction NtInv NtInv_step s0 h0 pre
  obtain ⟨_, e⟩ := exec_eff h
  rw [hm] at e
  cases e with
  | burn _ t hf hc =>
    have hap := ha t (find?_some hf).1
    unfold canSend State.isOperator State.operator? at hc
    rw [hap, ho] at hc
    simp at hc
    unfold ownerOf; rw [hf]; simp [hc]

/-! ## 6. Who is the minter: the cw_ownable owner changes only by accept (of a hand-over the minter proposed) or
renounce (by the minter) -/

theorem C09_minter_change_guard (s s' : State) (op : Op) (h : step s op = .ok s')
    (hne : s'.ownership.owner ≠ s.ownership.owner) :
    ∃ c, op = .exec c ∧
      ((c.msg = .updateOwnership .accept ∧ s.ownership.pending = some c.sender ∧ s'.ownership.owner = some c.sender) ∨
       (c.msg = .updateOwnership .renounce ∧ s.ownership.owner = some c.sender ∧ s'.ownership.owner = none)) := by
  cases op with
  | migrateToUpdatable =>
    simp only [step, migrateToUpdatable, ensure_ok, Except.ok.injEq] at h
    obtain ⟨_, rfl⟩ := h
    exact absurd rfl hne
  | exec c =>
    obtain ⟨b, sender, funds, msg⟩ := c
    obtain ⟨_, e⟩ := exec_eff' h
    cases e with
    | ownAccept hp _ => exact ⟨_, rfl, .inl ⟨rfl, hp, rfl⟩⟩
    | ownRenounce ho => exact ⟨_, rfl, .inr ⟨rfl, ho, rfl⟩⟩
    | ownTransfer => exact absurd rfl hne
    | transfer => exact absurd rfl hne
    | send => exact absurd rfl hne
    | approve => exact absurd rfl hne
    | revoke => exact absurd rfl hne
    | utm => exact absurd rfl hne
    | mint => exact absurd rfl hne
    | burn => exact absurd rfl hne
    | approveAll => exact absurd rfl hne
    | revokeAll => exact absurd rfl hne
    | updateInfo => exact absurd rfl hne
    | ustt => exact absurd rfl hne
    | freeze => exact absurd rfl hne
    | freezeMeta => exact absurd rfl hne
    | enable => exact absurd rfl hne

/-! ## Non-vacuity: concrete reachable states satisfying the hypotheses above -/

section Examples

def exInfo : Info := ⟨10, ⟨1, 30⟩, ⟨0, true⟩, none, none, none, some ⟨40, 5 * 10^16⟩⟩
def exBlock : Block := ⟨100, 1700000000000000000⟩
def exInit (k : Kind) : State :=
  { kind := k, tokens := [], count := 0, operators := [], ownership := ⟨some 1000, none, none⟩, info := exInfo,
    frozenInfo := false, royaltyUpdatedAt := exBlock.time, frozenMeta := false, updEnabled := decide (k = .updatable) }

/-- instantiate succeeds (so `C09_count`'s hypothesis is satisfiable) -/
example (k : Kind) : instantiate k exBlock 1000 [] ⟨1000, exInfo⟩ = .ok (exInit k) := by
  cases k <;> rfl

def exCall (sender : Addr) (m : ExecMsg) : Op := .exec ⟨exBlock, sender, [], m⟩

/-- the minter mints, a stranger's mint and a duplicate id are rejected (state unchanged) -/
example : (run (exInit .base) [exCall 1000 (.mint 1 20 (some 5) 0), exCall 30 (.mint 2 20 none 0),
    exCall 1000 (.mint 1 21 none 0)]).tokens = [⟨1, 20, [], some 5, 0⟩] := by decide

/-- freeze, then the creator's own update is rejected: the hypotheses of `C09_freeze_final` are reachable -/
example : (run (exInit .base) [exCall 10 .freezeCollectionInfo]).frozenInfo = true := by decide
example : step (run (exInit .base) [exCall 10 .freezeCollectionInfo])
    (exCall 10 (.updateCollectionInfo ⟨some ⟨2, 10⟩, none, none, none, none, none⟩)) = .error .frozen := by
  rfl

/-- metadata update on the updatable collection by the creator works before the freeze and not after;
burn + fresh mint of the same id after the freeze gives a NEW token with another URI (why `aliveThrough`). -/
example : uriOf (run (exInit .updatable) [exCall 1000 (.mint 1 20 (some 5) 0),
    exCall 10 (.updateTokenMetadata 1 (some 6))]) 1 = some (some 6) := by decide
example : uriOf (run (exInit .updatable) [exCall 1000 (.mint 1 20 (some 5) 0), exCall 10 .freezeTokenMetadata,
    exCall 10 (.updateTokenMetadata 1 (some 6))]) 1 = some (some 5) := by decide
example : uriOf (run (exInit .updatable) [exCall 1000 (.mint 1 20 (some 5) 0), exCall 10 .freezeTokenMetadata,
    exCall 20 (.burn 1), exCall 1000 (.mint 1 20 (some 7) 0)]) 1 = some (some 7) := by decide
example : aliveThrough (exInit .updatable |> fun s => run s [exCall 1000 (.mint 1 20 (some 5) 0), exCall 10 .freezeTokenMetadata])
    1 [exCall 10 (.updateTokenMetadata 1 (some 6)), exCall 1000 (.mint 2 21 none 0)] := by
  exact ⟨by decide, by decide, (by decide : (1 : Nat) ∈ State.ids _)⟩

/-- sg721-nt: mint, then transfer is not part of the interface; only the owner burns -/
example : ownerOf (run (exInit .nt) [exCall 1000 (.mint 1 20 none 0), exCall 20 (.transferNft 21 1)]) 1 = some 20 := by
  decide
example : (run (exInit .nt) [exCall 1000 (.mint 1 20 none 0), exCall 30 (.burn 1), exCall 1000 (.burn 1)]).count = 1 := by
  decide
example : (run (exInit .nt) [exCall 1000 (.mint 1 20 none 0), exCall 20 (.burn 1)]).count = 0 := by decide

/-- hand-over: after transfer + accept the old minter cannot mint, the new one can -/
example : (run (exInit .base) [exCall 1000 (.updateOwnership (.transfer 1001 none)), exCall 1001 (.updateOwnership .accept),
    exCall 1000 (.mint 1 20 none 0), exCall 1001 (.mint 2 20 none 0)]).ids = [2] := by decide

end Examples

end LP
