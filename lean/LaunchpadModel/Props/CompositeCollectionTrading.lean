import LaunchpadModel.Lemmas.CollectionFullTrading
import LaunchpadModel.Props.C19
/-!
# Refinement: the collection composite `LP.CF` refines the trading-time aspect model `LP.TT`, collection half (C19)

(Separate module: `./check C19` audits this module together with `Props/CompositeVending.lean`, whose imports clash with
`Props/C09.lean`.)
-/
namespace LP
open LP.CF

/-! ## C19 — start_trading_time, the collection half

* projection `ttOf P s` (`Lemmas/CollectionFullTrading.lean`): the `TT.World` whose COLLECTION component is the projection of
  the composite's collection (`projTT`: kind, cw_ownable owner / pending owner, creator, info freeze flag,
  `start_trading_time`) and whose minter side `P` (family, offset, minter address, minter config — outside the family) is
  arbitrary;
* translation `tr19 s op` (forward, with stuttering): block ↦ `setTime`; an ACCEPTED `UpdateStartTradingTime` /
  `UpdateCollectionInfo` / `FreezeCollectionInfo` / `UpdateOwnership` ↦ `collTrading` / `collCreator` (with the creator the
  update leaves) / `collFreeze` / `collOwn`; anything else, and every rejected message ↦ nothing;
* simulation `ttOf P (step' s op) = TT.run (ttOf P s) (tr19 s op)` for all `P`, all states with a collection, all ops that are
  not a migration (a base → updatable migration changes `TT.Coll.kind`, the legacy ownership upgrade replaces the owner;
  `LP.TT` has no op for either; what a migration leaves alone — tokens, ownership, collection info, info freeze flag — is
  `Sg721.admin_frame` through the C09 refinement). -/

namespace CF

theorem tt_step'_ok {w w' : TT.World} {op : TT.Op} (h : TT.step w op = .ok w') : TT.step' w op = w' := by
  unfold TT.step'; rw [h]

theorem tt_run_one (w : TT.World) (op : TT.Op) : TT.run w [op] = TT.step' w op := rfl

theorem tt_run_append (w : TT.World) (a b : List TT.Op) : TT.run w (a ++ b) = TT.run (TT.run w a) b := by
  unfold TT.run; rw [List.foldl_append]

def trs19 : State → List Op → List TT.Op
  | _, [] => []
  | s, op :: ops => tr19 s op ++ trs19 (step' s op) ops

end CF

/-- **C19 simulation (collection half), one step**, for every minter side `P` -/
theorem C19_full_coll_refines (P : MinterSide) (s : State) (c : Coll) (op : Op) (hc : s.coll = some c)
    (hm : isMigrate op = false) :
    ttOf P (step' s op) = TT.run (ttOf P s) (tr19 s op) := by
  cases op with
  | migrateUpdatable => cases hm
  | migrateSelf => cases hm
  | block b => simp [step', step, ttOf, tr19, TT.run, TT.step', TT.step]
  | fund a x => simp [step', step, ttOf, tr19, TT.run]
  | instantiate k sender funds name symbol m self =>
    have : step s (.instantiate k sender funds name symbol m self) = .error .other := by simp [step, instantiate, hc]
    rw [step'_err this]; simp [tr19, TT.run]
  | setLegacy a => simp [step', step, onColl_some _ hc, ttOf, tr19, TT.run, hc]
  | setVersion v =>
    simp [step', step, onColl_some _ hc, ttOf, tr19, TT.run, hc]
    try rfl
  | exec sender funds m =>
    cases h : step s (.exec sender funds m) with
    | error e =>
      rw [step'_err h]
      simp [tr19, hc, accepted_err h, TT.run]
    | ok s' =>
      obtain ⟨c0, b1, core', b2, hc0, _, hcore, _, rfl⟩ := exec_ok h
      rw [hc] at hc0; cases hc0
      rw [step'_ok h]
      have hsim := msg_sim c.core core' s.block sender funds m hcore
      simp only [tr19, hc, accepted_ok h, if_true]
      have hmc : (ttOf P s).mc = some (P.minter, projTT c.core) := by simp [ttOf, hc]
      cases hmsg : ttMsg c.core sender m with
      | none =>
        rw [hmsg] at hsim
        simp only at hsim
        simp only [TT.run, List.foldl_nil, ttOf, hc, Option.map, hsim]
      | some o =>
        rw [hmsg] at hsim
        rw [tt_run_one]
        cases o with
        | collTrading s1 t =>
          simp only at hsim
          rw [tt_step'_ok (w' := ttOf P { s with bank := b2, coll := some { c with core := core' } }) (by simp [TT.step, TT.onColl, hsim, ttOf, hc])]
        | collCreator s1 n =>
          simp only at hsim
          rw [tt_step'_ok (w' := ttOf P { s with bank := b2, coll := some { c with core := core' } }) (by simp [TT.step, TT.onColl, hsim, ttOf, hc])]
        | collFreeze s1 =>
          simp only at hsim
          rw [tt_step'_ok (w' := ttOf P { s with bank := b2, coll := some { c with core := core' } }) (by simp [TT.step, TT.onColl, hsim, ttOf, hc])]
        | collOwn s1 a =>
          simp only at hsim
          rw [tt_step'_ok (w' := ttOf P { s with bank := b2, coll := some { c with core := core' } }) (by simp [TT.step, TT.onColl, hsim, ttOf, hc])]
        | setTime t => cases m <;> simp [ttMsg] at hmsg
        | sudoOffset v => cases m <;> simp [ttMsg] at hmsg
        | create k cr st en rq => cases m <;> simp [ttMsg] at hmsg
        | updTrading s1 r f => cases m <;> simp [ttMsg] at hmsg
        | updStart s1 t f => cases m <;> simp [ttMsg] at hmsg
        | updEnd s1 t f => cases m <;> simp [ttMsg] at hmsg

namespace CF

theorem step'_coll_some {s : State} {c : Coll} (op : Op) (hc : s.coll = some c) : ∃ c', (step' s op).coll = some c' := by
  rcases CF.step'_cases s op with ⟨s', h, e⟩ | ⟨_, e⟩
  · rw [e]; exact step_coll_some hc h
  · rw [e]; exact ⟨c, hc⟩

theorem run_coll_some (s : State) (c : Coll) (ops : List Op) (hc : s.coll = some c) : ∃ c', (run s ops).coll = some c' := by
  induction ops generalizing s c with
  | nil => exact ⟨c, hc⟩
  | cons op ops ih =>
    obtain ⟨c1, hc1⟩ := step'_coll_some op hc
    rw [CF.run_cons]; exact ih (step' s op) c1 hc1

def defaultSide : MinterSide := ⟨.vending, 0, 0, ⟨0, 0, none⟩⟩

/-- every translated op is sent by the sender of the composite op -/
theorem tr19_external (s : State) (op : Op) (M : Addr) (h : ∀ sender funds m, op = .exec sender funds m → sender ≠ M) :
    ∀ o ∈ tr19 s op, o.External M ∧ o.isWrite = false := by
  intro o ho
  cases op with
  | exec sender funds m =>
    have hs := h sender funds m rfl
    simp only [tr19] at ho
    split at ho
    · cases ho
    · split at ho
      · split at ho
        · rename_i o' hmsg
          simp only [List.mem_singleton] at ho
          subst ho
          cases m <;> simp only [ttMsg, Option.some.injEq, reduceCtorEq] at hmsg <;> subst hmsg <;>
            exact ⟨hs, rfl⟩
        · cases ho
      · cases ho
  | block b => simp only [tr19, List.mem_singleton] at ho; subst ho; exact ⟨trivial, rfl⟩
  | fund a x => cases ho
  | instantiate k sender funds name symbol m self => cases ho
  | migrateUpdatable => cases ho
  | migrateSelf => cases ho
  | setVersion v => cases ho
  | setLegacy a => cases ho

theorem trs19_external (s : State) (ops : List Op) (M : Addr)
    (h : ∀ op ∈ ops, ∀ sender funds m, op = .exec sender funds m → sender ≠ M) :
    ∀ o ∈ trs19 s ops, o.External M ∧ o.isWrite = false := by
  induction ops generalizing s with
  | nil => intro o ho; cases ho
  | cons op ops ih =>
    intro o ho
    simp only [trs19, List.mem_append] at ho
    rcases ho with ho | ho
    · exact tr19_external s op M (h op (List.mem_cons_self ..)) o ho
    · exact ih (step' s op) (fun o' ho' => h o' (List.mem_cons_of_mem _ ho')) o ho

theorem validatedHistory_nowrite (w : TT.World) (ops : List TT.Op) (h : ∀ o ∈ ops, o.isWrite = false) :
    TT.validatedHistory w ops = [] := by
  induction ops generalizing w with
  | nil => rfl
  | cons op ops ih =>
    have h1 := h op (List.mem_cons_self ..)
    have h2 : ∀ o ∈ ops, o.isWrite = false := fun o ho => h o (List.mem_cons_of_mem _ ho)
    unfold TT.validatedHistory
    cases TT.step w op with
    | ok w' => simp [h1, ih w' h2]
    | error e => simp [ih w h2]

end CF

/-- **C19 simulation (collection half), runs** -/
theorem C19_full_coll_run (P : MinterSide) (s : State) (c : Coll) (ops : List Op) (hc : s.coll = some c)
    (hm : ∀ op ∈ ops, isMigrate op = false) :
    ttOf P (run s ops) = TT.run (ttOf P s) (trs19 s ops) := by
  induction ops generalizing s c with
  | nil => rfl
  | cons op ops ih =>
    obtain ⟨c1, hc1⟩ := step'_coll_some op hc
    rw [CF.run_cons, ih (step' s op) c1 hc1 (fun o ho => hm o (List.mem_cons_of_mem _ ho)),
      C19_full_coll_refines P s c op hc (hm op (List.mem_cons_self ..)), trs19, tt_run_append]

/-- "the collection accepts it only from its minter": an accepted composite `UpdateStartTradingTime` comes from the
cw_ownable owner (inherits `C19_auth`) -/
theorem C19_full_coll_auth (s s' : State) (c : Coll) (sender : Addr) (funds : List Coin) (t : Option Nat) (hc : s.coll = some c)
    (h : step s (.exec sender funds (.updateStartTradingTime t)) = .ok s') :
    c.core.ownership.owner = some sender := by
  obtain ⟨c0, _, core', _, hc0, _, hcore, _, _⟩ := exec_ok h
  rw [hc] at hc0; cases hc0
  have hsim := msg_sim c.core core' s.block sender funds (.updateStartTradingTime t) hcore
  simp only [ttMsg] at hsim
  have hmc : (ttOf defaultSide s).mc = some (defaultSide.minter, projTT c.core) := by simp [ttOf, hc]
  have hstep : TT.step (ttOf defaultSide s) (.collTrading sender t) =
      .ok { ttOf defaultSide s with mc := some (defaultSide.minter, projTT core') } := by
    simp [TT.step, TT.onColl, hmc, hsim]
  obtain ⟨m', c', hmc', ho⟩ := (C19_auth (ttOf defaultSide s) _ sender t).2 hstep
  rw [hmc] at hmc'; cases hmc'
  exact ho

/-- a direct `UpdateStartTradingTime` from anybody but the owner is refused by the composite -/
theorem C19_full_coll_auth_collection_rejects (s : State) (c : Coll) (sender : Addr) (funds : List Coin) (t : Option Nat)
    (hc : s.coll = some c) (hs : c.core.ownership.owner ≠ some sender) :
    accepted s (.exec sender funds (.updateStartTradingTime t)) = false := by
  cases h : step s (.exec sender funds (.updateStartTradingTime t)) with
  | error e => exact accepted_err h
  | ok s' => exact absurd (C19_full_coll_auth s s' c sender funds t hc h) hs

/-- "the value is always one the minter validated", collection half: while the collection is owned by the minter contract `M`
with no hand-over pending, over every composite history in which `M` itself sends nothing to the collection (whatever
everybody else sends, with any funds, in any blocks) the collection stays owned by `M` and `start_trading_time` keeps its
value (inherits `C19_owner_stable` and `C19_validated_history`) -/
theorem C19_full_coll_validated (s : State) (c : Coll) (M : Addr) (ops : List Op) (hc : s.coll = some c)
    (ho : c.core.ownership.owner = some M) (hp : c.core.ownership.pending = none)
    (hm : ∀ op ∈ ops, isMigrate op = false)
    (hext : ∀ op ∈ ops, ∀ sender funds m, op = .exec sender funds m → sender ≠ M) :
    ∃ c', (run s ops).coll = some c' ∧ c'.core.ownership.owner = some M ∧ c'.core.ownership.pending = none ∧
      c'.core.info.startTradingTime = c.core.info.startTradingTime := by
  let P : MinterSide := ⟨.vending, 0, M, ⟨0, 0, none⟩⟩
  have hrun := C19_full_coll_run P s c ops hc hm
  have hinv : TT.OwnerInv (ttOf P s) := by
    intro m c0 hmc
    simp only [ttOf, hc, Option.map, Option.some.injEq, Prod.mk.injEq] at hmc
    obtain ⟨_, rfl⟩ := hmc
    exact ⟨ho, hp⟩
  have hE := trs19_external s ops M hext
  have hext' : ∀ o ∈ trs19 s ops, o.External (ttOf P s).minterAddr := fun o h => (hE o h).1
  obtain ⟨hinv', _, _⟩ := C19_owner_stable (ttOf P s) (trs19 s ops) hinv hext'
  have hvis := C19_validated_history (ttOf P s) (trs19 s ops) hinv hext'
  rw [validatedHistory_nowrite _ _ (fun o h => (hE o h).2)] at hvis
  rw [← hrun] at hinv' hvis
  obtain ⟨c', hc'⟩ := run_coll_some s c ops hc
  have hmc' : (ttOf P (run s ops)).mc = some (P.minter, projTT c'.core) := by simp [ttOf, hc']
  obtain ⟨ho', hp'⟩ := hinv' P.minter (projTT c'.core) hmc'
  refine ⟨c', hc', ho', hp', ?_⟩
  simp only [List.getLast?_nil, Option.getD_none, TT.visible, ttOf, hc, hc', Option.map, Option.some.injEq] at hvis
  exact hvis

end LP
