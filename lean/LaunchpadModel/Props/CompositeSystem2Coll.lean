import LaunchpadModel.Props.CompositeCollection
import LaunchpadModel.Lemmas.LaunchpadSystem2Sim
/-!
# System composite 2: theorems of the collection composite INHERITED through `C09_sys2_refines_collection_*`

`Props/CompositeSystem2.lean` cannot import `Props/CompositeCollection.lean` (→ `Props/C09`) next to the minter-side modules, so the
collection-side inheritance is demonstrated here (audited under C09 only). `cfReach_inv` transfers every `CF.step'`-invariant
that survives a foreign bank movement to the collection contract of every system-2 history — minter mints, whitelist
traffic, trading-time updates, migrations and all messages from outside included.
-/
namespace LP
open LP.Sys2

/-- `C09_full_freeze_final` on system-2 histories: "after FreezeCollectionInfo … no field of the collection info changes again" —
once the creator froze the collection info, creator, description, image, external link, explicit-content flag and royalty info
(and the flag) are constant along EVERY continuation of the whole system -/
theorem C09_sys2_full_freeze_final (s : Sys2.State) (m : Sys2.Minter) (c : CF.Coll) (hmc : s.mc = some (m, c)) (hg : Good s)
    (hf : c.core.frozenInfo = true) (ops : List Sys2.Op) :
    ∃ m' c', (Sys2.run s ops).mc = some (m', c') ∧ c'.core.frozenInfo = true ∧ editable c'.core.info = editable c.core.info := by
  let P : CF.State → Prop := fun X =>
    ∃ c', X.coll = some c' ∧ c'.legacy = none ∧ c'.core.frozenInfo = true ∧ editable c'.core.info = editable c.core.info
  have hP : P (cfOf (Sys2.run s ops)) := by
    refine cfReach_inv P ?_ ?_ ?_ (cf_run s ops)
    · intro X op hop ⟨c1, hc1, hl1, hf1, he1⟩
      have hnl : CF.NoLegacy X := by intro c2 hc2; rw [hc1] at hc2; cases hc2; exact hl1
      obtain ⟨c2, hc2, hf2, he2⟩ := C09_full_freeze_final X c1 [op] hc1 hnl (by simpa using hop) hf1
      refine ⟨c2, hc2, ?_, hf2, he2.trans he1⟩
      exact (CF.NoLegacy_step' hnl hop) c2 hc2
    · intro X b ⟨c1, hc1, hl1, hf1, he1⟩
      exact ⟨c1, hc1, hl1, hf1, he1⟩
    · exact ⟨c, by simp [cfOf, hmc], (hg m c hmc).2, hf, rfl⟩
  obtain ⟨c', hc', _, hf', he'⟩ := hP
  cases hmc' : (Sys2.run s ops).mc with
  | none => simp [cfOf, hmc'] at hc'
  | some mc =>
    obtain ⟨m', c''⟩ := mc
    simp only [cfOf, hmc', Option.map_some, Option.some.injEq] at hc'
    subst hc'
    exact ⟨m', c'', rfl, hf', he'⟩

/-- `C09_full_mint_auth_unique` on a system-2 step: a `Mint` message from outside accepted by the collection comes from the
current cw_ownable owner, its id was absent, exactly that token is appended -/
theorem C09_sys2_full_mint_auth_unique (s s' : Sys2.State) (m : Sys2.Minter) (c : CF.Coll) (sender : Addr) (funds : List Coin)
    (id : Nat) (owner : Addr) (uri : Option Nat) (ext : Nat) (hmc : s.mc = some (m, c))
    (h : Sys2.step s (.collExec sender funds (.mint id owner uri ext)) = .ok s') :
    c.core.ownership.owner = some sender ∧ id ∉ c.core.ids ∧
    ∃ c', s'.mc = some (m, c') ∧
      c'.core.tokens = c.core.tokens ++ [⟨id, owner, [], uri, if c.core.kind = .onchain then ext else 0⟩] ∧
      c'.core.count = c.core.count + 1 := by
  have hcf := cf_step s (.collExec sender funds (.mint id owner uri ext))
  rw [Sys2.step'_ok h] at hcf
  simp only [cfOps, cfBank, cfOf_bank_self, cf_run_one] at hcf
  have hc : (cfOf s).coll = some c := by simp [cfOf, hmc]
  cases hst : CF.step (cfOf s) (.exec sender funds (.mint id owner uri ext)) with
  | error e =>
    -- the system accepted, so the collection did
    obtain ⟨m0, c0, b1, core', b2, hmc0, hb1, hex, hb2, _⟩ := collExec_ok h
    rw [hmc] at hmc0
    simp only [Option.some.injEq, Prod.mk.injEq] at hmc0
    obtain ⟨rfl, rfl⟩ := hmc0
    have := CF.exec_of (s := cfOf s) hc hb1 hex hb2
    rw [show CF.step (cfOf s) (.exec sender funds (.mint id owner uri ext)) = CF.exec (cfOf s) sender funds (.mint id owner uri ext) from rfl,
      this] at hst
    cases hst
  | ok X =>
    obtain ⟨h1, h2, c', hc', h3, h4⟩ := C09_full_mint_auth_unique (cfOf s) X c sender funds id owner uri ext hc hst
    rw [CF.step'_ok hst] at hcf
    refine ⟨h1, h2, c', ?_, h3, h4⟩
    obtain ⟨m0, c0, b1, core', b2, hmc0, _, _, _, rfl⟩ := collExec_ok h
    rw [hmc] at hmc0
    simp only [Option.some.injEq, Prod.mk.injEq] at hmc0
    obtain ⟨rfl, rfl⟩ := hmc0
    have : (cfOf { s with bank := b2, mc := some (m, { c with core := core' }) }).coll = some c' := by rw [hcf]; exact hc'
    simp only [cfOf, Option.map_some, Option.some.injEq] at this
    rw [this]

end LP
