import LaunchpadModel.Lemmas.TokenMergeSystemOnly
/-!
# Token-merge SYSTEM composite (`LP.SysTM`): token-merge factory + minter joined with REAL `CF` collection contracts

`Model/TokenMergeSystem.lean`: the `TMF` minter-side state whose simplified collection interfaces (owner tables of the SOURCE
collections, `Supply.Coll` + `TT.Coll` of the TARGET collection) are REPLACED by `CF.Coll` collection contracts.  A deposit is ONE
transaction `holder → source collection SendNft → minter ReceiveNft → Mint on the target (when the recipient's requirement is
complete) → Burn on the source`, every stage computed by the model of the contract that executes it, atomically.
Correspondence with the real contracts: `harness/src/bin/compsystm.rs` ↔ `drv_compsystm` (docs/COMPOSITE_SYSTEM_TM.md).

## (b) end-to-end (ALL states unless a history is named)

* `C17_systm_rejected_deposit_keeps_token` — a refused `SendNft` leaves the WHOLE system unchanged (in particular the token is
  still in the source collection with its owner and approvals), even when the cw721 transfer stage itself had succeeded;
* `C17_systm_accepted_deposit_burns` — after an accepted deposit the token does not exist in the source collection any more, every
  other token of it is untouched, `NumTokens` is one less; before, the token existed and the sender could send it
  (owner / approved spender / operator);
* `C17_systm_mint_iff_complete` — the target collection gains a token in that transaction iff the recipient's ledger became
  complete; then exactly one, with the id at the picked position, owned by the recipient, no approvals; else the target is untouched;
* `C17_systm_only_required_collections` — a deposit from a collection outside the requirement list is refused;
* `C17_systm_deposit_needs_sender_right` — a deposit by somebody who is neither owner nor approved nor operator is refused.
* `C17_systm_ledger_bounded` (ALL histories, no hypothesis) — a credit never exceeds the required amount; `C17_systm_deposit_ledger`
  — an accepted deposit adds exactly one credit, or (completing) removes the recipient's rows and raises its mint count by one.
* histories (`SysTM.NoImpRun`: nobody signs a message to the TARGET collection with the minter contract's own address — on a
  chain only the contract can, and its code sends the collection exactly `Mint` and `UpdateStartTradingTime`):
  `C01_systm_invariant` (`SysTM.TInv` along every history from `init`), `C01_systm_target_tokens_from_minter` (every token of the
  target collection is in this minter's mint log, id in `1..=num_tokens`; the cw_ownable owner is the minter contract, nothing
  pending), `C01_systm_direct_mint_refused` (a `Mint` sent to the target collection by anybody else is refused),
  `C17_systm_mint_only_via_deposit_or_admin` (a new id in the target collection comes from a completing deposit or an admin mint).

## (a) refinement (see docs/COMPOSITE_SYSTEM_TM.md §4a for what is and is not covered)

* collection side, ALL states / ops / addresses: `C09_systm_collections_evolve_by_cf` (every collection contract of the system
  — target and sources — is kept and moves only by ACCEPTED calls of the collection's own `execute`; new ones come from its
  `instantiate`), `C09_systm_collection_invariant` (invariant transfer to every collection along every history),
  `C09_systm_num_tokens_exact`, `C17_systm_accepted_deposit_num_tokens` (`NumTokens + 1 = before`, history form);
* minter side: `C17_systm_refines_tmf_step` (ALL states: every accepted system op with a `TMF` counterpart — every minter /
  factory message, `CreateMinter`, the clock, one more source collection ↦ `srcNew`, a deposit ↦ `send` by the token's owner —
  is the ACCEPTED `TMF` step on the views with result `= tmfOf s'`: the views are exact), `C17_systm_deposit_refines_tmf_send` (an accepted system deposit — by owner, spender or operator — IS the accepted
  `TMF.send` by the token's owner on the views, result `= tmfOf s'`), `C17_systm_hook_view_exact` (the view of the target is exact
  over the hook), `C17_systm_hook_is_tmf_receive` (`TMF.receiveNft` = `hookMinter` + the burn on the owner table); every other
  minter-side op is `TMF.step (tmfOf s) o` by definition (`tmStep`).
-/
namespace LP
open LP.SysTM

/-! ## (b) end-to-end -/

/-- **atomicity.** "a failed `sendNft` leaves the token with its owner in the source collection": a refused deposit leaves the
whole system state unchanged — the source collection (token, owner, approvals), the ledger, the target collection, the bank. -/
theorem C17_systm_rejected_deposit_keeps_token (s : SysTM.State) (coll sender contract : Addr) (id picked : Nat)
    (recipient : Option Addr) (msgOk recvOk : Bool)
    (h : SysTM.accepted s (.sendNft coll sender id contract recipient msgOk recvOk picked) = false) :
    SysTM.step' s (.sendNft coll sender id contract recipient msgOk recvOk picked) = s ∧
    ∀ c, lookup s.srcs coll = some c →
      lookup (SysTM.step' s (.sendNft coll sender id contract recipient msgOk recvOk picked)).srcs coll = some c := by
  obtain ⟨e, he⟩ := (accepted_false_iff _ _).1 h
  have := step'_err he
  exact ⟨this, fun c hc => by rw [this]; exact hc⟩

/-- the same, spelled out for the case the task names: the cw721 `SendNft` stage on the source collection SUCCEEDED (the sender
was entitled, the token moved to the minter inside the transaction) but the minter's hook or one of its sub-messages failed —
the owner recorded in the source collection afterwards is the owner before. -/
theorem C17_systm_rejected_deposit_owner_kept (s : SysTM.State) (coll sender contract : Addr) (id picked : Nat)
    (recipient : Option Addr) (msgOk recvOk : Bool) (c : CF.Coll) (hc : lookup s.srcs coll = some c)
    (h : SysTM.accepted s (.sendNft coll sender id contract recipient msgOk recvOk picked) = false) :
    ((lookup (SysTM.step' s (.sendNft coll sender id contract recipient msgOk recvOk picked)).srcs coll).bind (ownerIn · id))
      = ownerIn c id := by
  rw [(C17_systm_rejected_deposit_keeps_token s coll sender contract id picked recipient msgOk recvOk h).1, hc]
  rfl

/-- **an accepted deposit burns.** After an accepted `SendNft` to the minter the token no longer exists in the source
collection, `NumTokens` of that collection dropped by one (`token_count − 1`; `+ 1 = ` under the collection invariant
`count = |tokens|`), all other ids are still there; before, the token existed and the SENDER was entitled to send it. -/
theorem C17_systm_accepted_deposit_burns {s s' : SysTM.State} {coll sender contract : Addr} {id picked : Nat}
    {recipient : Option Addr} {msgOk recvOk : Bool} (hm : isMinterAddr s contract = true)
    (h : SysTM.step s (.sendNft coll sender id contract recipient msgOk recvOk picked) = .ok s') :
    ∃ c c' t, lookup s.srcs coll = some c ∧ lookup s'.srcs coll = some c' ∧
      c.core.find? id = some t ∧ Sg721.canSend c.core s.block sender t = true ∧
      c'.core.find? id = none ∧ c'.core.count = c.core.count - 1 ∧
      c'.core.ids = c.core.ids.filter (fun x => !decide (x = id)) ∧
      (∀ id', id' ≠ id → c'.core.find? id' = c.core.find? id') := by
  obtain ⟨c, bank1, c1, hc, hs, _, hh⟩ := deposit_ok hm h
  obtain ⟨t, hf, hcs, rfl⟩ := execOn_send hs
  obtain ⟨m, tc, vm', mints, msg, bank2, tc', c2, bank3, c3, _, _, _, _, hc2, hb, rfl⟩ := hook_ok hh
  have hl : lookup (afterSend s coll bank1 { c with core := c.core.setToken { t with owner := contract, approvals := [] } }).srcs coll
      = some { c with core := c.core.setToken { t with owner := contract, approvals := [] } } := lookup_setColl_same _ hc
  rw [hl] at hc2
  cases hc2
  obtain ⟨t2, _, _, rfl⟩ := execOn_burn hb
  refine ⟨c, _, t, hc, lookup_setColl_same _ hl, hf, hcs, ?_, ?_, ?_, ?_⟩
  · simp [Sg721.find?_removeToken]
  · rfl
  · simp only [Sg721.ids_removeToken, Sg721.ids_setToken]
  · intro id' hne
    simp only [Sg721.find?_removeToken, hne, if_false, Sg721.find?_setToken]
    have : ¬ id' = t.id := by rw [(Sg721.find?_some hf).2]; exact hne
    simp [this]

/-- **mint iff complete.** In an accepted deposit the target collection gains a token iff the recipient's ledger became
complete (`completes`: every entry of the requirement list is covered counting this token); then it gains exactly the token
at the picked position, owned by the recipient (`recipient.unwrap_or(sender)`), without approvals, with the `base/id` URI; the id
was absent before; otherwise the target collection contract is untouched. -/
theorem C17_systm_mint_iff_complete {s s' : SysTM.State} {coll sender contract : Addr} {id picked : Nat}
    {recipient : Option Addr} {msgOk recvOk : Bool} (hm : isMinterAddr s contract = true)
    (h : SysTM.step s (.sendNft coll sender id contract recipient msgOk recvOk picked) = .ok s') :
    ∃ m tc m' tc', s.mc = some (m, tc) ∧ s'.mc = some (m', tc') ∧
      (completes (vmOf m tc) coll (recipient.getD sender) = true →
        ∃ tid, Supply.lookupPos m.supply.pos picked = some tid ∧ tc.core.find? tid = none ∧
          tc'.core.tokens = tc.core.tokens ++ [⟨tid, recipient.getD sender, [], some (Sys2.URI_BASE + tid), 0⟩] ∧
          tc'.core.count = tc.core.count + 1) ∧
      (completes (vmOf m tc) coll (recipient.getD sender) = false → tc' = tc) ∧
      (tc'.core.count = tc.core.count + 1 ↔ completes (vmOf m tc) coll (recipient.getD sender) = true) := by
  obtain ⟨c, bank1, c1, hc, hs, _, hh⟩ := deposit_ok hm h
  obtain ⟨m, tc, vm', mints, msg, bank2, tc', c2, bank3, c3, hmc, hhm, hmsg, hrs, _, _, rfl⟩ := hook_ok hh
  have hmc' : s.mc = some (m, tc) := hmc
  -- `mints` is `completes`
  have hmints : mints = completes (vmOf m tc) coll (recipient.getD sender) := by
    unfold hookMinter at hhm
    split at hhm
    · cases hhm
    · split at hhm
      · cases hhm
      · split at hhm
        · cases hhm
        · split at hhm
          · cases hhm
          · split at hhm
            · rename_i hcmp
              split at hhm
              · cases hhm
              · cases hhm; exact hcmp.symm
            · rename_i hcmp
              cases hhm
              simp only [Bool.not_eq_true] at hcmp
              exact hcmp.symm
  have key : (mints = true → ∃ tid, Supply.lookupPos m.supply.pos picked = some tid ∧ tc.core.find? tid = none ∧
          tc'.core.tokens = tc.core.tokens ++ [⟨tid, recipient.getD sender, [], some (Sys2.URI_BASE + tid), 0⟩] ∧
          tc'.core.count = tc.core.count + 1) ∧ (mints = false → tc' = tc) := by
    constructor
    · intro ht
      subst ht
      simp only [if_true, subMsg, Sys2.pickedId] at hmsg
      split at hmsg
      · cases hmsg
      · rename_i tid htid
        split at hmsg
        · cases hmsg
        · rename_i mm hmm
          cases hmsg
          unfold Sys2.mintMsg at hmm
          split at hmm
          · cases hmm
          · rename_i hk
            cases hmm
            obtain ⟨_, hn, rfl⟩ := execOn_mint (runSub_some (s := afterSend s coll bank1 c1) hrs)
            refine ⟨tid, htid, hn, ?_, rfl⟩
            simp [hk]
    · intro hf
      subst hf
      simp only [Bool.false_eq_true, if_false, subMsg] at hmsg
      cases hmsg
      exact (runSub_none hrs).2
  refine ⟨m, tc, ofVm vm', tc', hmc', rfl, ?_, ?_, ?_⟩
  · intro hcpl; exact key.1 (hmints.trans hcpl)
  · intro hcpl; exact key.2 (hmints.trans hcpl)
  · constructor
    · intro hcnt
      cases hb : completes (vmOf m tc) coll (recipient.getD sender) with
      | true => rfl
      | false =>
        have := key.2 (hmints.trans hb)
        rw [this] at hcnt
        omega
    · intro hcpl
      obtain ⟨_, _, _, _, hcnt⟩ := key.1 (hmints.trans hcpl)
      exact hcnt

/-- every gate of `hookMinter` sits behind the requirement-list lookup or refuses itself -/
theorem SysTM.hookMinter_unlisted {now : Nat} {m : TMF.Minter} {caller sender : Addr} {recipient : Option Addr} {picked : Nat}
    (h : TMF.requiredOf m.mintTokens caller = none) :
    ∃ e, hookMinter now m caller sender recipient picked = .error e := by
  unfold hookMinter
  split
  · exact ⟨_, rfl⟩
  · split
    · exact ⟨_, rfl⟩
    · rw [h]; exact ⟨_, rfl⟩

/-- **only the required collections.** A deposit (a `SendNft` to the minter) of a token of a collection that the minter's
requirement list `mint_tokens` does not name is refused — whoever sends it, whatever the ledger holds. -/
theorem C17_systm_only_required_collections (s : SysTM.State) (m : SysTM.Minter) (tc : CF.Coll) (coll sender : Addr)
    (id picked : Nat) (recipient : Option Addr) (msgOk recvOk : Bool) (hmc : s.mc = some (m, tc))
    (hreq : TMF.requiredOf m.mintTokens coll = none) :
    SysTM.accepted s (.sendNft coll sender id m.addr recipient msgOk recvOk picked) = false := by
  have hm : isMinterAddr s m.addr = true := by simp [isMinterAddr, hmc]
  cases hacc : SysTM.accepted s (.sendNft coll sender id m.addr recipient msgOk recvOk picked) with
  | false => rfl
  | true =>
    obtain ⟨s', hs'⟩ := (accepted_true_iff _ _).1 hacc
    obtain ⟨c, bank1, c1, _, _, _, hh⟩ := deposit_ok hm hs'
    obtain ⟨m2, tc2, vm', mints, _, _, _, _, _, _, hmc2, hhm, _⟩ := hook_ok hh
    have : (afterSend s coll bank1 c1).mc = s.mc := rfl
    rw [this, hmc] at hmc2
    cases hmc2
    obtain ⟨e, he⟩ := SysTM.hookMinter_unlisted (now := (afterSend s coll bank1 c1).now) (m := vmOf m tc) (caller := coll)
      (sender := sender) (recipient := recipient) (picked := picked) hreq
    rw [he] at hhm
    cases hhm

/-- **who may deposit.** A `SendNft` by somebody who — in the source collection, in this block — is neither the owner of the
token nor holds a live approval for it nor is a live operator of its owner is refused (whatever the receiver). -/
theorem C17_systm_deposit_needs_sender_right (s : SysTM.State) (c : CF.Coll) (t : Sg721.Token) (coll sender contract : Addr)
    (id picked : Nat) (recipient : Option Addr) (msgOk recvOk : Bool) (hm : isMinterAddr s contract = true)
    (hc : lookup s.srcs coll = some c) (ht : c.core.find? id = some t) (hno : Sg721.canSend c.core s.block sender t = false) :
    SysTM.accepted s (.sendNft coll sender id contract recipient msgOk recvOk picked) = false := by
  cases hacc : SysTM.accepted s (.sendNft coll sender id contract recipient msgOk recvOk picked) with
  | false => rfl
  | true =>
    obtain ⟨s', hs'⟩ := (accepted_true_iff _ _).1 hacc
    obtain ⟨c0, t0, _, hc0, _, ht0, hcs, _⟩ := C17_systm_accepted_deposit_burns hm hs'
    rw [hc] at hc0; cases hc0
    rw [ht] at ht0; cases ht0
    rw [hno] at hcs; cases hcs

/-! ## histories: the target collection holds only what this minter minted -/

theorem SysTM.init_good (height now : Nat) (codes : VF.Codes) (fac : Addr) (p : TMF.Params) :
    TInv (SysTM.init height now codes fac p) := by
  intro m tc h; simp [SysTM.init] at h

theorem SysTM.step'_good {s : SysTM.State} {op : SysTM.Op} (hi : TInv s) (hni : NoImp s op) : TInv (SysTM.step' s op) := by
  rcases step'_cases s op with ⟨s', hs, he⟩ | ⟨_, he⟩
  · rw [he]; exact step_good hi hni hs
  · rw [he]; exact hi

theorem SysTM.run_good {s : SysTM.State} {ops : List SysTM.Op} (hi : TInv s) (hni : NoImpRun s ops) :
    TInv (SysTM.run s ops) := by
  induction ops generalizing s with
  | nil => exact hi
  | cons op ops ih => exact ih (SysTM.step'_good hi hni.1) hni.2

/-- **the end-to-end invariant** along every system history from `init` without impersonation of the minter contract -/
theorem C01_systm_invariant (height now : Nat) (codes : VF.Codes) (fac : Addr) (p : TMF.Params) (ops : List SysTM.Op)
    (hni : NoImpRun (SysTM.init height now codes fac p) ops) : TInv (SysTM.run (SysTM.init height now codes fac p) ops) :=
  SysTM.run_good (SysTM.init_good height now codes fac p) hni

/-- **the target collection holds only this minter's tokens.** After every system history from `init` (source collections of
any kind created, tokens handed out, approvals, deposits by owners / spenders / operators, airdrops, shuffles, holders' and
strangers' messages to every collection, …) in which nobody impersonates the minter contract: every token id that exists in the
TARGET collection contract is in this minter's mint log and lies in `1..=num_tokens`; the collection's cw_ownable owner (its
`minter`) is the minter contract and no hand-over is pending. -/
theorem C01_systm_target_tokens_from_minter (height now : Nat) (codes : VF.Codes) (fac : Addr) (p : TMF.Params)
    (ops : List SysTM.Op) (hni : NoImpRun (SysTM.init height now codes fac p) ops) (m : SysTM.Minter) (tc : CF.Coll)
    (hmc : (SysTM.run (SysTM.init height now codes fac p) ops).mc = some (m, tc)) :
    tc.core.ownership = ⟨some m.addr, none, none⟩ ∧
    ∀ id ∈ tc.core.ids, id ∈ m.supply.minted ∧ 1 ≤ id ∧ id ≤ m.supply.n := by
  obtain ⟨g1, g2, _, g4⟩ := C01_systm_invariant height now codes fac p ops hni m tc hmc
  exact ⟨g1, fun id hid => ⟨g2 id hid, g4 id (g2 id hid)⟩⟩

/-- **nobody else mints into the target collection.** In every state of the invariant a `Mint` message sent to the target
collection by anybody but the minter contract is refused (whatever id, owner, funds). -/
theorem C01_systm_direct_mint_refused {s : SysTM.State} {m : SysTM.Minter} {tc : CF.Coll} (hi : TInv s) (hmc : s.mc = some (m, tc))
    (sender : Addr) (hne : sender ≠ m.addr) (funds : List Coin) (id : Nat) (owner : Addr) (uri : Option Nat) (ext : Nat) :
    SysTM.accepted s (.collExec m.sg721 sender funds (.mint id owner uri ext)) = false := by
  cases hacc : SysTM.accepted s (.collExec m.sg721 sender funds (.mint id owner uri ext)) with
  | false => rfl
  | true =>
    obtain ⟨s', hs'⟩ := (accepted_true_iff _ _).1 hacc
    simp only [SysTM.step, collExec, sendsToMinter, Bool.false_eq_true, if_false, hmc, if_true] at hs'
    split at hs'
    · cases hs'
    · rename_i bank tc' hx
      obtain ⟨ho, _, _⟩ := execOn_mint hx
      rw [(hi m tc hmc).1] at ho
      simp only [Option.some.injEq] at ho
      exact absurd ho.symm hne

/-- **a token appears in the target collection only through a completing deposit or an admin mint.** In a state of the
invariant, an accepted op without impersonation after which the target collection holds an id it did not hold before is
`MintTo` / `MintFor` sent by the minter's admin, or a `SendNft` deposit to the minter that completed the recipient's requirement,
or (cw-multi-test only: nobody but a listed collection contract gets that far) a direct hook call that completed it. -/
theorem C17_systm_mint_only_via_deposit_or_admin {s s' : SysTM.State} {op : SysTM.Op} (hi : TInv s) (hni : NoImp s op)
    (h : SysTM.step s op = .ok s') {m m' : SysTM.Minter} {tc tc' : CF.Coll} (hmc : s.mc = some (m, tc))
    (hmc' : s'.mc = some (m', tc')) (hnew : ∃ x ∈ tc'.core.ids, x ∉ tc.core.ids) :
    (∃ funds rcpt picked, op = .tm (.mintTo m.admin funds rcpt picked)) ∨
    (∃ funds id rcpt, op = .tm (.mintFor m.admin funds id rcpt)) ∨
    (∃ coll sender id recipient msgOk recvOk picked,
      op = .sendNft coll sender id m.addr recipient msgOk recvOk picked ∧
      completes (vmOf m tc) coll (recipient.getD sender) = true) ∨
    (∃ caller sender id recipient msgOk picked,
      op = .tm (.receive caller sender id recipient msgOk picked) ∧
      completes (vmOf m tc) caller (recipient.getD sender) = true) := by
  obtain ⟨x, hx, hnx⟩ := hnew
  cases op with
  | tm o =>
    by_cases hrecv : ∃ caller sender id recipient msgOk picked, o = .receive caller sender id recipient msgOk picked
    · obtain ⟨caller, sender, id, recipient, msgOk, picked, rfl⟩ := hrecv
      simp only [SysTM.step, receiveDirect] at h
      split at h
      · cases h
      · exact .inr (.inr (.inr ⟨caller, sender, id, recipient, msgOk, picked, rfl, hook_new h hmc hmc' ⟨x, hx, hnx⟩⟩))
    · have hstep : foreignOp o = false ∧ tmStep s o = .ok s' := by
        cases o <;> simp only [SysTM.step] at h
        case receive caller sender id recipient msgOk picked =>
          exact absurd ⟨caller, sender, id, recipient, msgOk, picked, rfl⟩ hrecv
        all_goals
          first
            | (split at h
               · cases h
               · rename_i hf
                 exact ⟨by simpa using hf, h⟩)
            | cases h
      obtain ⟨hf, ht⟩ := hstep
      by_cases hsub : ∃ rcpt pk, subOf o = .mint rcpt pk
      · obtain ⟨rcpt, pk, hs⟩ := hsub
        rcases tmStep_mint_admin ht hmc hs with ⟨funds, picked, rfl⟩ | ⟨funds, id, rfl⟩
        · exact .inl ⟨funds, rcpt, picked, rfl⟩
        · exact .inr (.inl ⟨funds, id, rcpt, rfl⟩)
      · have hn : ∀ rcpt pk, subOf o ≠ .mint rcpt pk := fun rcpt pk he => hsub ⟨rcpt, pk, he⟩
        have := tmStep_keeps hf hn ht hmc hmc'
        rw [this] at hx
        exact absurd hx hnx
  | create sender funds msg w ci =>
    simp only [SysTM.step, create] at h
    split at h
    · cases h
    · rename_i r hr
      simp only [TMF.step] at hr
      obtain ⟨_, _, _, _, hnone, _⟩ := TMF.createMinter_ok hr
      simp [tmfOf, hmc] at hnone
  | block hh t =>
    simp only [SysTM.step] at h
    split at h
    · cases h
    · cases h
      have : some (m, tc) = some (m', tc') := by rw [← hmc, ← hmc']
      simp only [Option.some.injEq, Prod.mk.injEq] at this
      obtain ⟨_, rfl⟩ := this
      exact absurd hx hnx
  | srcCreate k sender name symbol mm self =>
    simp only [SysTM.step] at h
    have hsame : s'.mc = s.mc := srcCreate_mc h
    rw [hsame, hmc] at hmc'
    simp only [Option.some.injEq, Prod.mk.injEq] at hmc'
    obtain ⟨_, rfl⟩ := hmc'
    exact absurd hx hnx
  | sendNft coll sender id contract recipient msgOk recvOk picked =>
    by_cases hm : isMinterAddr s contract = true
    · have hc : contract = m.addr := by simpa [isMinterAddr, hmc] using hm
      subst hc
      obtain ⟨c, bank1, c1, _, _, _, hh⟩ := deposit_ok hm h
      exact .inr (.inr (.inl ⟨coll, sender, id, recipient, msgOk, recvOk, picked, rfl,
        hook_new (s := afterSend s coll bank1 c1) hh hmc hmc' ⟨x, hx, hnx⟩⟩))
    · simp only [SysTM.step, deposit, hm, Bool.false_eq_true, if_false] at h
      exact absurd (collExec_keeps hi hni h hmc hmc' x hx) hnx
  | collExec coll sender funds mm =>
    simp only [SysTM.step] at h
    exact absurd (collExec_keeps hi hni h hmc hmc' x hx) hnx

/-! ## the deposit ledger -/

/-- **the ledger never exceeds the requirement.** After EVERY system history from `init` (impersonation or not, whatever the
collections do): `RECEIVED_TOKENS[recipient][collection] ≤` the amount the first `mint_tokens` entry for that collection asks for,
and `0` for a collection the list does not name. -/
theorem C17_systm_ledger_bounded (height now : Nat) (codes : VF.Codes) (fac : Addr) (p : TMF.Params) (ops : List SysTM.Op)
    (m : SysTM.Minter) (tc : CF.Coll) (hmc : (SysTM.run (SysTM.init height now codes fac p) ops).mc = some (m, tc))
    (r c : Addr) : m.ledger r c ≤ (TMF.requiredOf m.mintTokens c).getD 0 :=
  run_lb ops (fun m tc h => by simp [SysTM.init] at h) m tc hmc r c

/-- **credit or reset.** An accepted deposit that does NOT complete the recipient's requirement adds exactly one credit (recipient,
collection) and changes no other ledger entry; one that completes it leaves the recipient without any credit for a listed
collection (the ledger rows are removed) and raises the recipient's mint count by one. -/
theorem C17_systm_deposit_ledger {s s' : SysTM.State} {coll sender contract : Addr} {id picked : Nat}
    {recipient : Option Addr} {msgOk recvOk : Bool} (hm : isMinterAddr s contract = true)
    (h : SysTM.step s (.sendNft coll sender id contract recipient msgOk recvOk picked) = .ok s') :
    ∃ m tc m' tc', s.mc = some (m, tc) ∧ s'.mc = some (m', tc') ∧
      (completes (vmOf m tc) coll (recipient.getD sender) = false →
        m'.ledger = TMF.creditLedger m.ledger (recipient.getD sender) coll ∧ m'.mintCount = m.mintCount) ∧
      (completes (vmOf m tc) coll (recipient.getD sender) = true →
        (∀ c ∈ m.mintTokens.map Prod.fst, m'.ledger (recipient.getD sender) c = 0) ∧
        m'.mintCount (recipient.getD sender) = m.mintCount (recipient.getD sender) + 1) := by
  obtain ⟨c, bank1, c1, hc, hs, _, hh⟩ := deposit_ok hm h
  obtain ⟨m, tc, vm', mints, msg, bank2, tc', c2, bank3, c3, hmc, hhm, _, _, _, _, rfl⟩ := hook_ok hh
  have hmc' : s.mc = some (m, tc) := hmc
  have key :
      (completes (vmOf m tc) coll (recipient.getD sender) = false ∧
        vm'.ledger = TMF.creditLedger m.ledger (recipient.getD sender) coll ∧ vm'.mintCount = m.mintCount) ∨
      (completes (vmOf m tc) coll (recipient.getD sender) = true ∧
        vm'.ledger = TMF.clearLedger (TMF.creditLedger m.ledger (recipient.getD sender) coll) (recipient.getD sender) m.mintTokens ∧
        vm'.mintCount = MintLimits.upd m.mintCount (recipient.getD sender) (m.mintCount (recipient.getD sender) + 1)) := by
    unfold hookMinter at hhm
    split at hhm
    · cases hhm
    · split at hhm
      · cases hhm
      · split at hhm
        · cases hhm
        · split at hhm
          · cases hhm
          · split at hhm
            · rename_i hcmp
              split at hhm
              · cases hhm
              · rename_i m1 hd
                cases hhm
                obtain ⟨sup, _, _, _, _, rfl⟩ := TMF.deliver_ok hd
                exact .inr ⟨hcmp, rfl, rfl⟩
            · rename_i hcmp
              cases hhm
              simp only [Bool.not_eq_true] at hcmp
              exact .inl ⟨hcmp, rfl, rfl⟩
  refine ⟨m, tc, ofVm vm', tc', hmc', rfl, ?_, ?_⟩
  · intro hcpl
    rcases key with ⟨_, h1, h2⟩ | ⟨h0, _, _⟩
    · exact ⟨h1, h2⟩
    · rw [hcpl] at h0; cases h0
  · intro hcpl
    rcases key with ⟨h0, _, _⟩ | ⟨_, h1, h2⟩
    · rw [hcpl] at h0; cases h0
    · refine ⟨?_, ?_⟩
      · intro c hcm
        show vm'.ledger (recipient.getD sender) c = 0
        rw [h1]
        simp [TMF.clearLedger, hcm]
      · show vm'.mintCount (recipient.getD sender) = _
        rw [h2]
        simp [MintLimits.upd]

/-! ## (a) refinement, collection side: every collection contract of the system evolves by collection-contract steps -/

/-- **every collection evolves by `CF` steps.** Over ANY system op (accepted or not), at EVERY address `a`: either there is no
collection contract before and after; or the contract that was there is still there — same address, name / symbol, legacy item —
and its core was reached by ACCEPTED calls of the collection's own `execute` entry point (`Sg721.exec`, the function `CF.exec`
runs on the core: none, one, or — the source collection of a deposit — two: `SendNft` by the depositor, `Burn` by the minter);
or a contract appeared that the collection's own `instantiate` produced.  No collection is ever dropped or edited otherwise. -/
theorem C09_systm_collections_evolve_by_cf (s : SysTM.State) (op : SysTM.Op) (a : Addr) :
    CollRel (collAt s a) (collAt (SysTM.step' s op) a) := by
  rcases step'_cases s op with ⟨s', hs, he⟩ | ⟨_, he⟩
  · rw [he]; exact coll_step hs a
  · rw [he]; exact CollRel.same _

/-- **invariant transfer.** Every property of a collection contract's state that its `instantiate` establishes and every
accepted `execute` call keeps (e.g. every `C09_*` / `C09_full_*` invariant of `Sg721.exec`) holds for EVERY collection contract
of the system — the target and all sources — after EVERY system history from `init`. -/
theorem C09_systm_collection_invariant (P : Sg721.State → Prop)
    (hexec : ∀ c call c', P c → Sg721.exec c call = .ok c' → P c')
    (hinst : ∀ k b sender funds m c, Sg721.instantiate k b sender funds m = .ok c → P c)
    (height now : Nat) (codes : VF.Codes) (fac : Addr) (p : TMF.Params) (ops : List SysTM.Op) (a : Addr) (c : CF.Coll)
    (h : collAt (SysTM.run (SysTM.init height now codes fac p) ops) a = some c) : P c.core :=
  allColl_run hexec hinst ops (allColl_init P height now codes fac p) a c h

/-- **`NumTokens` is exact everywhere.** For every collection of the system after every history: `token_count` (what `NumTokens`
answers) is the number of tokens, and no id occurs twice. -/
theorem C09_systm_num_tokens_exact (height now : Nat) (codes : VF.Codes) (fac : Addr) (p : TMF.Params) (ops : List SysTM.Op)
    (a : Addr) (c : CF.Coll) (h : collAt (SysTM.run (SysTM.init height now codes fac p) ops) a = some c) :
    c.core.count = c.core.tokens.length ∧ c.core.ids.Nodup :=
  C09_systm_collection_invariant Sg721.SInv (fun _ _ _ hi hx => sinv_exec hi hx)
    (fun _ _ _ _ _ _ hm => sinv_instantiate hm) height now codes fac p ops a c h

/-- **an accepted deposit lowers `NumTokens` by exactly one** (history form of `C17_systm_accepted_deposit_burns`): after any
system history, an accepted deposit of token `id` of the source collection at `coll` (an address other than the target's)
leaves `NumTokens(coll) + 1 = ` its value before, and one token less in the table. -/
theorem C17_systm_accepted_deposit_num_tokens (height now : Nat) (codes : VF.Codes) (fac : Addr) (p : TMF.Params)
    (pre : List SysTM.Op) {s' : SysTM.State} {coll sender contract : Addr} {id picked : Nat} {recipient : Option Addr}
    {msgOk recvOk : Bool}
    (hm : isMinterAddr (SysTM.run (SysTM.init height now codes fac p) pre) contract = true)
    (hnt : ∀ m tc, (SysTM.run (SysTM.init height now codes fac p) pre).mc = some (m, tc) → coll ≠ m.sg721)
    (h : SysTM.step (SysTM.run (SysTM.init height now codes fac p) pre)
      (.sendNft coll sender id contract recipient msgOk recvOk picked) = .ok s') :
    ∃ c c', lookup (SysTM.run (SysTM.init height now codes fac p) pre).srcs coll = some c ∧ lookup s'.srcs coll = some c' ∧
      c'.core.count + 1 = c.core.count ∧ c'.core.tokens.length + 1 = c.core.tokens.length := by
  obtain ⟨c, c', t, hc, hc', hf, _, _, hcnt, hids, _⟩ := C17_systm_accepted_deposit_burns hm h
  have hi := C09_systm_num_tokens_exact height now codes fac p pre coll c (collAt_of_lookup hc hnt)
  have hmem : id ∈ c.core.ids := (Sg721.find?_isSome_iff c.core id).1 (by rw [hf]; rfl)
  have hlen : c'.core.ids.length + 1 = c.core.ids.length := by
    rw [hids]
    have := Supply.length_filter_ne_of_nodup c.core.ids id hi.2 hmem
    have he : (fun x : Nat => !decide (x = id)) = (fun x => x != id) := by
      funext x; simp [bne, BEq.beq]
    rw [he]; exact this
  have hpos : 0 < c.core.tokens.length := by
    have : 0 < c.core.ids.length := List.length_pos_of_mem hmem
    simpa [Sg721.State.ids] using this
  refine ⟨c, c', hc, hc', ?_, ?_⟩
  · rw [hcnt, hi.1]; omega
  · simpa [Sg721.State.ids] using hlen

/-! ## (a) refinement, minter side -/

/-- **the hook is `TMF`'s hook.** `TMF.receiveNft` — the handler the composite theorems `C17_fulltm_*` / `C01_fulltm_*` are
about — is `SysTM.hookMinter` (the part `SysTM` runs on the VIEW of the target collection) followed by the `Burn` of the
deposited token, which `TMF` executes on its simplified owner table (`burnDeposit`) and `SysTM` on the real source collection. -/
theorem C17_systm_hook_is_tmf_receive (t : TMF.State) (m : TMF.Minter) (caller sender : Addr) (id : Nat)
    (recipient : Option Addr) (picked : Nat) :
    TMF.receiveNft t m caller sender id recipient picked =
      match hookMinter t.now m caller sender recipient picked with
      | .error e => .error e
      | .ok (m', _) => TMF.burnDeposit t m caller id m' :=
  receiveNft_eq t m caller sender id recipient picked

/-- **the view of the target is exact over the hook.** What the minter-side code computed on the VIEW of the target collection
(`Supply.Coll.mint` on the token table when the deposit completes; nothing otherwise) IS the view of the target collection
contract after it executed the minter's `Mint` sub-message itself: the post-state's minter record, seen through the view again,
is the record `hookMinter` returned.  The sub-message moves no coins. -/
theorem C17_systm_hook_view_exact {s : SysTM.State} {m : SysTM.Minter} {tc tc' : CF.Coll} {vm' : TMF.Minter} {mints : Bool}
    {msg : Option CF.ExecMsg} {bank bank' : MintPay.Bank} {caller sender : Addr} {recipient : Option Addr} {picked : Nat}
    (hhm : hookMinter s.now (vmOf m tc) caller sender recipient picked = .ok (vm', mints))
    (hmsg : subMsg m.supply.pos tc (if mints then .mint (recipient.getD sender) (.at picked) else .none) = .ok msg)
    (hrs : Sys2.runSub s.block bank m.addr tc msg = .ok (bank', tc')) :
    vmOf (ofVm vm') tc' = vm' ∧ bank' = bank :=
  hook_target_exact hhm hmsg hrs

/-- **an accepted system deposit IS an accepted `TMF` deposit on the views** (ALL states).  `TMF`'s simplified source interface
has no approvals: its `send caller …` is by the OWNER and the hook's default recipient is that caller.  An accepted system
deposit of token `id` of collection `coll` by `sender` — owner, approved spender or operator — with recipient `r` is the `TMF` op
`send <the token's current owner> coll id minter (some (r.unwrap_or(sender))) msgOk := true picked`: `TMF.step` ACCEPTS it on
`tmfOf s`, and its result — owner tables after `srcTransfer` + `srcBurn`, ledger / positions / mint log / counters after
`receiveNft`, the target's token table after `Coll.mint` — EQUALS `tmfOf s'`, the views of the collections that the `CF` steps
(`SendNft`, `Mint`, `Burn`) computed.  Every step theorem of `LP.TMF` about an accepted `send` (`C17_fulltm_*`, `C01_fulltm_*`,
`C02_fulltm_*`) therefore applies to the system deposit verbatim; no `TmQuiet` / `srcNew` hypothesis is involved at step level. -/
theorem C17_systm_deposit_refines_tmf_send {s s' : SysTM.State} {m : SysTM.Minter} {tc : CF.Coll} {coll sender : Addr}
    {id picked : Nat} {recipient : Option Addr} {msgOk recvOk : Bool} (hmc : s.mc = some (m, tc))
    (h : SysTM.step s (.sendNft coll sender id m.addr recipient msgOk recvOk picked) = .ok s') :
    ∃ c t, lookup s.srcs coll = some c ∧ c.core.find? id = some t ∧
      TMF.step (tmfOf s) (.send t.owner coll id m.addr (some (recipient.getD sender)) true picked) = .ok (tmfOf s') :=
  deposit_sim hmc h

/-- the `TMF` op an accepted system op stands for on the views (`none`: no counterpart is claimed — messages from outside to a
collection, whose `TMF` counterparts `srcGive / srcTransfer / collTransfer …` know no approvals, and direct hook calls) -/
def SysTM.tmfOp (s : SysTM.State) : SysTM.Op → Option TMF.Op
  | .tm (.receive ..) => none
  | .tm o => if foreignOp o then none else some o
  | .create sender funds msg w _ => some (.create sender funds { msg with collOk := true } w)
  | .block _ t => some (.setTime t)
  | .srcCreate _ _ _ _ _ self => some (.srcNew self)
  | .sendNft coll sender id contract recipient _ _ picked =>
    if isMinterAddr s contract then
      ((lookup s.srcs coll).bind (ownerIn · id)).map fun o => .send o coll id contract (some (recipient.getD sender)) true picked
    else none
  | .collExec .. => none

/-- **a system step projects to a `TMF` step on the views** (ALL states).  For every accepted system op that has a `TMF`
counterpart (`SysTM.tmfOp`: every minter / factory message, `CreateMinter` — with `collOk := true` —, the clock, the
instantiation of one more source collection ↦ `srcNew`, a deposit by owner / spender / operator ↦ `send` by the token's owner
with the explicit recipient): `TMF.step` ACCEPTS the counterpart on `tmfOf s` and its result EQUALS `tmfOf s'`.  What `TMF`
assumed about the collections — `collOk`, `Coll.mint` on the target's table, `TT.Coll.updateTrading` on its record, `srcTransfer`
/ `srcBurn` on the source owner tables, "the new address is a contract without tokens" — is what the collection contracts
computed themselves. -/
theorem C17_systm_refines_tmf_step {s s' : SysTM.State} {op : SysTM.Op} {o : TMF.Op} (h : SysTM.step s op = .ok s')
    (ho : SysTM.tmfOp s op = some o) : TMF.step (tmfOf s) o = .ok (tmfOf s') := by
  cases op with
  | tm t =>
    cases t
    case receive => simp [SysTM.tmfOp] at ho
    all_goals
      simp only [SysTM.tmfOp] at ho
      split at ho
      · cases ho
      · rename_i hf
        cases ho
        simp only [SysTM.step] at h
        first
          | (split at h
             · cases h
             · exact tmStep_exact (by simpa using hf) h)
          | cases h
  | create sender funds msg w ci =>
    simp only [SysTM.tmfOp, Option.some.injEq] at ho
    subst ho
    exact create_exact h
  | block hh t =>
    simp only [SysTM.tmfOp, Option.some.injEq] at ho
    subst ho
    simp only [SysTM.step] at h
    split at h
    · cases h
    · rename_i hlt
      cases h
      simp only [TMF.step, tmfOf, hlt, if_false]
  | srcCreate k sender name symbol m self =>
    simp only [SysTM.tmfOp, Option.some.injEq] at ho
    subst ho
    exact srcCreate_exact h
  | sendNft coll sender id contract recipient msgOk recvOk picked =>
    simp only [SysTM.tmfOp] at ho
    split at ho
    · rename_i hm
      cases hmc : s.mc with
      | none => simp [isMinterAddr, hmc] at hm
      | some p =>
        obtain ⟨m, tc⟩ := p
        have hc : contract = m.addr := by simpa [isMinterAddr, hmc] using hm
        subst hc
        obtain ⟨c, t, hcl, hf, hstep⟩ := deposit_sim hmc h
        simp only [hcl, Option.bind_some, ownerIn, hf, Option.map_some, Option.some.injEq] at ho
        subst ho
        exact hstep
    · cases ho
  | collExec coll sender funds m => simp [SysTM.tmfOp] at ho

/-! ## Non-vacuity: a kernel-evaluated system history -/

namespace SysTM

def verdicts : SysTM.State → List SysTM.Op → List Bool
  | _, [] => []
  | s, op :: ops => SysTM.accepted s op :: verdicts (SysTM.step' s op) ops

/-- decidable form of `NoImp` -/
def noImpB (s : SysTM.State) : SysTM.Op → Bool
  | .collExec coll sender _ _ =>
    match s.mc with
    | some (m, _) => !(decide (coll = m.sg721) && decide (sender = m.addr))
    | none => true
  | .sendNft coll sender _ _ _ _ _ _ =>
    match s.mc with
    | some (m, _) => !(decide (coll = m.sg721) && decide (sender = m.addr))
    | none => true
  | _ => true

def noImpRunB : SysTM.State → List SysTM.Op → Bool
  | _, [] => true
  | s, op :: ops => noImpB s op && noImpRunB (SysTM.step' s op) ops

theorem noImp_of_b {s : SysTM.State} {op : SysTM.Op} (h : noImpB s op = true) : NoImp s op := by
  cases op <;> simp only [NoImp] <;> try trivial
  all_goals
    intro m tc hmc hc hs
    simp [noImpB, hmc, hc, hs] at h

theorem noImpRun_of_b : ∀ {s : SysTM.State} {ops : List SysTM.Op}, noImpRunB s ops = true → NoImpRun s ops
  | _, [], _ => trivial
  | s, op :: ops, h => by
    simp only [noImpRunB, Bool.and_eq_true] at h
    exact ⟨noImp_of_b h.1, noImpRun_of_b h.2⟩

end SysTM

def tmT0 : Nat := 1647032400000000000

def tmParams : TMF.Params :=
  { codeId := 10, allowed := [16, 17, 18, 19], frozen := false, creationFee := ⟨0, 1000⟩, maxTradingOffsetSecs := 3600,
    maxTokenLimit := 100, maxPerAddressLimit := 5, airdropMintPrice := ⟨0, 0⟩, airdropMintFeeBps := 10000, shuffleFee := ⟨0, 10⟩ }

/-- a fresh chain (block 100) with a token-merge factory at 1000; code id 10 = `token-merge-minter`, 16…19 = the sg721 codes -/
def tmInit : SysTM.State := SysTM.init 100 tmT0 ⟨[10], [16, 17, 18, 19]⟩ 1000 tmParams

def tmSrcInit : Sg721.InstMsg := ⟨91, ⟨91, ⟨0, 19⟩, ⟨0, true⟩, none, some false, none, none⟩⟩

/-- two source collections (sg721-base 2001, sg721-updatable 2002) whose minter 91 hands tokens to 20; 20 approves 22 for 2001#2
and makes 23 an operator on 2002; `CreateMinter` (requirement 2001 ×1 + 2002 ×1, two tokens, sg721-base target 1002); a deposit AT
the start time is refused; one ns later: a stranger's deposit is refused; the approved spender 22 deposits 2001#2 (credit to 22);
20 transfers 2001#1 to 21 who deposits it for 20; the operator 23 deposits 2002#1 for 22: the requirement of 22 is complete — the
target mints the token at position 2 (id 1) to 22; 20 deposits 2002#2 itself: complete — the target mints id 2 to 20 (sold out);
a surplus deposit, a direct `Mint` by a stranger into the target and a direct hook call by a user are refused -/
def tmOps : List SysTM.Op :=
  [.tm (.fund 10 ⟨0, 5000⟩),
   .srcCreate .base 1000 0 0 tmSrcInit 2001,
   .srcCreate .updatable 1000 0 0 tmSrcInit 2002,
   .collExec 2001 91 [] (.mint 1 20 none 0), .collExec 2001 91 [] (.mint 2 20 none 0), .collExec 2001 91 [] (.mint 3 20 none 0),
   .collExec 2002 91 [] (.mint 1 20 none 0), .collExec 2002 91 [] (.mint 2 20 none 0),
   .collExec 2001 20 [] (.approve 22 2 none),
   .collExec 2002 20 [] (.approveAll 23 none),
   .create 10 [⟨0, 1000⟩]
     { collCode := 16, creator := 10, trading := none, uriOk := true, startTime := tmT0 + 100, numTokens := 2,
       mintTokens := [(2001, 1), (2002, 1)], perAddressLimit := 1, collOk := false }
     { minterAddr := 1001, collAddr := 1002, perm := [2, 1] }
     { name := 0, symbol := 0, description := ⟨0, 12⟩, image := ⟨0, true⟩, externalLink := none, explicitContent := none,
       royalty := none },
   .block 101 (tmT0 + 100),
   .sendNft 2001 20 1 1001 none true false 1,
   .block 102 (tmT0 + 101),
   .sendNft 2001 30 1 1001 none true false 1,
   .sendNft 2001 22 2 1001 none true false 1,
   .collExec 2001 20 [] (.transferNft 21 1),
   .sendNft 2001 21 1 1001 (some 20) true false 1,
   .sendNft 2002 23 1 1001 (some 22) true false 2,
   .sendNft 2002 20 2 1001 none true false 1,
   .sendNft 2001 20 3 1001 none true false 1,
   .collExec 1002 30 [] (.mint 7 30 none 0),
   .tm (.receive 20 20 3 none true 1)]

example : SysTM.verdicts tmInit tmOps =
    [true, true, true, true, true, true, true, true, true, true, true, true, false, true, false, true, true, true, true, true,
     false, false, false] := by decide

/-- the history is free of impersonation: the hypothesis of the history theorems is satisfiable -/
example : NoImpRun tmInit tmOps := SysTM.noImpRun_of_b (by decide)

/-- afterwards: the target collection holds id 1 (owner 22) and id 2 (owner 20), `NumTokens = 2`, its cw_ownable owner is the
minter contract 1001; the minter logged ids 2 and 1, nothing is mintable; 2001 kept only token 3 (owner 20), 2002 is empty -/
example : (SysTM.run tmInit tmOps).mc.map (fun mc =>
      (mc.2.core.tokens.map (fun t => (t.id, t.owner, t.uri)), mc.2.core.count, mc.1.supply.minted, mc.1.supply.mintable)) =
    some ([(1, 22, some 1000001), (2, 20, some 1000002)], 2, [2, 1], 0) := by decide

example : (SysTM.run tmInit tmOps).mc.map (fun mc => (mc.2.core.ownership.owner, mc.2.core.ownership.pending, mc.1.addr)) =
    some (some 1001, none, 1001) := by decide

example : ((SysTM.lookup (SysTM.run tmInit tmOps).srcs 2001).map (fun c => (c.core.tokens.map (fun t => (t.id, t.owner)), c.core.count)),
      (SysTM.lookup (SysTM.run tmInit tmOps).srcs 2002).map (fun c => (c.core.tokens.map (fun t => (t.id, t.owner)), c.core.count))) =
    (some ([(3, 20)], 1), some ([], 0)) := by decide

/-- the ledger after the third accepted deposit (22 holds one 2001 credit, 20 holds one 2001 credit): `mint_iff_complete`'s
`completes` is false for both before, true for 22 with a 2002 token -/
example : (SysTM.run tmInit (tmOps.take 18)).mc.map (fun mc =>
      (mc.1.ledger 22 2001, mc.1.ledger 20 2001, completes (vmOf mc.1 mc.2) 2002 22, completes (vmOf mc.1 mc.2) 2001 22)) =
    some (1, 1, true, false) := by decide

end LP
