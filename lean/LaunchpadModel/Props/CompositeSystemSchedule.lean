import LaunchpadModel.Props.CompositeSystem
import LaunchpadModel.Props.CompositeSystemOE

/-!
# C12 in the SYSTEM composites (`LP.Sys`, `LP.SysOE`)

The schedule invariant of the single-stage whitelists (`WF.Inv12`: `genesis ≤ start ≤ end`, Props/CompositeWhitelist.lean) is
preserved by every `WF` step and does not read the bank, so it holds of EVERY single-stage whitelist contract stored anywhere in the
system after EVERY system history (minter traffic, other whitelists' traffic, governance and the clock in between).
-/

namespace LP
open WF

theorem WF.inv12_bank {c : WF.State} (b : MintPay.Bank) (h : Inv12 c) : Inv12 { c with bank := b } := h

/-- the schedule invariant along every vending-system history, for the whitelist contract at ANY address -/
theorem C12_sys_invariant (s : Sys.State) (ops : List Sys.Op) (k : Addr) (h0 : Inv12 (Sys.wfOf s k)) :
    Inv12 (Sys.wfOf (Sys.run s ops) k) :=
  C04_sys_whitelist_invariant Inv12 (fun _ op h => inv12_step h op) (fun _ b h => WF.inv12_bank b h) s k h0 ops

/-- "The start is never before the genesis mint time and never after the end" — every single-stage whitelist (plain, flex, Merkle)
of every system history from a fresh chain -/
theorem C12_sys_wellformed (now : Nat) (codes : VF.Codes) (fa : Addr) (p : VF.Params) (ops : List Sys.Op) (k : Addr) (w : Wl)
    (hw : Sys.find (Sys.run (Sys.init now codes fa p) ops).wls k = some w) (hf : Flat w.v) :
    WlSchedule.GENESIS ≤ w.start ∧ w.start ≤ w.end_ :=
  C12_sys_invariant (Sys.init now codes fa p) ops k (fun w hw => by simp [Sys.wfOf, Sys.init, Sys.find] at hw) w hw hf

theorem C12_sysoe_invariant (s : SysOE.State) (ops : List SysOE.Op) (k : Addr) (h0 : Inv12 (SysOE.wfOf s k)) :
    Inv12 (SysOE.wfOf (SysOE.run s ops) k) :=
  C04_sysoe_whitelist_invariant Inv12 (fun _ op h => inv12_step h op) (fun _ b h => WF.inv12_bank b h) s k h0 ops

theorem C12_sysoe_wellformed (now : Nat) (codes : VF.Codes) (fa : Addr) (p : OE.Params) (ops : List SysOE.Op) (k : Addr) (w : Wl)
    (hw : Sys.find (SysOE.run (SysOE.init now codes fa p) ops).wls k = some w) (hf : Flat w.v) :
    WlSchedule.GENESIS ≤ w.start ∧ w.start ≤ w.end_ :=
  C12_sysoe_invariant (SysOE.init now codes fa p) ops k (fun w hw => by simp [SysOE.wfOf, SysOE.init, Sys.find] at hw) w hw hf

end LP
